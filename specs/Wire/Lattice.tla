------------------------------- MODULE Lattice -------------------------------
(* Every network-facing parser of shadowsocks-go as a small straight-line program over the      *)
(* bytes a peer sends, followed by what the relay computes from the parsed request: routing,     *)
(* dialling through the chosen client, the reply (Proceed / Abort(code)) and one relay step.     *)
(* Property C06: no bytes from the network can crash the process.                                *)
(*                                                                                               *)
(* Shape.  A peer message is an abstract record m (field VALUES drawn from a class lattice:      *)
(* valid-typical, valid-boundary, illegal enum, too long) together with `have`, the number of     *)
(* bytes the peer delivers before it stops (classes "truncated here" and "absent": the stream    *)
(* ends / the datagram is cut inside or in front of a field; for the AEAD-protected protocols    *)
(* also m.icut: a peer that holds the key seals only a prefix of the header, so that the lengths *)
(* inside the authenticated part lie).  Wire(ep, m) is what the peer                             *)
(* sends (the encoder side of the grammar, a sequence of fields with byte counts), Prog(ep, m)   *)
(* is what the code does with it: one op per code site,                                          *)
(*                                                                                               *)
(*   chk k     `if len(b) < k { return err }`              (slice parsers: explicit length check) *)
(*   tch k     b[..k) is indexed / sliced                    (must be covered by a chk)           *)
(*   sub k     continue on a sub-slice of k bytes (decrypted AEAD body, SOCKS address slice)      *)
(*   rd n h    io.ReadFull of n bytes into scratch[..h)      (stream parsers; fails at EOF)       *)
(*   rd1 n h   one Read must return n bytes (ss2022 readOnceExpectFull) unless segmentation is    *)
(*             allowed                                                                            *)
(*   hold      the server keeps the connection open reading one byte (UDP ASSOCIATE)              *)
(*   wr n      the code writes n bytes to the peer                                                *)
(*   auth      ss2022: the request is authenticated, salt stored, fallback no longer possible     *)
(*   rej w     return an error of class w        acc  hand a request / payload to the relay       *)
(*   done w    connection handled without a request (UDP ASSOCIATE, DNS lookup finished)          *)
(*                                                                                               *)
(* The branch structure of every program is the branch structure of the code (file and function  *)
(* given at each operator); all numbers are CONSTANTS read from the compiled code by              *)
(* harness/cmd/vconst/lattice.go.  The machine executes one op per step, so that the safety       *)
(* conditions of the design are state invariants:                                                 *)
(*                                                                                               *)
(*   InBounds    every byte a slice parser touches lies below a length it has checked             *)
(*   BufOK       every ReadFull target lies inside the scratch buffer the code allocated          *)
(*   StreamOK    no parser consumes more than the peer sent                                       *)
(*   TruncRejects a message cut short of its mandatory part is never turned into a request        *)
(*   RouterTotal routing is defined (no panic) for every request a parser can produce, in         *)
(*               particular for port 0 against each port-criterion representation                 *)
(*   ClientEncodable every address a parser accepts can be re-encoded by every client             *)
(*               (socks5.LengthOfAddrFromConnAddr panics above 255 bytes)                         *)
(*   DnsComplete a DNS reply is used only when everything parseMsg reads of it was there          *)
(*   SuccessOnlyOnProceed, RejectedStays, PhasesForward (action properties)                       *)
(*                                                                                               *)
(* The model checker enumerates the lattice; MCLattice prints one CASE line per message with the  *)
(* wire fields, `have` and the model's verdict; harness/drivers/c06 turns each into bytes          *)
(* (several concretisations, free bytes seeded), feeds the real entry point over a scripted       *)
(* fragmenting connection / as a datagram in the relay's buffer layout, and continues through     *)
(* the real Router, the real client encoders and the real PendingConn.  The property is           *)
(* evaluated on what the real code does: no panic, no fatal error, no goroutine left stuck, no    *)
(* request out of a truncated message.  Differences between the model's verdict and the code's    *)
(* that the property does not forbid are reported as model drift.  The server-side cases are sent  *)
(* once more over loopback sockets to a real service.Manager (service/tcp.go, udp_nat*.go,         *)
(* udp_session*.go), which must keep serving well-formed requests.                                 *)
EXTENDS Integers, Sequences, FiniteSets, TLC

CONSTANTS
    \* ---- read from the compiled code ----
    Ver, AuthVer, MNoAuth, MUserPass, MNoAccept,    \* socks5/stream.go
    CmdConnect, CmdBind, CmdUdp,
    AtypV4, AtypDom, AtypV6,                        \* socks5/addr.go
    IPv4AddrLen, IPv6AddrLen, MaxAddrLen,
    RepOK, RepCmd,
    TagSize,                                        \* ss2022/crypto.go tagSize (measured)
    TcpReqFixed, UdpSep, UdpCliFixed, UdpSrvFixed,  \* ss2022/header.go
    MaxPadding, IdHdr, MaxEpochDiff,
    TypeCliStream, TypeSrvStream, TypeCliPacket, TypeSrvPacket,
    MaxRangeSet,                                    \* router/route.go: <= MaxRangeSet ranges -> PortRangeSet, else bit set
    MaxLinearDomains, MaxLinearSuffixes,            \* domainset: linear matcher up to this many rules
    DialTable,                                      \* set of <<dial result code, SOCKS5 REP the code maps it to>>
    \* ---- lattice (chosen by lib/props/c06.py through MCLattice) ----
    Msgs,           \* set of [ep, m, cuts]: cuts = "all": the message is also cut at and around every field
                    \* boundary (classes "absent" / "truncated here"); "whole": sent whole only
    RouteCfgs,      \* router configurations the request is pushed through
    Clients,        \* clients a route can name
    Variant         \* "code", or a design mutant used to show that the invariants are not vacuous

ASSUME TagSize > 0 /\ IPv4AddrLen = 1 + 4 + 2 /\ IPv6AddrLen = 1 + 16 + 2 /\ MaxAddrLen = 1 + 1 + 255 + 2
ASSUME MaxRangeSet >= 1 /\ MaxLinearDomains >= 1 /\ MaxLinearSuffixes >= 1 /\ MaxPadding >= 0
\* representation of a port criterion with n separate ranges (router/route.go RouteConfig.Route); the driver builds
\* "r16" with MaxRangeSet ranges and "r17" with MaxRangeSet + 1
PortRep(n) == IF n = 1 THEN "one" ELSE IF n <= MaxRangeSet THEN "r16" ELSE "r17"
\* the parsers do not bound the padding length by MaxPadding (only the packers do): paddings above it are accepted

VARIABLES
    ep,         \* entry point
    m,          \* the peer's message (abstract)
    have,       \* bytes the peer delivers (datagram length / stream length before EOF); -1: text protocol, see m.cut
    prog,       \* Prog(ep, m)
    pc,         \* next op
    slen,       \* length of the slice under the slice parser
    verified,   \* largest k with "slen >= k" established by a chk (0 initially)
    touched,    \* largest k such that b[..k) has been accessed
    rdpos,      \* stream bytes consumed so far
    bufhi,      \* largest scratch index written by a ReadFull
    wrote,      \* bytes written to the peer so far
    fb,         \* ss2022 TCP server: unauthenticated, fallback address configured, something was read
    st,         \* "parse" | "rejected" | "request" | "done" | "routed" | "dialled" | "replied" | "relayed"
    res,        \* [why, req]: error class / parsed request
    rt,         \* routing decision [cfg, out, cl]
    dl,         \* dial result code after Dial
    act
sv == <<ep, m, have, prog, pc, slen, verified, touched, rdpos, bufhi, wrote, fb, st, res, rt, dl>>
vars == <<sv, act>>

Max(a, b) == IF a > b THEN a ELSE b
Min(a, b) == IF a < b THEN a ELSE b

-----------------------------------------------------------------------------
(* ops *)
Op(o, k, h, w) == <<[o |-> o, k |-> k, h |-> h, w |-> w]>>
Chk(k)    == Op("chk", k, 0, "short")
Tch(k)    == Op("tch", k, 0, "")
Sub(k)    == Op("sub", k, 0, "")
Rd(n, h)  == Op("rd", n, h, "eof")
Rd1(n, h) == Op("rd1", n, h, "eof")
Hold      == Op("hold", 0, 0, "")
Wr(n)     == Op("wr", n, 0, "")
Auth      == Op("auth", 0, 0, "")
Rej(w)    == Op("rej", 0, 0, w)
Acc       == Op("acc", 0, 0, "")
Done(w)   == Op("done", 0, 0, w)
If(c, p)  == IF c THEN p ELSE <<>>
Terminal(o) == o \in {"rej", "acc", "done"}

-----------------------------------------------------------------------------
(* SOCKS address: a = [atyp, dlen, dk, port].  socks5/addr.go *)
IsV4(a)  == a.atyp = AtypV4
IsV6(a)  == a.atyp = AtypV6
IsDom(a) == a.atyp = AtypDom
KnownAtyp(a) == IsV4(a) \/ IsV6(a) \/ IsDom(a)
BadAtypJunk == 8       \* bytes the peer sends after an unknown ATYP
AddrLen(a) == CASE IsV4(a) -> IPv4AddrLen [] IsV6(a) -> IPv6AddrLen [] IsDom(a) -> 1 + 1 + a.dlen + 2
                [] OTHER -> 1 + BadAtypJunk

\* ConnAddrFromSlice / DomainCache.ConnAddrFromSlice on b[o:] (o = offset in the current slice).
\* conn.AddrFromDomainPort refuses the empty name.
CAFS(o, a) ==
    Tch(o) \o                        \* b[o:]: slicing from o needs o <= len(b)
    Chk(o + 2) \o Tch(o + 2) \o
    CASE IsDom(a) -> (IF Variant = "no-domain-length-check" THEN <<>> ELSE Chk(o + 1 + 1 + a.dlen + 2)) \o
                     Tch(o + 1 + 1 + a.dlen + 2) \o If(a.dlen = 0, Rej("domlen"))
      [] IsV4(a)  -> Chk(o + IPv4AddrLen) \o Tch(o + IPv4AddrLen)
      [] IsV6(a)  -> Chk(o + IPv6AddrLen) \o Tch(o + IPv6AddrLen)
      [] OTHER    -> Rej("atyp")

\* AddrPortFromSlice on b[o:]: the minimum is checked before ATYP is looked at; domain names are refused
APFS(o, a) ==
    Tch(o) \o Chk(o + IPv4AddrLen) \o Tch(o + 1) \o
    CASE IsV4(a)  -> Tch(o + IPv4AddrLen)
      [] IsV6(a)  -> Chk(o + IPv6AddrLen) \o Tch(o + IPv6AddrLen)
      [] IsDom(a) -> Rej("domain")
      [] OTHER    -> Rej("atyp")

\* AppendFromReader(b[o:o], r): ATYP and one more byte, then the rest.  pre = TRUE: the first two bytes come
\* from the prefixedReader (they were part of the preceding 5-byte read)
AFR(o, a, pre) ==
    If(~pre, Rd(2, o + 2)) \o
    CASE IsDom(a) -> Rd(a.dlen + 2, o + 2 + a.dlen + 2)
      [] IsV4(a)  -> Rd(IPv4AddrLen - 2, o + IPv4AddrLen)
      [] IsV6(a)  -> Rd(IPv6AddrLen - 2, o + IPv6AddrLen)
      [] OTHER    -> Rej("atyp")

\* ConnAddrFromReader (ssnone): fresh buffers of exactly the needed size
CAFR(a) ==
    Rd(2, 2) \o
    CASE IsDom(a) -> Rd(a.dlen + 2, a.dlen + 2) \o If(a.dlen = 0, Rej("domlen"))
      [] IsV4(a)  -> Rd(IPv4AddrLen - 2, IPv4AddrLen - 1)
      [] IsV6(a)  -> Rd(IPv6AddrLen - 2, IPv6AddrLen - 1)
      [] OTHER    -> Rej("atyp")

\* what the peer sends for an address
F(f, n, v) == <<[f |-> f, n |-> n, v |-> v]>>
Free == -1
AddrWire(a) ==
    F("atyp", 1, a.atyp) \o
    (CASE IsDom(a) -> F("dlen", 1, a.dlen) \o F("dom:" \o a.dk, a.dlen, Free)
       [] IsV4(a)  -> F("ip4:" \o a.dk, 4, Free)
       [] IsV6(a)  -> F("ip6:" \o a.dk, 16, Free)
       [] OTHER    -> F("junk", BadAtypJunk - 2, Free))
    \o F("port", 2, a.port)
\* the first k bytes of a field list (k < 0: all of it): what a peer that holds the key seals when it lies about
\* the lengths inside the sealed part ("truncated here" / "absent" inside an authenticated body)
RECURSIVE Trunc(_, _)
Trunc(w, k) == IF k < 0 THEN w
               ELSE IF w = <<>> \/ k = 0 THEN <<>>
               ELSE IF w[1].n <= k THEN <<w[1]>> \o Trunc(Tail(w), k - w[1].n)
               ELSE <<[w[1] EXCEPT !.n = k]>>
RECURSIVE FLen(_)
FLen(w) == IF w = <<>> THEN 0 ELSE w[1].n + FLen(Tail(w))
Req(a) == [tk |-> IF IsDom(a) THEN "dom" ELSE IF IsV4(a) THEN "ip4" ELSE "ip6", dlen |-> a.dlen, dk |-> a.dk,
           port |-> a.port, fallback |-> FALSE]
NoReq == [tk |-> "", dlen |-> 0, dk |-> "", port |-> 0, fallback |-> FALSE]

-----------------------------------------------------------------------------
(* SOCKS5 stream server.  socks5/stream.go ServerAccept / ServerAcceptUsernamePassword.           *)
(* mm = [auth, tcp, udp (configuration), ver, nm, mpos, aver, ulen, user, plen, pass, rver, cmd,   *)
(*      rsv, a, tail]                                                                            *)
S5Buf == 3 + MaxAddrLen            \* make([]byte, 3+MaxAddrLen)
S5MethodSel(mm) ==       \* serverHandleMethodSelection
    Rd(3, 3) \o If(mm.ver # Ver, Rej("ver")) \o If(mm.nm = 0, Rej("nmethods")) \o
    If(mm.nm > 1, Rd(mm.nm - 1, 3 + mm.nm - 1)) \o
    If(mm.mpos = "none", Wr(2) \o Rej("nomethod")) \o Wr(2)
S5UserPass(mm) ==        \* serverHandleUsernamePassword: PASSWD overwrites UNAME in b[2:]
    Rd(4, 4) \o If(mm.aver # AuthVer, Rej("authver")) \o If(mm.ulen = 0, Rej("ulen")) \o
    If(mm.ulen > 1, Rd(mm.ulen - 1, 4 + mm.ulen - 1)) \o If(mm.plen = 0, Rej("plen")) \o
    Rd(mm.plen, 2 + mm.plen) \o Wr(2) \o If(mm.user # "ok" \/ mm.pass # "ok", Rej("auth"))
S5Request(mm) ==         \* serverHandleRequest
    Rd(5, 5) \o If(mm.rver # Ver, Rej("ver")) \o AFR(3, mm.a, TRUE) \o Sub(AddrLen(mm.a)) \o CAFS(0, mm.a) \o
    CASE mm.cmd = CmdConnect /\ mm.tcp -> Acc
      [] mm.cmd = CmdUdp /\ mm.udp     -> Wr(3 + IPv4AddrLen) \o Hold \o Done("udpassoc")
      [] OTHER                       -> Wr(3 + IPv4AddrLen) \o Rej("cmd")
S5Srv(mm) == S5MethodSel(mm) \o If(mm.auth, S5UserPass(mm)) \o S5Request(mm)
S5SrvWire(mm) ==
    F("ver", 1, mm.ver) \o F("nmethods", 1, mm.nm) \o F("methods:" \o mm.mpos, IF mm.nm = 0 THEN 1 ELSE mm.nm, Free) \o
    If(mm.auth, F("aver", 1, mm.aver) \o F("ulen", 1, mm.ulen) \o
               (IF mm.ulen = 0 THEN F("junk", 2, Free)
                ELSE F("uname:" \o mm.user, mm.ulen, Free) \o F("plen", 1, mm.plen) \o F("passwd:" \o mm.pass, mm.plen, Free))) \o
    F("rver", 1, mm.rver) \o F("cmd", 1, mm.cmd) \o F("rsv", 1, mm.rsv) \o AddrWire(mm.a) \o F("tail", mm.tail, Free)

(* SOCKS5 stream client.  socks5/stream.go ClientRequest / ClientRequestUsernamePassword.         *)
(* mm = [auth, sver, meth, aver, status, rver, rep, rsv, a, tail] is what the server answers       *)
S5Cli(mm) ==
    Wr(3) \o Rd(2, 2) \o If(mm.sver # Ver, Rej("ver")) \o
    If(mm.meth # (IF mm.auth THEN MUserPass ELSE MNoAuth), Rej("method")) \o
    If(mm.auth, Wr(3) \o Rd(2, 2) \o If(mm.aver # AuthVer, Rej("authver")) \o If(mm.status # 0, Rej("auth"))) \o
    Wr(3 + IPv4AddrLen) \o Rd(5, 5) \o If(mm.rver # Ver, Rej("ver")) \o AFR(3, mm.a, TRUE) \o
    Sub(AddrLen(mm.a)) \o CAFS(0, mm.a) \o If(mm.rep # RepOK, Rej("rep")) \o Acc
S5CliWire(mm) ==
    F("sver", 1, mm.sver) \o F("method", 1, mm.meth) \o
    If(mm.auth, F("aver", 1, mm.aver) \o F("status", 1, mm.status)) \o
    F("rver", 1, mm.rver) \o F("rep", 1, mm.rep) \o F("rsv", 1, mm.rsv) \o AddrWire(mm.a) \o F("tail", mm.tail, Free)

(* Shadowsocks "none" stream server.  ssnone/stream.go HandleStream.  mm = [a, tail] *)
NoneSrv(mm) == CAFR(mm.a) \o Acc
NoneSrvWire(mm) == AddrWire(mm.a) \o F("tail", mm.tail, Free)

-----------------------------------------------------------------------------
(* Datagram codecs.  direct/packet.go.  mm = [a, pl, frag, src] *)
S5UdpSrv(mm)   == Chk(3) \o Tch(3) \o If(mm.frag # 0, Rej("frag")) \o CAFS(3, mm.a) \o Acc      \* Socks5PacketServerUnpacker
S5UdpCli(mm)   == If(mm.src # "server", Rej("source")) \o Chk(3) \o Tch(3) \o If(mm.frag # 0, Rej("frag")) \o
                 APFS(3, mm.a) \o Acc                                                            \* Socks5PacketClientUnpacker
NoneUdpSrv(mm) == CAFS(0, mm.a) \o Acc                                                            \* ShadowsocksNonePacketServerUnpacker
NoneUdpCli(mm) == If(mm.src # "server", Rej("source")) \o APFS(0, mm.a) \o Acc                     \* ShadowsocksNonePacketClientUnpacker
DirectUdp(mm)  == Acc                                                                            \* DirectPacketServerPackUnpacker
S5UdpWire(mm)   == F("rsv", 2, mm.rsv) \o F("frag", 1, mm.frag) \o AddrWire(mm.a) \o F("payload", mm.pl, Free)
NoneUdpWire(mm) == AddrWire(mm.a) \o F("payload", mm.pl, Free)
DirectUdpWire(mm) == F("payload", mm.pl, Free)

-----------------------------------------------------------------------------
(* Shadowsocks 2022.  ss2022/tcp.go, stream.go, header.go, packet.go, udp.go.                     *)
TsOK(off) == off >= -MaxEpochDiff /\ off <= MaxEpochDiff        \* ValidateUnixEpochTimestamp
EihLen(mm) == IF mm.eih THEN IdHdr ELSE 0

\* TCP server: StreamServer.HandleStream.
\* mm = [saltlen, ursp, urspok, eih, user, seg, allowseg, fallback (configuration and transport),
\*      salt, auth, type, ts, vk, vauth, a, padlen, pl, tail]
\* vk: relation between the length field of the fixed header and the sealed variable header that follows:
\*     "exact", "zero" (length 0, empty sealed chunk), "less" (field one smaller), "more" (field one larger)
\* icut >= 0: the peer seals only the first icut bytes of the variable-length header
SsVarWire(mm) == IF mm.vk = "zero" THEN <<>>
                 ELSE Trunc(AddrWire(mm.a) \o F("padlen", 2, mm.padlen) \o F("padding", mm.padlen, Free) \o F("payload", mm.pl, Free), mm.icut)
SsVarLen(mm) == FLen(SsVarWire(mm))                                            \* plaintext bytes the peer seals
SsVhlen(mm) == CASE mm.vk = "less" -> SsVarLen(mm) - 1 [] mm.vk = "more" -> SsVarLen(mm) + 1 [] OTHER -> SsVarLen(mm)
SsTcpHead(mm) == mm.ursp + mm.saltlen + EihLen(mm) + TcpReqFixed + TagSize
SsTcpSrv(mm) ==
    Rd1(SsTcpHead(mm), SsTcpHead(mm)) \o
    If(mm.salt = "repeat", Rej("repeat")) \o If(~mm.urspok, Rej("ursp")) \o
    If(mm.eih /\ mm.user # "ok", Rej("nouser")) \o If(mm.auth # "ok", Rej("aead")) \o
    If(mm.type # TypeCliStream, Rej("type")) \o If(~TsOK(mm.ts), Rej("ts")) \o Auth \o
    Rd(SsVhlen(mm) + TagSize, SsVhlen(mm) + TagSize) \o
    If(mm.vauth # "ok" \/ mm.vk \in {"less", "more"}, Rej("aead")) \o
    Sub(SsVhlen(mm)) \o
    \* ParseTCPRequestVariableLengthHeader: address, then "len(b) <= 2" and the padding bound
    CAFS(0, mm.a) \o Chk(AddrLen(mm.a) + 3) \o Tch(AddrLen(mm.a) + 2) \o Chk(AddrLen(mm.a) + 2 + mm.padlen) \o Acc
SsTcpSrvWire(mm) ==
    F("ursp:" \o (IF mm.urspok THEN "ok" ELSE "bad"), mm.ursp, Free) \o F("salt:" \o mm.salt, mm.saltlen, Free) \o
    If(mm.eih, F("eih:" \o mm.user, IdHdr, Free)) \o
    F("type", 1, mm.type) \o F("ts", 8, mm.ts) \o F("vhlen", 2, SsVhlen(mm)) \o F("tag:" \o mm.auth, TagSize, Free) \o
    SsVarWire(mm) \o F("tag:" \o mm.vauth, TagSize, Free) \o F("tail", mm.tail, Free)

\* TCP client: ShadowStreamClientConn.initRead + readFirstPayloadChunk (the first Read of the response).
\* mm = [saltlen, ursp, urspok, seg, allowseg, auth, type, ts, rsalt, plen, pauth, tail]
SsCliHead(mm) == mm.ursp + mm.saltlen + TcpReqFixed + mm.saltlen + TagSize
SsTcpCli(mm) ==
    Rd1(SsCliHead(mm), SsCliHead(mm)) \o If(~mm.urspok, Rej("ursp")) \o If(mm.auth # "ok", Rej("aead")) \o
    If(mm.type # TypeSrvStream, Rej("type")) \o If(~TsOK(mm.ts), Rej("ts")) \o If(mm.rsalt # "ok", Rej("reqsalt")) \o
    If(mm.plen = 0, Rej("zerolen")) \o Rd(mm.plen + TagSize, mm.plen + TagSize) \o If(mm.pauth # "ok", Rej("aead")) \o Acc
SsTcpCliWire(mm) ==
    F("ursp:" \o (IF mm.urspok THEN "ok" ELSE "bad"), mm.ursp, Free) \o F("salt:fresh", mm.saltlen, Free) \o
    F("type", 1, mm.type) \o F("ts", 8, mm.ts) \o F("reqsalt:" \o mm.rsalt, mm.saltlen, Free) \o F("plen", 2, mm.plen) \o
    F("tag:" \o mm.auth, TagSize, Free) \o F("payload", mm.plen, Free) \o F("tag:" \o mm.pauth, TagSize, Free) \o
    F("tail", mm.tail, Free)

\* one chunk of an established stream: ShadowStreamConn.read.  mm = [clen, lauth, cauth, tail]
SsChunk(mm) ==
    Rd(2 + TagSize, 2 + TagSize) \o If(mm.lauth # "ok", Rej("aead")) \o If(mm.clen = 0, Rej("zerolen")) \o
    Rd(mm.clen + TagSize, mm.clen + TagSize) \o If(mm.cauth # "ok", Rej("aead")) \o Acc
SsChunkWire(mm) ==
    F("clen", 2, mm.clen) \o F("tag:" \o mm.lauth, TagSize, Free) \o F("payload", mm.clen, Free) \o
    F("tag:" \o mm.cauth, TagSize, Free) \o F("tail", mm.tail, Free)

\* UDP server: UDPServer.SessionInfo, NewUnpacker, ShadowPacketServerUnpacker.UnpackInPlace,
\* ParseUDPClientMessageHeader.  mm = [eih, user, pid, auth, type, ts, padlen, a, pl]
SsUdpBody(mm) == UdpSep + EihLen(mm)
\* the AEAD body is the rest of the datagram: it opens only when the datagram is exactly what the peer sealed
\* icut >= 0: the peer seals only the first icut bytes of the message
SsUdpSrvInner(mm) == Trunc(F("type", 1, mm.type) \o F("ts", 8, mm.ts) \o F("padlen", 2, mm.padlen) \o F("padding", mm.padlen, Free) \o
                           AddrWire(mm.a) \o F("payload", mm.pl, Free), mm.icut)
SsUdpCliInner(mm) == Trunc(F("type", 1, mm.type) \o F("ts", 8, mm.ts) \o F("csid:" \o mm.csid, 8, Free) \o F("padlen", 2, mm.padlen) \o
                           F("padding", mm.padlen, Free) \o AddrWire(mm.a) \o F("payload", mm.pl, Free), mm.icut)
SsUdpSrvTotal(mm) == SsUdpBody(mm) + FLen(SsUdpSrvInner(mm)) + TagSize
SsUdpCliTotal(mm) == UdpSep + FLen(SsUdpCliInner(mm)) + TagSize
SsUdpSrv(mm, hv) ==
    Chk(UdpSep) \o Tch(UdpSep) \o                               \* SessionInfo: block-decrypt the separate header
    Chk(SsUdpBody(mm)) \o Tch(SsUdpBody(mm)) \o                   \* NewUnpacker: identity header
    If(mm.eih /\ mm.user # "ok", Rej("nouser")) \o
    Chk(SsUdpBody(mm) + TagSize) \o                              \* UnpackInPlace
    If(mm.pid = "replay", Rej("replay")) \o If(mm.auth # "ok" \/ hv # SsUdpSrvTotal(mm), Rej("aead")) \o
    Sub(hv - SsUdpBody(mm) - TagSize) \o                         \* plaintext of the AEAD body
    Chk(UdpCliFixed) \o Tch(1) \o If(mm.type # TypeCliPacket, Rej("type")) \o Tch(9) \o If(~TsOK(mm.ts), Rej("ts")) \o
    Tch(UdpCliFixed) \o
    (IF Variant = "no-padding-check" THEN <<>> ELSE Chk(UdpCliFixed + mm.padlen)) \o
    CAFS(UdpCliFixed + mm.padlen, mm.a) \o Acc
SsUdpSrvWire(mm) ==
    F("sid", 8, Free) \o F("pid:" \o mm.pid, 8, Free) \o If(mm.eih, F("eih:" \o mm.user, IdHdr, Free)) \o
    SsUdpSrvInner(mm) \o F("tag:" \o mm.auth, TagSize, Free)

\* UDP client: ShadowPacketClientUnpacker.UnpackInPlace, ParseUDPServerMessageHeader.
\* mm = [sess, pid, auth, type, ts, csid, padlen, a, pl]
SsUdpCli(mm, hv) ==
    Chk(UdpSep + TagSize) \o Tch(UdpSep) \o
    If(mm.sess = "third", Rej("sessions")) \o If(mm.pid = "replay", Rej("replay")) \o
    If(mm.auth # "ok" \/ hv # SsUdpCliTotal(mm), Rej("aead")) \o Sub(hv - UdpSep - TagSize) \o
    Chk(UdpSrvFixed) \o Tch(1) \o If(mm.type # TypeSrvPacket, Rej("type")) \o Tch(9) \o If(~TsOK(mm.ts), Rej("ts")) \o
    Tch(17) \o If(mm.csid # "ok", Rej("csid")) \o Tch(UdpSrvFixed) \o Chk(UdpSrvFixed + mm.padlen) \o
    APFS(UdpSrvFixed + mm.padlen, mm.a) \o Acc
SsUdpCliWire(mm) ==
    F("sid:" \o mm.sess, 8, Free) \o F("pid:" \o mm.pid, 8, Free) \o SsUdpCliInner(mm) \o F("tag:" \o mm.auth, TagSize, Free)

-----------------------------------------------------------------------------
(* HTTP proxy.  httpproxy/server.go ServerHandle, httpproxy/client.go ClientConnect.  net/http    *)
(* does the text parsing; it is modelled by what makes http.ReadRequest / ReadResponse fail.      *)
(* The wire is text: lengths are not computed here (have = -1), truncation is the class mm.cut.    *)
\* server: mm = [auth (configuration), method, host, port, ver, hosthdr, cred, conn, body, hdr, cut]
HttpHeadComplete(mm) == mm.cut \in {"full", "body"}
HttpLibOK(mm) ==
    /\ mm.method \in {"CONNECT", "GET", "POST", "LOWER"}    \* "connect" is a token, hence a method other than CONNECT
    /\ mm.ver \in {"1.1", "1.0", "2.0", "0.9"}             \* any HTTP/<digit>.<digit>
    /\ mm.hdr \in {"ok", "huge", "fold", "space"}        \* obs-fold and odd field names pass net/textproto
    /\ mm.body # "clbad"
    /\ mm.hosthdr # "dup"                                \* "too many Host headers"
\* what conn.ParseAddr / hostHeaderToAddr make of the target
HttpTargetOK(mm) ==
    /\ mm.host \in {"ip4", "ip6", "dom1", "dom255"}
    /\ IF mm.method = "CONNECT" THEN mm.port \in {"0", "1", "443", "65535"}
       ELSE mm.port \in {"0", "1", "443", "65535", "none"}
HttpSrv(mm) ==
    If(~HttpHeadComplete(mm), Rej("eof")) \o If(~HttpLibOK(mm), Rej("badreq")) \o
    If(mm.auth /\ mm.cred # "ok", Wr(1) \o Rej("auth")) \o
    If(~HttpTargetOK(mm), Wr(1) \o Rej("target")) \o Acc
HttpReq(mm) == [tk |-> (CASE mm.host = "ip4" -> "ip4" [] mm.host = "ip6" -> "ip6" [] OTHER -> "dom"),
               dlen |-> (CASE mm.host = "dom1" -> 1 [] mm.host = "dom255" -> 255 [] OTHER -> 0), dk |-> "ldh",
               port |-> (CASE mm.port = "0" -> 0 [] mm.port = "1" -> 1 [] mm.port = "65535" -> 65535
                           [] mm.port = "none" -> 80 [] OTHER -> 443),
               fallback |-> FALSE]
\* client: mm = [ver, code, hdr, first, cut] is the proxy's answer to CONNECT
HttpCli(mm) ==
    Wr(1) \o If(mm.cut # "full", Rej("eof")) \o If(mm.ver \notin {"1.1", "1.0", "2.0"} \/ mm.hdr \notin {"ok", "cl", "chunked", "huge"}, Rej("badresp")) \o
    If(mm.code \notin {"200", "204", "299"}, Rej("status")) \o Acc

-----------------------------------------------------------------------------
(* DNS replies.  dns/dns.go resultBuilder.parseMsg, Resolver.doTCP (2-byte length framing),        *)
(* Resolver.sendQueriesUDP.  golang.org/x/net/dns/dnsmessage does the wire parsing; modelled by   *)
(* how far parseMsg reads: header, all questions, all answers, and the authority section only     *)
(* when no answer set an expiry.  Additionals are never parsed.                                    *)
(* mm = [tcp, id, qr, ra, tc, rcode, qd, an, ns, ar, atype, rdlen, name, lenk]                      *)
DnsHdr == 12
DnsNameLen(k) == CASE k = "ptr" -> 2 [] k = "root" -> 1 [] k = "loop" -> 2 [] k = "fwd" -> 2 [] k = "label64" -> 1 + 64 + 1
                   [] OTHER -> 13      \* "q": 7example3com0
DnsNameOK(k) == k \in {"ptr", "root", "q"}
DnsQLen(mm) == mm.qd * (DnsNameLen("q") + 4)
DnsRRLen(mm) == DnsNameLen(mm.name) + 10 + mm.rdlen
DnsAnEnd(mm) == DnsHdr + DnsQLen(mm) + mm.an * DnsRRLen(mm)
DnsNsEnd(mm) == DnsAnEnd(mm) + mm.ns * DnsRRLen(mm)
DnsTotal(mm) == DnsNsEnd(mm) + mm.ar * DnsRRLen(mm)
DnsRcodeKnown(r) == r \in 0 .. 5
DnsSetsExpiry(mm) == mm.rcode \in {1, 2, 4, 5} \/ mm.an > 0
\* bytes the resource readers need behind an answer header: AResource / AAAAResource read 4 / 16 bytes whatever
\* RDLENGTH says (and then advance by RDLENGTH); every other type is skipped: offset + RDLENGTH <= len(msg)
DnsRdNeed(mm) == CASE mm.atype = "A" -> 4 [] mm.atype = "AAAA" -> 16 [] OTHER -> mm.rdlen
DnsAnStart(mm) == DnsHdr + DnsQLen(mm)
\* the lattice only combines a non-canonical RDLENGTH with a single answer, so the last answer decides
DnsAnNeed(mm) == IF mm.an = 0 THEN DnsAnStart(mm)
                ELSE DnsAnStart(mm) + (mm.an - 1) * DnsRRLen(mm) + DnsNameLen(mm.name) + 10 + DnsRdNeed(mm)
\* how many bytes parseMsg needs: up to the end of the answers, plus the authorities when nothing set an expiry
DnsNeed(mm) == IF DnsSetsExpiry(mm) THEN DnsAnNeed(mm) ELSE DnsNsEnd(mm)
DnsMsg(mm) ==        \* parseMsg on a message of slen bytes
    Chk(DnsHdr) \o Tch(DnsHdr) \o If(mm.id \notin {4, 6}, Rej("id")) \o If(~mm.qr, Rej("notresponse")) \o
    If(~mm.ra, Rej("norecursion")) \o If(~DnsRcodeKnown(mm.rcode), Rej("rcode")) \o
    Chk(DnsAnStart(mm)) \o Tch(DnsAnStart(mm)) \o                         \* SkipAllQuestions
    If(mm.an > 0 /\ ~DnsNameOK(mm.name), Rej("name")) \o
    Chk(DnsAnNeed(mm)) \o Tch(DnsAnNeed(mm)) \o                           \* AnswerHeader + AResource/AAAAResource/SkipAnswer
    If(~DnsSetsExpiry(mm), If(mm.ns > 0 /\ ~DnsNameOK(mm.name), Rej("name")) \o Chk(DnsNsEnd(mm)) \o Tch(DnsNsEnd(mm))) \o
    Done(IF mm.tc /\ ~mm.tcp THEN "truncated" ELSE "answered")
\* TCP framing: doTCP reads a 2-byte length, refuses 0, reads that many bytes.  lenk relates the prefix to the message
DnsFrameLen(mm) == CASE mm.lenk = "zero" -> 0 [] mm.lenk = "less" -> DnsTotal(mm) - 1 [] mm.lenk = "more" -> DnsTotal(mm) + 1
                    [] OTHER -> DnsTotal(mm)
DnsTcp(mm) == Rd(2, 2) \o If(DnsFrameLen(mm) = 0, Rej("zerolen")) \o Rd(DnsFrameLen(mm), DnsFrameLen(mm)) \o
             Sub(DnsFrameLen(mm)) \o DnsMsg(mm)
DnsUdp(mm) == DnsMsg(mm)
DnsWire(mm) ==
    If(mm.tcp, F("framelen", 2, DnsFrameLen(mm))) \o
    F("id", 2, mm.id) \o F("flags:" \o (IF mm.qr THEN "r" ELSE "q") \o (IF mm.ra THEN "a" ELSE "-") \o (IF mm.tc THEN "t" ELSE "-"), 1, Free) \o
    F("rcode", 1, mm.rcode) \o F("qdcount", 2, mm.qd) \o F("ancount", 2, mm.an) \o F("nscount", 2, mm.ns) \o F("arcount", 2, mm.ar) \o
    F("questions", DnsQLen(mm), Free) \o
    F("rrs:" \o mm.atype \o ":" \o mm.name, (mm.an + mm.ns + mm.ar) * DnsRRLen(mm), mm.rdlen)

-----------------------------------------------------------------------------
(* entry points *)
StreamEPs == {"s5srv", "s5cli", "nonesrv", "ss22srv", "ss22cli", "ss22chunk", "dnstcp"}
SliceEPs  == {"s5udpsrv", "s5udpcli", "noneudpsrv", "noneudpcli", "directudp", "ss22udpsrv", "ss22udpcli", "dnsudp"}
TextEPs   == {"httpsrv", "httpcli"}
AllEPs == StreamEPs \cup SliceEPs \cup TextEPs
ServerEPs == {"s5srv", "nonesrv", "ss22srv", "httpsrv", "s5udpsrv", "noneudpsrv", "directudp", "ss22udpsrv"}
UdpEPs == {"s5udpsrv", "s5udpcli", "noneudpsrv", "noneudpcli", "directudp", "ss22udpsrv", "ss22udpcli"}

Prog(e, mm, hv) ==
    CASE e = "s5srv" -> S5Srv(mm) [] e = "s5cli" -> S5Cli(mm) [] e = "nonesrv" -> NoneSrv(mm)
      [] e = "s5udpsrv" -> S5UdpSrv(mm) [] e = "s5udpcli" -> S5UdpCli(mm)
      [] e = "noneudpsrv" -> NoneUdpSrv(mm) [] e = "noneudpcli" -> NoneUdpCli(mm) [] e = "directudp" -> DirectUdp(mm)
      [] e = "ss22srv" -> SsTcpSrv(mm) [] e = "ss22cli" -> SsTcpCli(mm) [] e = "ss22chunk" -> SsChunk(mm)
      [] e = "ss22udpsrv" -> SsUdpSrv(mm, hv) [] e = "ss22udpcli" -> SsUdpCli(mm, hv)
      [] e = "httpsrv" -> HttpSrv(mm) [] e = "httpcli" -> HttpCli(mm)
      [] e = "dnstcp" -> DnsTcp(mm) [] e = "dnsudp" -> DnsUdp(mm)
Wire(e, mm) ==
    CASE e = "s5srv" -> S5SrvWire(mm) [] e = "s5cli" -> S5CliWire(mm) [] e = "nonesrv" -> NoneSrvWire(mm)
      [] e \in {"s5udpsrv", "s5udpcli"} -> S5UdpWire(mm)
      [] e \in {"noneudpsrv", "noneudpcli"} -> NoneUdpWire(mm) [] e = "directudp" -> DirectUdpWire(mm)
      [] e = "ss22srv" -> SsTcpSrvWire(mm) [] e = "ss22cli" -> SsTcpCliWire(mm) [] e = "ss22chunk" -> SsChunkWire(mm)
      [] e = "ss22udpsrv" -> SsUdpSrvWire(mm) [] e = "ss22udpcli" -> SsUdpCliWire(mm)
      [] e \in {"dnstcp", "dnsudp"} -> DnsWire(mm)
      [] OTHER -> <<>>
\* offsets of the fields of a wire: Offs(w, 1, 0)[i] is where field i starts, the last entry is the total length
RECURSIVE Offs(_, _, _)
Offs(w, i, acc) == IF i > Len(w) THEN <<acc>> ELSE <<acc>> \o Offs(w, i + 1, acc + w[i].n)
WireLen(w) == LET o == Offs(w, 1, 0) IN o[Len(o)]
\* truncation points of a wire: in front of every field ("absent"), one byte into it and one byte short of
\* its end ("truncated here"), and the whole message
Cuts(w) == LET o == Offs(w, 1, 0)
           IN {o[i] : i \in 1 .. Len(o)} \cup {o[i] + 1 : i \in {j \in 1 .. Len(w) : w[j].n >= 2}}
              \cup {o[i] + w[i].n - 1 : i \in {j \in 1 .. Len(w) : w[j].n >= 3}}
\* scratch buffer the stream parser reads into
BufCap(e, mm) ==
    CASE e \in {"s5srv", "s5cli"} -> S5Buf
      [] e = "ss22srv" -> Max(SsTcpHead(mm) + IdHdr, 65535 + TagSize)     \* writeBuf, or make() when larger
      [] e = "ss22cli" -> Max(SsCliHead(mm), 65535 + TagSize)
      [] e = "ss22chunk" -> 65535 + TagSize
      [] OTHER -> 65535 + 2
\* the request a program hands on when it accepts
ReqOf(e, mm) ==
    CASE e \in {"httpsrv"} -> HttpReq(mm)
      [] e \in {"httpcli", "ss22cli", "ss22chunk", "dnstcp", "dnsudp", "directudp"} -> NoReq
      [] e = "ss22srv" /\ mm.vk = "zero" -> NoReq
      [] OTHER -> Req(mm.a)
\* bytes that may be missing without making the message incomplete: the tail of a stream (data after the
\* handshake), the payload of a datagram that is not sealed (an empty payload is a message)
Optional(e, mm) ==
    CASE e \in {"s5srv", "s5cli", "nonesrv", "ss22srv", "ss22cli", "ss22chunk"} -> mm.tail
      [] e \in {"s5udpsrv", "s5udpcli", "noneudpsrv", "noneudpcli", "directudp"} -> mm.pl
      [] OTHER -> 0
Need(e, mm) == WireLen(Wire(e, mm)) - Optional(e, mm)

-----------------------------------------------------------------------------
(* routing, dialling, replying: service/tcp.go handleConn, service/udp_*.go, router/route.go *)
\* a port criterion: rc.port in {"-", "one", "r16", "r17"}: single port / range set / bit set.  The configured
\* ports contain 443 and none of 0, 1, 65535
PortIn(rep, p) ==
    CASE rep = "-" -> "met"
      [] p = 0 /\ rep = "r17" /\ Variant = "no-port0-guard" -> "panic"       \* portset.PortSet.Contains(0) panics
      [] p = 443 -> "met"
      [] OTHER -> "unmet"
\* a domain criterion: rc.dom in {"-", "lin", "map", "suf", "trie", "kw", "re"}; IP targets never meet it;
\* names of class "hit" lie under example.com and contain the keyword, the exact-name rules hold for the 11-byte name only
DomIn(rep, q) ==
    CASE rep = "-" -> "met"
      [] q.tk # "dom" -> "unmet"
      [] rep \in {"lin", "map"} -> IF q.dk = "hit" /\ q.dlen = 11 THEN "met" ELSE "unmet"
      [] OTHER -> IF q.dk = "hit" THEN "met" ELSE "unmet"
\* a prefix criterion: rc.pfx in {"-", "ip", "res"}: "ip" never resolves names, "res" looks names up first
PfxIn(rep, q) ==
    CASE rep = "-" -> "met"
      [] q.tk = "dom" -> IF rep = "ip" THEN "unmet" ELSE "lookup"
      [] OTHER -> IF q.dk = "pfx" THEN "met" ELSE "unmet"
\* the route list is <<rc, default>>: all present criteria of rc must hold (router.Route.Match)
RouteOut(rc, q) ==
    LET p == PortIn(rc.port, q.port)
        d == DomIn(rc.dom, q)
        x == PfxIn(rc.pfx, q)
    IN CASE p = "panic" -> "panic"
         [] p = "unmet" \/ d = "unmet" \/ x = "unmet" -> "default"
         [] x = "lookup" -> "lookup"          \* the resolver's answer decides: route, default or error
         [] OTHER -> rc.cl
\* encoding the target for the next hop: socks5.LengthOfAddrFromConnAddr panics above 255 bytes
Encodable(q) == q.tk # "dom" \/ (q.dlen >= 1 /\ q.dlen <= 255)
DialCodes == {t[1] : t \in DialTable}
RepOf(c) == (CHOOSE t \in DialTable : t[1] = c)[2]
HasPending(e) == e \in {"s5srv", "nonesrv", "ss22srv", "httpsrv"}

-----------------------------------------------------------------------------
NoMsg == [none |-> TRUE]
Init ==
    /\ \E c \in Msgs :
          /\ ep = c.ep /\ m = c.m
          /\ have \in (IF c.ep \in TextEPs THEN {-1}
                       ELSE IF c.cuts = "all" THEN Cuts(Wire(c.ep, c.m)) ELSE {WireLen(Wire(c.ep, c.m))})
    /\ prog = Prog(ep, m, have)
    /\ pc = 1 /\ slen = IF ep \in SliceEPs THEN have ELSE 0
    /\ verified = 0 /\ touched = 0 /\ rdpos = 0 /\ bufhi = 0 /\ wrote = 0
    /\ fb = (ep = "ss22srv")
    /\ st = "parse" /\ res = [why |-> "", req |-> NoReq] /\ rt = [cfg |-> "", out |-> ""] /\ dl = -1
    /\ act = [n |-> "Init"]

Cur == prog[pc]
\* ss2022 TCP server with unsafeFallbackAddr (tcp.go, the deferred function of HandleStream): an error before
\* the request is authenticated, after n > 0 bytes were read, becomes a request for the fallback address
Fail(w, n) ==
    IF ep = "ss22srv" /\ m.fallback /\ fb /\ n > 0
    THEN /\ st' = "request" /\ res' = [why |-> "fallback:" \o w, req |-> [NoReq EXCEPT !.tk = "ip4", !.dk = "typ", !.port = 443, !.fallback = TRUE]]
    ELSE /\ st' = "rejected" /\ res' = [why |-> w, req |-> NoReq]

Step ==
    /\ st = "parse" /\ pc <= Len(prog)
    /\ UNCHANGED <<ep, m, have, prog, rt, dl>>
    /\ act' = [n |-> "Step", o |-> Cur.o, k |-> Cur.k, pc |-> pc]
    /\ CASE Cur.o = "chk" ->
              IF slen < Cur.k
              THEN Fail("short", rdpos) /\ UNCHANGED <<pc, slen, verified, touched, rdpos, bufhi, wrote, fb>>
              ELSE verified' = Max(verified, Cur.k) /\ pc' = pc + 1 /\ UNCHANGED <<slen, touched, rdpos, bufhi, wrote, fb, st, res>>
         [] Cur.o = "tch" ->
              touched' = Max(touched, Cur.k) /\ pc' = pc + 1 /\ UNCHANGED <<slen, verified, rdpos, bufhi, wrote, fb, st, res>>
         [] Cur.o = "sub" ->
              \* a sub-slice of exactly k bytes that the code produced itself (decrypted body, address just read)
              slen' = Cur.k /\ verified' = 0 /\ touched' = 0 /\ pc' = pc + 1 /\ UNCHANGED <<rdpos, bufhi, wrote, fb, st, res>>
         [] Cur.o \in {"rd", "rd1"} ->
              IF Cur.o = "rd1" /\ m.seg = "split" /\ ~m.allowseg /\ have > 1
              THEN \* the first Read returns a proper prefix: HeaderError{ErrFirstRead}
                   /\ rdpos' = 1 /\ Fail("firstread", 1) /\ UNCHANGED <<pc, slen, verified, touched, bufhi, wrote, fb>>
              ELSE IF rdpos + Cur.k > have
              THEN /\ rdpos' = have /\ Fail(IF rdpos = have THEN "eof" ELSE "ueof", have)
                   /\ UNCHANGED <<pc, slen, verified, touched, bufhi, wrote, fb>>
              ELSE /\ rdpos' = rdpos + Cur.k /\ bufhi' = Max(bufhi, Cur.h) /\ pc' = pc + 1
                   /\ UNCHANGED <<slen, verified, touched, wrote, fb, st, res>>
         [] Cur.o = "hold" ->
              rdpos' = Min(have, rdpos + 1) /\ pc' = pc + 1 /\ UNCHANGED <<slen, verified, touched, bufhi, wrote, fb, st, res>>
         [] Cur.o = "wr" ->
              wrote' = wrote + Cur.k /\ pc' = pc + 1 /\ UNCHANGED <<slen, verified, touched, rdpos, bufhi, fb, st, res>>
         [] Cur.o = "auth" ->
              fb' = FALSE /\ pc' = pc + 1 /\ UNCHANGED <<slen, verified, touched, rdpos, bufhi, wrote, st, res>>
         [] Cur.o = "rej" ->
              Fail(Cur.w, rdpos) /\ UNCHANGED <<pc, slen, verified, touched, rdpos, bufhi, wrote, fb>>
         [] Cur.o = "acc" ->
              /\ st' = "request" /\ res' = [why |-> "", req |-> ReqOf(ep, m)]
              /\ UNCHANGED <<pc, slen, verified, touched, rdpos, bufhi, wrote, fb>>
         [] Cur.o = "done" ->
              /\ st' = "done" /\ res' = [why |-> Cur.w, req |-> NoReq]
              /\ UNCHANGED <<pc, slen, verified, touched, rdpos, bufhi, wrote, fb>>

\* Router.GetTCPClient / GetUDPClient with the parsed target (server-side entry points).  What was parsed is
\* forgotten here: everything downstream depends on the entry point and the request only.
Forget ==
    /\ m' = NoMsg /\ have' = 0 /\ prog' = <<>> /\ pc' = 1 /\ slen' = 0 /\ verified' = 0 /\ touched' = 0
    /\ rdpos' = 0 /\ bufhi' = 0 /\ wrote' = 0 /\ fb' = FALSE
Route(rc) ==
    /\ st = "request" /\ ep \in ServerEPs
    /\ st' = "routed" /\ rt' = [cfg |-> rc.name, out |-> RouteOut(rc, res.req)]
    /\ act' = [n |-> "Route", cfg |-> rc.name, out |-> rt'.out]
    /\ Forget /\ UNCHANGED <<ep, res, dl>>

\* dialer.DialStream(req.Addr, req.Payload) / client packer PackInPlace through the routed client: the target is
\* re-encoded for the next hop and the dial ends with some result code; a rejecting route is EACCES
Dial(c) ==
    /\ st = "routed" /\ rt.out # "panic"
    /\ st' = "dialled"
    /\ dl' = IF rt.out = "reject" THEN 13 ELSE c
    /\ dl' \in DialCodes
    \* which route led here no longer matters: only whether a client or the rejection was chosen
    /\ rt' = [cfg |-> "", out |-> IF rt.out = "reject" THEN "reject" ELSE "client"]
    /\ act' = [n |-> "Dial", code |-> dl', cfg |-> rt.cfg]
    /\ UNCHANGED <<ep, m, have, prog, pc, slen, verified, touched, rdpos, bufhi, wrote, fb, res>>

\* req.Proceed() on success, req.Abort(DialResult{Code}) otherwise; datagram sessions have no reply
Reply ==
    /\ st = "dialled"
    /\ st' = "replied"
    /\ wrote' = (IF ep = "s5srv" THEN 3 + IPv4AddrLen ELSE IF ep = "httpsrv" THEN 1 ELSE 0)
    /\ act' = [n |-> IF dl = 0 THEN "Proceed" ELSE "Abort", code |-> dl,
               rep |-> IF ep = "s5srv" THEN RepOf(dl) ELSE IF ep = "httpsrv" THEN (IF dl = 0 THEN 200 ELSE 502) ELSE -1]
    /\ UNCHANGED <<ep, m, have, prog, pc, slen, verified, touched, rdpos, bufhi, fb, res, rt, dl>>

\* one relay step: after a successful reply bytes flow both ways through the established connection / the
\* datagram is packed for the next hop; on the client side the unpacked payload is packed for the downstream peer
Relay ==
    /\ \/ st = "replied" /\ dl = 0
       \/ st = "request" /\ ep \notin ServerEPs
    /\ st' = "relayed"
    /\ act' = [n |-> "Relay"]
    /\ Forget /\ UNCHANGED <<ep, res, rt, dl>>

Next == Step \/ (\E rc \in RouteCfgs : Route(rc)) \/ (\E c \in DialCodes : Dial(c)) \/ Reply \/ Relay
Spec == Init /\ [][Next]_vars

-----------------------------------------------------------------------------
(* invariants *)
States == {"parse", "rejected", "request", "done", "routed", "dialled", "replied", "relayed"}
TypeOK ==
    /\ ep \in AllEPs /\ st \in States /\ pc \in 1 .. Len(prog) + 1
    /\ slen \in Int /\ verified \in Nat /\ touched \in Nat /\ rdpos \in Nat /\ bufhi \in Nat /\ wrote \in Nat
    /\ fb \in BOOLEAN /\ dl \in {-1} \cup DialCodes
\* the program never runs off its end: every path ends in rej / acc / done
ProgEnds == st = "parse" => pc <= Len(prog)
\* explicit length checks before slicing: whatever is touched lies below a checked length, and checked lengths
\* never exceed the slice
InBounds == touched <= verified /\ verified <= Max(slen, 0)
\* every ReadFull target lies inside the scratch buffer
BufOK == st = "parse" => bufhi <= BufCap(ep, m)
StreamOK == ep \in StreamEPs /\ st \in {"parse", "rejected", "request", "done"} => rdpos <= have
\* a message that stops short of the end of its header never becomes a request (the ss2022 fallback excepted:
\* it forwards whatever was read, by design)
TruncRejects == st = "request" /\ ~res.req.fallback /\ ep \notin TextEPs => have >= Need(ep, m)
\* a DNS reply is only used when everything parseMsg reads was there
DnsComplete == st = "done" /\ ep \in {"dnsudp", "dnstcp"} => slen >= DnsNeed(m)
\* routing never panics, whatever request came out of a parser
RouterTotal == st = "routed" => rt.out # "panic"
\* every accepted target can be encoded for the next hop
ClientEncodable == st \in {"request", "routed", "dialled", "replied", "relayed"} => Encodable(res.req)
\* nothing happens to a connection that failed or was handled
RejectedStays == [][(st \in {"rejected", "done"}) => (sv' = sv)]_vars
PhasesForward ==
    [][LET r == [s \in States |-> CASE s = "parse" -> 0 [] s \in {"rejected", "request", "done"} -> 1 [] s = "routed" -> 2
                                     [] s = "dialled" -> 3 [] s = "replied" -> 4 [] OTHER -> 5]
       IN r[st'] >= r[st]]_vars
\* SOCKS5 answers a success only to Proceed
SuccessOnlyOnProceed == [][act'.n = "Abort" /\ ep = "s5srv" => act'.rep # RepOK]_vars
=============================================================================
