CONSTANTS
  Ver = ${Ver}
  AuthVer = ${AuthVer}
  MNoAuth = ${MNoAuth}
  MUserPass = ${MUserPass}
  MNoAccept = ${MNoAccept}
  CmdConnect = ${CmdConnect}
  CmdBind = ${CmdBind}
  CmdUdp = ${CmdUdp}
  AtypV4 = ${AtypV4}
  AtypDom = ${AtypDom}
  AtypV6 = ${AtypV6}
  MaxAddrLen = ${MaxAddrLen}
  RepOK = ${RepOK}
  RepFail = ${RepFail}
  RepRuleset = ${RepRuleset}
  RepNetUnreach = ${RepNetUnreach}
  RepHostUnreach = ${RepHostUnreach}
  RepRefused = ${RepRefused}
  RepCmd = ${RepCmd}
  DcSuccess = ${DcSuccess}
  DcEACCES = ${DcEACCES}
  DcENETDOWN = ${DcENETDOWN}
  DcENETUNREACH = ${DcENETUNREACH}
  DcENETRESET = ${DcENETRESET}
  DcECONNABORTED = ${DcECONNABORTED}
  DcECONNRESET = ${DcECONNRESET}
  DcETIMEDOUT = ${DcETIMEDOUT}
  DcECONNREFUSED = ${DcECONNREFUSED}
  DcEHOSTDOWN = ${DcEHOSTDOWN}
  DcEHOSTUNREACH = ${DcEHOSTUNREACH}
  DcDNS = ${DcDNS}
  DcOther = ${DcOther}
  Protos <- MCProtos
  Users <- MCUsers
  Creds <- MCCreds
  CredIdx <- MCCredIdx
  Addrs <- MCAddrs
  HttpAddrs <- MCHttpAddrs
  MethodLists <- MCMethodLists
  CmdSet <- MCCmdSet
  AuthModes <- MCAuthModes
  Enables <- MCEnables
  Bnds <- MCBnds
  UdpBnd <- MCUdpBnd
  HttpPlans <- MCHttpPlans
  AbortCodes <- MCAbortCodes
  MaxData = ${MaxData}
  WriteSizes <- MCWriteSizes
  ReadSizes <- MCReadSizes
  CutMode = "${CutMode}"
  Variant = "${Variant}"
INIT InitE
NEXT Next
VIEW View
${EMIT}
INVARIANTS TypeOK ${INV_EXTRA} Faithful AuthGate NoRequestBeforeAuth ReplyMatches Transparent StreamAligned FragInsensitive ExpectedReachable Progress
PROPERTIES SuccessOnlyAfterProceed PhasesForward
CHECK_DEADLOCK FALSE
