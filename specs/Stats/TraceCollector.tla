--------------------------- MODULE TraceCollector ---------------------------
(* Trace validation of the real stats collector against Collector.tla.        *)
(*                                                                            *)
(* The counters are lock-free, so the driver (harness/drivers/c14 TestRecord) *)
(* cannot log at linearisation points.  It logs, per goroutine, the START of  *)
(* every real call (with its arguments) and its END (with what it returned),  *)
(* ordered by one global atomic sequence number taken before the call starts  *)
(* and after it returns.  The atomic steps of Collector.tla (AddField,        *)
(* SnapAnon, SnapUserField, UcLookup, UcCreate, SnapRLock, SnapRUnlock) are   *)
(* internal steps TLC has to place between those events.  A trace is accepted *)
(* iff its last line is reachable.  The values a snapshot returned are known  *)
(* when its call line is read (the recorder copies them there), so a read     *)
(* step is enabled only when the counter holds the value that was returned.   *)
(*                                                                            *)
(* The file is a concatenation of independent sub-traces, each introduced by  *)
(* a line {"e":"reset","t":id,"next":line of the next reset}.  From a reset   *)
(* line TLC may also jump to the next one, so that a rejected sub-trace does  *)
(* not hide the verdict on the later ones; "ACCEPT id" is printed when the    *)
(* last line of a sub-trace is consumed.                                      *)
(*                                                                            *)
(* Two uses, same module, different constants:                                *)
(*  - field-wise (the oracle of C14, which allows cross-field tearing): the   *)
(*    recorder projects a trace on one (bucket, figure); Users = {"u"},       *)
(*    Fields = <<"f">>, Prog = [add |-> one add of the first amount, nop |->  *)
(*    none] (a call that creates the user's collector but does not touch this *)
(*    figure).  Linearisability is compositional over independent objects, so *)
(*    the whole trace is field-wise linearisable iff every projection is.     *)
(*  - strict: the whole trace with the real Fields and SessionProg, program   *)
(*    order inside calls included ("strict": true on snapshot lines makes the *)
(*    set of listed users part of the comparison).  A rejection here that the *)
(*    field-wise check accepts is model drift, not a violation.               *)
EXTENDS Collector, Json

CONSTANT TraceFile
Trace == ndJsonDeserialize(TraceFile)
NL == Len(Trace)

VARIABLES
    i,      \* next line to consume
    exp,    \* exp[p]: the call line of the call p is executing (carries the returned values)
    ok,     \* the current sub-trace has been consumed line by line (not skipped)
    tid     \* id of the current sub-trace

tvars == <<vars, i, exp, ok, tid>>
NoExp == [e |-> "none"]

IsEv(e) == i <= NL /\ Trace[i].e = e
Line == Trace[i]
Boundary(j) == j > NL \/ Trace[j].e = "reset"

Fresh ==
    /\ cnt' = ZeroB /\ made' = [u \in Users |-> FALSE] /\ rd' = {}
    /\ pc' = [p \in Procs |-> "idle"]
    /\ call' = [p \in Procs |-> NoCall]
    /\ res' = [p \in Procs |-> NoRes]
    /\ rec' = ZeroB /\ rep' = ZeroB /\ called' = ZeroB
    /\ outtot' = Zero /\ outuser' = [u \in Users |-> Zero]
    /\ ncoll' = 0 /\ nsnap' = 0 /\ nreset' = 0
    /\ exp' = [p \in Procs |-> NoExp]

TInit ==
    /\ Init
    /\ i = 1 /\ exp = [p \in Procs |-> NoExp] /\ ok = FALSE /\ tid = ""

\* enter the sub-trace that starts at this line
EvReset ==
    /\ IsEv("reset")
    /\ Fresh /\ i' = i + 1 /\ ok' = TRUE /\ tid' = Line.t
    /\ act' = [n |-> "TraceReset"]

\* or leave it alone
EvSkip ==
    /\ IsEv("reset") /\ Line.next <= NL
    /\ Fresh /\ i' = Line.next /\ ok' = FALSE /\ tid' = Line.t
    /\ act' = [n |-> "TraceSkip"]

Advance ==
    /\ i' = i + 1 /\ UNCHANGED <<ok, tid>>
    /\ IF Boundary(i + 1) /\ ok THEN PrintT("ACCEPT " \o tid) ELSE TRUE

EvCallCollect ==
    /\ IsEv("call") /\ Line.op = "collect"
    /\ CallCollect(Line.p, Line.k, Line.u, <<Line.x, Line.y>>)
    /\ exp' = [exp EXCEPT ![Line.p] = Line]
    /\ Advance

EvCallSnap ==
    /\ IsEv("call") /\ Line.op \in {"snap", "reset", "user"}
    /\ CallSnap(Line.p, Line.op, Line.u)
    /\ exp' = [exp EXCEPT ![Line.p] = Line]
    /\ Advance

\* every value the call returned was compared when the model read it, so the END only needs the call to be over
EvRet ==
    /\ IsEv("ret")
    /\ Return(Line.p)
    /\ exp' = [exp EXCEPT ![Line.p] = NoExp]
    /\ Advance

\* the value the next SnapAnon(p) reads is the one that was returned (when the recorder could derive it)
AnonOK(p) ==
    LET f == Fields[call[p].i] IN
    f \in DOMAIN exp[p].anon => cnt[Anon][f] = exp[p].anon[f]

UserOK(p, u) ==
    LET f == Fields[call[p].i] IN
    (u \in DOMAIN exp[p].users /\ f \in DOMAIN exp[p].users[u]) => cnt[u][f] = exp[p].users[u][f]

\* A user the snapshot does not visit shows as zeros (not being listed and being listed with zeros are the same to
\* C14); in strict mode the listed set itself must match.
ListedOK(p) ==
    /\ \A u \in DOMAIN exp[p].users : ~made[u] => \A f \in DOMAIN exp[p].users[u] : exp[p].users[u][f] = 0
    /\ exp[p].strict => {u \in Users : made[u]} = {exp[p].listed[j] : j \in DOMAIN exp[p].listed}

Internal ==
    /\ i <= NL /\ ~IsEv("reset")
    /\ UNCHANGED <<i, exp, ok, tid>>
    /\ \E p \in Procs :
        \/ UcLookup(p) \/ UcCreate(p) \/ AddField(p)
        \/ pc[p] = "anon" /\ AnonOK(p) /\ SnapAnon(p)
        \/ pc[p] = "rlock" /\ ListedOK(p) /\ SnapRLock(p)
        \/ \E u \in Users : pc[p] = "users" /\ UserOK(p, u) /\ SnapUserField(p, u)
        \/ SnapRUnlock(p)

TNext == EvReset \/ EvSkip \/ EvCallCollect \/ EvCallSnap \/ EvRet \/ Internal

TView == <<sv, i, exp, ok, tid>>
=============================================================================
