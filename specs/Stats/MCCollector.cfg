CONSTANTS
  Users = ${Users}
  Fields <- MCFields
  Prog <- MCProg
  Collectors = ${Collectors}
  Snappers = ${Snappers}
  Amts <- MCAmts
  SnapOps = ${SnapOps}
  Creds <- MCCreds
  MaxCollect = ${MaxCollect}
  MaxSnap = ${MaxSnap}
  MaxReset = ${MaxReset}
  UserEndpointDefect = ${Defect}
INIT InitE
NEXT ${NEXT}
VIEW ${VIEW}
${EMIT}
INVARIANTS TypeOK LockOK Conservation NoInvention QuiescentConservation Attribution TotalIsSum ApiUserExact SequentialExact
PROPERTIES AttributionStep
CHECK_DEADLOCK FALSE
