-------------------------- MODULE MCTraceCollector --------------------------
EXTENDS TraceCollector
MCFields == ${Fields}
MCProg == ${Prog}
MCAmts == {<<0, 0>>}
MCUsers == ${Users}
MCProcs == ${Procs}
MCTraceFile == "${TraceFile}"
=============================================================================
