------------------------------ MODULE Collector ------------------------------
(* Traffic statistics of one server: stats/collector.go (serverCollector,      *)
(* trafficCollector) and the two read-only projections of it that the          *)
(* management API serves, api/ssm/ssm.go handleGetStats / handleGetUser.        *)
(*                                                                              *)
(* The collector is lock-free for the figures themselves: every figure is one  *)
(* atomic.Uint64, a Collect* call is a SEQUENCE of single-field atomic adds, a  *)
(* Snapshot a sequence of single-field loads, a SnapshotAndReset a sequence of  *)
(* single-field Swap(0).  The only lock (sc.mu, an RWMutex) protects the map of *)
(* lazily created per-user collectors.  Each action below is one such atomic    *)
(* step or one critical section of sc.mu; nothing coarser is assumed.           *)
(*                                                                              *)
(* Buckets: "" is the anonymous bucket (sc.tc, used by sessions without a user  *)
(* name); every named user gets its own bucket on first use.  The server totals *)
(* are not stored: a snapshot computes anonymous + sum of users.                *)
EXTENDS Integers, Sequences, FiniteSets, TLC

CONSTANTS
    Users,          \* named users (non-empty strings)
    Fields,         \* the figures of stats.Traffic, as a sequence in the order snapshot()/snapshotAndReset()
                    \* read them (collector.go:55-75); values = the JSON names, read from the compiled code
    Prog,           \* Prog[k] = the sequence of atomic adds of Collect kind k: [f |-> field, a |-> 0|1|2],
                    \* a = 0: the constant 1, a = 1|2: the call's first|second amount
    Collectors,     \* goroutines that record sessions (relay goroutines: service/tcp.go:271, service/udp_*.go)
    Snappers,       \* goroutines that serve API requests (may be the same names: a sequential history has one goroutine)
    Amts,           \* set of <<first amount, second amount>> a session may record
    SnapOps,        \* subset of {"snap", "reset", "user"}: GET stats, GET stats?clear, GET users/{u}
    Creds,          \* users the credential manager knows (GET users/{u} answers 404 for all others)
    MaxCollect,     \* bound on the number of Collect* calls
    MaxSnap,        \* bound on the number of snapshot-type calls
    MaxReset,       \* bound on the number of those that reset
    UserEndpointDefect  \* FALSE: the per-user endpoint shows the user's figures (the property);
                        \* TRUE : it shows Snapshot().Traffic, the server totals (ssm.go:142 as first read, finding F13);
                        \*        only used to show that ApiUserExact is not vacuous

\* What one recorded session contributes (the meaning of "the traffic of the sessions"):
\*   tcp      collectTCPSession(downlinkBytes, uplinkBytes)          collector.go:19-23
\*   udpdown  collectUDPSessionDownlink(downlinkPackets, downlinkBytes) collector.go:25-29 (counts the UDP session)
\*   udpup    collectUDPSessionUplink(uplinkPackets, uplinkBytes)    collector.go:31-34 (same session: not counted again)
\* in program order.  service/tcp.go:271, service/udp_session*.go and service/udp_nat*.go call exactly these.
SessionProg == [
    tcp     |-> << [f |-> "downlinkBytes", a |-> 1],   [f |-> "uplinkBytes", a |-> 2],   [f |-> "tcpSessions", a |-> 0] >>,
    udpdown |-> << [f |-> "downlinkPackets", a |-> 1], [f |-> "downlinkBytes", a |-> 2], [f |-> "udpSessions", a |-> 0] >>,
    udpup   |-> << [f |-> "uplinkPackets", a |-> 1],   [f |-> "uplinkBytes", a |-> 2] >> ]

VARIABLES
    cnt,        \* cnt[b][f]: the atomic counter of bucket b, figure f (0 for a user whose collector does not exist yet)
    made,       \* made[u]: sc.ucs has an entry for u
    rd,         \* goroutines holding sc.mu.RLock() across steps (snapshots iterating sc.ucs)
    pc,         \* pc[p] \in {"idle","lookup","create","add","anon","rlock","users","runlock","ret"}
    call,       \* call[p]: the call p is executing
    res,        \* res[p]: the stats.Server value a snapshot is building
    rec,        \* ghost: rec[b][f] = sum of the adds applied to the counter
    rep,        \* ghost: rep[b][f] = sum of the values taken out by Swap(0), incl. by snapshots still running
    called,     \* ghost: called[b][f] = sum of the amounts of all Collect* calls started
    outtot,     \* ghost: outtot[f] = sum over RETURNED resets of the server total
    outuser,    \* ghost: outuser[u][f] = sum over returned resets of u's figure
    ncoll, nsnap, nreset,
    act         \* last action with the observable outcome the model expects

sv == <<cnt, made, rd, pc, call, res, rec, rep, called, outtot, outuser, ncoll, nsnap, nreset>>
vars == <<sv, act>>

Procs == Collectors \cup Snappers
Anon == ""
None == "-"
Buckets == Users \cup {Anon}
NF == Len(Fields)
FieldSet == {Fields[i] : i \in 1..NF}
Kinds == DOMAIN Prog
Zero == [f \in FieldSet |-> 0]
ZeroB == [b \in Buckets |-> Zero]

NoCall == [op |-> "none", k |-> None, u |-> None, x |-> 0, y |-> 0, i |-> 0]
NoRes == [anon |-> Zero, tot |-> Zero, users |-> [u \in Users |-> Zero], listed |-> {}, todo |-> {}, cur |-> None]

Amount(e, x, y) == IF e.a = 0 THEN 1 ELSE IF e.a = 1 THEN x ELSE y

\* sum of the amounts Prog[k] adds to figure f
RECURSIVE ProgSum(_, _, _, _, _)
ProgSum(k, f, x, y, i) ==
    IF i > Len(Prog[k]) THEN 0
    ELSE (IF Prog[k][i].f = f THEN Amount(Prog[k][i], x, y) ELSE 0) + ProgSum(k, f, x, y, i + 1)

\* sum of the function fn over the set S
RECURSIVE SumF(_, _)
SumF(fn, S) == IF S = {} THEN 0 ELSE LET s == CHOOSE s \in S : TRUE IN fn[s] + SumF(fn, S \ {s})

Init ==
    /\ cnt = ZeroB /\ made = [u \in Users |-> FALSE] /\ rd = {}
    /\ pc = [p \in Procs |-> "idle"]
    /\ call = [p \in Procs |-> NoCall]
    /\ res = [p \in Procs |-> NoRes]
    /\ rec = ZeroB /\ rep = ZeroB /\ called = ZeroB
    /\ outtot = Zero /\ outuser = [u \in Users |-> Zero]
    /\ ncoll = 0 /\ nsnap = 0 /\ nreset = 0
    /\ act = [n |-> "Init"]

-----------------------------------------------------------------------------
(* Collect*: serverCollector.CollectTCPSession / CollectUDPSessionDownlink /  *)
(* CollectUDPSessionUplink (collector.go:143-155) -> trafficCollector(username) *)
(* (collector.go:135-140) -> userCollector(username) (collector.go:119-133).   *)

AfterLookup(p) == IF Len(Prog[call[p].k]) = 0 THEN "ret" ELSE "add"

CallCollect(p, k, u, a) ==
    /\ p \in Collectors /\ pc[p] = "idle" /\ ncoll < MaxCollect
    /\ ncoll' = ncoll + 1
    /\ call' = [call EXCEPT ![p] = [op |-> "collect", k |-> k, u |-> u, x |-> a[1], y |-> a[2], i |-> 1]]
    /\ called' = [called EXCEPT ![u] = [f \in FieldSet |-> @[f] + ProgSum(k, f, a[1], a[2], 1)]]
    /\ pc' = [pc EXCEPT ![p] = IF u = Anon THEN (IF Len(Prog[k]) = 0 THEN "ret" ELSE "add") ELSE "lookup"]
    /\ UNCHANGED <<cnt, made, rd, res, rec, rep, outtot, outuser, nsnap, nreset>>
    /\ act' = [n |-> "CallCollect", p |-> p, k |-> k, u |-> u, x |-> a[1], y |-> a[2]]

\* userCollector fast path: RLock; uc := sc.ucs[username]; RUnlock (collector.go:120-122).  No writer holds sc.mu
\* across steps (UcCreate is one action), so the read lock is always available.
UcLookup(p) ==
    /\ pc[p] = "lookup"
    /\ pc' = [pc EXCEPT ![p] = IF made[call[p].u] THEN AfterLookup(p) ELSE "create"]
    /\ UNCHANGED <<cnt, made, rd, call, res, rec, rep, called, outtot, outuser, ncoll, nsnap, nreset>>
    /\ act' = [n |-> "UcLookup", p |-> p, hit |-> made[call[p].u]]

\* userCollector slow path: Lock; re-check; create; Unlock (collector.go:123-131).  The write lock needs all readers
\* gone: a first-time user waits for every snapshot that is iterating the map.
UcCreate(p) ==
    /\ pc[p] = "create" /\ rd = {}
    /\ made' = [made EXCEPT ![call[p].u] = TRUE]
    /\ pc' = [pc EXCEPT ![p] = AfterLookup(p)]
    /\ UNCHANGED <<cnt, rd, call, res, rec, rep, called, outtot, outuser, ncoll, nsnap, nreset>>
    /\ act' = [n |-> "UcCreate", p |-> p, u |-> call[p].u, fresh |-> ~made[call[p].u]]

\* one atomic.Uint64.Add of the collect* body (collector.go:19-34)
AddField(p) ==
    /\ pc[p] = "add"
    /\ LET c == call[p]
           e == Prog[c.k][c.i]
           n == Amount(e, c.x, c.y) IN
       /\ cnt' = [cnt EXCEPT ![c.u][e.f] = @ + n]
       /\ rec' = [rec EXCEPT ![c.u][e.f] = @ + n]
       /\ IF c.i = Len(Prog[c.k])
            THEN /\ pc' = [pc EXCEPT ![p] = "ret"] /\ call' = call
            ELSE /\ pc' = pc /\ call' = [call EXCEPT ![p].i = @ + 1]
       /\ act' = [n |-> "AddField", p |-> p, u |-> c.u, f |-> e.f, v |-> n]
    /\ UNCHANGED <<made, rd, res, rep, called, outtot, outuser, ncoll, nsnap, nreset>>

-----------------------------------------------------------------------------
(* Snapshot / SnapshotAndReset (collector.go:164-192), reached through          *)
(* GET /servers/{s}/stats, GET /servers/{s}/stats?clear (ssm.go:86-94) and      *)
(* GET /servers/{s}/users/{u} (ssm.go:130-143, a plain Snapshot).               *)

IsReset(p) == call[p].op = "reset"

CallSnap(p, op, u) ==
    /\ p \in Snappers /\ pc[p] = "idle" /\ nsnap < MaxSnap
    /\ op \in SnapOps
    /\ op = "reset" => nreset < MaxReset
    /\ IF op = "user" THEN u \in Creds ELSE u = None
    /\ nsnap' = nsnap + 1
    /\ nreset' = IF op = "reset" THEN nreset + 1 ELSE nreset
    /\ call' = [call EXCEPT ![p] = [op |-> op, k |-> None, u |-> u, x |-> 0, y |-> 0, i |-> 1]]
    /\ res' = [res EXCEPT ![p] = NoRes]
    /\ pc' = [pc EXCEPT ![p] = "anon"]
    /\ UNCHANGED <<cnt, made, rd, rec, rep, called, outtot, outuser, ncoll>>
    /\ act' = [n |-> "CallSnap", p |-> p, op |-> op, u |-> u]

\* s.Traffic = sc.tc.snapshot() / snapshotAndReset(): one Load / Swap(0) per figure, before sc.mu is taken
\* (collector.go:165, 180; 55-75)
SnapAnon(p) ==
    /\ pc[p] = "anon"
    /\ LET i == call[p].i
           f == Fields[i]
           v == cnt[Anon][f] IN
       /\ IF IsReset(p)
            THEN /\ cnt' = [cnt EXCEPT ![Anon][f] = 0]
                 /\ rep' = [rep EXCEPT ![Anon][f] = @ + v]
            ELSE UNCHANGED <<cnt, rep>>
       /\ res' = [res EXCEPT ![p].anon[f] = v, ![p].tot[f] = v]
       /\ IF i = NF
            THEN /\ pc' = [pc EXCEPT ![p] = "rlock"] /\ call' = [call EXCEPT ![p].i = 1]
            ELSE /\ pc' = pc /\ call' = [call EXCEPT ![p].i = i + 1]
       /\ act' = [n |-> "SnapAnon", p |-> p, f |-> f, v |-> v]
    /\ UNCHANGED <<made, rd, rec, called, outtot, outuser, ncoll, nsnap, nreset>>

\* sc.mu.RLock(); s.Users = make([]User, 0, len(sc.ucs)): from here to RUnlock no collector can be created, so the
\* set of users this snapshot visits is fixed now (collector.go:166-167, 181-182)
SnapRLock(p) ==
    /\ pc[p] = "rlock"
    /\ LET here == {u \in Users : made[u]} IN
       /\ rd' = rd \cup {p}
       /\ res' = [res EXCEPT ![p].todo = here, ![p].listed = here]
       /\ pc' = [pc EXCEPT ![p] = IF here = {} THEN "runlock" ELSE "users"]
       /\ act' = [n |-> "SnapRLock", p |-> p, listed |-> here]
    /\ UNCHANGED <<cnt, made, call, rec, rep, called, outtot, outuser, ncoll, nsnap, nreset>>

\* one Load / Swap(0) of one user's collector inside `for username, uc := range sc.ucs` (map order: any);
\* s.Traffic.Add(u.Traffic) is local and is folded into the same step (collector.go:168-172, 183-187)
SnapUserField(p, u) ==
    /\ pc[p] = "users"
    /\ IF res[p].cur = None THEN u \in res[p].todo ELSE u = res[p].cur
    /\ LET i == call[p].i
           f == Fields[i]
           v == cnt[u][f] IN
       /\ IF IsReset(p)
            THEN /\ cnt' = [cnt EXCEPT ![u][f] = 0]
                 /\ rep' = [rep EXCEPT ![u][f] = @ + v]
            ELSE UNCHANGED <<cnt, rep>>
       /\ IF i = NF
            THEN /\ res' = [res EXCEPT ![p].users[u][f] = v, ![p].tot[f] = @ + v, ![p].todo = @ \ {u}, ![p].cur = None]
                 /\ call' = [call EXCEPT ![p].i = 1]
                 /\ pc' = [pc EXCEPT ![p] = IF res[p].todo = {u} THEN "runlock" ELSE "users"]
            ELSE /\ res' = [res EXCEPT ![p].users[u][f] = v, ![p].tot[f] = @ + v, ![p].cur = u]
                 /\ call' = [call EXCEPT ![p].i = i + 1]
                 /\ pc' = pc
       /\ act' = [n |-> "SnapUserField", p |-> p, u |-> u, f |-> f, v |-> v]
    /\ UNCHANGED <<made, rd, rec, called, outtot, outuser, ncoll, nsnap, nreset>>

\* sc.mu.RUnlock(); the sort that follows is local (collector.go:173-174, 188-189)
SnapRUnlock(p) ==
    /\ pc[p] = "runlock"
    /\ rd' = rd \ {p}
    /\ pc' = [pc EXCEPT ![p] = "ret"]
    /\ UNCHANGED <<cnt, made, call, res, rec, rep, called, outtot, outuser, ncoll, nsnap, nreset>>
    /\ act' = [n |-> "SnapRUnlock", p |-> p]

\* What GET /servers/{s}/users/{u} shows for a snapshot r: the entry of u, zeros if u has recorded nothing yet.
UserFigures(r, u) == IF u \in r.listed THEN r.users[u] ELSE Zero
UserAnswer(r, u) == IF UserEndpointDefect THEN r.tot ELSE UserFigures(r, u)

\* The call returns; what the caller (the API client) sees.
Return(p) ==
    /\ pc[p] = "ret"
    /\ pc' = [pc EXCEPT ![p] = "idle"]
    /\ call' = [call EXCEPT ![p] = NoCall]
    /\ res' = [res EXCEPT ![p] = NoRes]
    /\ IF IsReset(p)
         THEN /\ outtot' = [f \in FieldSet |-> outtot[f] + res[p].tot[f]]
              /\ outuser' = [u \in Users |-> [f \in FieldSet |-> outuser[u][f] + UserFigures(res[p], u)[f]]]
         ELSE UNCHANGED <<outtot, outuser>>
    /\ UNCHANGED <<cnt, made, rd, rec, rep, called, ncoll, nsnap, nreset>>
    /\ act' = CASE call[p].op = "collect" -> [n |-> "Return", p |-> p, op |-> "collect"]
                [] call[p].op = "user" ->
                     [n |-> "Return", p |-> p, op |-> "user", u |-> call[p].u,
                      out |-> [user |-> UserAnswer(res[p], call[p].u), tot |-> res[p].tot]]
                [] OTHER ->
                     [n |-> "Return", p |-> p, op |-> call[p].op,
                      out |-> [tot |-> res[p].tot, users |-> res[p].users, listed |-> res[p].listed]]

\* Requests the API refuses without touching the collector: unknown server (ssm.go:66-70, 98-102) and a user
\* the credential manager does not know (ssm.go:136-140).
ApiNotFound(p, what, u) ==
    /\ p \in Snappers /\ pc[p] = "idle"
    /\ \/ what = "server" /\ u = None
       \/ what = "user" /\ u \in (Users \ Creds) \cup {"nobody"}
    /\ UNCHANGED sv
    /\ act' = [n |-> "ApiNotFound", p |-> p, what |-> what, u |-> u, out |-> 404]

Next ==
    \/ \E p \in Procs, k \in Kinds, u \in Buckets, a \in Amts : CallCollect(p, k, u, a)
    \/ \E p \in Procs : UcLookup(p) \/ UcCreate(p) \/ AddField(p)
    \/ \E p \in Procs, op \in SnapOps, u \in Creds \cup {None} : CallSnap(p, op, u)
    \/ \E p \in Procs : SnapAnon(p) \/ SnapRLock(p) \/ SnapRUnlock(p) \/ Return(p)
    \/ \E p \in Procs, u \in Users : SnapUserField(p, u)

\* with the refused requests (sequential API histories)
NextApi ==
    \/ Next
    \/ \E p \in Procs, u \in (Users \ Creds) \cup {"nobody", None} :
            ApiNotFound(p, IF u = None THEN "server" ELSE "user", u)

Spec == Init /\ [][Next]_vars

-----------------------------------------------------------------------------
Quiescent == \A p \in Procs : pc[p] = "idle"

TypeOK ==
    /\ \A b \in Buckets, f \in FieldSet : cnt[b][f] \in Nat
    /\ made \in [Users -> BOOLEAN]
    /\ rd \subseteq Procs
    /\ pc \in [Procs -> {"idle", "lookup", "create", "add", "anon", "rlock", "users", "runlock", "ret"}]

\* sc.mu: a collector is created only when nobody iterates the map; a counter is non-zero only in an existing bucket
LockOK ==
    /\ \A p \in rd : pc[p] \in {"users", "runlock"}
    /\ \A u \in Users : ~made[u] => cnt[u] = Zero /\ rec[u] = Zero
    /\ \A p \in Procs : pc[p] \in {"users", "runlock", "ret"} /\ call[p].op # "collect" =>
            \A u \in res[p].listed : made[u]

\* C14, "never drops or double-counts anything across successive snapshots", per figure of every bucket:
\* what resets (finished or still running) took out + what is still in the counter = what was recorded.
Conservation ==
    \A b \in Buckets, f \in FieldSet : rep[b][f] + cnt[b][f] = rec[b][f]

\* C14, "neither lose nor invent": nothing is in a counter that no call brought, and once every call has returned
\* everything the calls brought has arrived.
NoInvention ==
    \A b \in Buckets, f \in FieldSet :
        /\ rec[b][f] <= called[b][f]
        /\ Quiescent => rec[b][f] = called[b][f]

\* C14 as the API client sees it: the resets that returned + what a final snapshot would show = all sessions
\* recorded, for the server totals and for every user.
QuiescentConservation ==
    Quiescent =>
        /\ \A f \in FieldSet :
              outtot[f] + SumF([b \in Buckets |-> cnt[b][f]], Buckets) = SumF([b \in Buckets |-> called[b][f]], Buckets)
        /\ \A u \in Users, f \in FieldSet : outuser[u][f] + cnt[u][f] = called[u][f]

\* C14, "charge the right user", on snapshots: a user's figure in any (running or finished) snapshot never exceeds
\* what was recorded under that very name, and a finished plain snapshot taken while nothing else runs is exact.
Attribution ==
    \A p \in Procs : call[p].op \in {"snap", "reset", "user"} =>
        \A u \in Users, f \in FieldSet : UserFigures(res[p], u)[f] <= rec[u][f]

\* C14, "charge the right user", on the counters (action property): a counter of bucket b grows only by a step of a
\* Collect* call made for b, by exactly the amount that call carries for that figure, and shrinks only to zero.
AttributionStep ==
    [][ \A b \in Buckets, f \in FieldSet :
          /\ cnt'[b][f] > cnt[b][f] =>
                \E p \in Procs : /\ pc[p] = "add" /\ call[p].u = b /\ Prog[call[p].k][call[p].i].f = f
                                 /\ cnt'[b][f] - cnt[b][f] = Amount(Prog[call[p].k][call[p].i], call[p].x, call[p].y)
          /\ cnt'[b][f] < cnt[b][f] => cnt'[b][f] = 0 /\ \E p \in Procs : IsReset(p) /\ pc[p] \in {"anon", "users"}
      ]_vars

\* C14, "the totals a server reports equal the sum": inside one snapshot the total of a figure is the anonymous
\* bucket's value plus the listed users' values (values of different figures may stem from different instants).
TotalIsSum ==
    \A p \in Procs : pc[p] = "ret" /\ call[p].op # "collect" =>
        \A f \in FieldSet :
            res[p].tot[f] = res[p].anon[f] + SumF([u \in Users |-> res[p].users[u][f]], res[p].listed)

\* C14, last sentence: the per-user answer of the API is that user's figure of the snapshot it took, nothing else.
ApiUserExact ==
    \A p \in Procs : pc[p] = "ret" /\ call[p].op = "user" =>
        \A f \in FieldSet : UserAnswer(res[p], call[p].u)[f] <= rec[call[p].u][f]

\* With a single goroutine (the sequential API histories that are replayed) every answer is exact.
SequentialExact ==
    Cardinality(Procs) = 1 =>
        \A p \in Procs : pc[p] = "ret" /\ call[p].op \in {"snap", "user"} =>
            /\ \A u \in Users : UserFigures(res[p], u) = cnt[u]
            /\ \A f \in FieldSet : res[p].tot[f] = SumF([b \in Buckets |-> cnt[b][f]], Buckets)
            /\ call[p].op = "user" => UserAnswer(res[p], call[p].u) = cnt[call[p].u]
=============================================================================
