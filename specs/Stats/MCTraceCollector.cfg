CONSTANTS
  Users <- MCUsers
  Fields <- MCFields
  Prog <- MCProg
  Collectors <- MCProcs
  Snappers <- MCProcs
  Amts <- MCAmts
  SnapOps = {"snap", "reset", "user"}
  Creds <- MCUsers
  MaxCollect = 1000000
  MaxSnap = 1000000
  MaxReset = 1000000
  UserEndpointDefect = FALSE
  TraceFile <- MCTraceFile
INIT TInit
NEXT TNext
VIEW TView
CHECK_DEADLOCK FALSE
