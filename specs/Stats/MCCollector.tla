---------------------------- MODULE MCCollector ----------------------------
EXTENDS Collector, Json
MCFields == ${Fields}
MCProg == [k \in ${Kinds} |-> SessionProg[k]]
MCAmts == ${Amts}
MCCreds == ${Creds}
View == sv
\* The ghost variables never influence a guard or an output, so the graph that is replayed is the quotient without them.
GraphKey == <<cnt, made, rd, pc, call, res, ncoll, nsnap, nreset>>
GraphView == GraphKey
Obs == [cnt |-> cnt, made |-> made]
Emit == PrintT("EDGE " \o ToJson([f |-> GraphKey, a |-> act', t |-> GraphKey', o |-> Obs']))
EmitInit == PrintT("INIT " \o ToJson([t |-> GraphKey, o |-> Obs]))
InitE == Init /\ EmitInit
\* -simulate with one worker: consecutive steps form a behaviour, "d" (the length so far) falls back when the next one starts
EmitLite == PrintT("STEP " \o ToJson([d |-> TLCGet("level"), a |-> act', o |-> Obs']))
=============================================================================
