-------------------------- MODULE SlidingWindowInd --------------------------
(* Unbounded-counter proof obligation for the anti-replay window of          *)
(* ss2022/slidingwindow.go, for Apalache (inductive invariant).              *)
(*                                                                           *)
(* SlidingWindow.tla is checked by TLC over a small alphabet of counters and *)
(* replayed into the real filter; the region near 2^64 is reached there by   *)
(* translation.  This module removes the alphabet: `last` and the presented  *)
(* counter c range over ALL naturals.  The code paths (IsOk, MustAdd, Add,   *)
(* Reset) are transcribed as in SlidingWindow.tla; the ghost state is the    *)
(* delivered set restricted to the window, as offsets from `last`            *)
(* (d \in seenOff <=> counter last-d was delivered).  Counters that slid out *)
(* of the window are older than last-Size+1 by construction of Shift, and    *)
(* the property refuses those outright, so nothing is lost by forgetting     *)
(* them.                                                                     *)
(*                                                                           *)
(*   apalache-mc check --init=IndInit --inv=IndInv --length=1 (step)         *)
(*   apalache-mc check --init=Init    --inv=IndInv --length=0 (base)         *)
(* `agree` (part of IndInv) is the property: in the step just taken, IsOk    *)
(* and Add both decided exactly SpecOk for the presented counter.            *)
EXTENDS Integers, FiniteSets

CONSTANTS
    \* @type: Int;
    Size,
    \* @type: Int;
    B,
    \* @type: Int;
    RingBlocks

VARIABLES
    \* @type: Int;
    last,
    \* @type: Int -> Set(Int);
    ring,
    \* @type: Set(Int);
    seenOff,
    \* @type: Bool;
    agree

CInit == Size = 5 /\ B = 4 /\ RingBlocks = 2

Block(c) == c \div B
Idx(c)   == Block(c) % RingBlocks
Bit(c)   == c % B
Min(a, b) == IF a < b THEN a ELSE b

\* @type: (Int, Int -> Set(Int), Int) => Bool;
ImplOk(l, r, c) ==
    IF c > l THEN TRUE
    ELSE IF l - c >= Size THEN FALSE
    ELSE Bit(c) \notin r[Idx(c)]

IsCleared(l, c, b) ==
    LET lb == Block(l) IN ((b - lb - 1) % RingBlocks) < Min(Block(c) - lb, RingBlocks)
\* @type: (Int, Int -> Set(Int), Int) => (Int -> Set(Int));
ClearAhead(l, r, c) == [b \in DOMAIN r |-> IF IsCleared(l, c, b) THEN {} ELSE r[b]]
\* @type: (Int -> Set(Int), Int) => (Int -> Set(Int));
SetBit(r, c) == [r EXCEPT ![Idx(c)] = @ \cup {Bit(c)}]

\* @type: (Int, Int -> Set(Int), Int) => (Int -> Set(Int));
MustAddRing(l, r, c) == SetBit(IF c > l THEN ClearAhead(l, r, c) ELSE r, c)

\* @type: (Int, Int -> Set(Int), Int) => Bool;
AddOk(l, r, c) ==
    IF c > l THEN TRUE
    ELSE IF l - c >= Size THEN FALSE
    ELSE IF Bit(c) \in r[Idx(c)] THEN FALSE
    ELSE TRUE
\* @type: (Int, Int -> Set(Int), Int) => (Int -> Set(Int));
AddRing(l, r, c) ==
    IF c > l THEN SetBit(ClearAhead(l, r, c), c)
    ELSE IF l - c >= Size THEN r
    ELSE IF Bit(c) \in r[Idx(c)] THEN r
    ELSE SetBit(r, c)

\* C04 on the ghost: not delivered, and newer than or fewer than Size behind the newest delivered
SpecOk(c) == c > last \/ (last - c < Size /\ (last - c) \notin seenOff)
Shift(c) == IF c > last
            THEN {0} \cup {d + (c - last) : d \in {e \in seenOff : e + (c - last) < Size}}
            ELSE seenOff \cup {last - c}

Init ==
    /\ last = 0 /\ ring = [b \in 0..(RingBlocks - 1) |-> {}] /\ seenOff = {} /\ agree = TRUE

\* f.Add(c)
Add(c) ==
    LET ok == AddOk(last, ring, c) IN
    /\ last' = IF c > last THEN c ELSE last
    /\ ring' = AddRing(last, ring, c)
    /\ seenOff' = IF SpecOk(c) THEN Shift(c) ELSE seenOff
    /\ agree' = (ok = SpecOk(c))

\* if f.IsOk(c) { f.MustAdd(c) }
CheckAdd(c) ==
    LET ok == ImplOk(last, ring, c) IN
    /\ last' = IF ok /\ c > last THEN c ELSE last
    /\ ring' = IF ok THEN MustAddRing(last, ring, c) ELSE ring
    /\ seenOff' = IF SpecOk(c) THEN Shift(c) ELSE seenOff
    /\ agree' = (ok = SpecOk(c))

\* f.Reset(): last = 0, ring[0] = 0, the other blocks keep their bits
Reset ==
    /\ last' = 0 /\ ring' = [ring EXCEPT ![0] = {}] /\ seenOff' = {} /\ agree' = TRUE

Next ==
    \/ \E c \in Nat : Add(c) \/ CheckAdd(c)
    \/ Reset

-----------------------------------------------------------------------------
TypeOK ==
    /\ last \in Nat
    /\ ring \in [0..(RingBlocks - 1) -> SUBSET (0..(B - 1))]
    /\ seenOff \in SUBSET (0..(Size - 1))
    /\ agree \in BOOLEAN

\* within the window the ring is exactly the ghost set
Refine ==
    \A d \in 0..(Size - 1) :
        IF d <= last THEN (d \in seenOff) <=> (Bit(last - d) \in ring[Idx(last - d)])
        ELSE d \notin seenOff
\* the bits of last's block above last's bit are clear (they stand for counters not yet reached)
AboveClear == \A i \in 0..(B - 1) : i > Bit(last) => i \notin ring[Idx(last)]
\* nothing delivered: last = 0; something delivered: last itself was
Shape == IF seenOff = {} THEN last = 0 ELSE 0 \in seenOff

IndInv == TypeOK /\ Refine /\ AboveClear /\ Shape /\ agree
IndInit == IndInv
=============================================================================
