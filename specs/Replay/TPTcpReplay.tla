---------------------------- MODULE TPTcpReplay ----------------------------
(* Test purpose for TcpReplay with one history variable: the salt pool's list order is not its expiry order
   (a presenter sampled the clock earlier and added later), and an Add prunes an expired head while an expired
   entry sits behind a live one.  Every request that was live at that pruning is remembered in `mark`; the purpose
   is reached when such a request is presented again while its entry is live and its timestamp still passes.
   TLC's counterexample to ~Purpose is the witness behaviour that is replayed on the real server. *)
EXTENDS TcpReplay, Json

VARIABLE mark
MCSkews == ${Skews}
ReqSeq == ${ReqSeq}
Ord(r) == CHOOSE i \in 1..Len(ReqSeq) : ReqSeq[i] = r
Canon == \A r \in Reqs : (ts[r] = NoTs /\ ts'[r] # NoTs) => \A q \in Reqs : Ord(q) < Ord(r) => ts[q] # NoTs

PruningWithInversion(p) ==
    /\ pc[p] = "add" /\ pc'[p] = "idle"
    /\ Len(pool) >= 3
    /\ pool[1].e <= seen[p]
    /\ \E i, j \in 1..Len(pool) : i < j /\ pool[i].e > seen[p] /\ pool[j].e <= seen[p]

InitTP == Init /\ mark = {}
NextTP == /\ Next
          /\ mark' = IF \E p \in Procs : PruningWithInversion(p)
                       THEN mark \cup {pool[i].s : i \in {k \in 1..Len(pool) : pool[k].e > now}}
                       ELSE mark
View == <<sv, mark>>

Purpose ==
    /\ act.n = "Try" /\ act.out = "repeat"
    /\ act.r \in mark
    /\ \E i \in 1..Len(pool) : pool[i].s = act.r /\ pool[i].e > now
    /\ Abs(ts[act.r] - Sec(now)) <= PD
NotPurpose == ~Purpose
=============================================================================
