CONSTANTS
  Sizes <- MCSizes
  B = ${B}
  RingBlocksOf <- MCRingBlocksOf
  IdsOf <- MCIdsOf
  QueriesOf <- MCQueriesOf
  RelOf <- MCRelOf
  MaxAcc = ${MaxAcc}
  MaxReset = ${MaxReset}
INIT InitE
NEXT Next
VIEW View
${EMIT}
INVARIANTS TypeOK Exact AddEquiv LastIsNewest Refinement ClearedDef
PROPERTIES Inert Monotone
CHECK_DEADLOCK FALSE
