-------------------------- MODULE MCSlidingWindow --------------------------
EXTENDS SlidingWindow, Sequences, Json
MCSizes == ${Sizes}
MCRingBlocksOf == ${RingBlocksOf}
MCIdsOf == ${IdsOf}
MCQueriesOf == ${QueriesOf}
MCRelOf == ${RelOf}
View == sv
\* what the real filter lets us observe without changing it: IsOk over the whole alphabet
Obs == [size |-> size, probe |-> Ids, ok |-> {c \in Ids : ImplOk(last, ring, c)}]
Emit == PrintT("EDGE " \o ToJson([f |-> sv, a |-> act', t |-> sv', o |-> Obs']))
EmitInit == PrintT("INIT " \o ToJson([t |-> sv, o |-> Obs]))
InitE == Init /\ EmitInit
=============================================================================
