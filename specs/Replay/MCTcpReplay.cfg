CONSTANTS
  K = 3
  W = ${W}
  D = ${D}
  PD = 30
  Reqs = ${Reqs}
  Procs = ${Procs}
  Skews <- MCSkews
  Deltas = ${Deltas}
  MaxAdv = ${MaxAdv}
  MaxPres = ${MaxPres}
  Kinds = ${Kinds}
INIT InitE
NEXT Next
VIEW View
${EMIT}
INVARIANTS TypeOK FreshOnly AtMostOnce PoolNoDup ${EXTRA_INV}
PROPERTIES FailuresLeaveNothing PruneSound
CHECK_DEADLOCK FALSE
