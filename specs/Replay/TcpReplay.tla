------------------------------ MODULE TcpReplay ------------------------------
(* Replay protection of the Shadowsocks 2022 TCP handshake.                 *)
(* Code: ss2022/tcp.go StreamServer.HandleStream, ss2022/saltpool.go,       *)
(* ss2022/header.go ValidateUnixEpochTimestamp.                              *)
(*                                                                          *)
(* Time is in ticks, K ticks per second.  With K = 3 the three ticks of a   *)
(* second stand for "exactly on the second", "+1 ns" and "-1 ns before the  *)
(* next second": the coarsest grid on which whole-second truncation         *)
(* (now.Unix()), expiresAt.After(now) and now.Add(W) behave as in the code. *)
EXTENDS Integers, Sequences, FiniteSets, TLC

CONSTANTS
    K,          \* ticks per second
    W,          \* code: ReplayWindowDuration, in ticks
    D,          \* code: MaxEpochDiff, seconds
    PD,         \* the property's tolerance, seconds (30)
    Reqs,       \* request identities (= salts)
    Procs,      \* concurrent presenters
    Skews,      \* client clock skews (seconds) chosen when a request is minted
    Deltas,     \* clock advances (ticks)
    MaxAdv,     \* bound on the number of clock advances
    MaxPres,    \* bound on the number of presentations
    Kinds       \* presentation kinds: "good", "forged" (fails AEAD), "badtype"

VARIABLES
    now,        \* server clock (ticks)
    pool,       \* salt pool in list order, head first: Seq([s: Reqs, e: Int])
    ts,         \* ts[r]: timestamp (seconds) carried by request r, or NoTs
    pc,         \* pc[p] \in {"idle","auth","add"}
    cur,        \* cur[p] = [r |-> request, k |-> kind] being presented by p
    seen,       \* seen[p]: the 'now' captured by p (time.Now() after the AEAD open)
    nacc,       \* ghost: nacc[r] = number of times r was accepted
    accAt,      \* ghost: accAt[r] = clock (ticks) captured at the last acceptance
    twice,      \* ghost: some request was accepted again at an instant at which its timestamp still passes
    nadv, npres,
    act         \* last action, with the outcome the model expects (output only)

NoTs == -1000000
sv == <<now, pool, ts, pc, cur, seen, nacc, accAt, twice, nadv, npres>>
vars == <<sv, act>>

Sec(t) == t \div K
InPool(r) == \E i \in 1..Len(pool) : pool[i].s = r
Abs(x) == IF x < 0 THEN -x ELSE x

\* saltpool.go pruneExpired: pop from the head while ~expiresAt.After(now); stop at the first
\* live node (later nodes are not inspected even if they are expired).
RECURSIVE Prune(_, _)
Prune(q, n) == IF q = <<>> \/ q[1].e > n THEN q ELSE Prune(Tail(q), n)

Init ==
    /\ now = 0 /\ pool = <<>>
    /\ ts = [r \in Reqs |-> NoTs]
    /\ pc = [p \in Procs |-> "idle"]
    /\ cur = [p \in Procs |-> [r |-> CHOOSE r \in Reqs : TRUE, k |-> "good"]]
    /\ seen = [p \in Procs |-> 0]
    /\ nacc = [r \in Reqs |-> 0]
    /\ accAt = [r \in Reqs |-> 0]
    /\ twice = FALSE
    /\ nadv = 0 /\ npres = 0
    /\ act = [n |-> "Init"]

Advance(d) ==
    /\ nadv < MaxAdv
    /\ now' = now + d /\ nadv' = nadv + 1
    /\ UNCHANGED <<pool, ts, pc, cur, seen, nacc, accAt, twice, npres>>
    /\ act' = [n |-> "Advance", d |-> d, now |-> now + d]

Done(p, out) ==
    /\ pc' = [pc EXCEPT ![p] = "idle"]
    /\ act' = [n |-> act'.n, p |-> p, out |-> out]

\* The client builds request r (timestamp = its own clock = server second + skew) on first use.
\* Try(p, r, k, sk): p reads the header of a presentation of r and runs saltPool.TryContains.
Try(p, r, k, sk) ==
    /\ pc[p] = "idle" /\ npres < MaxPres
    /\ IF ts[r] = NoTs THEN ts' = [ts EXCEPT ![r] = Sec(now) + sk]
                       ELSE ts' = ts /\ sk = CHOOSE s \in Skews : TRUE
    /\ npres' = npres + 1
    /\ cur' = [cur EXCEPT ![p] = [r |-> r, k |-> k]]
    /\ UNCHANGED <<now, pool, seen, nacc, accAt, twice, nadv>>
    /\ IF InPool(r)
         THEN /\ pc' = pc
              /\ act' = [n |-> "Try", p |-> p, r |-> r, k |-> k, ts |-> ts'[r], out |-> "repeat"]
         ELSE /\ pc' = [pc EXCEPT ![p] = "auth"]
              /\ act' = [n |-> "Try", p |-> p, r |-> r, k |-> k, ts |-> ts'[r], out |-> "pending"]

\* AEAD open of the fixed-length header, now := time.Now(), type + timestamp validation.
Auth(p) ==
    /\ pc[p] = "auth"
    /\ LET r == cur[p].r IN
       /\ UNCHANGED <<now, pool, ts, cur, nacc, accAt, twice, nadv, npres>>
       /\ IF cur[p].k = "forged"
            THEN /\ pc' = [pc EXCEPT ![p] = "idle"] /\ seen' = seen
                 /\ act' = [n |-> "Auth", p |-> p, out |-> "autherr"]
          ELSE IF cur[p].k = "badtype"
            THEN /\ pc' = [pc EXCEPT ![p] = "idle"] /\ seen' = seen
                 /\ act' = [n |-> "Auth", p |-> p, out |-> "typeerr"]
          ELSE IF Abs(ts[r] - Sec(now)) > D
            THEN /\ pc' = [pc EXCEPT ![p] = "idle"] /\ seen' = seen
                 /\ act' = [n |-> "Auth", p |-> p, out |-> "badts"]
          ELSE /\ pc' = [pc EXCEPT ![p] = "add"]
               /\ seen' = [seen EXCEPT ![p] = now]
               /\ act' = [n |-> "Auth", p |-> p, out |-> "pending"]

\* saltPool.Add(now, salt) under the pool lock: prune with the captured now, then test-and-insert.
Add(p) ==
    /\ pc[p] = "add"
    /\ LET r == cur[p].r
           q == Prune(pool, seen[p]) IN
       /\ UNCHANGED <<now, ts, cur, seen, nadv, npres>>
       /\ pc' = [pc EXCEPT ![p] = "idle"]
       /\ IF \E i \in 1..Len(q) : q[i].s = r
            THEN /\ pool' = q /\ nacc' = nacc /\ accAt' = accAt /\ twice' = twice
                 /\ act' = [n |-> "Add", p |-> p, out |-> "repeat"]
            ELSE /\ pool' = Append(q, [s |-> r, e |-> seen[p] + W])
                 /\ nacc' = [nacc EXCEPT ![r] = @ + 1]
                 /\ accAt' = [accAt EXCEPT ![r] = seen[p]]
                 /\ twice' = (twice \/ (nacc[r] > 0 /\ Abs(ts[r] - Sec(now)) <= PD))
                 /\ act' = [n |-> "Add", p |-> p, out |-> "accept"]

Next ==
    \/ \E d \in Deltas : Advance(d)
    \/ \E p \in Procs, r \in Reqs, k \in Kinds, sk \in Skews : Try(p, r, k, sk)
    \/ \E p \in Procs : Auth(p) \/ Add(p)

Spec == Init /\ [][Next]_vars

-----------------------------------------------------------------------------
TypeOK ==
    /\ now \in Nat
    /\ \A i \in 1..Len(pool) : pool[i].s \in Reqs /\ pool[i].e \in Nat
    /\ pc \in [Procs -> {"idle", "auth", "add"}]

\* C03 (1): accepted only within the property's tolerance of the server clock.
FreshOnly ==
    \A r \in Reqs : nacc[r] > 0 => Abs(ts[r] - Sec(accAt[r])) <= PD

\* C03 (2): the same request is never accepted a second time at an instant at which its
\* timestamp would still pass.  (A presenter that stalls for more than a minute between
\* time.Now() and saltPool.Add can be accepted late; at that instant the timestamp no longer
\* passes, which the property does not forbid.)
AtMostOnce == ~twice

\* Map and list agree: no salt twice in the list.
PoolNoDup == \A i, j \in 1..Len(pool) : pool[i].s = pool[j].s => i = j

\* C03 (3), action property: a presentation that does not end in acceptance leaves the pool's
\* membership unchanged except for pruning of expired entries.
FailuresLeaveNothing ==
    [][ \A r \in Reqs : (InPool(r))' /\ ~InPool(r) => nacc'[r] = nacc[r] + 1 ]_vars

\* Pruning is sound: an entry leaves the pool only when expired w.r.t. the clock of the pruner,
\* which is never ahead of the server clock.
PruneSound ==
    [][ \A i \in 1..Len(pool) :
          (~ \E j \in 1..Len(pool') : pool'[j] = pool[i]) => pool[i].e <= now ]_vars
=============================================================================
