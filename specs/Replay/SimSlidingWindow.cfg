CONSTANTS
  Sizes <- MCSizes
  B = ${B}
  RingBlocksOf <- MCRingBlocksOf
  IdsOf <- MCIdsOf
  QueriesOf <- MCQueriesOf
  RelOf <- MCRelOf
  MaxAcc = ${MaxAcc}
  MaxReset = ${MaxReset}
INIT SimInit
NEXT SimNext
INVARIANTS Exact TraceOut
CHECK_DEADLOCK FALSE
