---------------------------- MODULE MCTcpReplay ----------------------------
EXTENDS TcpReplay, Json
MCSkews == ${Skews}
View == sv
Obs == [now |-> now, pool |-> pool]
Emit == PrintT("EDGE " \o ToJson([f |-> sv, a |-> act', t |-> sv', o |-> Obs']))
EmitInit == PrintT("INIT " \o ToJson([t |-> sv, o |-> Obs]))
InitE == Init /\ EmitInit
=============================================================================
