---------------------------- MODULE MCTcpReplay ----------------------------
EXTENDS TcpReplay, Json
MCSkews == ${Skews}
View == sv
Obs == [now |-> now, pool |-> pool]
Emit == PrintT("EDGE " \o ToJson([f |-> sv, a |-> act', t |-> sv', o |-> Obs']))
EmitInit == PrintT("INIT " \o ToJson([t |-> sv, o |-> Obs]))
InitE == Init /\ EmitInit

(* ---- reduction: requests are interchangeable, so they are minted in the order of ReqSeq ---- *)
ReqSeq == ${ReqSeq}
Ord(r) == CHOOSE i \in 1..Len(ReqSeq) : ReqSeq[i] = r
Canon == \A r \in Reqs : (ts[r] = NoTs /\ ts'[r] # NoTs) => \A q \in Reqs : Ord(q) < Ord(r) => ts[q] # NoTs

(* ---- test purposes: states the design reaches and whose witness behaviour (TLC's counterexample to the
        negated purpose) is replayed on the real server; they direct the replay to corners that a path cover of
        the small graph and random walks do not reach (see also TPTcpReplay.tla) ---- *)
Idx(r) == CHOOSE i \in 1..Len(pool) : pool[i].s = r

\* A request is presented again exactly at the instant its pool entry expires while its timestamp still passes
\* (the boundary between "repeat" and a second acceptance).
PurposeBoundary ==
    /\ act.n = "Try" /\ act.out = "repeat"
    /\ LET r == act.r IN pool[Idx(r)].e = now + 1 /\ Abs(ts[r] - Sec(now)) <= PD /\ Len(pool) >= 2
NotPurposeBoundary == ~PurposeBoundary

\* Two presenters hold the same request between the clock sample and Add, and the second Add reports the repeat.
PurposeRace ==
    /\ act.n = "Add" /\ act.out = "repeat"
    /\ \E p \in Procs : pc[p] = "auth"
NotPurposeRace == ~PurposeRace
=============================================================================
