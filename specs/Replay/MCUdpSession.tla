---------------------------- MODULE MCUdpSession ----------------------------
EXTENDS UdpSession, Json
MCSkews == ${Skews}
MCSOrder == ${SOrder}
MCCSess == ${CSess}
View == sv
\* What the real unpackers let us observe without (if they are correct) changing them: the verdict on a copy with
\* one flipped body bit of every packet packed so far -- ErrReplay iff the filter of its session refuses the id,
\* ErrTooManyServerSessions iff the client would refuse a new session now, an AEAD error otherwise.
Obs == [srv |-> [c \in CSess |-> [i \in 1..npk[c] |-> SrvOut(c, i - 1, "forged")]],
        cli |-> [s \in SSess |-> [i \in 1..npk[s] |-> CliOut(s, i - 1, "forged")]]]
Emit == PrintT("EDGE " \o ToJson([f |-> sv, a |-> act', t |-> sv', o |-> Obs']))
EmitInit == PrintT("INIT " \o ToJson([t |-> sv, o |-> Obs]))
InitE == Init /\ EmitInit
=============================================================================
