------------------------------ MODULE UdpSession ------------------------------
(* Session logic of the Shadowsocks 2022 UDP unpackers around the sliding      *)
(* window filter.                                                              *)
(* Code: ss2022/packet.go  ShadowPacketServerUnpacker.UnpackInPlace (server    *)
(*       side: one unpacker per client session, filter created lazily),        *)
(*       ShadowPacketClientUnpacker.UnpackInPlace (client side: current + one  *)
(*       old server session, at most one change per minute);                   *)
(*       ss2022/header.go  ParseUDPClientMessageHeader / ParseUDPServerMessage-*)
(*       Header / ValidateUnixEpochTimestamp (type, timestamp, client session  *)
(*       id checks, in that order);                                            *)
(*       ss2022/udp.go  UDPServer.SessionInfo/NewUnpacker (the session table   *)
(*       is keyed by the client session id; UDPServer.Info().MinNATTimeout is  *)
(*       the least idle time after which the relay may drop a session,         *)
(*       service/udp_session.go), UDPClient.NewSession.                        *)
(*                                                                             *)
(* The filter is the abstract window (last, seen restricted to the window);    *)
(* SlidingWindow.tla shows that the ring implementation refines it.            *)
(*                                                                             *)
(* Time is in ticks, K ticks per second; with K = 3 the ticks of a second      *)
(* stand for .000000000, .000000001 and .999999999 (see TcpReplay.tla): the    *)
(* coarsest grid on which whole-second timestamps (now.Unix()) and the         *)
(* nanosecond comparisons time.Since(t) < time.Minute / idle >= NAT timeout    *)
(* behave as in the code.                                                      *)
EXTENDS Integers, FiniteSets, Sequences, TLC

CONSTANTS
    K,          \* ticks per second
    D,          \* code: MaxEpochDiff (seconds)
    Guard,      \* code: the literal time.Minute in ShadowPacketClientUnpacker.UnpackInPlace (seconds)
    NatTimeout, \* code: UDPServer.Info().MinNATTimeout (seconds): earliest eviction of an idle server-side session
    W,          \* code: filterSize handed to NewUDPServer / NewUDPClient
    CSess,      \* client sessions seen by the server side ({} switches the server side off)
    SOrder,     \* server sessions seen by the client side, in the order the server creates them (<<>> = client side off)
    MaxPid,     \* packets per session: ids 0..MaxPid-1, packed in order by the real packers
    MaxPack,    \* bound on the total number of packets packed
    Skews,      \* timestamp skews (seconds) of the packing side's clock
    Deltas,     \* clock advances (ticks)
    MaxAdv,     \* bound on the number of clock advances
    SrvKinds,   \* how a packet reaches the server: "good","forged","hdrflip","badtype"
    CliKinds    \* how a packet reaches the client: the same plus "foreign" (another client's session id)

VARIABLES
    now,        \* clock (ticks), shared by both sides
    npk,        \* npk[s] = number of packets packed so far in session s (next packet id)
    pts,        \* pts[s][p] = timestamp (seconds) written into packet p of session s
    \* ---- server side, per client session c (the relay's session table entry)
    sflt,       \* sflt[c] = ShadowPacketServerUnpacker.filter: [on, last, seen]; on = FALSE is the nil filter / no table entry
    sact,       \* sact[c] = instant of the last delivered packet (the relay re-arms the NAT timeout then)
    sdel,       \* ghost: packet ids of c ever delivered
    sdup,       \* ghost: some packet was delivered twice by the server side
    \* ---- client side (one ShadowPacketClientUnpacker)
    cur,        \* current server session: [sid, f]  (sid = "none": currentServerSessionAEAD == nil)
    old,        \* old server session:     [sid, f]  (sid = "none": oldServerSessionAEAD == nil)
    oldAt,      \* oldServerSessionLastSeenTime (tick), Never = the zero time
    cdel,       \* ghost: <<s, p>> ever delivered
    cdup,       \* ghost: some packet was delivered twice by the client side
    chgAt,      \* ghost: instant of the last accepted change of server session (a current session existed before)
    prev,       \* ghost: the session that was current before that change
    fast,       \* ghost: two accepted changes less than Guard seconds apart
    nadv,
    act         \* last action, with the outcome the model expects (output only)

srv == <<sflt, sact, sdel, sdup>>
cli == <<cur, old, oldAt, cdel, cdup, chgAt, prev, fast>>
sv == <<now, npk, pts, srv, cli, nadv>>
vars == <<sv, act>>

NoTs == -1000000
Never == -1
SSess == {SOrder[i] : i \in 1..Len(SOrder)}
Sess == CSess \cup SSess
Pids == 0..(MaxPid - 1)

Sec(t) == t \div K
Frac(t) == t % K
\* now - from >= secs seconds, exactly (nanosecond comparison on the tick grid); from <= now
ElapsedAtLeast(from, secs) ==
    LET ds == Sec(now) - Sec(from) IN ds > secs \/ (ds = secs /\ Frac(now) >= Frac(from))
\* time.Since(t) < time.Minute; the zero time is long ago
Within(t) == t # Never /\ ~ElapsedAtLeast(t, Guard)

\* header.go ValidateUnixEpochTimestamp: whole seconds, |ts - now.Unix()| <= MaxEpochDiff
Valid(ts) == ts - Sec(now) <= D /\ Sec(now) - ts <= D

\* ---- the abstract sliding window (refined by SlidingWindow.tla)
NilF == [on |-> FALSE, last |-> 0, seen |-> {}]
FOk(f, c) == ~f.on \/ c > f.last \/ (f.last - c < W /\ c \notin f.seen)   \* `filter != nil && !filter.IsOk(pid)` negated
FAdd(f, c) ==                                                               \* (NewSlidingWindowFilter;) MustAdd
    LET l == IF f.on /\ f.last > c THEN f.last ELSE c
    IN  [on |-> TRUE, last |-> l, seen |-> {x \in f.seen \cup {c} : l - x < W}]
NoSess == [sid |-> "none", f |-> NilF]

Init ==
    /\ now = 0 /\ nadv = 0
    /\ npk = [s \in Sess |-> 0]
    /\ pts = [s \in Sess |-> [p \in Pids |-> NoTs]]
    /\ sflt = [c \in CSess |-> NilF] /\ sact = [c \in CSess |-> 0]
    /\ sdel = [c \in CSess |-> {}] /\ sdup = FALSE
    /\ cur = NoSess /\ old = NoSess /\ oldAt = Never
    /\ cdel = {} /\ cdup = FALSE /\ chgAt = Never /\ prev = "none" /\ fast = FALSE
    /\ act = [n |-> "Init"]

Advance(d) ==
    /\ nadv < MaxAdv
    /\ now' = now + d /\ nadv' = nadv + 1
    /\ UNCHANGED <<npk, pts, srv, cli>>
    /\ act' = [n |-> "Advance", d |-> d, now |-> now + d]

Total == LET RECURSIVE Sum(_) Sum(S) == IF S = {} THEN 0 ELSE LET x == CHOOSE x \in S : TRUE IN npk[x] + Sum(S \ {x}) IN Sum(Sess)

\* The packer of session s packs its next packet (packet.go PackInPlace: id = cpid/spid++, timestamp = time.Now()).
\* A server session exists only after the previous one has sent something (server sessions are created in order).
Pack(s, sk) ==
    /\ npk[s] < MaxPid /\ Total < MaxPack
    /\ \A i \in 2..Len(SOrder) : s = SOrder[i] => npk[SOrder[i - 1]] > 0
    /\ npk' = [npk EXCEPT ![s] = @ + 1]
    /\ pts' = [pts EXCEPT ![s][npk[s]] = Sec(now) + sk]
    /\ UNCHANGED <<now, nadv, srv, cli>>
    /\ act' = [n |-> "Pack", s |-> s, p |-> npk[s], sk |-> sk, ts |-> Sec(now) + sk]

-----------------------------------------------------------------------------
(* Server side: ShadowPacketServerUnpacker.UnpackInPlace, packet.go:435 *)

\* The verdict, in the order of the code: replay check on the (unauthenticated) packet id, AEAD open,
\* type, timestamp.  A flipped bit in the separate header (AES block) yields another session id: the
\* packet goes to some other table entry and fails to authenticate there.
SrvOut(c, p, k) ==
    IF k = "hdrflip" THEN "autherr"
    ELSE IF ~FOk(sflt[c], p) THEN "replay"
    ELSE IF k = "forged" THEN "autherr"
    ELSE IF k = "badtype" THEN "typeerr"
    ELSE IF ~Valid(pts[c][p]) THEN "badts"
    ELSE "ok"

SrvRecv(c, p, k) ==
    /\ p < npk[c]
    /\ LET out == SrvOut(c, p, k) IN
       /\ IF out = "ok"
            THEN /\ sflt' = [sflt EXCEPT ![c] = FAdd(@, p)]          \* filter created on first success, MustAdd
                 /\ sact' = [sact EXCEPT ![c] = now]
                 /\ sdel' = [sdel EXCEPT ![c] = @ \cup {p}]
                 /\ sdup' = (sdup \/ p \in sdel[c])
            ELSE UNCHANGED srv
       /\ act' = [n |-> "SrvRecv", s |-> c, p |-> p, k |-> k, out |-> out]
    /\ UNCHANGED <<now, nadv, npk, pts, cli>>

\* The relay drops the table entry of an idle session (service/udp_session.go; the configured NAT timeout is
\* at least UDPServer.Info().MinNATTimeout, service/server.go:213).  The next packet gets a fresh unpacker.
Evict(c) ==
    /\ sflt[c].on /\ ElapsedAtLeast(sact[c], NatTimeout)
    /\ sflt' = [sflt EXCEPT ![c] = NilF]
    /\ UNCHANGED <<now, nadv, npk, pts, sact, sdel, sdup, cli>>
    /\ act' = [n |-> "Evict", s |-> c]

-----------------------------------------------------------------------------
(* Client side: ShadowPacketClientUnpacker.UnpackInPlace, packet.go:291 *)

\* the switch at packet.go:323
CliStatus(s, k) ==
    IF k # "hdrflip" /\ cur.sid = s THEN "cur"
    ELSE IF k # "hdrflip" /\ old.sid = s THEN "old"
    ELSE IF Within(oldAt) THEN "refuse"
    ELSE "new"

CliFilter(st) == IF st = "cur" THEN cur.f ELSE IF st = "old" THEN old.f ELSE NilF

\* replay check, AEAD open, then ParseUDPServerMessageHeader: type, timestamp, client session id
CliOut(s, p, k) ==
    LET st == CliStatus(s, k) IN
    IF st = "refuse" THEN "toomany"
    ELSE IF ~FOk(CliFilter(st), p) THEN "replay"
    ELSE IF k \in {"forged", "hdrflip"} THEN "autherr"
    ELSE IF k = "badtype" THEN "typeerr"
    ELSE IF ~Valid(pts[s][p]) THEN "badts"
    ELSE IF k = "foreign" THEN "csiderr"
    ELSE "ok"

CliRecv(s, p, k) ==
    /\ p < npk[s]
    /\ LET out == CliOut(s, p, k)
           st  == CliStatus(s, k) IN
       /\ IF out # "ok" THEN UNCHANGED cli
          ELSE /\ cdel' = cdel \cup {<<s, p>>}
               /\ cdup' = (cdup \/ <<s, p>> \in cdel)
               /\ CASE st = "cur" ->
                         /\ cur' = [cur EXCEPT !.f = FAdd(@, p)]
                         /\ UNCHANGED <<old, oldAt, chgAt, prev, fast>>
                    [] st = "old" ->
                         /\ old' = [old EXCEPT !.f = FAdd(@, p)]
                         /\ oldAt' = now                               \* packet.go:376
                         /\ UNCHANGED <<cur, chgAt, prev, fast>>
                    [] st = "new" ->                                   \* packet.go:377-384
                         /\ old' = cur /\ oldAt' = now
                         /\ cur' = [sid |-> s, f |-> FAdd(NilF, p)]
                         /\ IF cur.sid # "none"
                              THEN /\ chgAt' = now /\ prev' = cur.sid
                                   /\ fast' = (fast \/ Within(chgAt))
                              ELSE UNCHANGED <<chgAt, prev, fast>>
       /\ act' = [n |-> "CliRecv", s |-> s, p |-> p, k |-> k, out |-> out]
    /\ UNCHANGED <<now, nadv, npk, pts, srv>>

Next ==
    \/ \E d \in Deltas : Advance(d)
    \/ \E s \in Sess, sk \in Skews : Pack(s, sk)
    \/ \E c \in CSess, p \in Pids, k \in SrvKinds : SrvRecv(c, p, k)
    \/ \E c \in CSess : Evict(c)
    \/ \E s \in SSess, p \in Pids, k \in CliKinds : CliRecv(s, p, k)

Spec == Init /\ [][Next]_vars

-----------------------------------------------------------------------------
(* Properties (C04, session layer) *)

TypeOK ==
    /\ now \in Nat /\ npk \in [Sess -> 0..MaxPid]
    /\ \A c \in CSess : sflt[c].on \in BOOLEAN /\ sflt[c].seen \subseteq Pids /\ sdel[c] \subseteq Pids
    /\ cur.sid \in SSess \cup {"none"} /\ old.sid \in SSess \cup {"none"}
    /\ cdel \subseteq (SSess \X Pids)

SetMax(S) == CHOOSE x \in S : \A y \in S : y <= x
Fresh(delivered, p) == p \notin delivered /\ (delivered = {} \/ p > SetMax(delivered) \/ SetMax(delivered) - p < W)

\* a packet is delivered at most once, for ever (also across eviction and across server session changes)
SrvDeliverOnce == ~sdup
CliDeliverOnce == ~cdup

\* a genuine packet with an acceptable timestamp that was not delivered and is newer than, or fewer than W
\* behind, the newest delivered one is accepted, whatever happened before
SrvFreshAccepted ==
    \A c \in CSess, p \in Pids :
        p < npk[c] /\ Valid(pts[c][p]) /\ Fresh(sdel[c], p) => SrvOut(c, p, "good") = "ok"
CliFreshAccepted ==
    \A p \in Pids :
        LET s == cur.sid IN
        s # "none" /\ p < npk[s] /\ Valid(pts[s][p]) /\ Fresh({q \in Pids : <<s, q>> \in cdel}, p)
            => CliOut(s, p, "good") = "ok"

\* the filters hold nothing but delivered packets of their session, all inside the window below `last`
FilterOf(f, delivered) ==
    f.on => /\ f.seen # {} /\ f.last = SetMax(f.seen)
            /\ f.seen \subseteq delivered
            /\ \A x \in f.seen : f.last - x < W
SrvFilterExact == \A c \in CSess : FilterOf(sflt[c], sdel[c])
CliFilterExact ==
    /\ cur.sid # "none" => cur.f.on /\ FilterOf(cur.f, {p \in Pids : <<cur.sid, p>> \in cdel})
    /\ old.sid # "none" => old.f.on /\ FilterOf(old.f, {p \in Pids : <<old.sid, p>> \in cdel})
    /\ old.sid # "none" => old.sid # cur.sid
    /\ cur.sid = "none" => old.sid = "none" /\ oldAt = Never

\* a packet that is not delivered changes nothing: forged, stale, wrong type, foreign session id, replayed,
\* refused new session
BadPacketsInert ==
    [][ act'.n \in {"SrvRecv", "CliRecv"} /\ act'.out # "ok" => UNCHANGED <<srv, cli>> ]_vars
\* and nothing but a genuine packet is ever delivered
OnlyGenuineDelivered ==
    [][ act'.n \in {"SrvRecv", "CliRecv"} /\ act'.out = "ok"
          => act'.k = "good" /\ Valid(pts[act'.s][act'.p]) ]_vars

\* the client refuses more than one change of server session per minute
OneChangePerMinute == ~fast
\* for a minute after a change the previous session is still known (so that its replays meet its filter)
OldSessionStillFiltered == Within(chgAt) => old.sid = prev /\ old.f.on
\* a session record is discarded only by a change, and only when the old one has been silent for a minute
DiscardOnlyAfterGuard ==
    [][ old'.sid # old.sid => act'.n = "CliRecv" /\ act'.out = "ok" /\ ~Within(oldAt) /\ old' = cur ]_vars
\* the server side filter is created by the first delivered packet only (lazy), and dropped by Evict only
LazyFilter ==
    [][ \A c \in CSess :
          /\ (~sflt[c].on /\ sflt'[c].on) => act'.n = "SrvRecv" /\ act'.out = "ok"
          /\ (sflt[c].on /\ ~sflt'[c].on) => act'.n = "Evict" ]_vars
=============================================================================
