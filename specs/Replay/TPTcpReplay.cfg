CONSTANTS
  K = 3
  W = ${W}
  D = ${D}
  PD = 30
  Reqs = ${Reqs}
  Procs = ${Procs}
  Skews <- MCSkews
  Deltas = ${Deltas}
  MaxAdv = ${MaxAdv}
  MaxPres = ${MaxPres}
  Kinds = ${Kinds}
INIT InitTP
NEXT NextTP
VIEW View
ACTION_CONSTRAINT Canon
INVARIANTS TypeOK FreshOnly AtMostOnce PoolNoDup NotPurpose
CHECK_DEADLOCK FALSE
