CONSTANTS
  K = 3
  D = ${D}
  Guard = ${Guard}
  NatTimeout = ${NatTimeout}
  W = ${W}
  CSess <- MCCSess
  SOrder <- MCSOrder
  MaxPid = ${MaxPid}
  MaxPack = ${MaxPack}
  Skews <- MCSkews
  Deltas = ${Deltas}
  MaxAdv = ${MaxAdv}
  SrvKinds = ${SrvKinds}
  CliKinds = ${CliKinds}
INIT InitE
NEXT Next
VIEW View
${EMIT}
INVARIANTS TypeOK SrvDeliverOnce CliDeliverOnce SrvFreshAccepted CliFreshAccepted SrvFilterExact CliFilterExact OneChangePerMinute OldSessionStillFiltered
PROPERTIES BadPacketsInert OnlyGenuineDelivered DiscardOnlyAfterGuard LazyFilter
CHECK_DEADLOCK FALSE
