-------------------------- MODULE SimSlidingWindow --------------------------
(* Simulation wrapper: a history variable (harmless in -simulate mode) collects the behaviour, which is  *)
(* printed as one line when the trace has reached the requested length.                                *)
EXTENDS SlidingWindow, Sequences, Json
VARIABLE hist
MCSizes == ${Sizes}
MCRingBlocksOf == ${RingBlocksOf}
MCIdsOf == ${IdsOf}
MCQueriesOf == ${QueriesOf}
MCRelOf == ${RelOf}
Obs == [size |-> size, probe |-> Ids, ok |-> {c \in Ids : ImplOk(last, ring, c)}]
SimInit == Init /\ hist = <<>>
SimNext == Next /\ hist' = Append(hist, [a |-> act', o |-> Obs'])
TraceOut == Len(hist) < ${Len} \/ PrintT("TRACE " \o ToJson([init |-> [size |-> size], steps |-> hist]))
=============================================================================
