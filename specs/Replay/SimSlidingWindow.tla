-------------------------- MODULE SimSlidingWindow --------------------------
(* Simulation wrapper: a history variable (harmless in -simulate mode) collects the behaviour, which is  *)
(* printed as one line when the trace has reached the requested length.  TLC evaluates invariants on    *)
(* every candidate successor; only the candidate whose last step is the IsOk query prints (QueriesOf    *)
(* holds one counter in this configuration), i.e. one line per simulated trace.                         *)
EXTENDS SlidingWindow, Sequences, Json
VARIABLE hist
MCSizes == ${Sizes}
MCRingBlocksOf == ${RingBlocksOf}
MCIdsOf == ${IdsOf}
MCQueriesOf == ${QueriesOf}
MCRelOf == ${RelOf}
Obs == [size |-> size, probe |-> Ids, ok |-> {c \in Ids : ImplOk(last, ring, c)}]
SimInit == Init /\ hist = <<>>
SimNext == Next /\ hist' = Append(hist, [a |-> act', o |-> Obs'])
TraceOut == Len(hist) < ${Len} \/ act.n # "IsOk" \/ PrintT("TRACE " \o ToJson([init |-> [size |-> size], steps |-> hist]))
=============================================================================
