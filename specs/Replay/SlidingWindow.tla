---------------------------- MODULE SlidingWindow ----------------------------
(* The anti-replay sliding window of Shadowsocks 2022 UDP sessions.           *)
(* Code: ss2022/slidingwindow.go (SlidingWindowFilter: NewSlidingWindowFilter,*)
(* IsOk, MustAdd, Add, Reset).                                                *)
(*                                                                            *)
(* The ring of bit blocks is explicit (ring[b] = set of bit positions set in  *)
(* block b), next to the ghost set `seen` of all counters accepted since the  *)
(* last Reset.  The property (C04, filter layer) is stated on the ghost set   *)
(* only (SpecOk); Exact says that the ring implementation decides exactly     *)
(* that predicate, for every counter of the alphabet, in every reachable      *)
(* state.                                                                     *)
(*                                                                            *)
(* Counters are uint64 in the code.  TLC integers are 32 bit, so the model    *)
(* works on a small alphabet Ids; the region near 2^64-1 is reached in the    *)
(* replay by translation by a multiple of the ring period RingBlocks*B,       *)
(* under which the filter is invariant (everything below depends on counters  *)
(* only through differences, c \div B differences and c % (RingBlocks*B)).    *)
EXTENDS Integers, FiniteSets, TLC

CONSTANTS
    Sizes,        \* the window sizes for which a filter may be constructed
    B,            \* code: swfBlockBits = bits.UintSize
    RingBlocksOf, \* code: RingBlocksOf[s] = len(f.ring) as allocated by NewSlidingWindowFilter(s) (read from the compiled code)
    IdsOf,        \* IdsOf[s] = alphabet of counters presented to a filter of size s
    RelOf,        \* RelOf[s] = offsets d: the counters last+d (>= 0) are presented too (the window edge wherever the window is)
    QueriesOf,    \* QueriesOf[s] = counters for which explicit IsOk calls are generated (self loops)
    MaxAcc,       \* bound: number of accepted counters per epoch (since construction / Reset)
    MaxReset      \* bound: number of Reset calls

VARIABLES
    size,        \* code: f.size, fixed by the constructor
    last,        \* code: f.last
    ring,        \* code: f.ring, ring[b] = set of bit indices set in block b
    seen,        \* ghost: counters accepted since construction / the last Reset
    nreset,      \* bound counter
    act          \* last action and the verdict the model expects (output only)

sv == <<size, last, ring, seen, nreset>>
vars == <<sv, act>>

Size == size
RingBlocks == RingBlocksOf[size]
Ids == IdsOf[size] \cup {c \in {last + d : d \in RelOf[size]} : c >= 0}     \* the counters presented in this state
Queries == QueriesOf[size]

Min(a, b) == IF a < b THEN a ELSE b
SetMax(S) == CHOOSE x \in S : \A y \in S : y <= x

RECURSIVE BitLen(_)
BitLen(n) == IF n = 0 THEN 0 ELSE 1 + BitLen(n \div 2)      \* bits.Len64
RECURSIVE Pow2(_)
Pow2(n) == IF n = 0 THEN 1 ELSE 2 * Pow2(n - 1)
\* NewSlidingWindowFilter: ringBits = 1 << bits.Len64(size+swfBlockBits-1); ringBlocks = ringBits / swfBlockBits
FormulaRingBlocks(s) == Pow2(BitLen(s + B - 1)) \div B
RingBits == RingBlocks * B

\* `x & f.ringBlockIndexMask` is x % RingBlocks only for a power of two
ASSUME /\ B \in Nat \ {0} /\ Sizes \subseteq Nat \ {0}
       /\ \A s \in Sizes : /\ RingBlocksOf[s] \in Nat \ {0}
                            /\ Pow2(BitLen(RingBlocksOf[s]) - 1) = RingBlocksOf[s]
                            /\ IdsOf[s] \subseteq Nat /\ QueriesOf[s] \subseteq IdsOf[s] /\ RelOf[s] \subseteq Int

Block(c) == c \div B                 \* unmaskedBlockIndex
Idx(c)   == Block(c) % RingBlocks    \* blockIndex
Bit(c)   == c % B                    \* bitIndex

-----------------------------------------------------------------------------
(* The three code paths, as operators on (last, ring).                       *)

\* IsOk (slidingwindow.go:50)
ImplOk(l, r, c) ==
    IF c > l THEN TRUE                           \* ahead of window
    ELSE IF l - c >= Size THEN FALSE             \* behind window
    ELSE Bit(c) \notin r[Idx(c)]                 \* within window: not seen

\* "Clear blocks ahead" loop of MustAdd / Add: min(block(c)-block(last), len(ring)) blocks after block(last)
Cleared(l, c) ==
    LET lb == Block(l)
        n  == Min(Block(c) - lb, RingBlocks)
    IN  {(lb + i) % RingBlocks : i \in 1..n}
\* the same set, decided per block without building it (b is the i-th block after block(last), 1 <= i <= n)
IsCleared(l, c, b) ==
    LET lb == Block(l) IN ((b - lb - 1) % RingBlocks) < Min(Block(c) - lb, RingBlocks)

ClearAhead(l, r, c) == [b \in DOMAIN r |-> IF IsCleared(l, c, b) THEN {} ELSE r[b]]
SetBit(r, c) == [r EXCEPT ![Idx(c)] = @ \cup {Bit(c)}]

\* MustAdd (slidingwindow.go:67): no validity check
MustAddLast(l, c)    == IF c > l THEN c ELSE l
MustAddRing(l, r, c) == SetBit(IF c > l THEN ClearAhead(l, r, c) ELSE r, c)

\* Add (slidingwindow.go:90): the switch
AddOk(l, r, c) ==
    CASE c > l                    -> TRUE
      [] l - c >= Size            -> FALSE
      [] Bit(c) \in r[Idx(c)]     -> FALSE
      [] OTHER                    -> TRUE
AddLast(l, r, c) == IF c > l THEN c ELSE l
AddRing(l, r, c) ==
    CASE c > l                    -> SetBit(ClearAhead(l, r, c), c)
      [] l - c >= Size            -> r
      [] Bit(c) \in r[Idx(c)]     -> r
      [] OTHER                    -> SetBit(r, c)

-----------------------------------------------------------------------------
\* NewSlidingWindowFilter(s) (slidingwindow.go:16)
Init ==
    \E s \in Sizes :
        /\ size = s
        /\ last = 0 /\ ring = [b \in 0..(RingBlocksOf[s] - 1) |-> {}] /\ seen = {} /\ nreset = 0
        /\ act = [n |-> "New", size |-> s]

\* f.Add(c)
Add(c) ==
    LET ok == AddOk(last, ring, c) IN
    /\ ok => Cardinality(seen) < MaxAcc
    /\ last' = AddLast(last, ring, c)
    /\ ring' = AddRing(last, ring, c)
    /\ seen' = IF ok THEN seen \cup {c} ELSE seen
    /\ UNCHANGED <<size, nreset>>
    /\ act' = [n |-> "Add", c |-> c, out |-> ok]

\* if f.IsOk(c) { f.MustAdd(c) }  -- what the unpackers do (packet.go:347/371, 449/471)
CheckAdd(c) ==
    LET ok == ImplOk(last, ring, c) IN
    /\ ok => Cardinality(seen) < MaxAcc
    /\ last' = IF ok THEN MustAddLast(last, c) ELSE last
    /\ ring' = IF ok THEN MustAddRing(last, ring, c) ELSE ring
    /\ seen' = IF ok THEN seen \cup {c} ELSE seen
    /\ UNCHANGED <<size, nreset>>
    /\ act' = [n |-> "CheckAdd", c |-> c, out |-> ok]

\* f.IsOk(c) alone: no effect
IsOk(c) ==
    /\ UNCHANGED sv
    /\ act' = [n |-> "IsOk", c |-> c, out |-> ImplOk(last, ring, c)]

\* f.Reset(): last = 0, ring[0] = 0 -- the other blocks keep their bits
Reset ==
    /\ nreset < MaxReset
    /\ last' = 0 /\ ring' = [ring EXCEPT ![0] = {}] /\ seen' = {}
    /\ nreset' = nreset + 1 /\ UNCHANGED size
    /\ act' = [n |-> "Reset"]

Next ==
    \/ \E c \in Ids : Add(c) \/ CheckAdd(c)
    \/ \E c \in Queries : IsOk(c)
    \/ Reset

Spec == Init /\ [][Next]_vars

-----------------------------------------------------------------------------
(* Properties *)

TypeOK ==
    /\ size \in Sizes /\ last \in Nat /\ seen \subseteq Nat /\ nreset \in 0..MaxReset
    /\ ring \in [0..(RingBlocks - 1) -> SUBSET (0..(B - 1))]

\* C04 on the ghost set: c is acceptable iff it was not delivered and it is newer than, or fewer
\* than Size behind, the newest delivered counter (everything is acceptable before the first delivery).
SpecOkN(c, newest) == c \notin seen /\ (seen = {} \/ c > newest \/ newest - c < Size)
SpecOk(c) == SpecOkN(c, IF seen = {} THEN 0 ELSE SetMax(seen))

\* the implementation decides exactly SpecOk -- by IsOk and by Add
Exact ==
    LET newest == IF seen = {} THEN 0 ELSE SetMax(seen) IN      \* evaluated once per state
    \A c \in Ids : /\ ImplOk(last, ring, c) = SpecOkN(c, newest)
                   /\ AddOk(last, ring, c) = SpecOkN(c, newest)

\* Add(c) and IsOk(c);MustAdd(c) are the same function of the state
AddEquiv ==
    \A c \in Ids :
        LET ok == ImplOk(last, ring, c) IN
        /\ AddOk(last, ring, c) = ok
        /\ AddLast(last, ring, c) = (IF ok THEN MustAddLast(last, c) ELSE last)
        /\ AddRing(last, ring, c) = (IF ok THEN MustAddRing(last, ring, c) ELSE ring)

LastIsNewest == IF seen = {} THEN last = 0 ELSE last = SetMax(seen)

\* Refinement of the ring to the ghost set: the counter a set bit stands for is the one in the ring
\* period that ends with last's block; restricted to the window (and to counters that exist) the
\* ring is exactly `seen`.  Bits outside the window may be stale.
CounterOf(b, i) ==
    LET lb == Block(last)
        ub == lb - ((lb - b) % RingBlocks)      \* the block <= lb that lives at ring index b
    IN  ub * B + i
InWindow(c) == c >= 0 /\ c <= last /\ last - c < Size
Refinement ==
    LET bits == UNION {{CounterOf(b, i) : i \in ring[b]} : b \in DOMAIN ring} IN
    {c \in bits : InWindow(c)} = {c \in seen : InWindow(c)}

\* a window never spans more than the ring (the reason the ring size formula is what it is).  Not among the checked
\* invariants: a ring that is too small shows as a violation of Exact, with a behaviour that can be replayed.
RingLargeEnough == RingBits >= Size + B - 1
\* (informative) the allocated ring is the documented one
RingIsFormula == RingBlocks = FormulaRingBlocks(Size)

\* the arithmetic form of the clearing loop used above is the loop
ClearedDef == \A c \in Ids : c > last => Cleared(last, c) = {b \in DOMAIN ring : IsCleared(last, c, b)}

\* failed calls are inert; the ghost set only grows between resets
Inert == [][ (act'.n \in {"Add", "CheckAdd"} /\ act'.out = FALSE) \/ act'.n = "IsOk"
             => UNCHANGED sv ]_vars
Monotone == [][ act'.n # "Reset" => seen \subseteq seen' /\ last' >= last ]_vars
=============================================================================
