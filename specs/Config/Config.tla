------------------------------- MODULE Config -------------------------------
(***************************************************************************)
(* Loading and running a shadowsocks-go configuration (property C18).      *)
(*                                                                         *)
(* A configuration is an abstract record shaped like service.Config        *)
(* (service/service.go): servers, clients, client groups, resolvers and a  *)
(* router section.  Values that only matter through a boundary are kept    *)
(* abstract: a key is its length, an address is its kind, a duration is a  *)
(* number of milliseconds, a field that is left out of the JSON document   *)
(* is Omit (numbers) or OmitS (strings).                                   *)
(*                                                                         *)
(* The module has three layers.                                            *)
(*                                                                         *)
(* 1. The declarative reading of the property and of the documentation:    *)
(*    Valid(c) is exactly the conjunction of the invariants the property   *)
(*    names; Effective(c) is what the documentation (README.md, docs/ and  *)
(*    the field comments of the configuration structures) says an accepted *)
(*    configuration does, with an omitted field, an explicitly empty field *)
(*    and the documented default being one and the same; Expect(c) says    *)
(*    what the property demands of the loader: "refuse" when an invariant  *)
(*    is violated, "accept" when the configuration is valid and made of    *)
(*    documented values only, "any" otherwise.                             *)
(*                                                                         *)
(* 2. The implementation-shaped loader: one action per section in the      *)
(*    order of Config.Manager (clients -> client groups -> resolvers ->    *)
(*    server names -> router -> servers), every check a place in the code. *)
(*    Where the code is known to differ from the documentation the         *)
(*    difference is a CONSTANT whose value harness/cmd/vconst reads out    *)
(*    of the compiled code (Code...), so that the design TLC checks is the *)
(*    design of the code that was compiled.                                *)
(*                                                                         *)
(* 3. The life of an accepted configuration: Start, one TCP connection and *)
(*    one UDP round trip per listener (uplink and downlink are separate    *)
(*    steps: the downlink is where direct/packet.go needs an IP address),  *)
(*    one unauthenticated connection per Shadowsocks 2022 TCP server (the  *)
(*    reject policy runs), Stop.                                           *)
(*                                                                         *)
(* The property is the invariants AcceptedIsValid, DefaultsAsDocumented,   *)
(* NoCrash, DocumentedIsAccepted and OmittedIsEmpty; MigrationPreserves,   *)
(* LoaderAgrees and CrashIsUndocumented are lemmas about the model itself; *)
(* the action properties are at the end.                                   *)
(***************************************************************************)
EXTENDS Integers, Sequences, FiniteSets, TLC

CONSTANTS
    \* ---- read from the compiled code (harness/cmd/vconst/config.go) ----
    ReplayWindowMs,              \* ss2022.ReplayWindowDuration = UDPServer.Info().MinNATTimeout, in ms
    CodeOmittedReject,           \* name of the function RejectPolicyField{}.Policy() returns      (ss2022/policy.go)
    CodeEmptyReject,             \* ... after UnmarshalText("")
    CodeOmittedPad,              \* the same for PaddingPolicyField
    CodeEmptyPad,
    CodeRefusesDomainTargetOnly, \* ServerConfig.Initialize refuses direct + domain target + target-only (service/server.go)
    CodeRefusesDuplicateSets,    \* router.Config.Router refuses two domain / prefix sets of one name    (router/router.go)
    \* ---- documentation ----
    MinMTU,                      \* "MTU must be at least 1280"
    DocNatMs,                    \* natTimeout: "The default value is 5 minutes."
    DocRelayBatch,               \* relayBatchSize: "The default value is 256."
    DocRecvBatch,                \* serverRecvBatchSize: "The default value is 64."
    DocSendCap,                  \* sendChannelCapacity: "The default value is 1024."
    MaxBatch,                    \* batch sizes up to 1024
    MinSendCap,                  \* channel capacity at least 64
    DocIpwMs,                    \* initialPayloadWaitTimeout: "The default value is 250ms."
    DocIpb,                      \* initialPayloadWaitBufferSize: "The default value is 1440."
    DocSwf,                      \* slidingWindowFilterSize: "The default value is 256."
    DocReject,                   \* README "TCP Reject Policy": ForceReset (default)
    DocPad,                      \* README "Packet Padding Policy": PadPlainDNS (default)
    DocNet,                      \* client network: "If unspecified, "ip" is used."
    \* ---- the configurations of this run ----
    Space

VARIABLES
    cfg,    \* the configuration being loaded (never changes)
    pc,     \* where the manager is
    why,    \* why it refused ("" while it has not)
    eff,    \* the settings the loader installed (Null until the servers section is through)
    step,   \* position in the smoke script
    act     \* last action: [n |-> name, out |-> what an observer sees]

sv == <<cfg, pc, why, eff, step>>
vars == <<sv, act>>

Omit == -1000000
OmitS == "<omit>"
Null == [none |-> TRUE]

Norm(x) == IF x = Omit THEN 0 ELSE x
NormS(s) == IF s = OmitS THEN "" ELSE s

Ran(s) == {s[i] : i \in DOMAIN s}
Min(S) == CHOOSE x \in S : \A y \in S : x <= y
\* the first complaint of F(1), ..., F(n), "" if there is none
FirstWhy(F(_), n) == LET bad == {i \in 1 .. n : F(i) # ""} IN IF bad = {} THEN "" ELSE F(Min(bad))
\* the first non-empty string of a sequence
FirstOf(s) == FirstWhy(LAMBDA i : s[i], Len(s))
NoDup(s) == \A i, j \in DOMAIN s : i # j => s[i] # s[j]

-----------------------------------------------------------------------------
(* Vocabulary *)

SS2022 == {"2022-128", "2022-256"}
Is2022(p) == p \in SS2022
DocKeyLen(p) == IF p = "2022-256" THEN 32 ELSE 16       \* the method name says it
\* protocols the documentation lists (service/server.go ServerConfig.Protocol, service/client.go ClientConfig.Protocol)
DocServerProtos == {"direct", "socks5", "http", "none", "plain"} \cup SS2022
PlatformServerProtos == {"tproxy", "redirect"}             \* Linux only, need netfilter rules: load-only in the harness
DocClientProtos == DocServerProtos
TcpServerProtos == DocServerProtos \cup PlatformServerProtos   \* ServerConfig.TCPRelay switch
UdpServerProtos == {"direct", "tproxy", "none", "plain", "socks5"} \cup SS2022   \* ServerConfig.UDPRelay switch
UdpClientProtos == {"direct", "none", "plain", "socks5"} \cup SS2022             \* ClientConfig.UDPClient switch
RejectNames == {"JustClose", "ForceReset", "CloseWriteDrain", "ReplyWithGibberish"}
PadNames == {"PadPlainDNS", "PadAll", "NoPadding"}
TcpNets == {"tcp", "tcp4", "tcp6"}
UdpNets == {"udp", "udp4", "udp6"}
IpNets == {"ip", "ip4", "ip6"}
BatchModes == {"", "no", "sendmmsg"}
GroupPolicies == {"round-robin", "random", "availability", "latency", "min-max-latency"}

\* what an unauthenticated connection sees from each reject policy (ss2022/policy.go)
WireOf(policy) ==
    CASE policy = "JustClose" -> "eof"
      [] policy = "ForceReset" -> "reset"
      [] policy = "CloseWriteDrain" -> "eof"
      [] policy = "ReplyWithGibberish" -> "data"
      [] OTHER -> ""

-----------------------------------------------------------------------------
(* Reading a server: the listeners the relays are built from.  ServerConfig.Initialize appends the  *)
(* legacy single listener (enableTCP / enableUDP / listen / natTimeoutSec / udp...BatchSize) behind *)
(* the listener arrays (service/server.go Initialize, "if sc.EnableTCP" / "if sc.EnableUDP").       *)

TcpLs(s) == s.tcpL \o (IF s.leg.tcp THEN <<[net |-> "tcp", ipw |-> Omit, ipb |-> Omit, dipw |-> s.leg.dipw]>> ELSE <<>>)
UdpLs(s) == s.udpL \o (IF s.leg.udp
                       THEN <<[net |-> "udp", nat |-> IF s.leg.nat = Omit THEN Omit ELSE s.leg.nat * 1000,
                               rb |-> s.leg.rb, sb |-> s.leg.sb, cap |-> s.leg.cap, bm |-> s.leg.bm]>>
                       ELSE <<>>)
TcpOn(s) == Len(TcpLs(s)) > 0
UdpOn(s) == Len(UdpLs(s)) > 0

\* README: "The clients field can be omitted or left empty. A default "direct" client will be automatically added."
DefaultClient == [name |-> "direct", proto |-> "direct", tcp |-> TRUE, udp |-> TRUE, mtu |-> 1500, psk |-> Omit,
                  ipsks |-> <<>>, ep |-> "none", net |-> OmitS, pad |-> OmitS, swf |-> Omit, auth |-> FALSE]
ClientsOf(c) == IF c.clientsMode \in {"omit", "empty"} \/ Len(c.clients) = 0 THEN <<DefaultClient>> ELSE c.clients

\* names that can be referred to as a TCP (UDP) client: clients with that network enabled and client groups
\* with members for it; a group may name the groups before it (clientgroups.AddClientGroup adds to the maps)
GroupTcp(g) == Len(g.tcp.clients) > 0
GroupUdp(g) == Len(g.udp.clients) > 0
TcpNamesUpTo(c, k) == {x.name : x \in {y \in Ran(ClientsOf(c)) : y.tcp}} \cup {c.groups[j].name : j \in {i \in 1 .. k : GroupTcp(c.groups[i])}}
UdpNamesUpTo(c, k) == {x.name : x \in {y \in Ran(ClientsOf(c)) : y.udp}} \cup {c.groups[j].name : j \in {i \in 1 .. k : GroupUdp(c.groups[i])}}
TcpNames(c) == TcpNamesUpTo(c, Len(c.groups))
UdpNames(c) == UdpNamesUpTo(c, Len(c.groups))
ServerNames(c) == {s.name : s \in Ran(c.servers)}
DnsNames(c) == {r.name : r \in Ran(c.dns)}
NamesOf(seq) == [i \in DOMAIN seq |-> seq[i].name]

-----------------------------------------------------------------------------
(* 1. The property: Valid *)

\* "key lengths match the method"
KeyLenOK(c) ==
    /\ \A s \in Ran(c.servers) : Is2022(s.proto) =>
            /\ Norm(s.psk) = DocKeyLen(s.proto)
            /\ s.ups # "badlen"                      \* a user key of the store has the wrong length
    /\ \A x \in Ran(ClientsOf(c)) : Is2022(x.proto) =>
            /\ Norm(x.psk) = DocKeyLen(x.proto)
            /\ \A k \in Ran(x.ipsks) : k = DocKeyLen(x.proto)

\* "Shadowsocks 2022 NAT timeouts are no shorter than the replay window" (0 / omitted is the default, 5 minutes)
NatOK(c) ==
    \A s \in Ran(c.servers) : Is2022(s.proto) =>
        \A l \in Ran(UdpLs(s)) : Norm(l.nat) = 0 \/ Norm(l.nat) >= ReplayWindowMs

\* "the MTU is at least 1280" (wherever UDP is on: the MTU is a UDP quantity)
MtuOK(c) ==
    /\ \A s \in Ran(c.servers) : UdpOn(s) => Norm(s.mtu) >= MinMTU
    /\ \A x \in Ran(ClientsOf(c)) : x.udp => Norm(x.mtu) >= MinMTU

\* "every referenced client, resolver, set and server exists"
RouteRefsOK(c, r) ==
    /\ r.client # "reject" =>
          /\ NormS(r.net) \in {"", "tcp"} => r.client \in TcpNames(c)
          /\ NormS(r.net) \in {"", "udp"} => r.client \in UdpNames(c)
    /\ r.resolver # "" => r.resolver \in DnsNames(c)
    /\ Ran(r.fromSrv) \subseteq ServerNames(c)
    /\ Ran(r.toDSets) \subseteq Ran(c.router.dsets)
    /\ Ran(r.toPSets) \cup Ran(r.fromPSets) \subseteq Ran(c.router.psets)
RefsOK(c) ==
    /\ NormS(c.router.defTCP) \notin {"", "reject"} => c.router.defTCP \in TcpNames(c)
    /\ NormS(c.router.defUDP) \notin {"", "reject"} => c.router.defUDP \in UdpNames(c)
    /\ \A r \in Ran(c.router.routes) : RouteRefsOK(c, r)
    /\ \A d \in Ran(c.dns) :
          /\ d.tcpc # "" => d.tcpc \in TcpNames(c)
          /\ d.udpc # "" => d.udpc \in UdpNames(c)
    /\ \A k \in DOMAIN c.groups :
          /\ Ran(c.groups[k].tcp.clients) \subseteq TcpNamesUpTo(c, k - 1)
          /\ Ran(c.groups[k].udp.clients) \subseteq UdpNamesUpTo(c, k - 1)

\* "names are unique": servers, clients, client groups (which share the clients' name space), resolvers, sets
UniqueOK(c) ==
    /\ NoDup(NamesOf(c.servers))
    /\ NoDup(NamesOf(ClientsOf(c)) \o NamesOf(c.groups))
    /\ NoDup(NamesOf(c.dns))
    /\ NoDup(c.router.dsets)
    /\ NoDup(c.router.psets)

Valid(c) == KeyLenOK(c) /\ NatOK(c) /\ MtuOK(c) /\ RefsOK(c) /\ UniqueOK(c)

\* the violated invariants by name (the stable keys of lib/props/c18.py are made of these)
DupSetsOnly(c) == /\ NoDup(NamesOf(c.servers)) /\ NoDup(NamesOf(ClientsOf(c)) \o NamesOf(c.groups)) /\ NoDup(NamesOf(c.dns))
                  /\ ~(NoDup(c.router.dsets) /\ NoDup(c.router.psets))
Broken(c) ==
    (IF KeyLenOK(c) THEN <<>> ELSE <<"key-length">>) \o
    (IF NatOK(c) THEN <<>> ELSE <<"nat-timeout-below-replay-window">>) \o
    (IF MtuOK(c) THEN <<>> ELSE <<"mtu-below-minimum">>) \o
    (IF RefsOK(c) THEN <<>> ELSE <<"dangling-reference">>) \o
    (IF UniqueOK(c) THEN <<>> ELSE IF DupSetsOnly(c) THEN <<"duplicate-set-name">> ELSE <<"duplicate-name">>)

-----------------------------------------------------------------------------
(* 1. The documentation: Effective *)

PolicyName(field, names, omitted, empty) ==
    CASE field = OmitS -> omitted
      [] field = "" -> empty
      [] field \in names -> field
      [] OTHER -> "?"

EffTcp(s, l) == [ipw |-> IF Norm(l.ipw) = 0 THEN DocIpwMs ELSE l.ipw,
                 ipb |-> IF Norm(l.ipb) = 0 THEN DocIpb ELSE l.ipb,
                 wait |-> ~l.dipw /\ ~Is2022(s.proto)]     \* Shadowsocks 2022 carries the payload in its request header
EffUdp(l) == [nat |-> IF Norm(l.nat) = 0 THEN DocNatMs ELSE l.nat,
              rb |-> IF Norm(l.rb) = 0 THEN DocRelayBatch ELSE l.rb,
              sb |-> IF Norm(l.sb) = 0 THEN DocRecvBatch ELSE l.sb,
              cap |-> IF Norm(l.cap) = 0 THEN DocSendCap ELSE l.cap,
              bm |-> NormS(l.bm)]
EffServerWith(s, rejO, rejE, padO, padE) ==
    [tcp |-> [j \in DOMAIN TcpLs(s) |-> EffTcp(s, TcpLs(s)[j])],
     udp |-> [j \in DOMAIN UdpLs(s) |-> EffUdp(UdpLs(s)[j])],
     rej |-> IF Is2022(s.proto) /\ TcpOn(s) THEN PolicyName(s.rej, RejectNames, rejO, rejE) ELSE "",
     pad |-> IF Is2022(s.proto) /\ UdpOn(s) THEN PolicyName(s.pad, PadNames, padO, padE) ELSE "",
     swf |-> IF Is2022(s.proto) /\ UdpOn(s) THEN (IF Norm(s.swf) = 0 THEN DocSwf ELSE s.swf) ELSE 0,
     mtu |-> IF UdpOn(s) THEN Norm(s.mtu) ELSE 0]
EffClientWith(x, padO, padE) ==
    [name |-> x.name,
     net |-> IF NormS(x.net) = "" THEN DocNet ELSE x.net,
     pad |-> IF Is2022(x.proto) /\ x.udp THEN PolicyName(x.pad, PadNames, padO, padE) ELSE "",
     swf |-> 0]
\* the client the default route uses: the named one, nobody for "reject", and for an omitted / empty name the
\* only client of that network if there is exactly one (router/router.go Config.Router, the two switches at the top)
DefaultOf(name, names) ==
    CASE name = "reject" -> ""
      [] NormS(name) = "" -> IF Cardinality(names) = 1 THEN CHOOSE n \in names : TRUE ELSE ""
      [] OTHER -> name
EffectiveWith(c, rejO, rejE, padO, padE) ==
    [servers |-> [i \in DOMAIN c.servers |-> EffServerWith(c.servers[i], rejO, rejE, padO, padE)],
     clients |-> [i \in DOMAIN ClientsOf(c) |-> EffClientWith(ClientsOf(c)[i], padO, padE)],
     defTCP |-> DefaultOf(c.router.defTCP, TcpNames(c)),
     defUDP |-> DefaultOf(c.router.defUDP, UdpNames(c))]

\* what the documentation says: omitted = explicitly empty = documented default
Effective(c) == EffectiveWith(c, DocReject, DocReject, DocPad, DocPad)
\* what the compiled code installs
ImplEffective(c) == EffectiveWith(c, CodeOmittedReject, CodeEmptyReject, CodeOmittedPad, CodeEmptyPad)

\* the same configuration with every omitted field written out as the empty / zero value
ExplN(x) == Norm(x)
ExplTcpL(l) == [l EXCEPT !.ipw = Norm(@), !.ipb = Norm(@)]
ExplUdpL(l) == [l EXCEPT !.nat = Norm(@), !.rb = Norm(@), !.sb = Norm(@), !.cap = Norm(@), !.bm = NormS(@)]
ExplServer(s) == [s EXCEPT !.tcpL = [j \in DOMAIN @ |-> ExplTcpL(@[j])], !.udpL = [j \in DOMAIN @ |-> ExplUdpL(@[j])],
                           !.leg = [@ EXCEPT !.nat = Norm(@), !.rb = Norm(@), !.sb = Norm(@), !.cap = Norm(@), !.bm = NormS(@)],
                           !.mtu = Norm(@), !.rej = NormS(@), !.pad = NormS(@), !.swf = Norm(@),
                           !.ups = IF @ = OmitS THEN "" ELSE @]
ExplClient(x) == [x EXCEPT !.mtu = Norm(@), !.net = NormS(@), !.pad = NormS(@), !.swf = Norm(@)]
Explicit(c) == [c EXCEPT !.servers = [i \in DOMAIN @ |-> ExplServer(@[i])],
                         !.clients = [i \in DOMAIN @ |-> ExplClient(@[i])],
                         !.clientsMode = IF @ = "omit" THEN "empty" ELSE @,
                         !.router = [@ EXCEPT !.defTCP = NormS(@), !.defUDP = NormS(@)]]

\* Config.Migrate (service/service.go, "-fmtConf"): the legacy single-listener fields rewritten as listener arrays.
\* The two spellings are the same configuration (MigrationPreserves).
Migrated(c) ==
    [c EXCEPT !.servers = [i \in DOMAIN @ |->
        [@[i] EXCEPT !.tcpL = TcpLs(c.servers[i]), !.udpL = UdpLs(c.servers[i]),
                     !.leg = [tcp |-> FALSE, udp |-> FALSE, nat |-> Omit, rb |-> Omit, sb |-> Omit, cap |-> Omit,
                              bm |-> OmitS, dipw |-> FALSE]]]]

-----------------------------------------------------------------------------
(* 1. Documented structure: what a configuration made of documented values looks like *)

\* the combination that has no meaning: only packets from tunnelRemoteAddress are let through, and the
\* address is a name (direct/packet.go: the downlink compares the source with targetAddr.IPPort())
DomainTargetOnly(s) == s.proto = "direct" /\ s.tun = "dom" /\ s.tto /\ UdpOn(s)

DocServerOK(s) ==
    /\ s.proto \in DocServerProtos
    /\ s.proto = "direct" => s.tun # OmitS
    /\ s.proto = "http" => ~UdpOn(s)
    /\ ~DomainTargetOnly(s)
    /\ \A l \in Ran(TcpLs(s)) : l.net \in TcpNets /\ Norm(l.ipw) >= 0 /\ Norm(l.ipb) >= 0
    /\ \A l \in Ran(UdpLs(s)) :
          /\ l.net \in UdpNets /\ NormS(l.bm) \in BatchModes
          /\ Norm(l.rb) \in 0 .. MaxBatch /\ Norm(l.sb) \in 0 .. MaxBatch
          /\ Norm(l.cap) = 0 \/ Norm(l.cap) >= MinSendCap
          /\ Norm(l.nat) >= 0
    /\ NormS(s.rej) \in RejectNames \cup {""}
    /\ NormS(s.pad) \in PadNames \cup {""}
    /\ s.ups \in {OmitS, "", "file"}
    /\ Is2022(s.proto) \/ s.ups \in {OmitS, ""}
    /\ Norm(s.swf) >= 0
DocClientOK(x) ==
    /\ x.proto \in DocClientProtos
    /\ NormS(x.net) \in IpNets \cup {""}
    /\ x.proto # "direct" => x.ep \in {"ep", "split"}
    /\ x.udp => x.proto \in UdpClientProtos
    /\ NormS(x.pad) \in PadNames \cup {""}
    /\ Norm(x.swf) >= 0
DocGroupOK(g) ==
    /\ GroupTcp(g) \/ GroupUdp(g)
    /\ GroupTcp(g) => g.tcp.policy \in {"round-robin", "random"}     \* the probing policies talk to the outside world
    /\ GroupUdp(g) => g.udp.policy \in {"round-robin", "random"}
DocResolverOK(d) ==
    \/ NormS(d.type) \in {"", "plain"} /\ d.addr /\ (d.tcpc # "" \/ d.udpc # "")
    \/ d.type = "system" /\ ~d.addr /\ d.tcpc = "" /\ d.udpc = ""
DocRouteOK(c, r) ==
    /\ r.name \notin {"", "default"}
    /\ NormS(r.net) \in {"", "tcp", "udp"}
    /\ (Len(r.toPSets) > 0 /\ ~r.nr) => Len(c.dns) > 0
DocOK(c) ==
    /\ Len(c.servers) > 0
    /\ \A s \in Ran(c.servers) : DocServerOK(s)
    /\ \A x \in Ran(ClientsOf(c)) : DocClientOK(x)
    /\ \A g \in Ran(c.groups) : DocGroupOK(g)
    /\ \A d \in Ran(c.dns) : DocResolverOK(d)
    /\ \A r \in Ran(c.router.routes) : DocRouteOK(c, r)

Expect(c) == IF ~Valid(c) THEN "refuse" ELSE IF DocOK(c) THEN "accept" ELSE "any"

-----------------------------------------------------------------------------
(* 1. Traffic: what the smoke script meets *)

\* the first route a request of network n from server i meets.  The script's requests come from 127.0.0.1 and
\* go to 127.0.0.1 (an IP address): criteria on domain sets, on the prefix sets of the harness (10.0.0.0/8)
\* never hold, a route without such criteria holds when its network and its servers fit (router/route.go Match).
RouteFits(c, r, i, n) ==
    /\ NormS(r.net) \in {"", n}
    /\ Len(r.fromSrv) = 0 \/ c.servers[i].name \in Ran(r.fromSrv)
    /\ Len(r.toDSets) = 0 /\ Len(r.toPSets) = 0 /\ Len(r.fromPSets) = 0
ClientFor(c, i, n) ==
    LET fits == {k \in DOMAIN c.router.routes : RouteFits(c, c.router.routes[k], i, n)}
    IN IF fits # {} THEN (LET r == c.router.routes[Min(fits)] IN IF r.client = "reject" THEN "" ELSE r.client)
       ELSE IF n = "tcp" THEN DefaultOf(c.router.defTCP, TcpNames(c)) ELSE DefaultOf(c.router.defUDP, UdpNames(c))
Smoked(s) == s.proto \notin PlatformServerProtos
\* Does a request handed to the client (or client group) of that name get anywhere?  The echo target and the far
\* servers of the harness are IPv4 literals on loopback.  A client whose network is "ip6" dials TCP with "tcp6"
\* (service/client.go tcpNetwork), which cannot reach an IPv4 literal; UDP sockets are not bound to a family, but a
\* SOCKS5 client needs its TCP association first.  A group hands the first request to its first member
\* (clientgroups: the round-robin index starts at 0; the random groups of the lattice have equivalent members).
RECURSIVE Reaches(_, _, _, _)
Reaches(c, name, n, depth) ==
    LET cl == {x \in Ran(ClientsOf(c)) : x.name = name}
        gs == {g \in Ran(c.groups) : g.name = name}
    IN IF cl # {}
       THEN LET x == CHOOSE x \in cl : TRUE
            IN IF n = "tcp" THEN x.net # "ip6" ELSE ~(x.proto = "socks5" /\ x.net = "ip6")
       ELSE IF gs # {} /\ depth > 0
       THEN LET g == CHOOSE g \in gs : TRUE
                ms == IF n = "tcp" THEN g.tcp.clients ELSE g.udp.clients
            IN Len(ms) > 0 /\ Reaches(c, ms[1], n, depth - 1)
       ELSE TRUE
FlowTcp(c, i) == LET k == ClientFor(c, i, "tcp") IN IF k = "" \/ ~Reaches(c, k, "tcp", 3) THEN "none" ELSE "reply"
FlowUdp(c, i) == LET k == ClientFor(c, i, "udp")
                 IN IF k = "" \/ ~Reaches(c, k, "udp", 3) THEN "none"
                    ELSE IF DomainTargetOnly(c.servers[i]) THEN "crash" ELSE "reply"
Flows(c) == [i \in DOMAIN c.servers |->
                IF \E s \in Ran(c.servers) : ~Smoked(s) THEN [tcp |-> <<>>, udp |-> <<>>]
                ELSE [tcp |-> [j \in DOMAIN TcpLs(c.servers[i]) |-> FlowTcp(c, i)],
                      udp |-> [j \in DOMAIN UdpLs(c.servers[i]) |-> FlowUdp(c, i)]]]
CrashOf(c) == IF \E i \in DOMAIN c.servers : \E j \in DOMAIN Flows(c)[i].udp : Flows(c)[i].udp[j] = "crash"
              THEN "direct-domain-tunnel-target-only-panics" ELSE ""

\* the script: per server, per listener one TCP connection, one UDP uplink + downlink, then the probe
Script(c) ==
    LET PerServer(i) ==
            [j \in DOMAIN Flows(c)[i].tcp |-> [k |-> "tcp", i |-> i, j |-> j]] \o
            [j \in 1 .. 2 * Len(Flows(c)[i].udp) |->
                [k |-> IF j % 2 = 1 THEN "up" ELSE "down", i |-> i, j |-> (j + 1) \div 2]] \o
            (IF Is2022(c.servers[i].proto) /\ Len(Flows(c)[i].tcp) > 0 THEN <<[k |-> "probe", i |-> i, j |-> 1]>> ELSE <<>>)
        Cat[i \in 0 .. Len(c.servers)] == IF i = 0 THEN <<>> ELSE Cat[i - 1] \o PerServer(i)
    IN Cat[Len(c.servers)]

-----------------------------------------------------------------------------
(* 2. The loader, section by section.  Every operator answers "" or the reason of the refusal. *)

\* encoding/json + UnmarshalText of the policy fields (jsoncfg.Load; ss2022/policy.go PaddingPolicy / RejectPolicy UnmarshalText)
ParseWhy(c) ==
    FirstOf(<<FirstWhy(LAMBDA i : IF NormS(c.servers[i].rej) \notin RejectNames \cup {""} THEN "parse: invalid reject policy"
                                   ELSE IF NormS(c.servers[i].pad) \notin PadNames \cup {""} THEN "parse: invalid padding policy"
                                   ELSE "", Len(c.servers)),
              FirstWhy(LAMBDA i : IF NormS(c.clients[i].pad) \notin PadNames \cup {""} THEN "parse: invalid padding policy" ELSE "",
                       Len(c.clients))>>)

\* service/service.go Manager "for i := range sc.Clients"; service/client.go Initialize / checkAddresses / TCPClient / UDPClient
ClientWhy(c, i) ==
    LET x == ClientsOf(c)[i]
        ev == x.ep \in {"ep", "both"}
        tv == x.ep \in {"split", "both"}
        uv == x.ep = "split"
    IN CASE \E j \in 1 .. i - 1 : ClientsOf(c)[j].name = x.name -> "clients: duplicate client name"
         [] NormS(x.net) \notin IpNets \cup {""} -> "clients: unknown network"
         [] x.proto # "direct" /\ ev = (tv \/ uv) -> "clients: missing or conflicting proxy server address(es)"
         [] x.proto # "direct" /\ ~ev /\ x.tcp /\ ~tv -> "clients: missing proxy server TCP address"
         [] x.proto # "direct" /\ ~ev /\ x.udp /\ ~uv -> "clients: missing proxy server UDP address"
         [] Is2022(x.proto) /\ (Norm(x.psk) # DocKeyLen(x.proto) \/ \E k \in Ran(x.ipsks) : k # DocKeyLen(x.proto))
                -> "clients: PSK length"
         [] x.tcp /\ x.proto \notin DocClientProtos -> "clients: unknown protocol"
         [] x.udp /\ Norm(x.mtu) < MinMTU -> "clients: MTU must be at least 1280"
         [] x.udp /\ x.proto \notin UdpClientProtos -> "clients: unknown protocol"
         [] OTHER -> ""
ClientsWhy(c) == FirstWhy(LAMBDA i : ClientWhy(c, i), Len(ClientsOf(c)))

\* service/service.go Manager "for i := range sc.ClientGroups"; clientgroups/clientgroups.go AddClientGroup
GroupWhy(c, k) ==
    LET g == c.groups[k]
    IN CASE g.name \in {x.name : x \in Ran(ClientsOf(c))} -> "groups: same name as a client"
         [] \E j \in 1 .. k - 1 : c.groups[j].name = g.name -> "groups: duplicate client group name"
         [] ~GroupTcp(g) /\ ~GroupUdp(g) -> "groups: empty client group"
         [] ~(Ran(g.tcp.clients) \subseteq TcpNamesUpTo(c, k - 1)) -> "groups: TCP client not found"
         [] GroupTcp(g) /\ g.tcp.policy \notin GroupPolicies -> "groups: unknown TCP client selection policy"
         [] ~(Ran(g.udp.clients) \subseteq UdpNamesUpTo(c, k - 1)) -> "groups: UDP client not found"
         [] GroupUdp(g) /\ g.udp.policy \notin GroupPolicies -> "groups: unknown UDP client selection policy"
         [] OTHER -> ""
GroupsWhy(c) == FirstWhy(LAMBDA k : GroupWhy(c, k), Len(c.groups))

\* service/service.go Manager "for i := range sc.DNS"; dns/dns.go NewSimpleResolver
ResolverWhy(c, k) ==
    LET d == c.dns[k]
    IN CASE \E j \in 1 .. k - 1 : c.dns[j].name = d.name -> "dns: duplicate DNS resolver name"
         [] NormS(d.type) \notin {"", "plain", "system"} -> "dns: unknown resolver type"
         [] d.type = "system" /\ (d.addr \/ d.tcpc # "" \/ d.udpc # "") -> "dns: system resolver does not support custom server addresses or clients"
         [] d.type = "system" -> ""
         [] ~d.addr -> "dns: missing resolver address"
         [] d.tcpc = "" /\ d.udpc = "" -> "dns: neither TCP nor UDP client specified"
         [] d.tcpc # "" /\ d.tcpc \notin TcpNames(c) -> "dns: unknown TCP client"
         [] d.udpc # "" /\ d.udpc \notin UdpNames(c) -> "dns: unknown UDP client"
         [] OTHER -> ""
DnsWhy(c) == FirstWhy(LAMBDA k : ResolverWhy(c, k), Len(c.dns))

\* service/service.go Manager, serverIndexByName loop
ServerNamesWhy(c) == IF NoDup(NamesOf(c.servers)) THEN "" ELSE "servers: duplicate server name"

\* router/router.go Config.Router, router/route.go RouteConfig.Route
RouteWhy(c, k) ==
    LET r == c.router.routes[k]
    IN CASE r.name \in {"", "default"} -> "router: route name cannot be empty or 'default'"
         [] Len(c.dns) = 0 /\ ~r.nr /\ Len(r.toPSets) > 0 -> "router: missing resolvers for one or more criteria"
         [] r.resolver # "" /\ r.resolver \notin DnsNames(c) -> "router: resolver not found"
         [] NormS(r.net) \notin {"", "tcp", "udp"} -> "router: invalid network"
         [] r.client # "reject" /\ NormS(r.net) \in {"", "tcp"} /\ r.client \notin TcpNames(c) -> "router: TCP client not found"
         [] r.client # "reject" /\ NormS(r.net) \in {"", "udp"} /\ r.client \notin UdpNames(c) -> "router: UDP client not found"
         [] ~(Ran(r.fromSrv) \subseteq ServerNames(c)) -> "router: server not found"
         [] ~(Ran(r.fromPSets) \subseteq Ran(c.router.psets)) -> "router: prefix set not found"
         [] ~(Ran(r.toDSets) \subseteq Ran(c.router.dsets)) -> "router: domain set not found"
         [] ~(Ran(r.toPSets) \subseteq Ran(c.router.psets)) -> "router: prefix set not found"
         [] OTHER -> ""
RouterWhy(c) ==
    CASE NormS(c.router.defTCP) \notin {"", "reject"} /\ c.router.defTCP \notin TcpNames(c) -> "router: default TCP client not found"
      [] NormS(c.router.defUDP) \notin {"", "reject"} /\ c.router.defUDP \notin UdpNames(c) -> "router: default UDP client not found"
      [] CodeRefusesDuplicateSets /\ ~(NoDup(c.router.dsets) /\ NoDup(c.router.psets)) -> "router: duplicate set name"
      [] OTHER -> FirstWhy(LAMBDA k : RouteWhy(c, k), Len(c.router.routes))

\* service/server.go: Initialize, TCPRelay (+ TCPListenerConfig.Configure), UDPRelay (+ UDPListenerConfig.Configure,
\* service/udp.go CheckAndApplyDefaults), PostInit (cred.Manager.RegisterServer)
TcpListenerWhy(l) ==
    CASE l.net \notin TcpNets -> "servers: invalid network"
      [] Norm(l.ipw) < 0 -> "servers: negative initial payload wait timeout"
      [] Norm(l.ipb) < 0 -> "servers: negative initial payload wait buffer size"
      [] OTHER -> ""
UdpListenerWhy(s, l) ==
    CASE l.net \notin UdpNets -> "servers: invalid network"
      [] NormS(l.bm) \notin BatchModes -> "servers: unknown batch mode"
      [] Norm(l.rb) \notin 0 .. MaxBatch -> "servers: relay batch size out of range"
      [] Norm(l.sb) \notin 0 .. MaxBatch -> "servers: server recv batch size out of range"
      [] Norm(l.cap) # 0 /\ Norm(l.cap) < MinSendCap -> "servers: send channel capacity must be at least 64"
      [] Norm(l.nat) # 0 /\ Norm(l.nat) < (IF Is2022(s.proto) THEN ReplayWindowMs ELSE 0) -> "servers: NAT timeout is less than server's minimum NAT timeout"
      [] OTHER -> ""
ServerWhy(c, i) ==
    LET s == c.servers[i]
    IN FirstOf(<<
        \* Initialize
        CASE s.proto = "direct" /\ s.tun = OmitS -> "servers: tunnelRemoteAddress is required for simple tunnel"
          [] Is2022(s.proto) /\ Norm(s.psk) # DocKeyLen(s.proto) -> "servers: PSK length"
          [] CodeRefusesDomainTargetOnly /\ DomainTargetOnly(s) -> "servers: tunnelUDPTargetOnly needs an IP tunnelRemoteAddress"
          [] OTHER -> "",
        \* TCPRelay
        IF ~TcpOn(s) THEN "" ELSE IF s.proto \notin TcpServerProtos THEN "servers: invalid protocol"
        ELSE FirstWhy(LAMBDA j : TcpListenerWhy(TcpLs(s)[j]), Len(TcpLs(s))),
        \* UDPRelay
        IF ~UdpOn(s) THEN "" ELSE IF Norm(s.mtu) < MinMTU THEN "servers: MTU must be at least 1280"
        ELSE IF s.proto \notin UdpServerProtos THEN "servers: invalid protocol"
        ELSE FirstWhy(LAMBDA j : UdpListenerWhy(s, UdpLs(s)[j]), Len(UdpLs(s))),
        \* PostInit
        IF Is2022(s.proto) /\ s.ups = "missing" THEN "servers: uPSK store: no such file"
        ELSE IF Is2022(s.proto) /\ s.ups = "badlen" THEN "servers: uPSK store: PSK length" ELSE "">>)
ServersWhy(c) == FirstWhy(LAMBDA i : ServerWhy(c, i), Len(c.servers))

\* the whole loader in one expression (what MCConfig prints next to every case)
ImplLoad(c) ==
    LET w == FirstOf(<<ParseWhy(c), IF Len(c.servers) = 0 THEN "no services to start" ELSE "", ClientsWhy(c), GroupsWhy(c),
                       DnsWhy(c), ServerNamesWhy(c), RouterWhy(c), ServersWhy(c)>>)
    IN IF w = "" THEN "ok" ELSE w

-----------------------------------------------------------------------------
(* 2 + 3. The state machine *)

Live == {"ready", "running", "stopped", "crashed"}
Pcs == {"new", "parsed", "clients", "groups", "dns", "router", "refused"} \cup Live

InitWith(c) ==
    /\ cfg = c
    /\ pc = "new" /\ why = "" /\ eff = Null /\ step = 1
    /\ act = [n |-> "Init", out |-> ""]
Init == \E c \in Space : InitWith(c)

\* one section of the loader: from pc = from, on to pc = to, or refused with the section's reason
Section(name, from, to, w) ==
    /\ pc = from
    /\ LET r == w     \* (evaluated once)
       IN /\ IF r = "" THEN pc' = to /\ why' = why ELSE pc' = "refused" /\ why' = r
          /\ act' = [n |-> name, out |-> IF r = "" THEN "ok" ELSE r]

\* jsoncfg.Load (cmd/shadowsocks-go/main.go) and the first lines of Config.Manager ("no services to start")
Parse ==
    /\ Section("Parse", "new", "parsed", FirstOf(<<ParseWhy(cfg), IF Len(cfg.servers) = 0 THEN "no services to start" ELSE "">>))
    /\ UNCHANGED <<cfg, eff, step>>
LoadClients == Section("LoadClients", "parsed", "clients", ClientsWhy(cfg)) /\ UNCHANGED <<cfg, eff, step>>
LoadGroups == Section("LoadGroups", "clients", "groups", GroupsWhy(cfg)) /\ UNCHANGED <<cfg, eff, step>>
LoadDNS == Section("LoadDNS", "groups", "dns", DnsWhy(cfg)) /\ UNCHANGED <<cfg, eff, step>>
LoadRouter == Section("LoadRouter", "dns", "router", FirstOf(<<ServerNamesWhy(cfg), RouterWhy(cfg)>>)) /\ UNCHANGED <<cfg, eff, step>>
\* the servers section builds the relays: this is where defaults become settings
LoadServers ==
    /\ Section("LoadServers", "router", "ready", ServersWhy(cfg))
    /\ eff' = IF pc' = "ready" THEN ImplEffective(cfg) ELSE eff
    /\ UNCHANGED <<cfg, step>>

\* Manager.Run: every service is started
Start ==
    /\ pc = "ready"
    /\ pc' = "running"
    /\ act' = [n |-> "Start", out |-> "ok"]
    /\ UNCHANGED <<cfg, why, eff, step>>

\* one step of the smoke script
Traffic ==
    /\ pc = "running"
    /\ LET script == Script(cfg) IN
       /\ step <= Len(script)
       /\ LET t == script[step]
           f == Flows(cfg)[t.i]
           \* the uplink creates the NAT entry and sends; the reply of the target comes back on the downlink
           out == CASE t.k = "tcp" -> f.tcp[t.j]
                    [] t.k = "up" -> IF f.udp[t.j] = "none" THEN "none" ELSE "sent"
                    [] t.k = "down" -> f.udp[t.j]
                    [] t.k = "probe" -> WireOf(eff.servers[t.i].rej)
          IN /\ act' = [n |-> "Traffic", k |-> t.k, i |-> t.i, j |-> t.j, out |-> out]
             /\ pc' = IF out = "crash" THEN "crashed" ELSE pc
    /\ step' = step + 1
    /\ UNCHANGED <<cfg, why, eff>>

\* the context is cancelled, every service stops
Stop ==
    /\ pc = "running" /\ step > Len(Script(cfg))
    /\ pc' = "stopped"
    /\ act' = [n |-> "Stop", out |-> "ok"]
    /\ UNCHANGED <<cfg, why, eff, step>>

Next == Parse \/ LoadClients \/ LoadGroups \/ LoadDNS \/ LoadRouter \/ LoadServers \/ Start \/ Traffic \/ Stop

Spec == Init /\ [][Next]_vars

-----------------------------------------------------------------------------
(* The property *)

TypeOK ==
    /\ pc \in Pcs
    /\ why \in STRING
    /\ step \in Nat \ {0}
    /\ pc \in {"stopped", "crashed"} => step <= Len(Script(cfg)) + 1
    /\ pc \notin {"running", "stopped", "crashed"} => step = 1
    /\ (pc = "refused") = (why # "")
    /\ (pc \in Live) = (eff # Null)

\* every configuration the manager accepts satisfies the named invariants
\* (= every configuration that violates one is refused)
AcceptedIsValid == pc = "ready" => Valid(cfg)      \* (ready is the gate to every later state)

\* omitted fields behave exactly as their documented defaults ...
DefaultsAsDocumented == pc = "ready" => eff = Effective(cfg)
\* ... the same as an explicitly empty value
\* (a fact about the configuration alone: checked in its initial state)
OmittedIsEmpty == pc = "new" => Effective(cfg) = Effective(Explicit(cfg)) /\ Valid(cfg) = Valid(Explicit(cfg))

\* no accepted combination of options leads to a crash once traffic flows
NoCrash == pc # "crashed"

\* the loader is not stricter than the documentation
DocumentedIsAccepted == pc = "refused" => Expect(cfg) # "accept"

\* legacy single-listener fields and listener arrays are two spellings of one configuration
MigrationPreserves ==
    pc = "new" => /\ Effective(Migrated(cfg)) = Effective(cfg)
                  /\ Valid(Migrated(cfg)) = Valid(cfg)
                  /\ Expect(Migrated(cfg)) = Expect(cfg)
                  /\ ImplLoad(Migrated(cfg)) = ImplLoad(cfg)
                  /\ Flows(Migrated(cfg)) = Flows(cfg)

\* the one-expression loader and the sectioned one are the same function
LoaderAgrees == /\ pc = "refused" => why = ImplLoad(cfg)
                /\ pc = "ready" => ImplLoad(cfg) = "ok"

\* a configuration the model expects to crash is one the documentation does not vouch for
CrashIsUndocumented == (pc = "new" /\ CrashOf(cfg) # "") => Expect(cfg) # "accept"

RefusedIsFinal == [][pc = "refused" => pc' = "refused"]_vars
ConfigIsImmutable == [][cfg' = cfg]_vars
SettingsAreFrozen == [][(pc \in Live) => eff' = eff]_vars
LoadOrder == [][pc' # pc => <<pc, pc'>> \in {<<"new", "parsed">>, <<"parsed", "clients">>, <<"clients", "groups">>,
                                              <<"groups", "dns">>, <<"dns", "router">>, <<"router", "ready">>,
                                              <<"ready", "running">>, <<"running", "stopped">>, <<"running", "crashed">>}
                                \/ (pc' = "refused" /\ pc \in {"new", "parsed", "clients", "groups", "dns", "router"})]_vars
=============================================================================
