CONSTANTS
  ReplayWindowMs = ${ReplayWindowMs}
  CodeOmittedReject = "${CodeOmittedReject}"
  CodeEmptyReject = "${CodeEmptyReject}"
  CodeOmittedPad = "${CodeOmittedPad}"
  CodeEmptyPad = "${CodeEmptyPad}"
  CodeRefusesDomainTargetOnly = ${CodeRefusesDomainTargetOnly}
  CodeRefusesDuplicateSets = ${CodeRefusesDuplicateSets}
  MinMTU = 1280
  DocNatMs = 300000
  DocRelayBatch = 256
  DocRecvBatch = 64
  DocSendCap = 1024
  MaxBatch = 1024
  MinSendCap = 64
  DocIpwMs = 250
  DocIpb = 1440
  DocSwf = 256
  DocReject = "ForceReset"
  DocPad = "PadPlainDNS"
  DocNet = "ip"
  Space <- MCSpace
INIT MCInit
NEXT MCNext
VIEW View
${EMIT}
INVARIANTS ${INVARIANTS}
PROPERTIES ${PROPERTIES}
CHECK_DEADLOCK FALSE
