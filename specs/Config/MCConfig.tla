------------------------------ MODULE MCConfig ------------------------------
(* The configuration lattice of property C18 and the CASE lines the driver reads.                        *)
(*                                                                                                     *)
(* A configuration is Base(p) - one documented server of protocol p with one TCP and one UDP listener  *)
(* and the automatically added direct client - with the variants of one or two dimensions applied.     *)
(* Dimensions are applied in the order of DimSeq, so that a later dimension (default client, route,    *)
(* group, resolver) can name the clients an earlier one (cl) created.                                  *)
(* ${...} placeholders are filled in by lib/props/c18.py.                                              *)
EXTENDS Config, Json, SequencesExt

W == ReplayWindowMs

-----------------------------------------------------------------------------
(* the base configurations *)
L0 == [net |-> "tcp", ipw |-> Omit, ipb |-> Omit, dipw |-> FALSE]
U0 == [net |-> "udp", nat |-> Omit, rb |-> Omit, sb |-> Omit, cap |-> Omit, bm |-> OmitS]
Leg0 == [tcp |-> FALSE, udp |-> FALSE, nat |-> Omit, rb |-> Omit, sb |-> Omit, cap |-> Omit, bm |-> OmitS, dipw |-> FALSE]
HasUdp(p) == p \in UdpServerProtos
BaseServer(name, p) ==
    [name |-> name, proto |-> p, tcpL |-> <<L0>>, udpL |-> IF HasUdp(p) THEN <<U0>> ELSE <<>>, leg |-> Leg0,
     mtu |-> IF HasUdp(p) THEN 1500 ELSE Omit, psk |-> IF Is2022(p) THEN DocKeyLen(p) ELSE Omit, ups |-> OmitS,
     rej |-> OmitS, pad |-> OmitS, swf |-> Omit, tun |-> IF p = "direct" THEN "ip" ELSE OmitS, tto |-> FALSE, auth |-> FALSE]
Router0 == [defTCP |-> OmitS, defUDP |-> OmitS, dsets |-> <<>>, psets |-> <<>>, routes |-> <<>>]
Base(p) == [clientsMode |-> "omit", servers |-> <<BaseServer("s0", p)>>, clients |-> <<>>, groups |-> <<>>, dns |-> <<>>,
            router |-> Router0]

BaseClient(name, p) ==
    [name |-> name, proto |-> p, tcp |-> TRUE, udp |-> p \in UdpClientProtos, mtu |-> 1500,
     psk |-> IF Is2022(p) THEN DocKeyLen(p) ELSE Omit, ipsks |-> <<>>, ep |-> IF p = "direct" THEN "none" ELSE "ep",
     net |-> OmitS, pad |-> OmitS, swf |-> Omit, auth |-> FALSE]
Route0(name, client) == [name |-> name, net |-> OmitS, client |-> client, resolver |-> "", fromSrv |-> <<>>, toDSets |-> <<>>,
                         toPSets |-> <<>>, fromPSets |-> <<>>, nr |-> FALSE]
Sel0 == [policy |-> OmitS, clients |-> <<>>]
Resolver0(name, c) == [name |-> name, type |-> OmitS, addr |-> TRUE, tcpc |-> c, udpc |-> c, cache |-> Omit]

\* the first client a reference can name
C0(c) == ClientsOf(c)[1].name

-----------------------------------------------------------------------------
(* dimensions: Ov(c, d, v) is configuration c with variant v of dimension d *)

S1(c, f(_)) == [c EXCEPT !.servers[1] = f(@)]
AllUdp(s, f(_)) == [s EXCEPT !.udpL = [j \in DOMAIN @ |-> f(@[j])]]
AllTcp(s, f(_)) == [s EXCEPT !.tcpL = [j \in DOMAIN @ |-> f(@[j])]]
K1(c, f(_)) == IF Len(c.clients) = 0 THEN c ELSE [c EXCEPT !.clients[1] = f(@)]

\* NAT timeout variants: ms for listener arrays, whole seconds for the legacy field
NatMs(v) == CASE v = "omit" -> Omit [] v = "zero" -> 0 [] v = "below" -> W - 1000 [] v = "just-below" -> W - 1
              [] v = "at" -> W [] v = "above" -> W + 1000 [] v = "neg" -> -1000 [] v = "1s" -> 1000
NatSec(v) == CASE v = "omit" -> Omit [] v = "zero" -> 0 [] v = "below" -> (W + 999) \div 1000 - 2
               [] v = "just-below" -> (W + 999) \div 1000 - 1
               [] v = "at" -> (W + 999) \div 1000 [] v = "above" -> (W + 999) \div 1000 + 1 [] v = "neg" -> -1 [] v = "1s" -> 1

TcpMode(s, v) ==
    CASE v = "none" -> [s EXCEPT !.tcpL = <<>>, !.leg.tcp = FALSE]
      [] v = "array" -> s
      [] v = "legacy" -> [s EXCEPT !.tcpL = <<>>, !.leg.tcp = TRUE]
      [] v = "both" -> [s EXCEPT !.leg.tcp = TRUE]
      [] v = "two" -> [s EXCEPT !.tcpL = <<L0, [L0 EXCEPT !.net = "tcp4"]>>]
UdpMode(s, v) ==
    CASE v = "none" -> [s EXCEPT !.udpL = <<>>, !.leg.udp = FALSE]
      [] v = "array" -> [s EXCEPT !.udpL = <<U0>>, !.mtu = IF @ = Omit THEN 1500 ELSE @]
      [] v = "legacy" -> [s EXCEPT !.udpL = <<>>, !.leg.udp = TRUE, !.mtu = IF @ = Omit THEN 1500 ELSE @]
      [] v = "both" -> [s EXCEPT !.udpL = <<U0>>, !.leg.udp = TRUE, !.mtu = IF @ = Omit THEN 1500 ELSE @]
      [] v = "two" -> [s EXCEPT !.udpL = <<U0, [U0 EXCEPT !.net = "udp4"]>>, !.mtu = IF @ = Omit THEN 1500 ELSE @]

ClientsVar(c, v) ==
    CASE v = "omit" -> [c EXCEPT !.clientsMode = "omit", !.clients = <<>>]
      [] v = "empty" -> [c EXCEPT !.clientsMode = "empty", !.clients = <<>>]
      [] v = "direct" -> [c EXCEPT !.clientsMode = "list", !.clients = <<BaseClient("c0", "direct")>>]
      [] v = "tcponly" -> [c EXCEPT !.clientsMode = "list", !.clients = <<[BaseClient("c0", "direct") EXCEPT !.udp = FALSE, !.mtu = Omit]>>]
      [] v = "udponly" -> [c EXCEPT !.clientsMode = "list", !.clients = <<[BaseClient("c0", "direct") EXCEPT !.tcp = FALSE]>>]
      [] v = "split" -> [c EXCEPT !.clientsMode = "list", !.clients = <<[BaseClient("c0", "direct") EXCEPT !.udp = FALSE],
                                                                        [BaseClient("c1", "direct") EXCEPT !.tcp = FALSE]>>]
      [] v = "two" -> [c EXCEPT !.clientsMode = "list", !.clients = <<BaseClient("c0", "direct"), BaseClient("c1", "socks5")>>]
      [] v = "dup" -> [c EXCEPT !.clientsMode = "list", !.clients = <<BaseClient("c0", "direct"), BaseClient("c0", "socks5")>>]
      [] v = "socks5-auth" -> [c EXCEPT !.clientsMode = "list", !.clients = <<[BaseClient("c0", "socks5") EXCEPT !.auth = TRUE]>>]
      [] v = "http-auth" -> [c EXCEPT !.clientsMode = "list", !.clients = <<[BaseClient("c0", "http") EXCEPT !.auth = TRUE]>>]
      [] v = "2022-128-mu" -> [c EXCEPT !.clientsMode = "list", !.clients = <<[BaseClient("c0", "2022-128") EXCEPT !.ipsks = <<16>>]>>]
      [] v = "2022-256-mu" -> [c EXCEPT !.clientsMode = "list", !.clients = <<[BaseClient("c0", "2022-256") EXCEPT !.ipsks = <<32>>]>>]
      [] OTHER -> [c EXCEPT !.clientsMode = "list", !.clients = <<BaseClient("c0", v)>>]      \* v is a protocol name

GroupVar(c, v) ==
    LET n == C0(c)
        both(p) == [name |-> "g0", tcp |-> [policy |-> p, clients |-> <<n>>], udp |-> [policy |-> p, clients |-> <<n>>]]
    IN CASE v = "none" -> c
         [] v = "rr" -> [c EXCEPT !.groups = <<both("round-robin")>>]
         [] v = "random" -> [c EXCEPT !.groups = <<both("random")>>]
         [] v = "tcponly" -> [c EXCEPT !.groups = <<[both("round-robin") EXCEPT !.udp = Sel0]>>]
         [] v = "dangling" -> [c EXCEPT !.groups = <<[both("round-robin") EXCEPT !.tcp.clients = <<n, "nobody">>]>>]
         [] v = "dangling-udp" -> [c EXCEPT !.groups = <<[both("round-robin") EXCEPT !.udp.clients = <<"nobody">>]>>]
         [] v = "dup" -> [c EXCEPT !.groups = <<both("round-robin"), both("random")>>]
         [] v = "clash" -> [c EXCEPT !.groups = <<[both("round-robin") EXCEPT !.name = n]>>]
         [] v = "badpolicy" -> [c EXCEPT !.groups = <<both("fastest")>>]
         [] v = "nopolicy" -> [c EXCEPT !.groups = <<both(OmitS)>>]
         [] v = "empty" -> [c EXCEPT !.groups = <<[name |-> "g0", tcp |-> Sel0, udp |-> Sel0]>>]
         [] v = "nested" -> [c EXCEPT !.groups = <<both("round-robin"),
                                                   [name |-> "g1", tcp |-> [policy |-> "random", clients |-> <<"g0", n>>],
                                                    udp |-> [policy |-> "random", clients |-> <<"g0">>]]>>]
         [] v = "forward" -> [c EXCEPT !.groups = <<[name |-> "g1", tcp |-> [policy |-> "random", clients |-> <<"g0">>], udp |-> Sel0],
                                                    both("round-robin")>>]

DnsVar(c, v) ==
    LET n == C0(c)
    IN CASE v = "none" -> c
         [] v = "plain" -> [c EXCEPT !.dns = <<Resolver0("r0", n)>>]
         [] v = "plain-explicit" -> [c EXCEPT !.dns = <<[Resolver0("r0", n) EXCEPT !.type = "plain", !.cache = 0]>>]
         [] v = "tcp-only" -> [c EXCEPT !.dns = <<[Resolver0("r0", n) EXCEPT !.udpc = ""]>>]
         [] v = "system" -> [c EXCEPT !.dns = <<[name |-> "r0", type |-> "system", addr |-> FALSE, tcpc |-> "", udpc |-> "", cache |-> Omit]>>]
         [] v = "dup" -> [c EXCEPT !.dns = <<Resolver0("r0", n), Resolver0("r0", n)>>]
         [] v = "dangling" -> [c EXCEPT !.dns = <<[Resolver0("r0", n) EXCEPT !.tcpc = "nobody"]>>]
         [] v = "dangling-udp" -> [c EXCEPT !.dns = <<[Resolver0("r0", n) EXCEPT !.udpc = "nobody"]>>]
         [] v = "system-addr" -> [c EXCEPT !.dns = <<[Resolver0("r0", "") EXCEPT !.type = "system"]>>]
         [] v = "noaddr" -> [c EXCEPT !.dns = <<[Resolver0("r0", n) EXCEPT !.addr = FALSE]>>]
         [] v = "noclient" -> [c EXCEPT !.dns = <<Resolver0("r0", "")>>]
         [] v = "badtype" -> [c EXCEPT !.dns = <<[Resolver0("r0", n) EXCEPT !.type = "doh"]>>]

DefVar(c, v) ==
    LET set(t, u) == [c EXCEPT !.router.defTCP = t, !.router.defUDP = u]
    IN CASE v = "omit" -> set(OmitS, OmitS)
         [] v = "empty" -> set("", "")
         [] v = "first" -> set(C0(c), C0(c))
         [] v = "reject" -> set("reject", "reject")
         [] v = "reject-tcp" -> set("reject", OmitS)
         [] v = "dangling" -> set("nobody", OmitS)
         [] v = "dangling-udp" -> set(OmitS, "nobody")
         [] v = "group" -> set("g0", "g0")

RouteVar(c, v) ==
    LET n == C0(c)
        one(r) == [c EXCEPT !.router.routes = <<r>>]
        r0 == Route0("r0", n)
    IN CASE v = "none" -> c
         [] v = "all" -> one(r0)
         [] v = "reject" -> one(Route0("r0", "reject"))
         [] v = "reject-udp" -> one([Route0("r0", "reject") EXCEPT !.net = "udp"])
         [] v = "tcp" -> one([r0 EXCEPT !.net = "tcp"])
         [] v = "net-empty" -> one([r0 EXCEPT !.net = ""])
         [] v = "net-bogus" -> one([r0 EXCEPT !.net = "sctp"])
         [] v = "from-server" -> one([Route0("r0", "reject") EXCEPT !.fromSrv = <<"s0">>])
         [] v = "from-other" -> one([Route0("r0", "reject") EXCEPT !.fromSrv = <<"s1">>])
         [] v = "group" -> one(Route0("r0", "g0"))
         [] v = "resolver" -> one([r0 EXCEPT !.resolver = "r0"])
         [] v = "dangling-client" -> one(Route0("r0", "nobody"))
         [] v = "no-client" -> one(Route0("r0", ""))
         [] v = "dangling-resolver" -> one([r0 EXCEPT !.resolver = "nothing"])
         [] v = "dangling-server" -> one([r0 EXCEPT !.fromSrv = <<"s0", "s9">>])
         [] v = "dset" -> [one([r0 EXCEPT !.toDSets = <<"d0">>]) EXCEPT !.router.dsets = <<"d0">>]
         [] v = "dangling-dset" -> [one([r0 EXCEPT !.toDSets = <<"d0", "d9">>]) EXCEPT !.router.dsets = <<"d0">>]
         [] v = "dup-dset" -> [one([r0 EXCEPT !.toDSets = <<"d0">>]) EXCEPT !.router.dsets = <<"d0", "d0">>]
         [] v = "pset-nr" -> [one([r0 EXCEPT !.toPSets = <<"p0">>, !.nr = TRUE]) EXCEPT !.router.psets = <<"p0">>]
         [] v = "pset" -> [one([r0 EXCEPT !.toPSets = <<"p0">>]) EXCEPT !.router.psets = <<"p0">>]
         [] v = "from-pset" -> [one([r0 EXCEPT !.fromPSets = <<"p0">>]) EXCEPT !.router.psets = <<"p0">>]
         [] v = "dangling-pset" -> [one([r0 EXCEPT !.fromPSets = <<"p9">>]) EXCEPT !.router.psets = <<"p0">>]
         [] v = "dup-pset" -> [one([r0 EXCEPT !.fromPSets = <<"p0">>]) EXCEPT !.router.psets = <<"p0", "p0">>]
         [] v = "unused-dup-pset" -> [c EXCEPT !.router.psets = <<"p0", "p0">>]
         [] v = "noname" -> one([r0 EXCEPT !.name = ""])
         [] v = "named-default" -> one([r0 EXCEPT !.name = "default"])
         [] v = "two-same-name" -> [c EXCEPT !.router.routes = <<[Route0("r0", "reject") EXCEPT !.fromSrv = <<"s1">>], r0>>]

Server2Var(c, v) ==
    CASE v = "none" -> c
      [] v = "other" -> [c EXCEPT !.servers = @ \o <<[BaseServer("s1", "socks5") EXCEPT !.udpL = <<>>, !.mtu = Omit]>>]
      [] v = "dup" -> [c EXCEPT !.servers = @ \o <<[BaseServer("s0", "socks5") EXCEPT !.udpL = <<>>, !.mtu = Omit]>>]
      [] v = "http" -> [c EXCEPT !.servers = @ \o <<BaseServer("s1", "http")>>]
      [] v = "none-udp" -> [c EXCEPT !.servers = @ \o <<BaseServer("s1", "none")>>]
      [] v = "no-servers" -> [c EXCEPT !.servers = <<>>]

Ov(c, d, v) ==
    CASE d = "tl" -> S1(c, LAMBDA s : TcpMode(s, v))
      [] d = "ul" -> S1(c, LAMBDA s : UdpMode(s, v))
      [] d = "mtu" -> S1(c, LAMBDA s : [s EXCEPT !.mtu = v])
      [] d = "nat" -> S1(c, LAMBDA s : [AllUdp(s, LAMBDA l : [l EXCEPT !.nat = NatMs(v)]) EXCEPT !.leg.nat = NatSec(v)])
      [] d = "rb" -> S1(c, LAMBDA s : [AllUdp(s, LAMBDA l : [l EXCEPT !.rb = v]) EXCEPT !.leg.rb = v])
      [] d = "sb" -> S1(c, LAMBDA s : [AllUdp(s, LAMBDA l : [l EXCEPT !.sb = v]) EXCEPT !.leg.sb = v])
      [] d = "cap" -> S1(c, LAMBDA s : [AllUdp(s, LAMBDA l : [l EXCEPT !.cap = v]) EXCEPT !.leg.cap = v])
      [] d = "bm" -> S1(c, LAMBDA s : [AllUdp(s, LAMBDA l : [l EXCEPT !.bm = v]) EXCEPT !.leg.bm = v])
      [] d = "lnet" -> S1(c, LAMBDA s : AllUdp(AllTcp(s, LAMBDA l : [l EXCEPT !.net = "tcp" \o v]), LAMBDA l : [l EXCEPT !.net = "udp" \o v]))
      [] d = "ipw" -> S1(c, LAMBDA s : AllTcp(s, LAMBDA l : [l EXCEPT !.ipw = v]))
      [] d = "ipb" -> S1(c, LAMBDA s : AllTcp(s, LAMBDA l : [l EXCEPT !.ipb = v]))
      [] d = "dipw" -> S1(c, LAMBDA s : [AllTcp(s, LAMBDA l : [l EXCEPT !.dipw = v]) EXCEPT !.leg.dipw = v])
      [] d = "psk" -> S1(c, LAMBDA s : [s EXCEPT !.psk = v])
      [] d = "ups" -> S1(c, LAMBDA s : [s EXCEPT !.ups = v])
      [] d = "rej" -> S1(c, LAMBDA s : [s EXCEPT !.rej = v])
      [] d = "pad" -> S1(c, LAMBDA s : [s EXCEPT !.pad = v])
      [] d = "swf" -> S1(c, LAMBDA s : [s EXCEPT !.swf = v])
      [] d = "tun" -> S1(c, LAMBDA s : [s EXCEPT !.tun = v])
      [] d = "tto" -> S1(c, LAMBDA s : [s EXCEPT !.tto = v])
      [] d = "auth" -> S1(c, LAMBDA s : [s EXCEPT !.auth = v])
      [] d = "s2" -> Server2Var(c, v)
      [] d = "cl" -> ClientsVar(c, v)
      [] d = "cmtu" -> K1(c, LAMBDA x : [x EXCEPT !.mtu = v])
      [] d = "cpsk" -> K1(c, LAMBDA x : [x EXCEPT !.psk = v])
      [] d = "cipsk" -> K1(c, LAMBDA x : [x EXCEPT !.ipsks = v])
      [] d = "cep" -> K1(c, LAMBDA x : [x EXCEPT !.ep = v])
      [] d = "cnet" -> K1(c, LAMBDA x : [x EXCEPT !.net = v])
      [] d = "cpad" -> K1(c, LAMBDA x : [x EXCEPT !.pad = v])
      [] d = "grp" -> GroupVar(c, v)
      [] d = "dns" -> DnsVar(c, v)
      [] d = "def" -> DefVar(c, v)
      [] d = "rt" -> RouteVar(c, v)

\* the variants of every dimension
Vals(d) ==
    CASE d = "tl" -> {"none", "legacy", "both", "two"}
      [] d = "ul" -> {"none", "array", "legacy", "both", "two"}
      [] d = "mtu" -> {Omit, 0, MinMTU - 1, MinMTU, 1492, 65535}
      [] d = "nat" -> {"omit", "zero", "below", "just-below", "at", "above", "neg", "1s"}
      [] d = "rb" -> {Omit, 0, 1, MaxBatch, MaxBatch + 1, -1}
      [] d = "sb" -> {Omit, 0, 1, MaxBatch, MaxBatch + 1, -1}
      [] d = "cap" -> {Omit, 0, MinSendCap - 1, MinSendCap, 4096}
      [] d = "bm" -> {OmitS, "", "no", "sendmmsg", "bogus"}
      [] d = "lnet" -> {"4", "6", "x"}
      [] d = "ipw" -> {Omit, 0, 1, DocIpwMs, -1}
      [] d = "ipb" -> {Omit, 0, 1, DocIpb, -1}
      [] d = "dipw" -> {TRUE}
      [] d = "psk" -> {Omit, 0, 15, 16, 17, 24, 31, 32, 33}
      [] d = "ups" -> {OmitS, "", "file", "badlen", "missing"}
      [] d = "rej" -> {OmitS, "", "bogus"} \cup RejectNames
      [] d = "pad" -> {OmitS, "", "bogus"} \cup PadNames
      [] d = "swf" -> {Omit, 0, 1, DocSwf, 1024}
      [] d = "tun" -> {OmitS, "ip", "dom"}
      [] d = "tto" -> {TRUE}
      [] d = "auth" -> {TRUE}
      [] d = "s2" -> {"other", "dup", "http", "none-udp", "no-servers"}
      [] d = "cl" -> {"omit", "empty", "direct", "tcponly", "udponly", "split", "two", "dup", "socks5-auth", "http-auth",
                      "2022-128-mu", "2022-256-mu", "socks5", "http", "none", "plain", "2022-128", "2022-256", "bogus"}
      [] d = "cmtu" -> {Omit, 0, MinMTU - 1, MinMTU}
      [] d = "cpsk" -> {Omit, 15, 16, 17, 32}
      [] d = "cipsk" -> {<<>>, <<15>>, <<16>>, <<32>>, <<16, 17>>}
      [] d = "cep" -> {"ep", "split", "none", "both"}
      [] d = "cnet" -> {OmitS, "", "ip", "ip4", "ip6", "ipx"}
      [] d = "cpad" -> {OmitS, "", "bogus"} \cup PadNames
      [] d = "grp" -> {"rr", "random", "tcponly", "dangling", "dangling-udp", "dup", "clash", "badpolicy", "nopolicy", "empty",
                       "nested", "forward"}
      [] d = "dns" -> {"plain", "plain-explicit", "tcp-only", "system", "dup", "dangling", "dangling-udp", "system-addr", "noaddr",
                       "noclient", "badtype"}
      [] d = "def" -> {"omit", "empty", "first", "reject", "reject-tcp", "dangling", "dangling-udp", "group"}
      [] d = "rt" -> {"all", "reject", "reject-udp", "tcp", "net-empty", "net-bogus", "from-server", "from-other", "group",
                      "resolver", "dangling-client", "no-client", "dangling-resolver", "dangling-server", "dset", "dangling-dset",
                      "dup-dset", "pset-nr", "pset", "from-pset", "dangling-pset", "dup-pset", "unused-dup-pset", "noname",
                      "named-default", "two-same-name"}

DimSeq == <<"tl", "ul", "mtu", "nat", "rb", "sb", "cap", "bm", "lnet", "ipw", "ipb", "dipw", "psk", "ups", "rej", "pad", "swf",
            "tun", "tto", "auth", "s2", "cl", "cmtu", "cpsk", "cipsk", "cep", "cnet", "cpad", "grp", "dns", "def", "rt">>
DimIndex(d) == CHOOSE i \in DOMAIN DimSeq : DimSeq[i] = d

\* ---- the spaces the check script chooses from ----
AllProfiles == DocServerProtos
AllDims == Ran(DimSeq)
ServerDims == {DimSeq[i] : i \in 1 .. DimIndex("auth")}
ConfigDims == AllDims \ ServerDims
\* (a set comprehension over a dependent range is written as a union)
SinglesOf(P, D) == UNION {UNION {{[c |-> Ov(Base(p), d, v), l |-> <<p, d, ToString(v)>>] : v \in Vals(d)} : d \in D} : p \in P}
PairsOf(P, D1, D2) ==
    UNION {UNION {UNION {
        {[c |-> Ov(Ov(Base(p), d1, v1), d2, v2), l |-> <<p, d1, ToString(v1), d2, ToString(v2)>>] : v1 \in Vals(d1), v2 \in Vals(d2)}
        : d2 \in {x \in D2 : DimIndex(x) > DimIndex(d1)}} : d1 \in D1} : p \in P}
Bases(P) == {[c |-> Base(p), l |-> <<p>>] : p \in P}
\* protocols outside the documented list
Odd == {[c |-> Base(p), l |-> <<p>>] : p \in {"tproxy", "redirect", "bogus"}}
\* combinations of several dimensions drawn by the check script (seeded): Combo(p, <<<<d1, k1>>, <<d2, k2>>, ...>>) is
\* Base(p) with variant number k_i (modulo the number of variants) of dimension d_i, applied in DimSeq order
Pick(S, k) == LET q == SetToSeq(S) IN q[(k % Len(q)) + 1]
RECURSIVE ApplyAll(_, _)
ApplyAll(c, ds) == IF ds = <<>> THEN c ELSE ApplyAll(Ov(c, ds[1][1], Pick(Vals(ds[1][1]), ds[1][2])), Tail(ds))
RECURSIVE LabelAll(_)
LabelAll(ds) == IF ds = <<>> THEN <<>> ELSE <<ds[1][1], ToString(Pick(Vals(ds[1][1]), ds[1][2]))>> \o LabelAll(Tail(ds))
Combo(p, ds) == LET sorted == SortSeq(ds, LAMBDA a, b : DimIndex(a[1]) < DimIndex(b[1]))
                IN [c |-> ApplyAll(Base(p), sorted), l |-> <<p>> \o LabelAll(sorted)]
Given == ${Given}

Labelled == ${Space}
MCSpace == {x.c : x \in Labelled}

-----------------------------------------------------------------------------
(* the label of a configuration (which variants it is made of) rides along in a variable of this module; *)
(* it is not part of the view, so the same configuration reached under two labels is one state           *)
VARIABLE lbl
MCInit == \E x \in Labelled : InitWith(x.c) /\ lbl = x.l
\* (the disjuncts of Next, one by one, so that TLC's coverage statistics name each action)
MCNext == \/ Parse /\ UNCHANGED lbl
          \/ LoadClients /\ UNCHANGED lbl
          \/ LoadGroups /\ UNCHANGED lbl
          \/ LoadDNS /\ UNCHANGED lbl
          \/ LoadRouter /\ UNCHANGED lbl
          \/ LoadServers /\ UNCHANGED lbl
          \/ Start /\ UNCHANGED lbl
          \/ Traffic /\ UNCHANGED lbl
          \/ Stop /\ UNCHANGED lbl
View == sv

(* emission *)
\* one CASE line per configuration, printed when its first action is taken (by the worker that takes it)
CaseOf(c, l) == [label |-> l, cfg |-> c, expect |-> Expect(c), broken |-> Broken(c), impl |-> ImplLoad(c),
                 eff |-> Effective(c), flows |-> Flows(c), crash |-> CrashOf(c),
                 base |-> \E p \in AllProfiles \cup {"tproxy", "redirect", "bogus"} : c = Base(p)]
EmitCase == act'.n = "Parse" => PrintT("CASE " \o ToJson(CaseOf(cfg, lbl)))
Obs == [pc |-> pc, why |-> why, eff |-> eff]
Emit == PrintT("EDGE " \o ToJson([f |-> [c |-> lbl, pc |-> pc, step |-> step], a |-> act',
                                  t |-> [c |-> lbl, pc |-> pc', step |-> step'], o |-> Obs']))
EmitInit == PrintT("INIT " \o ToJson([t |-> [c |-> lbl, pc |-> pc, step |-> step], o |-> Obs]))
=============================================================================
