SPECIFICATION SpecE
CONSTANTS
  NSvc = ${NSvc}
  Listeners <- MCListeners
  Block <- MCBlock
  KeepPartial = ${KeepPartial}
VIEW view
INVARIANTS TypeOK StopOnlyStarted StopAfterCancel StopInOrder AllStopped OkIffAll CleanRunNoLeak LeakOnlyPartial ${EXTRA_INV}
PROPERTIES CancelLeadsToReturn
CHECK_DEADLOCK FALSE
${EMIT}
