------------------------------ MODULE MCManager ------------------------------
EXTENDS Manager, TLC, Json

MCListeners == ${Listeners}
MCBlock == ${Block}

Emit == PrintT("EDGE " \o ToJson([f |-> view, a |-> act', t |-> view',
                                   o |-> [open |-> open', running |-> running', pc |-> pc', ok |-> ok']]))
EmitInit == PrintT("INIT " \o ToJson([t |-> view, o |-> [blocked |-> blocked]]))
InitE == Init /\ EmitInit
SpecE == InitE /\ [][Next]_vars /\ WF_vars(Next)
=============================================================================
