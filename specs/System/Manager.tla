------------------------------- MODULE Manager -------------------------------
(* The service manager's run loop (service/service.go Manager.Run) over the services that
   Config.Manager builds, in the order it builds them: client groups, the credential manager,
   then per server its TCP relay and its UDP relay, then the API server.

   One action per step of the real loop:
     OpenListener(i)  - service i binds its next listener (TCPRelay.Start / UDP*Relay.Start loop body)
     StartFail(i)     - the bind fails: Start returns the error, Run logs it, cancels, and goes on to stop
     Started(i)       - Start returned nil: the service is appended to runningSvcs
     Cancel           - the environment cancels the context (signal)
     Wake             - Run leaves <-ctx.Done()
     StopSvc(i)       - Run calls Stop on the next running service, which closes all of its listeners
     Return           - Run returns ok

   Deliberate deviation of the code, modelled as it is: a service whose Start failed after it had already
   bound some listeners is NOT in runningSvcs, so those listeners stay open (KeepPartial = TRUE).  No listed
   property covers a failed start of the whole process (cmd/shadowsocks-go exits), so it is reported as a note. *)
EXTENDS Naturals, Sequences, FiniteSets

CONSTANTS NSvc,          \* number of services
          Listeners,     \* <<n_1, ..., n_NSvc>> listeners per service (0 for the credential manager / client groups)
          Block,         \* set of <<service, listener>> that may fail to bind (the model picks one or none at Init)
          KeepPartial    \* TRUE: as coded (partial listeners of a failed service stay open)

VARIABLES pc,        \* "start" | "wait" | "stop" | "done"
          cur,       \* service being started / position in running while stopping
          open,      \* [1..NSvc -> number of listeners currently bound]
          running,   \* sequence of services whose Start returned nil
          stopped,   \* set of services on which Stop was called
          ok, cancelled,
          blocked,   \* the <<service, listener>> that fails in this behaviour, or <<0, 0>>
          act

vars == <<pc, cur, open, running, stopped, ok, cancelled, blocked, act>>
view == <<pc, cur, open, running, stopped, ok, cancelled, blocked>>

Svc == 1..NSvc

Init ==
  /\ pc = "start" /\ cur = 1
  /\ open = [i \in Svc |-> 0]
  /\ running = <<>> /\ stopped = {}
  /\ ok = TRUE /\ cancelled = FALSE
  /\ blocked \in Block \cup {<<0, 0>>}
  /\ act = [n |-> "Init"]

OpenListener ==
  /\ pc = "start" /\ cur <= NSvc /\ open[cur] < Listeners[cur]
  /\ blocked # <<cur, open[cur] + 1>>
  /\ open' = [open EXCEPT ![cur] = @ + 1]
  /\ act' = [n |-> "OpenListener", s |-> cur, l |-> open[cur] + 1]
  /\ UNCHANGED <<pc, cur, running, stopped, ok, cancelled, blocked>>

StartFail ==
  /\ pc = "start" /\ cur <= NSvc /\ open[cur] < Listeners[cur]
  /\ blocked = <<cur, open[cur] + 1>>
  /\ ok' = FALSE /\ cancelled' = TRUE
  /\ pc' = "stop" /\ cur' = 1
  /\ open' = IF KeepPartial THEN open ELSE [open EXCEPT ![cur] = 0]
  /\ act' = [n |-> "StartFail", s |-> cur, l |-> open[cur] + 1]
  /\ UNCHANGED <<running, stopped, blocked>>

Started ==
  /\ pc = "start" /\ cur <= NSvc /\ open[cur] = Listeners[cur]
  /\ running' = Append(running, cur)
  /\ cur' = cur + 1
  /\ act' = [n |-> "Started", s |-> cur]
  /\ UNCHANGED <<pc, open, stopped, ok, cancelled, blocked>>

AllStarted ==
  /\ pc = "start" /\ cur = NSvc + 1
  /\ pc' = "wait"
  /\ act' = [n |-> "AllStarted"]
  /\ UNCHANGED <<cur, open, running, stopped, ok, cancelled, blocked>>

Cancel ==
  /\ pc = "wait" /\ ~cancelled           \* the harness cancels only once everything runs (see DESIGN 11.6)
  /\ cancelled' = TRUE
  /\ act' = [n |-> "Cancel"]
  /\ UNCHANGED <<pc, cur, open, running, stopped, ok, blocked>>

Wake ==
  /\ pc = "wait" /\ cancelled
  /\ pc' = "stop" /\ cur' = 1
  /\ act' = [n |-> "Wake"]
  /\ UNCHANGED <<open, running, stopped, ok, cancelled, blocked>>

StopSvc ==
  /\ pc = "stop" /\ cur <= Len(running)
  /\ LET s == running[cur] IN
       /\ open' = [open EXCEPT ![s] = 0]
       /\ stopped' = stopped \cup {s}
       /\ act' = [n |-> "StopSvc", s |-> s]
  /\ cur' = cur + 1
  /\ UNCHANGED <<pc, running, ok, cancelled, blocked>>

Return ==
  /\ pc = "stop" /\ cur = Len(running) + 1
  /\ pc' = "done"
  /\ act' = [n |-> "Return", ok |-> ok]
  /\ UNCHANGED <<cur, open, running, stopped, ok, cancelled, blocked>>

Next == OpenListener \/ StartFail \/ Started \/ AllStarted \/ Cancel \/ Wake \/ StopSvc \/ Return

Spec == Init /\ [][Next]_vars /\ WF_vars(Next)

Range(s) == {s[k] : k \in 1..Len(s)}

TypeOK ==
  /\ pc \in {"start", "wait", "stop", "done"}
  /\ \A i \in Svc : open[i] \in 0..Listeners[i]
  /\ stopped \subseteq Svc

(* Stop is only ever called on a service whose Start returned nil (Stop on a relay that never started
   dereferences a nil listener). *)
StopOnlyStarted == stopped \subseteq Range(running)

(* Nothing is stopped before the context is cancelled. *)
StopAfterCancel == stopped # {} => cancelled

(* Services are stopped in the order they were started, each at most once. *)
StopInOrder == pc = "stop" => stopped = {running[k] : k \in 1..(cur - 1)}

(* When Run returns, every service that started has been stopped and holds no listener. *)
AllStopped == pc = "done" => /\ stopped = Range(running)
                             /\ \A i \in Range(running) : open[i] = 0

(* Run reports success exactly when every service started. *)
OkIffAll == pc = "done" => (ok <=> Len(running) = NSvc)

(* After a clean run no listener is left. *)
CleanRunNoLeak == (pc = "done" /\ ok) => \A i \in Svc : open[i] = 0

(* The strong form, violated as coded by the partial listeners of a failed multi-listener service. *)
NoLeak == pc = "done" => \A i \in Svc : open[i] = 0

(* The only listeners that can be left are those of the one service whose Start failed. *)
LeakOnlyPartial == pc = "done" => \A i \in Svc : open[i] > 0 => (blocked[1] = i /\ open[i] = blocked[2] - 1)

(* Run returns once the context is cancelled or a start failed. *)
Terminates == <>(pc = "done" \/ (pc = "wait" /\ ~cancelled))
CancelLeadsToReturn == cancelled ~> pc = "done"
=============================================================================
