---------------------------- MODULE TraceManager ----------------------------
(* Trace validation of the real service manager against Manager.tla.  The driver (harness/drivers/sys) records, for every
   run of a real Manager, what the manager and its services logged - "open" (a listener announced), "fail" (Failed to
   start service), "stop" (a service's Stopped line) - then "ret" with Run's result and "bound" with the number of
   listener ports of each service that are still bound afterwards.  Steps that leave no line in the log (a service's
   Start returning, the wake-up after the context was cancelled, the credential manager's Stop) are taken silently by
   the specification's own actions between two recorded events.  Runs are concatenated; "run" starts one and names the
   listener the harness made fail.  TLC must consume every line (high-water mark, -workers 1). *)
EXTENDS Manager, Json, TLC

VARIABLE l
tvars == <<vars, l>>
Trace == ndJsonDeserialize("trace.ndjson")
TListeners == ${Listeners}
TBlock == ${Block}
Silent == ${Silent}            \* services whose Stop leaves no line (the credential manager)
Ev == Trace[l]
More == l <= Len(Trace)

TInit == Init /\ l = 1 /\ TLCSet(1, 0)

\* a new run starts (the previous one has returned, or this is the first)
TRun ==
    /\ More /\ Ev.e = "run" /\ (pc = "done" \/ l = 1)
    /\ pc' = "start" /\ cur' = 1 /\ open' = [i \in Svc |-> 0] /\ running' = <<>> /\ stopped' = {}
    /\ ok' = TRUE /\ cancelled' = FALSE /\ blocked' = <<Ev.blocked[1], Ev.blocked[2]>>
    /\ act' = [n |-> "Init"] /\ l' = l + 1

TOpen    == More /\ Ev.e = "open" /\ OpenListener /\ act'.s = Ev.s /\ act'.l = Ev.l /\ l' = l + 1
TFail    == More /\ Ev.e = "fail" /\ StartFail /\ act'.s = Ev.s /\ l' = l + 1
TStop    == More /\ Ev.e = "stop" /\ StopSvc /\ act'.s = Ev.s /\ act'.s \notin Silent /\ l' = l + 1
TRet     == More /\ Ev.e = "ret" /\ Return /\ ok = Ev.ok /\ l' = l + 1
\* after Run returned: the ports still bound are exactly the listeners the specification says are open
TBound   == More /\ Ev.e = "bound" /\ pc = "done" /\ \A i \in Svc : open[i] = Ev.open[i] /\ UNCHANGED vars /\ l' = l + 1

\* steps the log does not show
TSilent  == /\ \/ Started \/ AllStarted \/ Cancel \/ Wake \/ (StopSvc /\ act'.s \in Silent)
            /\ UNCHANGED l

TNext == TRun \/ TOpen \/ TFail \/ TStop \/ TRet \/ TBound \/ TSilent
TSpec == TInit /\ [][TNext]_tvars

Hw == IF l > TLCGet(1) THEN TLCSet(1, l) ELSE TRUE
TraceAccepted == PrintT(<<"TRACE-HW", TLCGet(1), Len(Trace)>>) /\ TLCGet(1) = Len(Trace) + 1
=============================================================================
