CONSTANTS
  NSvc = ${NSvc}
  Listeners <- TListeners
  Block <- TBlock
  KeepPartial = ${KeepPartial}
SPECIFICATION TSpec
CONSTRAINT Hw
POSTCONDITION TraceAccepted
INVARIANTS StopOnlyStarted StopAfterCancel AllStopped OkIffAll LeakOnlyPartial
CHECK_DEADLOCK FALSE
