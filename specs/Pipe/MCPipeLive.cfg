\* Liveness on a small configuration: under weak fairness of the internal steps, once both directions
\* are shut down every call returns.  (No VIEW: TLC's liveness checking needs the real state graph.)
CONSTANTS
  LThreads = ${LThreads}
  RThreads = ${RThreads}
  WriteSizes = ${WriteSizes}
  BufSizes = ${BufSizes}
  SinkLims = ${SinkLims}
  DlKinds = ${DlKinds}
  CloseKinds = ${CloseKinds}
  MaxCalls = ${MaxCalls}
  Strict = ${Strict}
  EagerPark = FALSE
  Allowed <- MCAllowed
  Budget <- MCBudget
SPECIFICATION FairSpec
INVARIANTS TypeOK NoPanic
PROPERTIES EventuallyReturns
CHECK_DEADLOCK FALSE
