CONSTANTS
  LThreads = ${LThreads}
  RThreads = ${RThreads}
  WriteSizes = ${WriteSizes}
  BufSizes = ${BufSizes}
  SinkLims = ${SinkLims}
  DlKinds = ${DlKinds}
  CloseKinds = ${CloseKinds}
  MaxCalls = ${MaxCalls}
  Strict = ${Strict}
  EagerPark = FALSE
  Allowed <- MCAllowed
  Budget <- MCBudget
INIT InitE
NEXT Next
VIEW View
${EMIT}
INVARIANTS TypeOK NoPanic ErrorBeforeDone MutexOK RendezvousPaired StartedAfterCloseFails EofMeansCloseWrite
           DeadlineUnblocks TimerOnlyIfOpen BlockedLegitimately ClosedDrains
PROPERTIES AtomicWrites ChunkIsNext CountIsConsumed WriteResult ClosedForever ReverseUnaffected
           SetDCoversBothHalves CloseCoversBothHalves
CHECK_DEADLOCK FALSE
