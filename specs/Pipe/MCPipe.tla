------------------------------- MODULE MCPipe -------------------------------
(* Model-checking front end of Pipe.tla.  ${...} placeholders are filled in by lib/props/c15.py. *)
EXTENDS Pipe, Json

\* which operations each goroutine may call, and how many calls it may make
MCAllowed(t) == ${ALLOWED}
MCBudget(t) == ${BUDGET}

View == sv

\* what the replay driver can observe of the real pipe: where every call stands
Obs == [pc |-> [t \in Threads |-> th[t].pc], q |-> Quiescent]

Emit == PrintT("EDGE " \o ToJson([f |-> sv, a |-> act', t |-> sv', o |-> Obs']))
EmitInit == PrintT("INIT " \o ToJson([t |-> sv, o |-> Obs]))
InitE == Init /\ EmitInit

\* Sequential-start schedules: a new call (or a timer expiry) is issued only when nothing else
\* can move.  These are the schedules the replay driver can force on the real code: it starts
\* one goroutine per call and waits until every goroutine has returned or is parked.
SeqOnly == (act'.n \in {"Call", "Fire"}) => Quiescent
\* Between two starts the steps of the running calls mostly commute; to keep the replay graph small
\* only the first goroutine (in the order below) that can move moves.  Every path is still a
\* behaviour of Pipe.tla; where the real scheduler resolves a choice differently (which of two parked
\* readers receives, who gets wrMu next) the driver notes the drift and the recorded history is
\* judged by trace validation instead.
Order == ${ORDER}
Rank(t) == CHOOSE i \in 1..Len(Order) : Order[i] = t
First == (act'.n \notin {"Call", "Fire"}) => \A x \in Threads : Rank(x) < Rank(act'.t) => ~CanStep(x)
EmitSeq == SeqOnly /\ First /\ Emit
=============================================================================
