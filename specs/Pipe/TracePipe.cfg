CONSTANTS
  LThreads = ${LThreads}
  RThreads = ${RThreads}
  WriteSizes = {}
  BufSizes = {}
  SinkLims = {}
  DlKinds = {}
  CloseKinds = {}
  MaxCalls = 1000000
  Strict = ${Strict}
  EagerPark = TRUE
  Allowed <- TAllowed
  Budget <- TBudget
INIT TInit
NEXT TNext
VIEW TView
CONSTRAINT Fresh
POSTCONDITION Report
CHECK_DEADLOCK FALSE
