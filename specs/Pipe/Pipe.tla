-------------------------------- MODULE Pipe --------------------------------
(* The in-memory duplex pipe of netio/pipe.go (NewPipe, *PipeConn).                            *)
(*                                                                                            *)
(* The model is shaped like the code: one action per atomic step of a call (a channel         *)
(* operation, a mutex operation, an atomic load/store, a critical section of pipeDeadline).   *)
(* There is no buffering: a Write offers its remaining slice on the unbuffered data channel   *)
(* of its direction, a reader takes the slice, copies k = min(len, cap) bytes and sends k     *)
(* back on the count channel; the writer advances by exactly the value it receives.           *)
(*                                                                                            *)
(* Directions are named after their WRITER end: direction "l" carries bytes l -> r.           *)
(* For direction d (code names as seen from the writer end d / the reader end O(d)):          *)
(*   data channel   d.wrTx  = O(d).rdRx        count channel  d.wrRx = O(d).rdTx              *)
(*   done[d]        d.remoteDone = O(d).localDone   (ONE channel per direction, closed by     *)
(*                  d.CloseWrite* or by O(d).CloseRead*, through a sync.OnceFunc)             *)
(*   err[d]         d.writeError = O(d).readError   (ONE onceError per direction)             *)
(*   mu[d]          d.wrMu                                                                    *)
(*   dl[d].wr       d.writeDeadline             dl[O(d)].rd   O(d).readDeadline               *)
(*                                                                                            *)
(* Bytes are abstract: a Write of sz bytes is the interval [0, sz) of that call; a chunk is   *)
(* (writer thread, lo, k).  TracePipe.tla adds the call identities and compares with the      *)
(* bytes the real readers received.                                                            *)
EXTENDS Integers, Sequences, FiniteSets, TLC

CONSTANTS
    LThreads, RThreads,   \* goroutines (strings) issuing calls on the "l" / "r" end
    WriteSizes,           \* lengths of Write calls
    BufSizes,             \* lengths of Read buffers
    SinkLims,             \* WriteTo sinks: number of bytes the io.Writer accepts before failing (Inf = never fails)
    DlKinds,              \* subset of {"past","future","zero"}
    CloseKinds,           \* subset of {"nil","custom"}: Close* (nil error) / Close*WithError(custom)
    MaxCalls,             \* bound on the number of calls
    Strict,               \* TRUE: exactly the code.  FALSE: additionally everything the property leaves open
    EagerPark,            \* FALSE: literal.  TRUE (trace validation only): a call evaluates <deadline>.wait() in the
                          \* same step that brings it to its select (R2 / WLock / CountBack), see EnterSelect
    Allowed(_),           \* Allowed(t): the operations thread t may call
    Budget(_)             \* Budget(t): the number of calls thread t may make

Inf == 99                 \* "unlimited" sink

VARIABLES
    done,     \* done[d]: the direction's done channel is closed
    err,      \* err[d] \in {"unset","eof","closed","custom"}: the direction's onceError
    mu,       \* mu[e]: holder of e.wrMu, or "none"
    dl,       \* dl[e][w], w \in {"rd","wr"}: [closed |-> cancel channel closed, timer |-> an AfterFunc timer is pending]
    th,       \* th[t]: the call thread t is executing (record, see Idle)
    cnt,      \* cnt[t]: calls made by t
    ncalls,
    panic,    \* ghost: something that panics in Go happened ("" = nothing)
    act       \* last action, output only

sv == <<done, err, mu, dl, th, cnt, ncalls, panic>>
vars == <<sv, act>>

Ends == {"l", "r"}
O(e) == IF e = "l" THEN "r" ELSE "l"
Threads == LThreads \cup RThreads
End(t) == IF t \in LThreads THEN "l" ELSE "r"
Min(a, b) == IF a < b THEN a ELSE b

WriteOps == {"Write"}
ReadOps == {"Read", "WriteTo"}
CloseOps == {"CloseRead", "CloseWrite", "Close"}
SetOps == {"SetRD", "SetWD", "SetD"}

\* pc values (code locations in netio/pipe.go):
\*   w1    write(): isClosedChan(p.remoteDone)                          pipe.go:259
\*   w2    write(): isClosedChan(p.writeDeadline.wait())                pipe.go:261
\*   wlk   write(): p.wrMu.Lock()                                       pipe.go:265
\*   wsel  write(): top of the loop, about to evaluate the select       pipe.go:267-268
\*   wpark write(): inside the select (deadline channel captured)       pipe.go:268-277
\*   wcnt  write(): nw := <-p.wrRx                                      pipe.go:270
\*   r1,r2,rsel,rpark: the same for read() / writeTo()                  pipe.go:188-204, 217-237
\*   rcopy read(): copy done, about to `p.rdTx <- nr`                   pipe.go:197-198, 227-229
\*   cr1,cr2  CloseReadWithError: readError.Store ; closeLocalDone      pipe.go:324-325
\*   cw1,cw2  CloseWriteWithError: writeError.Store ; closeRemoteDone   pipe.go:335-336
\*   sr1,sr2  SetReadDeadline: closed check ; readDeadline.set          pipe.go:301-304
\*   sw1,sw2  SetWriteDeadline: closed check ; writeDeadline.set        pipe.go:310-313
\*   SetDeadline (pipe.go:290-297) and Close/CloseWithError (pipe.go:340-343) are COMBINED operations with a code
\*   path of their own: op = "SetD" runs sr1 [sr2] sw1 [sw2] and op = "Close" runs cr1 cr2 cw1 cw2 inside ONE call.
\*   The second half is entered whatever the first half answered: a refused read half (sr1 after the own
\*   CloseRead) still goes on to sw1, it does not return.  See SetDeadlineStep / SetDCoversBothHalves.
\*   ret   the call has produced its result; Ret(t) is the instant the caller observes it
Idle == [pc |-> "idle", op |-> "none", k |-> "-", sz |-> 0, n |-> 0, once |-> FALSE, dlc |-> "-",
         got |-> 0, ln |-> 0, from |-> "-", late |-> FALSE, res |-> "-"]

\* the direction a call works on
Dir(t) == IF th[t].op \in WriteOps THEN End(t) ELSE O(End(t))
DirOf(t, op) == IF op \in WriteOps THEN End(t) ELSE O(End(t))
DlOf(t) == IF th[t].op \in WriteOps THEN "wr" ELSE "rd"

\* the deadline channel captured by a parked call is closed
DlFired(t) == th[t].dlc = "old" \/ (th[t].dlc = "cur" /\ dl[End(t)][DlOf(t)].closed)

\* Entering a select.  Literally, the call first evaluates p.<x>Deadline.wait() (WPark / RPark: it captures
\* the CURRENT cancel channel) and then blocks.  With EagerPark the capture is merged into the preceding step of
\* the same call.  This is a schedule of the literal model (WPark/RPark taken immediately), and it loses no
\* observable history: capturing earlier can only turn "the current channel" into "an old, closed channel",
\* which enables more (a timeout), never less, and no other call reads what was captured.  It removes one
\* transient state per select from the interleavings TLC has to infer.
EnterSelect(r, sel, park) == IF EagerPark THEN [r EXCEPT !.pc = park, !.dlc = "cur"] ELSE [r EXCEPT !.pc = sel]

Init ==
    /\ done = [d \in Ends |-> FALSE]
    /\ err = [d \in Ends |-> "unset"]
    /\ mu = [e \in Ends |-> "none"]
    /\ dl = [e \in Ends |-> [w \in {"rd", "wr"} |-> [closed |-> FALSE, timer |-> FALSE]]]
    /\ th = [t \in Threads |-> Idle]
    /\ cnt = [t \in Threads |-> 0]
    /\ ncalls = 0
    /\ panic = ""
    /\ act = [n |-> "Init"]

-----------------------------------------------------------------------------
(* Call start and return (the two events a caller can observe). *)

Call(t, op, sz, k) ==
    /\ th[t].pc = "idle" /\ ncalls < MaxCalls /\ cnt[t] < Budget(t) /\ op \in Allowed(t)
    /\ ncalls' = ncalls + 1 /\ cnt' = [cnt EXCEPT ![t] = @ + 1]
    /\ th' = [th EXCEPT ![t] = [Idle EXCEPT
                !.pc = CASE op \in WriteOps -> "w1" [] op \in ReadOps -> "r1"
                         [] op \in {"CloseRead", "Close"} -> "cr1" [] op = "CloseWrite" -> "cw1"
                         [] op \in {"SetRD", "SetD"} -> "sr1" [] OTHER -> "sw1",
                !.op = op, !.sz = sz, !.k = k, !.once = (op \in WriteOps),
                \* ghost: the direction was already shut down when the call started
                !.late = (op \in WriteOps \cup ReadOps /\ done[DirOf(t, op)])]]
    /\ UNCHANGED <<done, err, mu, dl, panic>>
    /\ act' = [n |-> "Call", t |-> t, op |-> op, sz |-> sz, k |-> k]

\* the call's result is fixed: (n, e); everything else of the record is forgotten
Fin(r, n, e) == [Idle EXCEPT !.pc = "ret", !.op = r.op, !.n = n, !.res = e, !.late = r.late]

Ret(t) ==
    /\ th[t].pc = "ret"
    /\ th' = [th EXCEPT ![t] = Idle]
    /\ UNCHANGED <<done, err, mu, dl, cnt, ncalls, panic>>
    /\ act' = [n |-> "Ret", t |-> t, op |-> th[t].op, cnt |-> th[t].n, err |-> th[t].res]

-----------------------------------------------------------------------------
(* onceError.Load (pipe.go:25): dereferences the stored pointer; nil before the first Store. *)
Loaded(d) == err[d]
LoadPanics(d) == err[d] = "unset"

\* writeCloseError (pipe.go:282): io.EOF is reported to writers as io.ErrClosedPipe
WErr(d) == IF err[d] = "eof" THEN "closed" ELSE err[d]
\* read: readError as it is; writeTo (pipe.go:241): io.EOF ends the copy without error
RErr(t, d) == IF th[t].op = "WriteTo" /\ err[d] = "eof" THEN "nil" ELSE err[d]

Internal(name, t) == act' = [n |-> name, t |-> t]

-----------------------------------------------------------------------------
(* Write (pipe.go:257-280) *)

W1(t) ==
    /\ th[t].pc = "w1"
    /\ LET d == End(t) IN
       /\ IF done[d]
            THEN \/ /\ panic' = IF LoadPanics(d) THEN "nil onceError load in write" ELSE panic
                    /\ th' = [th EXCEPT ![t] = Fin(@, 0, WErr(d))]
                 \/ \* the property does not order "closed" and "timed out" when both hold
                    /\ ~Strict /\ dl[d]["wr"].closed
                    /\ th' = [th EXCEPT ![t] = Fin(@, 0, "timeout")] /\ panic' = panic
            ELSE th' = [th EXCEPT ![t].pc = "w2"] /\ panic' = panic
    /\ UNCHANGED <<done, err, mu, dl, cnt, ncalls>>
    /\ Internal("W1", t)

W2(t) ==
    /\ th[t].pc = "w2"
    /\ IF dl[End(t)]["wr"].closed
         THEN th' = [th EXCEPT ![t] = Fin(@, 0, "timeout")]
         ELSE th' = [th EXCEPT ![t].pc = "wlk"]
    /\ UNCHANGED <<done, err, mu, dl, cnt, ncalls, panic>>
    /\ Internal("W2", t)

WLock(t) ==
    /\ th[t].pc = "wlk" /\ mu[End(t)] = "none"
    /\ mu' = [mu EXCEPT ![End(t)] = t]
    /\ th' = [th EXCEPT ![t] = EnterSelect(@, "wsel", "wpark")]
    /\ UNCHANGED <<done, err, dl, cnt, ncalls, panic>>
    /\ Internal("WLock", t)

\* entering the select: p.writeDeadline.wait() hands out the CURRENT cancel channel
WPark(t) ==
    /\ th[t].pc = "wsel"
    /\ th' = [th EXCEPT ![t].pc = "wpark", ![t].dlc = "cur"]
    /\ UNCHANGED <<done, err, mu, dl, cnt, ncalls, panic>>
    /\ Internal("WPark", t)

\* Only with Strict = FALSE: the property does not say whether a zero-length Write needs a reader
\* (the code, like net.Pipe, performs one rendezvous for it).
WZero(t) ==
    /\ ~Strict /\ th[t].pc \in {"wsel", "wpark"} /\ th[t].sz = 0 /\ th[t].once
    /\ th' = [th EXCEPT ![t] = Fin(@, 0, "nil")]
    /\ mu' = [mu EXCEPT ![End(t)] = "none"]
    /\ UNCHANGED <<done, err, dl, cnt, ncalls, panic>>
    /\ Internal("WZero", t)

\* case p.wrTx <- b: a reader parked on the same data channel receives the slice and copies
\* k = min(len(b), cap) bytes (read: copy(b, bw); writeTo: w.Write(bw) with a sink that accepts
\* at most its remaining limit).  The writer now blocks on the count channel.
Send(w, r) ==
    /\ th[w].pc = "wpark" /\ th[r].pc = "rpark" /\ End(r) = O(End(w))
    /\ LET k == Min(th[w].sz, th[r].sz) IN
       /\ th' = [th EXCEPT ![w].pc = "wcnt", ![w].dlc = "-",
                           ![r].pc = "rcopy", ![r].dlc = "-", ![r].got = k, ![r].ln = th[w].sz, ![r].from = w]
       /\ act' = [n |-> "Send", t |-> w, r |-> r, lo |-> th[w].n, k |-> k]
    /\ UNCHANGED <<done, err, mu, dl, cnt, ncalls, panic>>

\* p.rdTx <- nr on the reader side, nw := <-p.wrRx; b = b[nw:]; n += nw on the writer side
CountBack(r) ==
    /\ th[r].pc = "rcopy"
    /\ LET w == th[r].from
           k == th[r].got
           rem == th[w].sz - k
           nn == th[w].n + k
           rn == th[r].n + k IN
       /\ th[w].pc = "wcnt"
       /\ panic' = IF k > th[w].sz THEN "slice bounds out of range in write" ELSE panic
       /\ mu' = IF rem > 0 THEN mu ELSE [mu EXCEPT ![End(w)] = "none"]      \* deferred Unlock
       /\ th' = [th EXCEPT
            ![w] = IF rem > 0 THEN EnterSelect([@ EXCEPT !.sz = rem, !.n = nn, !.once = FALSE], "wsel", "wpark")
                              ELSE Fin(@, nn, "nil"),
            ![r] = IF th[r].op = "Read" THEN Fin(@, k, "nil")
                   ELSE IF k < th[r].ln THEN Fin(@, rn, "sink")              \* short write: sink error
                   ELSE [@ EXCEPT !.pc = "r1", !.n = rn, !.got = 0, !.ln = 0, !.from = "-",
                                  !.sz = IF @ = Inf THEN Inf ELSE @ - k]]
       /\ act' = [n |-> "CountBack", t |-> r, w |-> w, k |-> k]
    /\ UNCHANGED <<done, err, dl, cnt, ncalls>>

\* case <-p.remoteDone
WDone(t) ==
    /\ th[t].pc = "wpark" /\ done[End(t)]
    /\ panic' = IF LoadPanics(End(t)) THEN "nil onceError load in write" ELSE panic
    /\ th' = [th EXCEPT ![t] = Fin(@, th[t].n, WErr(End(t)))]
    /\ mu' = [mu EXCEPT ![End(t)] = "none"]
    /\ UNCHANGED <<done, err, dl, cnt, ncalls>>
    /\ Internal("WDone", t)

\* case <-p.writeDeadline.wait()
WTimeout(t) ==
    /\ th[t].pc = "wpark" /\ DlFired(t)
    /\ th' = [th EXCEPT ![t] = Fin(@, th[t].n, "timeout")]
    /\ mu' = [mu EXCEPT ![End(t)] = "none"]
    /\ UNCHANGED <<done, err, dl, cnt, ncalls, panic>>
    /\ Internal("WTimeout", t)

-----------------------------------------------------------------------------
(* Read (pipe.go:187-205) and WriteTo (pipe.go:216-239; each loop iteration is a read) *)

R1(t) ==
    /\ th[t].pc = "r1"
    /\ LET d == O(End(t)) IN
       /\ IF done[d]
            THEN \/ /\ panic' = IF LoadPanics(d) THEN "nil onceError load in read" ELSE panic
                    /\ th' = [th EXCEPT ![t] = Fin(@, th[t].n, RErr(t, d))]
                 \/ /\ ~Strict /\ dl[End(t)]["rd"].closed
                    /\ th' = [th EXCEPT ![t] = Fin(@, th[t].n, "timeout")] /\ panic' = panic
            ELSE th' = [th EXCEPT ![t].pc = "r2"] /\ panic' = panic
    /\ UNCHANGED <<done, err, mu, dl, cnt, ncalls>>
    /\ Internal("R1", t)

R2(t) ==
    /\ th[t].pc = "r2"
    /\ IF dl[End(t)]["rd"].closed
         THEN th' = [th EXCEPT ![t] = Fin(@, th[t].n, "timeout")]
         ELSE th' = [th EXCEPT ![t] = EnterSelect(@, "rsel", "rpark")]
    /\ UNCHANGED <<done, err, mu, dl, cnt, ncalls, panic>>
    /\ Internal("R2", t)

RPark(t) ==
    /\ th[t].pc = "rsel"
    /\ th' = [th EXCEPT ![t].pc = "rpark", ![t].dlc = "cur"]
    /\ UNCHANGED <<done, err, mu, dl, cnt, ncalls, panic>>
    /\ Internal("RPark", t)

RDone(t) ==
    /\ th[t].pc = "rpark" /\ done[O(End(t))]
    /\ panic' = IF LoadPanics(O(End(t))) THEN "nil onceError load in read" ELSE panic
    /\ th' = [th EXCEPT ![t] = Fin(@, th[t].n, RErr(t, O(End(t))))]
    /\ UNCHANGED <<done, err, mu, dl, cnt, ncalls>>
    /\ Internal("RDone", t)

RTimeout(t) ==
    /\ th[t].pc = "rpark" /\ DlFired(t)
    /\ th' = [th EXCEPT ![t] = Fin(@, th[t].n, "timeout")]
    /\ UNCHANGED <<done, err, mu, dl, cnt, ncalls, panic>>
    /\ Internal("RTimeout", t)

-----------------------------------------------------------------------------
(* CloseRead / CloseWrite / Close and their WithError forms (pipe.go:320-368).               *)
(* Store-then-close: the error is stored BEFORE the done channel is closed, so that whoever  *)
(* sees the channel closed finds an error to load.                                            *)

StoreVal(t, which) == IF th[t].k = "custom" THEN "custom" ELSE IF which = "rd" THEN "closed" ELSE "eof"

CR1(t) ==   \* p.readError.Store(err): CompareAndSwap(nil, &err) keeps the first
    /\ th[t].pc = "cr1"
    /\ LET d == O(End(t)) IN err' = [err EXCEPT ![d] = IF @ = "unset" THEN StoreVal(t, "rd") ELSE @]
    /\ th' = [th EXCEPT ![t].pc = "cr2"]
    /\ UNCHANGED <<done, mu, dl, cnt, ncalls, panic>>
    /\ Internal("CR1", t)

CR2(t) ==   \* p.closeLocalDone(): sync.OnceFunc(close(done))
    /\ th[t].pc = "cr2"
    /\ done' = [done EXCEPT ![O(End(t))] = TRUE]
    /\ th' = [th EXCEPT ![t] = IF th[t].op = "Close" THEN [@ EXCEPT !.pc = "cw1"] ELSE Fin(@, 0, "nil")]
    /\ UNCHANGED <<err, mu, dl, cnt, ncalls, panic>>
    /\ Internal("CR2", t)

CW1(t) ==   \* p.writeError.Store(err)
    /\ th[t].pc = "cw1"
    /\ err' = [err EXCEPT ![End(t)] = IF @ = "unset" THEN StoreVal(t, "wr") ELSE @]
    /\ th' = [th EXCEPT ![t].pc = "cw2"]
    /\ UNCHANGED <<done, mu, dl, cnt, ncalls, panic>>
    /\ Internal("CW1", t)

CW2(t) ==   \* p.closeRemoteDone()
    /\ th[t].pc = "cw2"
    /\ done' = [done EXCEPT ![End(t)] = TRUE]
    /\ th' = [th EXCEPT ![t] = Fin(@, 0, "nil")]
    /\ UNCHANGED <<err, mu, dl, cnt, ncalls, panic>>
    /\ Internal("CW2", t)

-----------------------------------------------------------------------------
(* Deadlines (pipeDeadline, pipe.go:30-86; Set*Deadline, pipe.go:289-315) *)

\* pipeDeadline.set(t) as one critical section of d.mu.  A pending timer is stopped (or, if it
\* already fired, its callback is awaited: cancel is then closed).  A closed cancel channel is
\* REPLACED (never re-opened): calls that captured the old one keep seeing it closed.
SetDl(e, w, kind) ==
    LET c == dl[e][w].closed IN
    CASE kind = "zero"   -> [closed |-> FALSE, timer |-> FALSE]
      [] kind = "future" -> [closed |-> FALSE, timer |-> TRUE]
      [] OTHER           -> [closed |-> TRUE, timer |-> FALSE]     \* "past": close unless closed

\* calls parked on the channel that is being replaced keep the old (closed) one
Orphan(e, w, kind) ==
    [x \in Threads |->
        IF /\ End(x) = e /\ th[x].pc \in {"wpark", "rpark"} /\ th[x].dlc = "cur"
           /\ (IF th[x].op \in WriteOps THEN "wr" ELSE "rd") = w
           /\ dl[e][w].closed /\ kind \in {"zero", "future"}
        THEN [th[x] EXCEPT !.dlc = "old"] ELSE th[x]]

\* SetReadDeadline: if isClosedChan(p.localDone) && p.readError.Load() == io.ErrClosedPipe
SR1(t) ==
    /\ th[t].pc = "sr1"
    /\ LET d == O(End(t))
           refused == done[d] /\ err[d] = "closed" IN
       /\ panic' = IF done[d] /\ LoadPanics(d) THEN "nil onceError load in SetReadDeadline" ELSE panic
       /\ IF refused
            THEN th' = [th EXCEPT ![t] = IF th[t].op = "SetD" THEN [@ EXCEPT !.pc = "sw1", !.res = "closed"]
                                                              ELSE Fin(@, 0, "closed")]
            ELSE th' = [th EXCEPT ![t].pc = "sr2"]
    /\ UNCHANGED <<done, err, mu, dl, cnt, ncalls>>
    /\ Internal("SR1", t)

SR2(t) ==
    /\ th[t].pc = "sr2"
    /\ dl' = [dl EXCEPT ![End(t)]["rd"] = SetDl(End(t), "rd", th[t].k)]
    /\ th' = [Orphan(End(t), "rd", th[t].k) EXCEPT
                ![t] = IF th[t].op = "SetD" THEN [@ EXCEPT !.pc = "sw1", !.res = "nil"] ELSE Fin(@, 0, "nil")]
    /\ UNCHANGED <<done, err, mu, cnt, ncalls, panic>>
    /\ Internal("SR2", t)

\* SetWriteDeadline: if isClosedChan(p.remoteDone) && p.writeError.Load() == io.EOF
SW1(t) ==
    /\ th[t].pc = "sw1"
    /\ LET d == End(t)
           refused == done[d] /\ err[d] = "eof" IN
       /\ panic' = IF done[d] /\ LoadPanics(d) THEN "nil onceError load in SetWriteDeadline" ELSE panic
       /\ IF refused
            THEN th' = [th EXCEPT ![t] = Fin(@, 0, "closed")]        \* rerr, else werr: both are ErrClosedPipe
            ELSE th' = [th EXCEPT ![t].pc = "sw2"]
    /\ UNCHANGED <<done, err, mu, dl, cnt, ncalls>>
    /\ Internal("SW1", t)

SW2(t) ==
    /\ th[t].pc = "sw2"
    /\ dl' = [dl EXCEPT ![End(t)]["wr"] = SetDl(End(t), "wr", th[t].k)]
    /\ th' = [Orphan(End(t), "wr", th[t].k) EXCEPT
                ![t] = Fin(@, 0, IF th[t].op = "SetD" THEN th[t].res ELSE "nil")]
    /\ UNCHANGED <<done, err, mu, cnt, ncalls, panic>>
    /\ Internal("SW2", t)

\* SetDeadline(t) (pipe.go:290-297): rerr := SetReadDeadline(t); werr := SetWriteDeadline(t); rerr if non-nil,
\* else werr.  It is ONE call that walks through both halves; the read half's refusal is remembered in .res and
\* the call continues at sw1.  The steps of a SetD call (a disjunct of Step on its own):
SetDeadlineStep(t) == th[t].op = "SetD" /\ (SR1(t) \/ SR2(t) \/ SW1(t) \/ SW2(t))
\* Close() (pipe.go:340-343, 365-368): CloseReadWithError ; CloseWriteWithError, again ONE call
CloseBothStep(t) == th[t].op = "Close" /\ (CR1(t) \/ CR2(t) \/ CW1(t) \/ CW2(t))

\* the time.AfterFunc callback: close(d.cancel).  Closing a closed channel panics.
Fire(e, w) ==
    /\ dl[e][w].timer
    /\ panic' = IF dl[e][w].closed THEN "close of closed channel in the deadline timer" ELSE panic
    /\ dl' = [dl EXCEPT ![e][w] = [closed |-> TRUE, timer |-> FALSE]]
    /\ UNCHANGED <<done, err, mu, th, cnt, ncalls>>
    /\ act' = [n |-> "Fire", e |-> e, w |-> w]

-----------------------------------------------------------------------------
CallAny(t) ==
    \/ \E s \in WriteSizes : Call(t, "Write", s, "-")
    \/ \E s \in BufSizes : Call(t, "Read", s, "-")
    \/ \E s \in SinkLims : Call(t, "WriteTo", s, "-")
    \/ \E op \in CloseOps, k \in CloseKinds : Call(t, op, 0, k)
    \/ \E op \in SetOps, k \in DlKinds : Call(t, op, 0, k)

Step(t) ==   \* every step of a running call except the rendezvous with a partner
    \/ W1(t) \/ W2(t) \/ WLock(t) \/ WPark(t) \/ WDone(t) \/ WTimeout(t) \/ WZero(t)
    \/ R1(t) \/ R2(t) \/ RPark(t) \/ RDone(t) \/ RTimeout(t) \/ CountBack(t)
    \/ th[t].op = "CloseRead" /\ (CR1(t) \/ CR2(t))
    \/ th[t].op = "CloseWrite" /\ (CW1(t) \/ CW2(t))
    \/ CloseBothStep(t)
    \/ th[t].op = "SetRD" /\ (SR1(t) \/ SR2(t))
    \/ th[t].op = "SetWD" /\ (SW1(t) \/ SW2(t))
    \/ SetDeadlineStep(t)

InternalNext ==
    \/ \E t \in Threads : Step(t) \/ Ret(t)
    \/ \E w, r \in Threads : Send(w, r)

Next ==
    \/ \E t \in Threads : CallAny(t)
    \/ InternalNext
    \/ \E e \in Ends, w \in {"rd", "wr"} : Fire(e, w)

Spec == Init /\ [][Next]_vars
FairSpec == Spec /\ WF_vars(InternalNext)

-----------------------------------------------------------------------------
(* Explicit enabling conditions (used for the deadlock statements and by the sequential      *)
(* replay configuration; ENABLED is avoided because TLC evaluates it slowly).                 *)

CanStep(t) ==
    LET p == th[t].pc IN
    \/ p \in {"w1", "w2", "wsel", "r1", "r2", "rsel", "cr1", "cr2", "cw1", "cw2", "sr1", "sr2", "sw1", "sw2", "ret"}
    \/ p = "wlk" /\ mu[End(t)] = "none"
    \/ p = "wpark" /\ (done[End(t)] \/ DlFired(t) \/ \E r \in Threads : th[r].pc = "rpark" /\ End(r) = O(End(t)))
    \/ p = "rpark" /\ (done[O(End(t))] \/ DlFired(t) \/ \E w \in Threads : th[w].pc = "wpark" /\ End(w) = O(End(t)))
    \/ p = "rcopy" /\ th[th[t].from].pc = "wcnt"

Quiescent == \A t \in Threads : ~CanStep(t)

-----------------------------------------------------------------------------
(* Properties (C15) *)

PCs == {"idle", "w1", "w2", "wlk", "wsel", "wpark", "wcnt", "r1", "r2", "rsel", "rpark", "rcopy",
        "cr1", "cr2", "cw1", "cw2", "sr1", "sr2", "sw1", "sw2", "ret"}

TypeOK ==
    /\ done \in [Ends -> BOOLEAN]
    /\ err \in [Ends -> {"unset", "eof", "closed", "custom"}]
    /\ mu \in [Ends -> Threads \cup {"none"}]
    /\ \A t \in Threads : th[t].pc \in PCs /\ th[t].n \in Nat /\ th[t].sz \in Nat
    /\ ncalls \in 0..MaxCalls

\* no send on a closed channel, no close of a closed channel, no nil onceError load, no bad slice
NoPanic == panic = ""

\* the store-then-close order: a closed done channel always has an error behind it
ErrorBeforeDone == \A d \in Ends : done[d] => err[d] # "unset"

\* wrMu: at most one call per end is inside the write loop, and it is the holder
InLoop(t) == th[t].pc \in {"wsel", "wpark", "wcnt"}
MutexOK == \A t \in Threads : InLoop(t) <=> (mu[End(t)] = t)

\* AtomicWrites: no chunk of another writer of the same end is transferred between two chunks of
\* one Write: whenever a chunk is sent, no other Write of that end is part-way through.
AtomicWrites ==
    [][ \A w, r \in Threads : (th[w].pc = "wpark" /\ th'[w].pc = "wcnt") =>
            \A x \in Threads \ {w} : End(x) = End(w) /\ th[x].op = "Write" /\ th[x].pc # "ret"
                                       => (th[x].n = 0 /\ ~InLoop(x)) ]_vars

\* the rendezvous is paired: a reader holding a chunk has exactly its writer waiting for the
\* count, and vice versa; at most one chunk is in flight per direction
RendezvousPaired ==
    /\ \A r \in Threads : th[r].pc = "rcopy" =>
            /\ th[r].from \in Threads /\ th[th[r].from].pc = "wcnt" /\ End(th[r].from) = O(End(r))
            /\ th[r].got = Min(th[th[r].from].sz, th[r].got) /\ th[r].got <= th[r].ln
    /\ \A w \in Threads : th[w].pc = "wcnt" =>
            Cardinality({r \in Threads : th[r].pc = "rcopy" /\ th[r].from = w}) = 1

\* StreamIntegrity + WriteCountsConsumed, step form: a chunk handed to a reader is the next
\* unconsumed bytes [n, n+k) of the write it comes from (exactly once, in order), and when the
\* count comes back the writer's count grows by exactly the bytes that reader consumed; a
\* Write's count changes in no other way and its result is that count.
ChunkIsNext ==
    [][ \A w, r \in Threads :
          (th[w].pc = "wpark" /\ th'[w].pc = "wcnt" /\ th[r].pc = "rpark" /\ th'[r].pc = "rcopy") =>
              /\ act'.lo = th[w].n /\ act'.k = th'[r].got
              /\ th'[r].got <= th[w].sz /\ th'[r].got <= th[r].sz ]_vars
CountIsConsumed ==
    [][ \A w \in Threads : th[w].op = "Write" /\ th[w].pc # "ret" /\ th'[w].op = "Write" /\ th'[w].n # th[w].n =>
            \E r \in Threads : /\ th[r].pc = "rcopy" /\ th[r].from = w /\ th'[w].n = th[w].n + th[r].got
                               /\ (th[r].op = "Read" => th'[r].n = th[r].got)
                               /\ (th[r].op = "WriteTo" => th'[r].n = th[r].n + th[r].got) ]_vars
\* a Write never reports more than it was given, and reports everything iff it reports no error
\* (a zero-length Write still needs one rendezvous)
WriteResult ==
    [][ \A w \in Threads : th[w].op = "Write" /\ th[w].pc # "ret" /\ th'[w].pc = "ret" =>
            IF th'[w].res = "nil" THEN th'[w].n = th[w].n + th[w].sz /\ ~th[w].late
                                  ELSE th'[w].n = th[w].n ]_vars

\* HalfClose (1): a done channel stays closed, the first error stays (end-of-stream forever)
ClosedForever == [][ \A d \in Ends : (done[d] => done'[d]) /\ (err[d] # "unset" => err'[d] = err[d]) ]_vars
\* HalfClose (2): closing one direction does not touch the other: a CloseWrite/CloseRead step
\* changes done/err of its own direction only
ReverseUnaffected ==
    [][ \A t \in Threads : th[t].pc \in {"cr1", "cr2"} /\ th'[t].pc # th[t].pc =>
            /\ done'[End(t)] = done[End(t)] /\ err'[End(t)] = err[End(t)] ]_vars
    /\ [][ \A t \in Threads : th[t].pc \in {"cw1", "cw2"} /\ th'[t].pc # th[t].pc =>
            /\ done'[O(End(t))] = done[O(End(t))] /\ err'[O(End(t))] = err[O(End(t))] ]_vars
\* HalfClose (3): a Read/WriteTo/Write that starts after its direction was shut down transfers
\* nothing and fails: readers see end-of-stream after CloseWrite (io.EOF; WriteTo ends with nil),
\* writers fail after the peer's CloseRead (and after their own CloseWrite).
StartedAfterCloseFails ==
    \A t \in Threads : th[t].pc = "ret" /\ th[t].late =>
        /\ th[t].n = 0
        /\ th[t].op = "Write" => th[t].res \in {"closed", "custom"} \cup (IF Strict THEN {} ELSE {"timeout"})
        /\ th[t].op = "Read" => th[t].res \in {"eof", "closed", "custom"} \cup (IF Strict THEN {} ELSE {"timeout"})
        /\ th[t].op = "WriteTo" => th[t].res \in {"nil", "closed", "custom"} \cup (IF Strict THEN {} ELSE {"timeout"})
\* the error a reader sees is the first one stored: io.EOF iff the writer's CloseWrite came first
EofMeansCloseWrite ==
    \A t \in Threads : th[t].pc = "ret" /\ th[t].op = "Read" /\ th[t].res = "eof" => err[O(End(t))] = "eof"

\* DeadlineUnblocks: a call parked in a select whose (captured) deadline channel is closed can
\* return, and what it returns is the timeout error (or the close error if that holds too)
DeadlineUnblocks ==
    \A t \in Threads : th[t].pc \in {"wpark", "rpark"} /\ DlFired(t) => CanStep(t)
\* a timer exists only for an open channel (so its callback never closes a closed channel)
TimerOnlyIfOpen == \A e \in Ends, w \in {"rd", "wr"} : dl[e][w].timer => ~dl[e][w].closed

\* Combined operations reach both halves in every half-close state (the binding replays exactly these edges):
\* a SetD call returns only from the write half (sw1 refused because the WRITE direction is shut down by the own
\* CloseWrite, or sw2 after arming it), never from the read half; when it returns from sw2 the write deadline is what
\* the call asked for, and unless the read half was refused the read deadline was set by the same call before.
\* A Close call returns with both directions shut down.
SetDCoversBothHalves ==
    [][ \A t \in Threads : th[t].op = "SetD" /\ th[t].pc # "ret" /\ th'[t].pc = "ret" =>
            /\ th[t].pc \in {"sw1", "sw2"}
            /\ th[t].pc = "sw1" => done[End(t)] /\ err[End(t)] = "eof"
            /\ th[t].pc = "sw2" => dl'[End(t)]["wr"] = SetDl(End(t), "wr", th[t].k) ]_vars
    /\ [][ \A t \in Threads : th[t].op = "SetD" /\ th[t].pc = "sr1" /\ th'[t].pc # "sr1" =>
            th'[t].pc \in {"sr2", "sw1"} ]_vars
CloseCoversBothHalves ==
    [][ \A t \in Threads : th[t].op = "Close" /\ th[t].pc # "ret" /\ th'[t].pc = "ret" =>
            \A d \in Ends : done'[d] /\ err'[d] # "unset" ]_vars
\* ... so a Write (Read) that starts after a SetD(past) of its end returned cannot park: it fails with the timeout or
\* with the shutdown of its direction, in every half-close state.  ghost-free form: a parked call's deadline channel
\* is open or the call can move (DeadlineUnblocks), and after SetD the channel is closed unless re-armed.

\* No deadlock: every call that cannot move is parked in a select with its done channel and its
\* deadline channel open (so a close or a deadline of that direction enables it again), or waits
\* for wrMu whose holder is such a call, or is the writer half of a rendezvous in flight.
BlockedLegitimately ==
    \A t \in Threads : ~CanStep(t) =>
        \/ th[t].pc = "idle"
        \/ th[t].pc = "wpark" /\ ~done[End(t)] /\ ~DlFired(t)
        \/ th[t].pc = "rpark" /\ ~done[O(End(t))] /\ ~DlFired(t)
        \/ th[t].pc = "wlk" /\ mu[End(t)] \in Threads /\ InLoop(mu[End(t)])
        \/ th[t].pc = "wcnt" /\ \E r \in Threads : th[r].pc = "rcopy" /\ th[r].from = t
\* ... and consequently, once both directions are shut down nothing stays blocked
ClosedDrains ==
    (\A d \in Ends : done[d]) /\ Quiescent => \A t \in Threads : th[t].pc = "idle"
\* the same as a liveness property (checked in the small configuration under weak fairness of
\* the internal steps): after both directions are shut down every call returns
EventuallyReturns == []((\A d \in Ends : done[d]) => <>(\A t \in Threads : th[t].pc \in {"idle", "ret"}))
=============================================================================
