------------------------------ MODULE TracePipe ------------------------------
(* Trace validation for Pipe.tla.                                                              *)
(*                                                                                            *)
(* The driver (harness/drivers/c15) logs, under one mutex, a "call" event immediately BEFORE  *)
(* every call on a real *netio.PipeConn and a "ret" event immediately AFTER it returned, with *)
(* the arguments, the results and -- for Read / WriteTo -- the identity (write call id,       *)
(* offset) of every byte received.  Several histories are concatenated, separated by "reset". *)
(* The steps of the pipe between those events (checks, mutex, rendezvous, count-back, timer   *)
(* expiry) are not logged; TLC infers them: a history is accepted iff some interleaving of    *)
(* the actions of Pipe.tla produces exactly the logged events in the logged order.  The       *)
(* high-water mark (TLC register 1) is the number of events matched on the best path.         *)
EXTENDS Pipe, Json, IOUtils

VARIABLES
    pos,      \* number of events consumed
    cid,      \* cid[t]: the logged identity of the call t is executing
    chunks    \* chunks[t]: the chunks <<write id, lo, k>> the current Read/WriteTo of t has received

tvars == <<vars, pos, cid, chunks>>

Trace == ndJsonDeserialize("${TRACE}")
N == Len(Trace)

TAllowed(t) == WriteOps \cup ReadOps \cup CloseOps \cup SetOps
TBudget(t) == 1000000

Ev == Trace[pos + 1]
HasEv == pos < N

Mark(p) == TLCSet(1, IF p > TLCGet(1) THEN p ELSE TLCGet(1))

TInit ==
    /\ Init
    /\ pos = 0
    /\ cid = [t \in Threads |-> 0]
    /\ chunks = [t \in Threads |-> <<>>]
    /\ TLCSet(1, 0) /\ TLCSet(2, 0)

\* the bytes of a chunk list, as the driver logs them: <<write id, offset>> per byte
RECURSIVE Bytes(_)
Bytes(cs) ==
    IF cs = <<>> THEN <<>>
    ELSE [i \in 1..cs[1][3] |-> <<cs[1][1], cs[1][2] + i - 1>>] \o Bytes(Tail(cs))

TCall ==
    /\ HasEv /\ Ev.e = "call"
    /\ Call(Ev.t, Ev.op, Ev.sz, Ev.k)
    /\ cid' = [cid EXCEPT ![Ev.t] = Ev.id]
    /\ chunks' = [chunks EXCEPT ![Ev.t] = <<>>]
    /\ pos' = pos + 1 /\ Mark(pos + 1)

TRet ==
    /\ HasEv /\ Ev.e = "ret"
    /\ th[Ev.t].pc = "ret" /\ th[Ev.t].op = Ev.op
    /\ th[Ev.t].n = Ev.n
    \* the property says nothing about what Set*Deadline returns
    /\ (th[Ev.t].res = Ev.err \/ (~Strict /\ Ev.op \in SetOps))
    /\ (Ev.op \in ReadOps => Bytes(chunks[Ev.t]) = Ev.data)
    /\ Ret(Ev.t)
    /\ UNCHANGED <<cid, chunks>>
    /\ pos' = pos + 1 /\ Mark(pos + 1)

TSend ==
    \E w, r \in Threads :
        /\ Send(w, r)
        /\ chunks' = [chunks EXCEPT ![r] = Append(@, <<cid[w], th[w].n, Min(th[w].sz, th[r].sz)>>)]
        /\ UNCHANGED <<pos, cid>>

TInternal ==
    /\ \/ \E t \in Threads : Step(t)
       \/ \E e \in Ends, w \in {"rd", "wr"} : Fire(e, w)
    /\ UNCHANGED <<pos, cid, chunks>>

TReset ==
    /\ HasEv /\ Ev.e = "reset"
    /\ done' = [d \in Ends |-> FALSE]
    /\ err' = [d \in Ends |-> "unset"]
    /\ mu' = [e \in Ends |-> "none"]
    /\ dl' = [e \in Ends |-> [w \in {"rd", "wr"} |-> [closed |-> FALSE, timer |-> FALSE]]]
    /\ th' = [t \in Threads |-> Idle]
    /\ cnt' = [t \in Threads |-> 0]
    /\ ncalls' = 0 /\ panic' = ""
    /\ act' = [n |-> "Reset"]
    /\ cid' = [t \in Threads |-> 0]
    /\ chunks' = [t \in Threads |-> <<>>]
    /\ pos' = pos + 1 /\ Mark(pos + 1)
    /\ TLCSet(2, pos + 1)

TNext == TCall \/ TRet \/ TSend \/ TInternal \/ TReset

TView == <<sv, pos, cid, chunks>>

\* Once some path has passed the "reset" that ends a history, that history is accepted; states that
\* still belong to it need not be explored any further (register 2 = position of the last reset passed).
Fresh == pos >= TLCGet(2)

\* evaluated when the search is over: report how far the best path got
Report == PrintT("HWM " \o ToString(TLCGet(1)) \o " OF " \o ToString(N))

\* the model's own safety statements must also hold along every explanation of a real history
TraceNoPanic == panic = ""
=============================================================================
