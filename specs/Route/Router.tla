------------------------------- MODULE Router -------------------------------
(* The router of shadowsocks-go: which client serves a request.              *)
(* Code: router/router.go (Config.Router, Router.GetTCPClient/GetUDPClient,  *)
(* Router.match), router/route.go (RouteConfig.Route, Route.Match, the       *)
(* Criterion types, lookup), portset/portset.go + range.go (the three port   *)
(* representations), domainset (matcher thresholds), prefixset.              *)
(*                                                                           *)
(* The module holds two definitions of the same function and a small state   *)
(* machine around them:                                                      *)
(*                                                                           *)
(*  1. Decl(cfg, ask): the DECLARATIVE definition, written from the field    *)
(*     comments of router.RouteConfig only, in Kleene three-valued logic     *)
(*     ("T", "F", "U" = needs a lookup that failed).  This is the oracle of  *)
(*     property C09.                                                         *)
(*  2. Impl(cfg, ask): the IMPLEMENTATION-SHAPED definition: Criteria(rc)    *)
(*     builds the criterion list exactly as RouteConfig.Route does (same     *)
(*     order, same grouping, same wrapper types, same representation         *)
(*     choice), Meet mirrors every Criterion.Meet method with its            *)
(*     short-circuits and error propagation, ImplMatchFrom mirrors           *)
(*     Route.Match and ImplFrom mirrors Router.match.                        *)
(*  3. AddRoute / Start / GetClient: the API calls (Config.Router iterating  *)
(*     over cfg.Routes, appending the default route; GetTCPClient /          *)
(*     GetUDPClient).                                                        *)
(*                                                                           *)
(* TLC checks ImplRefinesDecl (the code's evaluation order computes the      *)
(* declarative value, except in the one order-dependent class OrderAmb), the *)
(* AppendLaw (first match in configuration order, characterised from the     *)
(* right) and LookupMonotone (a definite answer never depends on a failed    *)
(* lookup: "never a silent match").                                          *)
(*                                                                           *)
(* All sets that appear in configurations are named variants of catalogues   *)
(* (SrvCat, ..., DomCat): a route configuration is a record of short strings *)
(* and booleans, the catalogue gives each variant its meaning.  The driver   *)
(* renders variant names to the real JSON router.Config through the same     *)
(* catalogue (printed by MCRouter), so there is one source of truth.         *)
EXTENDS RouterData

CONSTANTS
    \* ---- exploration space (the universe, the catalogues and the constants of the code: RouterData)
    MaxRoutes,
    RouteSpace(_),      \* RouteSpace(i): the route configurations offered for position i
    DefaultSpace,       \* set of [tcp: name, udp: name] for defaultTCPClientName/defaultUDPClientName
    Asks                \* set of asks: a request [net, srv, usr, sip, sport, tk, ta, tport] together with the
                        \* behaviour b of the resolvers for this request ([resolver name -> outcome])

VARIABLES
    routes,     \* Seq of route configurations (router.Config.Routes, then Router.routes without the default)
    defs,       \* [tcp, udp]: default client names
    phase,      \* "config" (Config.Router is iterating), "failed" (it returned an error), "serving"
    act         \* last action with the outcome the model expects (output only, hidden by the VIEW)

sv == <<routes, defs, phase>>
vars == <<sv, act>>

-----------------------------------------------------------------------------
(* Kleene logic *)
B(x) == IF x THEN "T" ELSE "F"
Not3(v) == IF v = "T" THEN "F" ELSE IF v = "F" THEN "T" ELSE "U"
And3(S) == IF "F" \in S THEN "F" ELSE IF "U" \in S THEN "U" ELSE "T"
Or3(S) == IF "T" \in S THEN "T" ELSE IF "U" \in S THEN "U" ELSE "F"
Inv(flag, v) == IF flag THEN Not3(v) ELSE v

-----------------------------------------------------------------------------
(* Port sets.  A port set is [list, ranges, pad]: the ports of the JSON      *)
(* array, the ranges of the range string and `pad` filler single ports.      *)
(* Port 0 is a member of no port set.                                        *)
PadPorts(n) == {PadBase + 2 * i : i \in 0 .. n - 1}
InPad(n, p) == p >= PadBase /\ p < PadBase + 2 * n /\ (p - PadBase) % 2 = 0
SeqRange(s) == {s[i] : i \in 1 .. Len(s)}
PortMember(e, p) ==
    /\ p # 0
    /\ \/ \E i \in 1 .. Len(e.list) : e.list[i] = p
       \/ \E i \in 1 .. Len(e.ranges) : e.ranges[i][1] <= p /\ p <= e.ranges[i][2]
       \/ InPad(e.pad, p)
PortPresent(e) == Len(e.list) > 0 \/ Len(e.ranges) > 0 \/ e.pad > 0
\* every maximal run of member ports starts at one of these
PortStarts(e) == SeqRange(e.list) \cup {e.ranges[i][1] : i \in 1 .. Len(e.ranges)} \cup PadPorts(e.pad)
PortEnds(e) == SeqRange(e.list) \cup {e.ranges[i][2] : i \in 1 .. Len(e.ranges)} \cup PadPorts(e.pad)
\* portset.go RangeCount
PortRangeCount(e) == Cardinality({p \in PortStarts(e) : p # 0 /\ ~PortMember(e, p - 1)})
\* portset.go Count() = 1
PortSingle(e) == PortRangeCount(e) = 1 /\ \A p \in PortStarts(e) : ~PortMember(e, p + 1)
PortFirst(e) == CHOOSE p \in PortStarts(e) : PortMember(e, p) /\ ~PortMember(e, p - 1)
\* portset.go Count() = 65535: every port just outside a run end is a member again
PortAll(e) == \A p \in {1, 65535} \cup {h + 1 : h \in {x \in PortEnds(e) : x < 65535}} : PortMember(e, p)
PortZero(e) == 0 \in SeqRange(e.list) \/ \E i \in 1 .. Len(e.ranges) : e.ranges[i][1] = 0
\* route.go: representation choice
PortRep(e) == IF PortSingle(e) THEN "Port"
              ELSE IF PortRangeCount(e) <= MaxRangeSet THEN "PortRangeSet" ELSE "PortSet"

(* Prefix sets *)
PfxPresent(e) == e.pfx # {} \/ e.sets # {}
PfxUnion(e) == e.pfx \cup UNION {PrefixSetDef[s] : s \in e.sets}
InPfx(e, a) == \E p \in PfxUnion(e) : Covers(p, Unmap[a])

(* Domain sets *)
DomPresent(e) == e.doms # {} \/ e.sets # {} \/ e.pad > 0
DomHit(e, q) ==
    /\ q.tk = "dom"
    /\ \/ q.ta \in e.doms         \* toDomains: exact names only (DomainLinearMatcher / map above the threshold)
       \/ \E s \in e.sets : \E rule \in DomainSetDef[s].rules : RuleMatches(rule, q.ta)

(* route.go lookup(): ErrLookup moves on to the next resolver, any other failure is the answer,
   running out of resolvers is an error.  A behaviour b maps each resolver to an address of Addrs,
   "noaddr" (ErrDomainNoAssociatedIPs), "errlookup" (dns.ErrLookup) or "fail" (another error). *)
RECURSIVE LookupFrom(_, _, _)
LookupFrom(rl, i, b) ==
    IF i > Len(rl) THEN "err"
    ELSE IF b[rl[i]] = "errlookup" THEN LookupFrom(rl, i + 1, b)
    ELSE IF b[rl[i]] \in {"noaddr", "fail"} THEN "err"
    ELSE b[rl[i]]
ResolverList(rc) == IF rc.rs = "" THEN Resolvers ELSE <<rc.rs>>
Lookup(rc, b) == LookupFrom(ResolverList(rc), 1, b)
\* why a lookup failed, as router.DialResultCodeFromError classifies it: running out of resolvers and
\* "no associated addresses" are name-lookup failures ("dns"), everything else is "other"
RECURSIVE LookupErrFrom(_, _, _)
LookupErrFrom(rl, i, b) ==
    IF i > Len(rl) THEN "dns"
    ELSE IF b[rl[i]] = "errlookup" THEN LookupErrFrom(rl, i + 1, b)
    ELSE IF b[rl[i]] = "noaddr" THEN "dns" ELSE "other"

-----------------------------------------------------------------------------
(* 1. The declarative definition (field comments of RouteConfig).            *)

\* "Match requests to IP addresses in these prefixes": an IP target is tested directly, a domain
\* target through the resolver; a failed lookup leaves the condition unknown.
ResolvedIn(rc, e, q, b) ==
    IF q.tk = "ip" THEN B(InPfx(e, q.ta))
    ELSE LET a == Lookup(rc, b) IN IF a = "err" THEN "U" ELSE B(InPfx(e, a))

CNet(rc, q) == B(rc.net = "" \/ rc.net = q.net)
CSrv(rc, q) == IF SrvCat[rc.srv] = {} THEN "T" ELSE Inv(rc.srvI, B(Servers[q.srv + 1] \in SrvCat[rc.srv]))
CUsr(rc, q) == IF UsrCat[rc.usr] = {} THEN "T" ELSE Inv(rc.usrI, B(q.usr \in UsrCat[rc.usr]))
CSp(rc, q) == IF ~PortPresent(PortCat[rc.sp]) THEN "T" ELSE Inv(rc.spI, B(PortMember(PortCat[rc.sp], q.sport)))
CTp(rc, q) == IF ~PortPresent(PortCat[rc.tp]) THEN "T" ELSE Inv(rc.tpI, B(PortMember(PortCat[rc.tp], q.tport)))
\* source-address kinds (fromPrefixes, fromPrefixSets; GeoIP not modelled) combine with OR and share one invert flag
CSip(rc, q) == IF ~PfxPresent(PfxCat[rc.sip]) THEN "T" ELSE Inv(rc.sipI, B(InPfx(PfxCat[rc.sip], q.sip)))
\* destination kinds: {toDomains, toDomainSets} (+ the expectation on the matched domain's address)
\* OR {toPrefixes, toPrefixSets}; each with its own invert flag
CDom(rc, q, b) ==
    LET d == B(DomHit(DomCat[rc.dom], q))
        v == IF ~PfxPresent(PfxCat[rc.exp]) THEN d
             ELSE And3({d, Inv(rc.expI, ResolvedIn(rc, PfxCat[rc.exp], q, b))})
    IN Inv(rc.domI, v)
CPfx(rc, q, b) ==
    Inv(rc.pfxI, IF rc.nr THEN B(q.tk = "ip" /\ InPfx(PfxCat[rc.pfx], q.ta))
                          ELSE ResolvedIn(rc, PfxCat[rc.pfx], q, b))
CDest(rc, q, b) ==
    LET hasD == DomPresent(DomCat[rc.dom])
        hasP == PfxPresent(PfxCat[rc.pfx])
    IN IF ~hasD /\ ~hasP THEN "T"
       ELSE Or3((IF hasD THEN {CDom(rc, q, b)} ELSE {}) \cup (IF hasP THEN {CPfx(rc, q, b)} ELSE {}))

\* conditions of different kinds combine with AND:
\*   RouteVal = And3({CNet, CSrv, CUsr, CSp, CSip, CTp, CDest}).
\* Only CDest can be unknown, so this is "F" if one of the six others is "F" and CDest otherwise; written that
\* way (TLC evaluates \/ left to right and stops) most routes are decided without looking at the destination.
RouteValDef(rc, q, b) ==
    And3({CNet(rc, q), CSrv(rc, q), CUsr(rc, q), CSp(rc, q), CSip(rc, q), CTp(rc, q), CDest(rc, q, b)})
RouteVal(rc, q, b) ==
    IF \/ CNet(rc, q) = "F" \/ CSrv(rc, q) = "F" \/ CUsr(rc, q) = "F"
       \/ CSp(rc, q) = "F" \/ CSip(rc, q) = "F" \/ CTp(rc, q) = "F"
    THEN "F" ELSE CDest(rc, q, b)

ClientOf(name) == IF name = "reject" THEN "rejected" ELSE name
\* defaultTCPClientName/defaultUDPClientName: a name, "reject", or "" (= the only client if there is
\* exactly one, otherwise nothing, which the code answers with ErrRejected: not documented, see DefaultUnset)
DefaultOutcome(d, q) == LET n == IF q.net = "tcp" THEN d.tcp ELSE d.udp IN IF n = "" THEN "rejected" ELSE ClientOf(n)

\* first route, in configuration order, whose conditions all hold; an undecidable route ahead of it
\* is an error, never a silent match or a silent skip
RECURSIVE DeclFrom(_, _, _, _, _)
DeclFrom(rs, d, i, q, b) ==
    IF i > Len(rs) THEN DefaultOutcome(d, q)
    ELSE LET v == RouteVal(rs[i], q, b)
         IN IF v = "T" THEN ClientOf(rs[i].cl)
            ELSE IF v = "U" THEN "error"
            ELSE DeclFrom(rs, d, i + 1, q, b)
Decl(rs, d, a) == DeclFrom(rs, d, 1, a, a.b)
\* index of the deciding route (Len+1 = default)
RECURSIVE DecidedAt(_, _, _, _)
DecidedAt(rs, i, q, b) ==
    IF i > Len(rs) THEN i ELSE IF RouteVal(rs[i], q, b) = "F" THEN DecidedAt(rs, i + 1, q, b) ELSE i
\* router.DialResultCodeFromError of the answer: 0 success, "EACCES" for a rejection,
\* "ErrDomainNameLookup" / "ErrOther" for an error according to the lookup that failed in the deciding route
\* (every lookup of one route asks the same resolvers for the same name)
ErrClass(rs, a) == LookupErrFrom(ResolverList(rs[DecidedAt(rs, 1, a, a.b)]), 1, a.b)
DialCode(rs, d, a) ==
    LET out == Decl(rs, d, a)
    IN IF out = "rejected" THEN "EACCES"
       ELSE IF out # "error" THEN "Success"
       ELSE IF ErrClass(rs, a) = "dns" THEN "ErrDomainNameLookup" ELSE "ErrOther"

-----------------------------------------------------------------------------
(* Configurations that RouteConfig.Route refuses (route.go:135-162, 220-250, 285-315).  *)
BuildError(rc) ==
    \/ PfxPresent(PfxCat[rc.exp]) /\ ~DomPresent(DomCat[rc.dom])      \* "missing destination domain criteria"
    \/ \E e \in {PortCat[rc.sp], PortCat[rc.tp]} :
          PortPresent(e) /\ (PortZero(e) \/ PortAll(e))               \* ErrZeroPort, errPointlessPortCriteria
    \/ rc.rs # "" /\ rc.rs \notin SeqRange(Resolvers)                  \* "resolver not found"
    \/ rc.net \notin {"", "tcp", "udp"}                                \* "invalid network"

(* Combinations whose documentation does not determine the answer; the check asserts nothing    *)
(* about them beyond "no panic" (differences are reported as drift).                            *)
\* invertToDomains together with toMatchedDomainExpected*: is the expectation inside the negation?
\* (the code negates the conjunction, which is what CDom does)
DocAmbiguous(rc) == rc.domI /\ PfxPresent(PfxCat[rc.exp]) /\ DomPresent(DomCat[rc.dom])
DefaultUnset(d, q) == (IF q.net = "tcp" THEN d.tcp ELSE d.udp) = ""
\* the answer for ask a rests on one of these (a route consulted up to the deciding one, or the default)
Soft(rs, d, a) ==
    /\ DefaultUnset(d, a) \/ \E j \in 1 .. Len(rs) : DocAmbiguous(rs[j])
    /\ LET i == DecidedAt(rs, 1, a, a.b)
       IN \/ \E j \in 1 .. (IF i > Len(rs) THEN Len(rs) ELSE i) : DocAmbiguous(rs[j])
          \/ i > Len(rs) /\ DefaultUnset(d, a)

-----------------------------------------------------------------------------
(* 2. The implementation-shaped definition.                                   *)
Wrap(inv, c) == IF inv THEN [k |-> "Inverted", in |-> c] ELSE c          \* AddCriterion(c, invert)
Group(cs) == IF Len(cs) = 1 THEN cs ELSE <<[k |-> "GroupOR", cs |-> cs]>> \* CriterionGroupOR.AppendTo / .Criterion

\* RouteConfig.Route: the criteria in the order the code appends them
Criteria(rc) ==
    LET sp == PortCat[rc.sp]
        tp == PortCat[rc.tp]
        sip == PfxCat[rc.sip]
        dom == DomCat[rc.dom]
        exp == PfxCat[rc.exp]
        pfx == PfxCat[rc.pfx]
        rl == ResolverList(rc)
        cNet == IF rc.net = "tcp" THEN <<[k |-> "NetworkTCP"]>>
                ELSE IF rc.net = "udp" THEN <<[k |-> "NetworkUDP"]>> ELSE <<>>
        cSrv == IF SrvCat[rc.srv] = {} THEN <<>> ELSE <<Wrap(rc.srvI, [k |-> "SourceServer", set |-> SrvCat[rc.srv]])>>
        cUsr == IF UsrCat[rc.usr] = {} THEN <<>> ELSE <<Wrap(rc.usrI, [k |-> "SourceUser", set |-> UsrCat[rc.usr]])>>
        cSp == IF ~PortPresent(sp) THEN <<>> ELSE <<Wrap(rc.spI, [k |-> "Source" \o PortRep(sp), e |-> sp])>>
        cSip == IF ~PfxPresent(sip) THEN <<>> ELSE <<Wrap(rc.sipI, [k |-> "SourceIP", e |-> sip])>>
        cTp == IF ~PortPresent(tp) THEN <<>> ELSE <<Wrap(rc.tpI, [k |-> "Dest" \o PortRep(tp), e |-> tp])>>
        dd == [k |-> "DestDomain", e |-> dom]
        cDom == IF ~DomPresent(dom) THEN <<>>
                ELSE IF PfxPresent(exp)
                     THEN <<Wrap(rc.domI, [k |-> "DestDomainExpectedIP", d |-> dd,
                                           x |-> Wrap(rc.expI, [k |-> "DestResolvedIP", e |-> exp, rl |-> rl])])>>
                     ELSE <<Wrap(rc.domI, dd)>>
        cPfx == IF ~PfxPresent(pfx) THEN <<>>
                ELSE IF rc.nr THEN <<Wrap(rc.pfxI, [k |-> "DestIP", e |-> pfx])>>
                ELSE <<Wrap(rc.pfxI, [k |-> "DestResolvedIP", e |-> pfx, rl |-> rl])>>
        dest == cDom \o cPfx
    IN cNet \o cSrv \o cUsr \o cSp \o cSip \o cTp \o (IF dest = <<>> THEN <<>> ELSE Group(dest))

\* names of the criterion types, as reflection on the real Route shows them (binding check of the
\* representation choice)
RECURSIVE Shape(_)
Shape(c) ==
    IF c.k = "Inverted" THEN "!" \o Shape(c.in)
    ELSE IF c.k = "GroupOR" THEN "(" \o Shape(c.cs[1]) \o "|" \o Shape(c.cs[2]) \o ")"
    ELSE IF c.k = "DestDomainExpectedIP" THEN "DestDomainExpectedIP[" \o Shape(c.x) \o "]"
    ELSE c.k
Shapes(rc) == LET cs == Criteria(rc) IN [i \in 1 .. Len(cs) |-> Shape(cs[i])]

Ok(x) == [m |-> x, e |-> FALSE]
Err == [m |-> FALSE, e |-> TRUE]

\* Criterion.Meet of every criterion type: (met, err)
RECURSIVE Meet(_, _, _)
Meet(c, q, b) ==
    CASE c.k = "NetworkTCP" -> Ok(q.net = "tcp")
      [] c.k = "NetworkUDP" -> Ok(q.net = "udp")
      [] c.k = "SourceServer" -> Ok(Servers[q.srv + 1] \in c.set)             \* bitset.IsSet(ServerIndex)
      [] c.k = "SourceUser" -> Ok(q.usr \in c.set)                             \* slices.Contains
      [] c.k = "SourcePort" -> Ok(q.sport = PortFirst(c.e))                    \* uint16(c) == port
      [] c.k = "SourcePortRangeSet" -> Ok(PortMember(c.e, q.sport))            \* binary search over ranges
      [] c.k = "SourcePortSet" -> Ok(PortMember(c.e, q.sport))                 \* port != 0 && bit test (F2: PortSet.Contains(0) panics)
      [] c.k = "SourceIP" -> Ok(InPfx(c.e, q.sip))                             \* Contains(Addr().Unmap())
      [] c.k = "DestPort" -> Ok(q.tport = PortFirst(c.e))
      [] c.k = "DestPortRangeSet" -> Ok(PortMember(c.e, q.tport))
      [] c.k = "DestPortSet" -> Ok(PortMember(c.e, q.tport))
      [] c.k = "DestDomain" -> Ok(DomHit(c.e, q))                              \* IsIP -> false
      [] c.k = "DestDomainExpectedIP" ->
            LET r == Meet(c.d, q, b) IN IF ~r.m THEN r ELSE Meet(c.x, q, b)    \* if !met {return false, err}
      [] c.k = "DestIP" -> Ok(q.tk = "ip" /\ InPfx(c.e, q.ta))                 \* !IsIP -> false
      [] c.k = "DestResolvedIP" ->
            IF q.tk = "ip" THEN Ok(InPfx(c.e, q.ta))
            ELSE LET a == LookupFrom(c.rl, 1, b) IN IF a = "err" THEN Err ELSE Ok(InPfx(c.e, a))
      [] c.k = "Inverted" ->
            LET r == Meet(c.in, q, b) IN IF r.e THEN Err ELSE Ok(~r.m)         \* err -> (false, err)
      [] c.k = "GroupOR" ->                                                    \* first error or first met wins
            LET r1 == Meet(c.cs[1], q, b)
            IN IF r1.e THEN Err ELSE IF r1.m THEN Ok(TRUE) ELSE Meet(c.cs[2], q, b)

\* Route.Match: `if !met { return false, err }`
RECURSIVE ImplMatchFrom(_, _, _, _)
ImplMatchFrom(cs, i, q, b) ==
    IF i > Len(cs) THEN Ok(TRUE)
    ELSE LET r == Meet(cs[i], q, b) IN IF ~r.m THEN r ELSE ImplMatchFrom(cs, i + 1, q, b)

\* Config.Router: the built routes = criteria list + client of every route configuration
BuildRoutes(rs) == [i \in 1 .. Len(rs) |-> [cs |-> Criteria(rs[i]), cl |-> rs[i].cl]]

\* Router.match + Route.TCPClient/UDPClient (nil client = ErrRejected), over the built routes br
RECURSIVE ImplFrom(_, _, _, _, _)
ImplFrom(br, d, i, q, b) ==
    IF i > Len(br) THEN DefaultOutcome(d, q)
    ELSE LET r == ImplMatchFrom(br[i].cs, 1, q, b)
         IN IF r.e THEN "error" ELSE IF r.m THEN ClientOf(br[i].cl) ELSE ImplFrom(br, d, i + 1, q, b)
ImplBuilt(br, d, a) == ImplFrom(br, d, 1, a, a.b)
Impl(rs, d, a) == ImplBuilt(BuildRoutes(rs), d, a)

\* The one class in which the code's evaluation order matters: inside the destination OR-group the
\* domain condition needs a lookup that fails (unknown) while the prefix condition is true without a
\* lookup (name resolution disabled, inverted, domain target).  Kleene: unknown OR true = true; the
\* code reports the lookup error.  The property allows both ("resolver failures surface as errors").
\* static precondition: the prefix condition can be true without a lookup only for a domain target with
\* name resolution disabled and the condition inverted; the domain condition can be unknown only with an expectation
MayOrderAmb(rc) ==
    DomPresent(DomCat[rc.dom]) /\ PfxPresent(PfxCat[rc.exp]) /\ PfxPresent(PfxCat[rc.pfx]) /\ rc.nr /\ rc.pfxI
OrderAmb(rs, d, a) ==
    LET i == DecidedAt(rs, 1, a, a.b)
    IN /\ i <= Len(rs)
       /\ LET rc == rs[i] IN
          /\ DomPresent(DomCat[rc.dom]) /\ PfxPresent(PfxCat[rc.pfx])
          /\ CDom(rc, a, a.b) = "U" /\ CPfx(rc, a, a.b) = "T"

-----------------------------------------------------------------------------
(* 3. The API as actions.                                                     *)
Init ==
    /\ routes = <<>> /\ defs = [tcp |-> "", udp |-> ""] /\ phase = "config"
    /\ act = [n |-> "Init"]

\* one iteration of the loop in Config.Router: rc.Route(...) and routes[i] = route
AddRoute(rc) ==
    /\ phase = "config" /\ Len(routes) < MaxRoutes
    /\ routes' = Append(routes, rc)
    /\ phase' = IF BuildError(rc) THEN "failed" ELSE "config"
    /\ defs' = defs
    /\ act' = [n |-> "AddRoute", rc |-> rc, out |-> IF BuildError(rc) THEN "error" ELSE "ok"]

\* routes[len] = defaultRoute; return &Router{...}
Start(d) ==
    /\ phase = "config"
    /\ phase' = "serving" /\ defs' = d /\ routes' = routes
    /\ act' = [n |-> "Start", d |-> d, out |-> "ok"]

\* Router.GetTCPClient / GetUDPClient
GetClient(a) ==
    /\ phase = "serving"
    /\ UNCHANGED sv
    /\ act' = [n |-> "GetClient", a |-> a, out |-> Decl(routes, defs, a)]

Next ==
    \/ \E rc \in RouteSpace(Len(routes) + 1) : AddRoute(rc)
    \/ \E d \in DefaultSpace : Start(d)
    \/ \E a \in Asks : GetClient(a)

Spec == Init /\ [][Next]_vars

-----------------------------------------------------------------------------
Outcomes == {"rejected", "error"} \cup {DefaultClient} \cup SeqRange(RouteClients)

TypeOK ==
    /\ phase \in {"config", "failed", "serving"}
    /\ Len(routes) <= MaxRoutes
    /\ defs \in DefaultSpace \cup {[tcp |-> "", udp |-> ""]}

\* every answer is a client of the universe, a rejection or an error; and the short-circuit form of RouteVal
\* is the Kleene conjunction
AnswersOK ==
    phase = "serving" => \A a \in Asks :
        /\ Decl(routes, defs, a) \in Outcomes
        /\ \A i \in 1 .. Len(routes) : RouteVal(routes[i], a, a.b) = RouteValDef(routes[i], a, a.b)

Built == phase = "serving" \/ phase = "config"

\* The code's evaluation order computes the declarative value.
ImplRefinesDecl ==
    Built => LET br == BuildRoutes(routes) IN \A a \in Asks :
        LET dv == Decl(routes, defs, a)
            iv == ImplBuilt(br, defs, a)
        IN iv = dv \/ (iv = "error" /\ dv # "error" /\ OrderAmb(routes, defs, a))

\* "Never a silent match": an answer other than `error` does not depend on a lookup that failed -
\* whatever the failing resolvers would have answered, the answer is the same.
\* Refine(b, x): every lookup that failed under b answers x instead (a hard failure is replaced by x; if
\* all resolvers said ErrLookup, all answer x); lookups that succeeded under b are unchanged.
HardFail == {"noaddr", "fail"}
Refine(b, x) ==
    IF \A r \in DOMAIN b : b[r] = "errlookup" THEN [r \in DOMAIN b |-> x]
    ELSE [r \in DOMAIN b |-> IF b[r] \in HardFail THEN x ELSE b[r]]
LookupMonotone ==
    Built => \A a \in Asks :
        (a.tk = "dom" /\ Decl(routes, defs, a) # "error")
        => \A x \in Addrs : Decl(routes, defs, [a EXCEPT !.b = Refine(a.b, x)]) = Decl(routes, defs, a)

\* First match in configuration order, characterised from the right: appending a route changes the
\* answer only of requests no earlier route decided, and then according to the new route alone.
AppendLaw ==
    [][ (act'.n = "AddRoute" /\ phase' = "config") =>
          \A a \in Asks :
             LET old == DecidedAt(routes, 1, a, a.b)
                 v == RouteVal(act'.rc, a, a.b)
                 new == Decl(routes', defs, a)
             IN IF old <= Len(routes) THEN new = Decl(routes, defs, a)
                ELSE new = (IF v = "T" THEN ClientOf(act'.rc.cl) ELSE IF v = "U" THEN "error" ELSE DefaultOutcome(defs, a)) ]_vars

\* A route that is refused never serves; a served configuration has no refused route.
RefusedNeverServes == phase = "serving" => \A i \in 1 .. Len(routes) : ~BuildError(routes[i])

\* the answer of GetClient is a function of the configuration and the request (no hidden state)
GetIsPure == [][act'.n = "GetClient" => sv' = sv]_vars
=============================================================================
