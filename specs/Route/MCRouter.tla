------------------------------ MODULE MCRouter ------------------------------
(* Model-checking / case-generation instance of Router.                       *)
(* Universe and catalogues: RouterData.  This module defines the route        *)
(* lattices, the ask lattice and the CASE / BAD / CAT lines the driver reads.  *)
(* ${...} placeholders are filled in by lib/props/c09.py.                     *)
EXTENDS Router, Json, SequencesExt

-----------------------------------------------------------------------------
(* route lattices *)
Base == [net |-> "", cl |-> "own", rs |-> "", srv |-> "-", srvI |-> FALSE, usr |-> "-", usrI |-> FALSE,
         sp |-> "-", spI |-> FALSE, sip |-> "-", sipI |-> FALSE, tp |-> "-", tpI |-> FALSE,
         dom |-> "-", domI |-> FALSE, exp |-> "-", expI |-> FALSE, pfx |-> "-", pfxI |-> FALSE, nr |-> FALSE]

SrvVars == ${SrvVars}
UsrVars == ${UsrVars}
PortVars == ${PortVars}
SipVars == ${SipVars}
DomVars == ${DomVars}
ExpVars == ${ExpVars}
PfxVars == ${PfxVars}
RsVars == ${RsVars}

\* the variants of one criterion kind, as overrides of Base
KindSpace(k) ==
    CASE k = "net" -> {[net |-> v] : v \in {"tcp", "udp"}}
      [] k = "cl" -> {[cl |-> "reject"]}
      [] k = "srv" -> {[srv |-> v, srvI |-> i] : v \in SrvVars, i \in BOOLEAN}
      [] k = "usr" -> {[usr |-> v, usrI |-> i] : v \in UsrVars, i \in BOOLEAN}
      [] k = "sp" -> {[sp |-> v, spI |-> i] : v \in PortVars, i \in BOOLEAN}
      [] k = "sip" -> {[sip |-> v, sipI |-> i] : v \in SipVars, i \in BOOLEAN}
      [] k = "tp" -> {[tp |-> v, tpI |-> i] : v \in PortVars, i \in BOOLEAN}
      [] k = "dom" -> {[dom |-> v, domI |-> i] : v \in DomVars, i \in BOOLEAN}
      [] k = "pfx" -> {[pfx |-> v, pfxI |-> i, nr |-> n] : v \in PfxVars, i \in BOOLEAN, n \in BOOLEAN}
KindSeq == <<"net", "cl", "srv", "usr", "sp", "sip", "tp", "dom", "pfx">>

\* one criterion kind present (plus the invert flag alone, which must be without effect)
Singles == UNION {{o @@ Base : o \in KindSpace(KindSeq[i])} : i \in 1 .. Len(KindSeq)}
              \cup {[Base EXCEPT !.srvI = TRUE, !.spI = TRUE, !.domI = TRUE, !.pfxI = TRUE, !.nr = TRUE]}
\* two kinds present: AND across kinds, OR inside the destination group
Pairs == UNION {UNION {{o1 @@ o2 @@ Base : o1 \in KindSpace(KindSeq[i]), o2 \in KindSpace(KindSeq[j])}
                       : j \in i + 1 .. Len(KindSeq)} : i \in 1 .. Len(KindSeq)}
\* the destination group in full: domain condition, expectation, prefix condition, resolver choice
DestLattice ==
    {rc \in {[Base EXCEPT !.dom = d, !.domI = di, !.exp = e, !.expI = ei, !.pfx = p, !.pfxI = pi, !.nr = n, !.rs = r] :
                d \in DomVars \cup {"-"}, di \in BOOLEAN, e \in ExpVars \cup {"-"}, ei \in BOOLEAN,
                p \in PfxVars \cup {"-"}, pi \in BOOLEAN, n \in BOOLEAN, r \in RsVars} :
        /\ rc.dom = "-" => ~rc.domI /\ rc.exp = "-"
        /\ rc.exp = "-" => ~rc.expI
        /\ rc.pfx = "-" => ~rc.pfxI /\ ~rc.nr}
\* refused configurations
Refused == {[Base EXCEPT !.sp = "all"], [Base EXCEPT !.tp = "zero"], [Base EXCEPT !.tp = "all", !.tpI = TRUE],
            [Base EXCEPT !.exp = "p"], [Base EXCEPT !.rs = "nope", !.pfx = "p"], [Base EXCEPT !.net = "sctp"]}
\* a few routes with a known value pattern for the order lattice (0..MaxRoutes routes in every order):
\* true / false / unknown-on-failed-lookup / reject, by different mechanisms
Templates ==
    {[Base EXCEPT !.usr = "a"],                          \* depends on the user
     [Base EXCEPT !.usr = "a", !.usrI = TRUE],
     [Base EXCEPT !.tp = "r17", !.cl = "reject"],        \* depends on the target port, rejects
     [Base EXCEPT !.pfx = "p"],                          \* needs a lookup for domain targets
     [Base EXCEPT !.dom = "s1", !.net = "tcp"],          \* domain targets under example.com, TCP only
     [Base EXCEPT !.dom = "s1", !.exp = "p", !.expI = TRUE, !.rs = "r2"],
     [Base EXCEPT !.sip = "p", !.pfx = "s", !.nr = TRUE],
     [Base EXCEPT !.dom = "s1", !.exp = "p", !.pfx = "s", !.nr = TRUE, !.pfxI = TRUE]}   \* order-dependent (OrderAmb)
\* route lists drawn by the check script from the variant names (seeded): 0..MaxRoutes routes, every field
\* independent.  R(...) is positional to keep the generated text short.
R(net, cl, rs, srv, srvI, usr, usrI, sp, spI, sip, sipI, tp, tpI, dom, domI, exp, expI, pfx, pfxI, nr) ==
    [net |-> net, cl |-> cl, rs |-> rs, srv |-> srv, srvI |-> srvI, usr |-> usr, usrI |-> usrI, sp |-> sp, spI |-> spI,
     sip |-> sip, sipI |-> sipI, tp |-> tp, tpI |-> tpI, dom |-> dom, domI |-> domI, exp |-> exp, expI |-> expI,
     pfx |-> pfx, pfxI |-> pfxI, nr |-> nr]
T == TRUE
F == FALSE
Given == ${Given}
\* the next route of every given list that the routes added so far are a prefix of
GivenAt == {g[Len(routes) + 1] : g \in {h \in Given : Len(h) > Len(routes) /\ SubSeq(h, 1, Len(routes)) = routes}}

Own(rc, i) == [rc EXCEPT !.cl = IF rc.cl = "own" THEN RouteClients[i] ELSE rc.cl]
MCRouteSpace(i) == {Own(rc, i) : rc \in ${RouteSpace}}
MCDefaultSpace == ${DefaultSpace}

-----------------------------------------------------------------------------
(* asks: requests over boundary values together with resolver behaviours *)
Nets == {"tcp", "udp"}
Srvs == {0, 1}
Usrs == ${Usrs}
Sips == ${Sips}
Ports == ${Ports}
\* behaviours of <<r1, r2>> for the looked-up name
Behs == ${Behs}
NoBeh == [r1 |-> "fail", r2 |-> "fail"]          \* IP targets are never looked up
IpTgts == {[tk |-> "ip", ta |-> a, b |-> NoBeh] : a \in ${IpTargets}}
DomTgts == {[tk |-> "dom", ta |-> n, b |-> [r1 |-> x[1], r2 |-> x[2]]] : n \in ${DomTargets}, x \in Behs}
Tgts == IpTgts \cup DomTgts

\* a request that meets the plain form of most variants, and one that meets hardly any
Q1 == [net |-> "tcp", srv |-> 0, usr |-> "alice", sip |-> A4, sport |-> 443, tk |-> "dom", ta |-> "www.example.com",
       tport |-> 443, b |-> [r1 |-> A4, r2 |-> "fail"]]
Q2 == [net |-> "udp", srv |-> 1, usr |-> "mallory", sip |-> D4, sport |-> 2001, tk |-> "ip", ta |-> D4,
       tport |-> 2001, b |-> NoBeh]
\* all asks that differ from f in one dimension (the target, its kind and the resolver behaviour are one dimension)
Vary(f) ==
    {[f EXCEPT !.net = v] : v \in Nets} \cup {[f EXCEPT !.srv = v] : v \in Srvs} \cup
    {[f EXCEPT !.usr = v] : v \in Usrs} \cup {[f EXCEPT !.sip = v] : v \in Sips} \cup
    {[f EXCEPT !.sport = v] : v \in Ports} \cup {[f EXCEPT !.tport = v] : v \in Ports} \cup
    {[f EXCEPT !.tk = t.tk, !.ta = t.ta, !.b = t.b] : t \in Tgts}
Vary2(f) == UNION {Vary(g) : g \in Vary(f)}
MCAsks == ${Asks}
AskSeq == SetToSeq(MCAsks)

-----------------------------------------------------------------------------
(* emission *)
\* one outcome per ask, in AskSeq order: "<decl>", "<decl>~<impl>" when the evaluation order is free
\* (OrderAmb), prefixed by "?" when the documentation does not determine the answer (Soft), followed by
\* "/dns" or "/other" (how DialResultCodeFromError classifies the failed lookup) when an error is involved
Enc(rs, br, amb, d, a) ==
    LET dv == Decl(rs, d, a)
        iv == IF amb THEN ImplBuilt(br, d, a) ELSE dv     \* outside MayOrderAmb, ImplRefinesDecl gives iv = dv
    IN (IF Soft(rs, d, a) THEN "?" ELSE "") \o dv \o (IF iv # dv THEN "~" \o iv ELSE "")
          \o (IF dv = "error" \/ iv = "error" THEN "/" \o ErrClass(rs, a) ELSE "")
CaseOf(rs, d) == LET seq == AskSeq
                     br == BuildRoutes(rs)
                     amb == \E j \in 1 .. Len(rs) : MayOrderAmb(rs[j])
                 IN [routes |-> rs, d |-> d, shapes |-> [i \in 1 .. Len(rs) |-> Shapes(rs[i])],
                     outs |-> [i \in 1 .. Len(seq) |-> Enc(rs, br, amb, d, seq[i])]]
Emit ==
    /\ act'.n = "Start" => PrintT("CASE " \o ToJson(CaseOf(routes', defs')))
    /\ (act'.n = "AddRoute" /\ phase' = "failed") => PrintT("BAD " \o ToJson([routes |-> routes']))
Catalogue ==
    [servers |-> Servers, resolvers |-> Resolvers, defaultClient |-> DefaultClient, routeClients |-> RouteClients,
     addrs |-> Addrs, unmap |-> Unmap, prefixes |-> Prefixes, covers |-> CoverTable,
     prefixSets |-> PrefixSetDef, names |-> Names, rules |-> Rules, matches |-> MatchTable,
     domainSets |-> DomainSetDef, srvCat |-> SrvCat, usrCat |-> UsrCat, portCat |-> PortCat,
     pfxCat |-> PfxCat, domCat |-> DomCat, padBase |-> PadBase, asks |-> AskSeq,
     portRep |-> [v \in DOMAIN PortCat |-> IF PortPresent(PortCat[v]) /\ ~PortZero(PortCat[v]) THEN PortRep(PortCat[v]) ELSE "-"],
     maxRangeSet |-> MaxRangeSet, maxLinearDomains |-> MaxLinearDomains, maxLinearSuffixes |-> MaxLinearSuffixes]
EmitInit == PrintT("CAT " \o ToJson(Catalogue))
InitE == Init /\ EmitInit

View == sv
\* GetClient self-loops only over a sample of the asks (the table in the CASE line holds all of them)
MCNext ==
    \/ phase = "config" /\ Len(routes) < MaxRoutes /\ \E rc \in MCRouteSpace(Len(routes) + 1) : AddRoute(rc)
    \/ phase = "config" /\ ${StartGuard} /\ \E d \in MCDefaultSpace : Start(d)
    \/ phase = "serving" /\ LET seq == AskSeq IN \E a \in {seq[i] : i \in 1 .. (IF Len(seq) < ${GetSample} THEN Len(seq) ELSE ${GetSample})} : GetClient(a)
=============================================================================
