CONSTANTS
  RouteSpace <- MCRouteSpace
  DefaultSpace <- MCDefaultSpace
  Asks <- MCAsks
  MaxRangeSet = ${MaxRangeSet}
  MaxLinearDomains = ${MaxLinearDomains}
  MaxLinearSuffixes = ${MaxLinearSuffixes}
  MaxRoutes = ${MaxRoutes}
INIT InitE
NEXT MCNext
VIEW View
${EMIT}
INVARIANTS ${INVARIANTS}
PROPERTIES ${PROPERTIES}
CHECK_DEADLOCK FALSE
