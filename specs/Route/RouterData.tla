----------------------------- MODULE RouterData -----------------------------
(* The universe around the router (servers, resolvers, clients, addresses,    *)
(* prefixes, domain names, rules) and the catalogues that give the variant    *)
(* names used in route configurations their meaning.  The strings are the     *)
(* literals the driver puts into the real configuration; the membership       *)
(* tables (CoverTable, MatchTable, Unmap) are re-validated by the driver      *)
(* against net/netip and package strings before any case is run (a wrong      *)
(* table is exit 2, not a violation).                                         *)
(* These are definitions rather than CONSTANTS of Router because TLC does not *)
(* cache the value of a constant that a cfg file substitutes (`C <- Def`),    *)
(* which made every catalogue access rebuild the catalogue.                   *)
EXTENDS Integers, Sequences, FiniteSets, TLC

CONSTANTS
    MaxRangeSet,        \* route.go: `portRangeCount <= 16` -> PortRangeSet, above -> PortSet (bit set)
    MaxLinearDomains,   \* domainset.MaxLinearDomains
    MaxLinearSuffixes   \* domainset.MaxLinearSuffixes

-----------------------------------------------------------------------------
(* universe *)
Servers == <<"s0", "s1">>
Resolvers == <<"r1", "r2">>
DefaultClient == "c0"
RouteClients == <<"c1", "c2", "c3", "c4", "c5", "c6">>

A4 == "10.1.2.3"
A4m == "::ffff:10.1.2.3"       \* the same host as an IPv4-mapped IPv6 address
B4 == "192.0.2.7"
C6 == "2001:db8::1"
D4 == "203.0.113.9"            \* in no prefix of the universe
Addrs == {A4, A4m, B4, C6, D4}
Unmap == [a \in Addrs |-> IF a = A4m THEN A4 ELSE a]
\* netip.Prefix.Contains on unmapped addresses (an IPv4 address is in no IPv6 prefix, not even ::/0)
CoverTable == {<<"10.0.0.0/8", A4>>, <<"10.1.2.3/32", A4>>, <<"192.0.2.0/24", B4>>,
               <<"2001:db8::/32", C6>>, <<"::/0", C6>>}
Prefixes == {"10.0.0.0/8", "10.1.2.3/32", "192.0.2.0/24", "2001:db8::/32", "::/0"}
Covers(p, a) == <<p, a>> \in CoverTable
PrefixSetDef == [ps1 |-> {"192.0.2.0/24", "2001:db8::/32"}, ps2 |-> {"10.0.0.0/8"}, ps6 |-> {"::/0"}]

Names == {"example.com", "www.example.com", "notexample.com", "a.ads.example.net", "other.test"}
MatchTable == {<<"domain:www.example.com", "www.example.com">>,
               <<"suffix:example.com", "example.com">>, <<"suffix:example.com", "www.example.com">>,
               <<"suffix:www.example.com", "www.example.com">>,
               <<"keyword:ads", "a.ads.example.net">>,
               <<"suffix:example.net", "a.ads.example.net">>,
               <<"domain:other.test", "other.test">>,
               <<"keyword:example", "example.com">>, <<"keyword:example", "www.example.com">>,
               <<"keyword:example", "notexample.com">>, <<"keyword:example", "a.ads.example.net">>}
Rules == {"domain:www.example.com", "suffix:example.com", "suffix:www.example.com", "keyword:ads", "suffix:example.net",
            "domain:other.test", "keyword:example"}
RuleMatches(r, n) == <<r, n>> \in MatchTable
\* padD / padS filler rules ("domain:padN.invalid", "suffix:padN.invalid") push the set over the
\* linear-matcher thresholds (map matcher above MaxLinearDomains, trie above MaxLinearSuffixes)
DomainSetDef ==
    \* ds1 holds a suffix and an extension of it: the file lists them in a seeded order, so the trie sees both
    \* insertion orders (a shorter suffix inserted after a longer one must replace it)
    [ds1 |-> [rules |-> {"suffix:example.com", "suffix:www.example.com"}, padD |-> 0, padS |-> 0],
     ds2 |-> [rules |-> {"domain:www.example.com", "keyword:ads"}, padD |-> 0, padS |-> 0],
     dsbig |-> [rules |-> {"domain:other.test", "suffix:example.net"},
                padD |-> MaxLinearDomains + 1, padS |-> MaxLinearSuffixes + 1],
     dsmid |-> [rules |-> {"domain:other.test"}, padD |-> MaxLinearDomains - 4, padS |-> MaxLinearSuffixes - 1],
     dskw |-> [rules |-> {"keyword:example"}, padD |-> 0, padS |-> 0]]

-----------------------------------------------------------------------------
(* catalogues *)
SrvCat == [x \in {"-", "s0", "s01"} |-> IF x = "s0" THEN {"s0"} ELSE IF x = "s01" THEN {"s0", "s1"} ELSE {}]
UsrCat == [x \in {"-", "a", "ab"} |-> IF x = "a" THEN {"alice"} ELSE IF x = "ab" THEN {"alice", "bob"} ELSE {}]

PadBase == 30001
P(l, r, n) == [list |-> l, ranges |-> r, pad |-> n]
PortCat ==
    ("-" :> P(<<>>, <<>>, 0)) @@
    ("one" :> P(<<443>>, <<>>, 0)) @@                              \* 1 port           -> Port
    ("oneR" :> P(<<>>, <<<<443, 443>>>>, 0)) @@                    \* "443" in the range string
    ("two" :> P(<<443>>, <<<<1000, 2000>>>>, 0)) @@                \* 2 ranges         -> PortRangeSet
    ("adj" :> P(<<999>>, <<<<1000, 2000>>>>, 0)) @@                \* merges into 999-2000
    ("dup" :> P(<<443, 443>>, <<<<443, 443>>>>, 0)) @@             \* duplicates, still 1 port
    ("lo" :> P(<<1>>, <<>>, 0)) @@
    ("top" :> P(<<65535>>, <<>>, 0)) @@                            \* 1 port in the last word of the bit set
    ("hi" :> P(<<>>, <<<<65534, 65535>>>>, 0)) @@
    ("r16" :> P(<<443>>, <<>>, MaxRangeSet - 1)) @@                \* exactly MaxRangeSet ranges -> PortRangeSet
    ("r17" :> P(<<443>>, <<>>, MaxRangeSet)) @@                    \* one more          -> PortSet (bit set)
    ("big" :> P(<<443, 1>>, <<<<1000, 2000>>, <<65534, 65535>>>>, MaxRangeSet + 4)) @@
    ("blk" :> P(<<63, 64, 128>>, <<<<191, 193>>, <<443, 443>>>>, MaxRangeSet)) @@   \* word boundaries of the bit set
    ("blkR" :> P(<<63, 64, 128>>, <<<<191, 193>>, <<443, 443>>>>, 0)) @@            \* the same as a range set
    ("allbut" :> P(<<>>, <<<<1, 442>>, <<444, 65535>>>>, 0)) @@
    ("all" :> P(<<>>, <<<<1, 65535>>>>, 0)) @@                     \* refused: pointless
    ("zero" :> P(<<0>>, <<>>, 0))                                  \* refused: ErrZeroPort

X(p, s) == [pfx |-> p, sets |-> s]
PfxCat ==
    ("-" :> X({}, {})) @@
    ("p" :> X({"10.0.0.0/8"}, {})) @@
    ("s" :> X({}, {"ps1"})) @@
    ("ps" :> X({"10.1.2.3/32"}, {"ps1"})) @@
    ("ss" :> X({}, {"ps1", "ps2"})) @@
    ("v6" :> X({}, {"ps6"}))

Dm(d, s, n) == [doms |-> d, sets |-> s, pad |-> n]
DomCat ==
    ("-" :> Dm({}, {}, 0)) @@
    ("l" :> Dm({"example.com"}, {}, 0)) @@                                   \* linear matcher
    ("L" :> Dm({"example.com", "other.test"}, {}, MaxLinearDomains)) @@      \* above the threshold: map
    ("M" :> Dm({"example.com"}, {}, MaxLinearDomains - 6)) @@                \* a longer list, still linear
    ("mid" :> Dm({}, {"dsmid"}, 0)) @@                                       \* just below the thresholds
    ("s1" :> Dm({}, {"ds1"}, 0)) @@
    ("s2" :> Dm({}, {"ds2"}, 0)) @@
    ("big" :> Dm({}, {"dsbig"}, 0)) @@
    ("kw" :> Dm({}, {"dskw"}, 0)) @@
    ("mix" :> Dm({"other.test"}, {"ds1", "ds2"}, 0))

=============================================================================
