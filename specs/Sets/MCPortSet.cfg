CONSTANTS
  BlockBits = ${BlockBits}
  NBlocks = ${NBlocks}
  MaxRanges = ${MaxRanges}
  AddPorts <- MCAddPorts
  AddRanges <- MCAddRanges
  Strings <- MCStrings
  MaxOps = ${MaxOps}
  Concrete = ${Concrete}
INIT InitE
NEXT Next
VIEW View
${EMIT}
INVARIANTS ${INVS}
PROPERTIES ${PROPS}
CHECK_DEADLOCK FALSE
