------------------------------ MODULE DomainSet ------------------------------
(* Domain sets of shadowsocks-go: the four rule kinds, the builder that holds *)
(* them, every matcher the builders may produce, and the text / gob forms.   *)
(*                                                                          *)
(* Code:  domainset/domainset.go          Builder, BuilderFromText,         *)
(*                                         ParseCapacityHint, WriteText,     *)
(*                                         BuilderGob, DomainSet.Match       *)
(*        domainset/matcher_domain.go      DomainLinear/BinarySearch/Map     *)
(*        domainset/matcher_suffix.go      SuffixLinear/SuffixMap,           *)
(*                                         matchDomainSuffix                 *)
(*        domainset/matcher_suffix_trie.go DomainSuffixTrie                  *)
(*        domainset/matcher_keyword.go     KeywordLinearMatcher              *)
(*        domainset/matcher_regexp.go      RegexpMatcherBuilder              *)
(*        bytestrings/bytestrings.go       NextNonEmptyLine                  *)
(*                                                                          *)
(* Names are TLA+ strings; the code's byte loops (scan for '.' from the      *)
(* right, scan for '\n') are transcribed index by index, so that the model   *)
(* is the algorithm of the code and the Ref* operators next to it are the    *)
(* meaning the property gives to a rule.                                     *)
EXTENDS Integers, Sequences, FiniteSets, TLC

CONSTANTS
    DomainRules,        \* alphabet of "domain:" rules   (strings)
    SuffixRules,        \* alphabet of "suffix:" rules
    KeywordRules,       \* alphabet of "keyword:" rules
    RegexpRules,        \* alphabet of "regexp:" rules (tiny dialect, see RxMatch)
    Probes,             \* every name asked of every matcher
    Texts,              \* text documents offered to LoadText
    MaxRules,           \* bound on the number of distinct rules held
    MaxClear,           \* bound on the number of Clear calls
    Conv,               \* conversions offered: subset of {"gob", "text"}
    MaxLinearDomains,   \* code: domainset.MaxLinearDomains   (16)
    MaxLinearSuffixes,  \* code: domainset.MaxLinearSuffixes  (4)
    Sizes               \* rule counts at which the matcher selection is tabulated

VARIABLES
    b,          \* the Builder: [d, t, k, r]
                \*   d : set of strings         DomainMapMatcher (map[string]struct{})
                \*   t : trie node              DomainSuffixTrie (see below)
                \*   k : Seq(STRING)            KeywordLinearMatcher
                \*   r : Seq(STRING)            RegexpMatcherBuilder
    ref,        \* ghost: [d, s, k, r] the rule sets the builder is supposed to mean
    nclear,     \* number of Clear calls so far
    act         \* last action and what the model expects to observe (output only)

sv == <<b, ref, nclear>>
vars == <<sv, act>>

-----------------------------------------------------------------------------
(* Strings *)
Ch(s, i) == SubSeq(s, i, i)
From(s, i) == SubSeq(s, i, Len(s))
HasPrefix(s, p) == Len(s) >= Len(p) /\ SubSeq(s, 1, Len(p)) = p
HasSuffix(s, p) == Len(s) >= Len(p) /\ SubSeq(s, Len(s) - Len(p) + 1, Len(s)) = p
StrContains(s, k) == \E i \in 1..(Len(s) - Len(k) + 1) : SubSeq(s, i, i + Len(k) - 1) = k
\* strings.IndexByte: least index (1-based) of c in s, 0 if absent
RECURSIVE IndexFrom(_, _, _)
IndexFrom(s, c, i) == IF i > Len(s) THEN 0 ELSE IF Ch(s, i) = c THEN i ELSE IndexFrom(s, c, i + 1)
IndexByte(s, c) == IndexFrom(s, c, 1)
\* "for i := len(domain) - 1; i >= 0; i-- { if domain[i] != '.' { continue } ...": the position
\* (1-based) of the last '.', 0 if there is none
RECURSIVE DotBefore(_, _)
DotBefore(s, i) == IF i = 0 THEN 0 ELSE IF Ch(s, i) = "." THEN i ELSE DotBefore(s, i - 1)
LastDot(s) == DotBefore(s, Len(s))

RECURSIVE SetToSeq(_)
SetToSeq(S) == IF S = {} THEN <<>> ELSE LET x == CHOOSE y \in S : TRUE IN <<x>> \o SetToSeq(S \ {x})
Reverse(q) == [i \in 1..Len(q) |-> q[Len(q) + 1 - i]]
Range(q) == {q[i] : i \in 1..Len(q)}

-----------------------------------------------------------------------------
(* What a rule means (the property's reading) *)
RefDomain1(d, rule) == d = rule
\* suffix on a label boundary: the name is the suffix, or ends with "." followed by the suffix
RefSuffix1(d, rule) == d = rule \/ HasSuffix(d, "." \o rule)
RefKeyword1(d, rule) == StrContains(d, rule)

\* Regular expressions: the dialect used by the model's alphabet is
\*   ['^'] token* ['$']   token = 'a'..'z' | '.' (any one character) | '\' c (c literally)
\* which Go's regexp reads the same way; anything richer is left to the regexp package.
RxAnchL(r) == Len(r) >= 1 /\ Ch(r, 1) = "^"
RxAnchR(r) == Len(r) >= 1 /\ Ch(r, Len(r)) = "$"
RxBody(r) == SubSeq(r, IF RxAnchL(r) THEN 2 ELSE 1, IF RxAnchR(r) THEN Len(r) - 1 ELSE Len(r))
RECURSIVE RxToks(_)
RxToks(s) == IF s = "" THEN <<>>
             ELSE IF Ch(s, 1) = "\\" THEN <<[any |-> FALSE, c |-> Ch(s, 2)]>> \o RxToks(From(s, 3))
             ELSE IF Ch(s, 1) = "." THEN <<[any |-> TRUE, c |-> "."]>> \o RxToks(From(s, 2))
             ELSE <<[any |-> FALSE, c |-> Ch(s, 1)]>> \o RxToks(From(s, 2))
RefRegexp1(d, rule) ==
    LET T == RxToks(RxBody(rule))
        n == Len(T)
        starts == IF RxAnchL(rule) THEN {1} ELSE 1..(Len(d) + 1)
    IN \E i \in starts :
          /\ i + n - 1 <= Len(d)
          /\ RxAnchR(rule) => i + n - 1 = Len(d)
          /\ \A j \in 1..n : T[j].any \/ Ch(d, i + j - 1) = T[j].c

RefMatch(rf, d) ==
    \/ \E x \in rf.d : RefDomain1(d, x)
    \/ \E x \in rf.s : RefSuffix1(d, x)
    \/ \E x \in rf.k : RefKeyword1(d, x)
    \/ \E x \in rf.r : RefRegexp1(d, x)

-----------------------------------------------------------------------------
(* matcher_suffix.go *)
\* matchDomainSuffix, index arithmetic as in the code
MatchDomainSuffix(d, s) ==
    \/ d = s
    \/ /\ Len(d) > Len(s)
       /\ Ch(d, Len(d) - Len(s)) = "."          \* domain[len(domain)-len(suffix)-1] == '.'
       /\ SubSeq(d, Len(d) - Len(s) + 1, Len(d)) = s
SuffixLinearMatch(q, d) == \E i \in 1..Len(q) : MatchDomainSuffix(d, q[i])
\* SuffixMapMatcher.Match: for every '.', look the remainder up; finally the whole name
SuffixMapMatch(S, d) ==
    \/ \E i \in 1..Len(d) : Ch(d, i) = "." /\ From(d, i + 1) \in S
    \/ d \in S

-----------------------------------------------------------------------------
(* matcher_suffix_trie.go.  A node is [nil |-> Children == nil, ch |-> Children]; *)
(* nil Children marks a leaf = a stored suffix.                                *)
Leaf == [nil |-> TRUE, ch |-> <<>>]
Node(f) == [nil |-> FALSE, ch |-> f]
EmptyTrie == Node(<<>>)                         \* NewDomainSuffixTrie()
Put(f, key, v) == [x \in (DOMAIN f) \cup {key} |-> IF x = key THEN v ELSE f[x]]

\* DomainSuffixTrie.Insert.  One unfolding = one iteration of the label loop.
\* Precondition in the code: n.Children is a non-nil map (assignment to a nil map panics).
RECURSIVE TrieInsert(_, _)
TrieInsert(n, d) ==
    LET i == LastDot(d) IN
    IF i = 0
      THEN Node(Put(n.ch, d, Leaf))             \* cdst.Children[domain] = DomainSuffixTrie{}: purges what was below
      ELSE LET part == From(d, i + 1)
               rest == SubSeq(d, 1, i - 1)
           IN IF part \notin DOMAIN n.ch
                THEN Node(Put(n.ch, part, TrieInsert(EmptyTrie, rest)))   \* case !ok: new non-leaf child, go on
              ELSE IF n.ch[part].nil
                THEN n                                                    \* leaf half way: shorter suffix present, stop
              ELSE Node(Put(n.ch, part, TrieInsert(n.ch[part], rest)))

\* DomainSuffixTrie.Match (lookups in a nil map just miss)
RECURSIVE TrieMatch(_, _)
TrieMatch(n, d) ==
    LET i == LastDot(d) IN
    IF i = 0
      THEN d \in DOMAIN n.ch /\ n.ch[d].nil
      ELSE LET part == From(d, i + 1)
               rest == SubSeq(d, 1, i - 1)
           IN IF part \notin DOMAIN n.ch THEN FALSE
              ELSE IF n.ch[part].nil THEN TRUE
              ELSE TrieMatch(n.ch[part], rest)

\* Keys()/KeySlice(): the root ranges over its children, keys(suffix) below
RECURSIVE KeysAt(_, _)
KeysAt(c, suffix) == IF c.nil THEN {suffix}
                     ELSE UNION {KeysAt(c.ch[s], s \o "." \o suffix) : s \in DOMAIN c.ch}
TrieKeys(n) == UNION {KeysAt(n.ch[s], s) : s \in DOMAIN n.ch}
\* KeyCount(): "if dst.Children == nil return 1" also at the root
RECURSIVE KeyCount(_), KeyCountOver(_, _)
KeyCount(n) == IF n.nil THEN 1 ELSE KeyCountOver(n, DOMAIN n.ch)
KeyCountOver(n, S) == IF S = {} THEN 0
                      ELSE LET x == CHOOSE y \in S : TRUE IN KeyCount(n.ch[x]) + KeyCountOver(n, S \ {x})

RECURSIVE TrieFromSeq(_, _)
TrieFromSeq(n, q) == IF q = <<>> THEN n ELSE TrieFromSeq(TrieInsert(n, Head(q)), Tail(q))

\* The suffixes that survive insertion: those not covered by another stored suffix.
Minimal(S) == {s \in S : ~ \E u \in S : u # s /\ RefSuffix1(s, u)}

-----------------------------------------------------------------------------
(* The builder and DomainSet.Match *)
EmptyBuilder == [d |-> {}, t |-> EmptyTrie, k |-> <<>>, r |-> <<>>]
EmptyRef == [d |-> {}, s |-> {}, k |-> {}, r |-> {}]

\* DomainSet.Match over the matchers the loader's builder appends (any of them matching suffices;
\* which concrete matcher answers is tabulated by Sel* below and cannot change the answer)
Match(bb, d) ==
    \/ d \in bb.d
    \/ TrieMatch(bb.t, d)
    \/ \E i \in 1..Len(bb.k) : StrContains(d, bb.k[i])
    \/ \E i \in 1..Len(bb.r) : RefRegexp1(d, bb.r[i])
MatchSet(bb) == {p \in Probes : Match(bb, p)}
RefSet(rf) == {p \in Probes : RefMatch(rf, p)}
NRules(rf) == Cardinality(rf.d) + Cardinality(rf.s) + Cardinality(rf.k) + Cardinality(rf.r)

\* AppendTo of each MatcherBuilder: the matcher chosen for n rules held by builder kind bk
SelDomain(bk, n) ==
    IF n = 0 THEN "none"
    ELSE CASE bk = "DomainLinearMatcher" -> IF n > MaxLinearDomains THEN "DomainMapMatcher" ELSE "DomainLinearMatcher"
           [] bk = "DomainBinarySearchMatcher" -> "DomainBinarySearchMatcher"
           [] bk = "DomainMapMatcher" -> IF n <= MaxLinearDomains THEN "DomainLinearMatcher" ELSE "DomainMapMatcher"
SelSuffix(bk, n) ==
    IF n = 0 THEN "none"
    ELSE CASE bk = "SuffixLinearMatcher" -> IF n > MaxLinearSuffixes THEN "DomainSuffixTrie" ELSE "SuffixLinearMatcher"
           [] bk = "SuffixMapMatcher" -> IF n <= MaxLinearSuffixes THEN "SuffixLinearMatcher" ELSE "SuffixMapMatcher"
           [] bk = "DomainSuffixTrie" -> "DomainSuffixTrie"
DomainBuilders == {"DomainLinearMatcher", "DomainBinarySearchMatcher", "DomainMapMatcher"}
SuffixBuilders == {"SuffixLinearMatcher", "SuffixMapMatcher", "DomainSuffixTrie"}
SelTable == [d |-> [bk \in DomainBuilders |-> [n \in Sizes |-> SelDomain(bk, n)]],
             s |-> [bk \in SuffixBuilders |-> [n \in Sizes |-> SelSuffix(bk, n)]]]

-----------------------------------------------------------------------------
(* Text form.  bytestrings.NextNonEmptyLine, transcribed. *)
LF == "\n"
CR == "\r"
RECURSIVE NextNonEmptyLine(_)
NextNonEmptyLine(text) ==
    LET lf == IndexByte(text, LF) IN
    IF lf = 0 THEN <<text, "">>                               \* last line: returned as is (no CR stripping)
    ELSE LET line == SubSeq(text, 1, lf - 1)
             rest == From(text, lf + 1)
         IN IF lf = 1 THEN NextNonEmptyLine(rest)
            ELSE LET l2 == IF Ch(line, Len(line)) = CR THEN SubSeq(line, 1, Len(line) - 1) ELSE line
                 IN IF l2 = "" THEN NextNonEmptyLine(rest) ELSE <<l2, rest>>

HintPrefix == "# shadowsocks-go domain set capacity hint "
HintSuffix == "DSKR"
Digits == {"0", "1", "2", "3", "4", "5", "6", "7", "8", "9"}
IsNumber(s) == s # "" /\ \A i \in 1..Len(s) : Ch(s, i) \in Digits      \* the part of strconv.Atoi the model needs
\* ParseCapacityHint: found, and if found whether it is well formed (four numbers each followed by a space, then DSKR)
HintFound(line) == Len(line) > Len(HintPrefix) /\ HasPrefix(line, HintPrefix)
RECURSIVE HintRest(_, _)
HintRest(h, n) == IF n = 0 THEN h = HintSuffix
                  ELSE LET sp == IndexByte(h, " ") IN
                       sp # 0 /\ IsNumber(SubSeq(h, 1, sp - 1)) /\ HintRest(From(h, sp + 1), n - 1)
HintOK(line) == HintRest(From(line, Len(HintPrefix) + 1), 4)

\* The rule loop of BuilderFromText.  acc = [err, d, s (insertion sequence), k, r]
RECURSIVE ParseLines(_, _, _)
ParseLines(line, text, acc) ==
    LET next(a) == LET nl == NextNonEmptyLine(text) IN
                   IF nl[1] = "" THEN a ELSE ParseLines(nl[1], nl[2], a)
        p7 == SubSeq(line, 1, 7)
    IN IF Len(line) > 7 /\ p7 = "suffix:" THEN next([acc EXCEPT !.s = Append(@, From(line, 8))])
       ELSE IF Len(line) > 7 /\ p7 = "domain:" THEN next([acc EXCEPT !.d = @ \cup {From(line, 8)}])
       ELSE IF Len(line) > 7 /\ p7 = "regexp:" THEN next([acc EXCEPT !.r = Append(@, From(line, 8))])
       ELSE IF Len(line) > 7 /\ p7 = "keyword"
              THEN IF Len(line) <= 8 \/ Ch(line, 8) # ":" THEN [acc EXCEPT !.err = TRUE]
                   ELSE next([acc EXCEPT !.k = Append(@, From(line, 9))])
       ELSE IF Ch(line, 1) # "#" THEN [acc EXCEPT !.err = TRUE]
       ELSE next(acc)

\* BuilderFromText
FromText(text) ==
    LET acc0 == [err |-> FALSE, d |-> {}, s |-> <<>>, k |-> <<>>, r |-> <<>>]
        bad == [acc0 EXCEPT !.err = TRUE]
        l1 == NextNonEmptyLine(text)
    IN IF l1[1] = "" THEN bad                                   \* errEmptySet
       ELSE IF HintFound(l1[1])
         THEN IF ~HintOK(l1[1]) THEN bad
              ELSE LET l2 == NextNonEmptyLine(l1[2]) IN
                   IF l2[1] = "" THEN bad                       \* errEmptySet
                   ELSE ParseLines(l2[1], l2[2], acc0)
       ELSE ParseLines(l1[1], l1[2], acc0)
BuilderOf(acc) == [d |-> acc.d, t |-> TrieFromSeq(EmptyTrie, acc.s), k |-> acc.k, r |-> acc.r]
RefOf(acc) == [d |-> acc.d, s |-> Range(acc.s), k |-> Range(acc.k), r |-> Range(acc.r)]

\* What a text document means, read declaratively: split at LF, drop one trailing CR of every line that
\* was terminated by LF, drop empty lines, '#' lines are comments, the rest are rules.
RECURSIVE SplitLF(_)
SplitLF(text) == LET lf == IndexByte(text, LF) IN
                 IF lf = 0 THEN <<[l |-> text, term |-> FALSE]>>
                 ELSE <<[l |-> SubSeq(text, 1, lf - 1), term |-> TRUE]>> \o SplitLF(From(text, lf + 1))
LinesOf(text) ==
    LET raw == SplitLF(text)
        strip(x) == IF x.term /\ HasSuffix(x.l, CR) THEN SubSeq(x.l, 1, Len(x.l) - 1) ELSE x.l
    IN SelectSeq([i \in 1..Len(raw) |-> strip(raw[i])], LAMBDA l : l # "")
Body(l, pre) == From(l, Len(pre) + 1)
IsRule(l, pre) == HasPrefix(l, pre) /\ Len(l) > Len(pre)
IsComment(l) == HasPrefix(l, "#")
TextWellFormed(text) ==
    LET L == LinesOf(text) IN
    /\ Len(L) >= 1                                                        \* errEmptySet
    /\ HintFound(L[1]) => HintOK(L[1]) /\ Len(L) >= 2                     \* bad hint; hint and nothing else
    /\ \A i \in 1..Len(L) : \/ IsComment(L[i])
                            \/ \E pre \in {"domain:", "suffix:", "keyword:", "regexp:"} : IsRule(L[i], pre)
TextRef(text) ==
    LET L == LinesOf(text)
        of(pre) == {Body(L[i], pre) : i \in {j \in 1..Len(L) : IsRule(L[j], pre)}}
    IN [d |-> of("domain:"), s |-> of("suffix:"), k |-> of("keyword:"), r |-> of("regexp:")]

\* Builder.WriteText: hint line, then domain, suffix, keyword, regexp rules; maps and the trie are
\* ranged over in an unspecified order (ord = one order per call; rev = the opposite one)
RECURSIVE Cat(_, _)
Cat(pre, q) == IF q = <<>> THEN "" ELSE pre \o Head(q) \o LF \o Cat(pre, Tail(q))
WriteText(bb, rev) ==
    LET ord(S) == IF rev THEN Reverse(SetToSeq(S)) ELSE SetToSeq(S)
        nd == Cardinality(bb.d)   ns == KeyCount(bb.t)   nk == Len(bb.k)   nr == Len(bb.r)
    IN HintPrefix \o ToString(nd) \o " " \o ToString(ns) \o " " \o ToString(nk) \o " " \o ToString(nr) \o " " \o HintSuffix \o LF
       \o Cat("domain:", ord(bb.d)) \o Cat("suffix:", ord(TrieKeys(bb.t))) \o Cat("keyword:", bb.k) \o Cat("regexp:", bb.r)

\* gob: BuilderGobFromBuilder, Encode, Decode, BuilderGob.Builder.  encoding/gob omits nil maps only: an
\* empty non-nil map (a builder without domain rules, the root of an empty trie) is transmitted and comes
\* back as an empty non-nil map, so the decoded builder has the same shape.  (The replay driver reports the
\* nil-ness it observes after every step; a first version of this model that turned empty maps into nil
\* maps was corrected by those reports.)  The builder members are already the gob types (DomainMapMatcher,
\* DomainSuffixTrie, KeywordLinearMatcher, RegexpMatcherBuilder); other builder kinds are converted by
\* *FromSeq(Rules()), which is the re-insertion TrieRebuilds is about.
GobRoundTripOf(bb) == bb

-----------------------------------------------------------------------------
Init ==
    /\ b = EmptyBuilder /\ ref = EmptyRef /\ nclear = 0
    /\ act = [n |-> "Init"]

Room(rf, kind, x) == x \in rf[kind] \/ NRules(rf) < MaxRules

\* MatcherBuilder.Insert on the builder's four members
InsertDomain(x) ==
    /\ Room(ref, "d", x)
    /\ b' = [b EXCEPT !.d = @ \cup {x}]
    /\ ref' = [ref EXCEPT !.d = @ \cup {x}]
    /\ UNCHANGED nclear
    /\ act' = [n |-> "Insert", kind |-> "domain", rule |-> x]
InsertSuffix(x) ==
    /\ Room(ref, "s", x)
    /\ b' = [b EXCEPT !.t = TrieInsert(@, x)]
    /\ ref' = [ref EXCEPT !.s = @ \cup {x}]
    /\ UNCHANGED nclear
    /\ act' = [n |-> "Insert", kind |-> "suffix", rule |-> x]
InsertKeyword(x) ==
    /\ Room(ref, "k", x) /\ x \notin ref.k          \* (a repeated keyword only lengthens the slice)
    /\ b' = [b EXCEPT !.k = Append(@, x)]
    /\ ref' = [ref EXCEPT !.k = @ \cup {x}]
    /\ UNCHANGED nclear
    /\ act' = [n |-> "Insert", kind |-> "keyword", rule |-> x]
InsertRegexp(x) ==
    /\ Room(ref, "r", x) /\ x \notin ref.r
    /\ b' = [b EXCEPT !.r = Append(@, x)]
    /\ ref' = [ref EXCEPT !.r = @ \cup {x}]
    /\ UNCHANGED nclear
    /\ act' = [n |-> "Insert", kind |-> "regexp", rule |-> x]

\* MatcherBuilder.Clear (the converter's -skipRegexp uses the regexp one)
Clear(kind) ==
    /\ nclear < MaxClear /\ nclear' = nclear + 1
    /\ CASE kind = "domain" -> b' = [b EXCEPT !.d = {}] /\ ref' = [ref EXCEPT !.d = {}]
         [] kind = "suffix" -> b' = [b EXCEPT !.t = EmptyTrie] /\ ref' = [ref EXCEPT !.s = {}]
         [] kind = "keyword" -> b' = [b EXCEPT !.k = <<>>] /\ ref' = [ref EXCEPT !.k = {}]
         [] kind = "regexp" -> b' = [b EXCEPT !.r = <<>>] /\ ref' = [ref EXCEPT !.r = {}]
    /\ act' = [n |-> "Clear", kind |-> kind]

\* Config.DomainSet() of a text file / BuilderFromText; only offered to the empty builder
LoadText(text) ==
    /\ b = EmptyBuilder /\ ref = EmptyRef /\ nclear = 0
    /\ LET acc == FromText(text) IN
       IF acc.err
         THEN /\ UNCHANGED <<b, ref, nclear>>
              /\ act' = [n |-> "LoadText", text |-> text, err |-> TRUE]
         ELSE /\ b' = BuilderOf(acc) /\ ref' = RefOf(acc) /\ UNCHANGED nclear
              /\ act' = [n |-> "LoadText", text |-> text, err |-> FALSE]

\* WriteGob then BuilderFromGob (also: converter -inText -outGob, then loading the gob file)
GobRoundTrip ==
    /\ "gob" \in Conv
    /\ b' = GobRoundTripOf(b) /\ UNCHANGED <<ref, nclear>>
    /\ act' = [n |-> "GobRoundTrip"]

\* WriteText then BuilderFromText (also: converter -inGob -outText, then loading the text file).
\* A builder without rules writes only the hint line, which BuilderFromText refuses (errEmptySet).
TextRoundTrip(rev) ==
    /\ "text" \in Conv
    /\ LET acc == FromText(WriteText(b, rev)) IN
       IF acc.err
         THEN /\ UNCHANGED <<b, ref, nclear>>
              /\ act' = [n |-> "TextRoundTrip", rev |-> rev, err |-> TRUE]
         ELSE /\ b' = BuilderOf(acc) /\ UNCHANGED <<ref, nclear>>
              /\ act' = [n |-> "TextRoundTrip", rev |-> rev, err |-> FALSE]

Next ==
    \/ \E x \in DomainRules : InsertDomain(x)
    \/ \E x \in SuffixRules : InsertSuffix(x)
    \/ \E x \in KeywordRules : InsertKeyword(x)
    \/ \E x \in RegexpRules : InsertRegexp(x)
    \/ \E kind \in {"domain", "suffix", "keyword", "regexp"} : Clear(kind)
    \/ \E text \in Texts : LoadText(text)
    \/ GobRoundTrip
    \/ \E rev \in BOOLEAN : TextRoundTrip(rev)

Spec == Init /\ [][Next]_vars

-----------------------------------------------------------------------------
TypeOK ==
    /\ ~b.t.nil                                 \* the root always has a (possibly empty) map: Insert never panics
    /\ DOMAIN b = {"d", "t", "k", "r"}
    /\ nclear \in 0..MaxClear

\* C10, domain part: the builder answers every probe as the rules it was given mean.
MatchIsMeaning == MatchSet(b) = RefSet(ref)

\* Every suffix matcher answers alike: the trie (whatever the insertion order was: every order is a
\* path to this state), the linear scan and the single-map scan over the same rules.
SuffixMatchersAgree ==
    LET q == SetToSeq(ref.s)
        T == {p \in Probes : TrieMatch(b.t, p)}
    IN /\ T = {p \in Probes : \E x \in ref.s : RefSuffix1(p, x)}
       /\ T = {p \in Probes : SuffixLinearMatch(q, p)}
       /\ T = {p \in Probes : SuffixMapMatch(ref.s, p)}

\* The trie is a function of the rule set, not of the insertion order: it stores exactly the
\* suffixes not covered by a shorter one.
TrieCanonical ==
    /\ TrieKeys(b.t) = Minimal(ref.s)
    /\ KeyCount(b.t) = Cardinality(TrieKeys(b.t))

\* Rules() fed back through Insert (what both WriteText->BuilderFromText and
\* DomainSuffixTrieFromSeq do) rebuilds the same trie, in either order.
TrieRebuilds ==
    /\ TrieFromSeq(EmptyTrie, SetToSeq(TrieKeys(b.t))) = b.t
    /\ TrieFromSeq(EmptyTrie, Reverse(SetToSeq(TrieKeys(b.t)))) = b.t

\* The parser reads a document as the declarative reading does.
ParserIsMeaning ==
    act.n = "Init" =>       \* a statement about FromText alone: evaluated once
    \A text \in Texts :
        LET acc == FromText(text) IN
        /\ acc.err = ~TextWellFormed(text)
        /\ ~acc.err => RefOf(acc) = TextRef(text)

\* C10, conversions: a round trip through gob or text never changes an answer.  Stated on the ghost:
\* conversions keep the meaning the builder is supposed to have, and MatchIsMeaning holds before and
\* after, hence MatchSet(b') = MatchSet(b).  (When the text form is refused the builder is not replaced.)
\* (TLC evaluates primed expressions without caching, which makes recursive operators on b' very slow;
\* this is why the action properties only mention ref.)
ConversionsPreserve ==
    [][act'.n \in {"GobRoundTrip", "TextRoundTrip"} => ref' = ref]_vars

\* Inserting never removes a match; clearing a kind never adds one (same argument: RefSet is monotone in ref).
InsertMonotone ==
    [][/\ act'.n = "Insert" => \A kk \in {"d", "s", "k", "r"} : ref[kk] \subseteq ref'[kk]
       /\ act'.n = "Clear" => \A kk \in {"d", "s", "k", "r"} : ref'[kk] \subseteq ref[kk]]_vars

\* A text round trip fails only for the builder without rules, or when a rule has no text form (the
\* empty rule, reachable through Insert and gob only: "suffix:" alone is an invalid line).
Expressible(x) == x # "" /\ ~StrContains(x, LF) /\ ~HasSuffix(x, CR)
TextRefusedOnlyWhenEmpty ==
    [][act'.n = "TextRoundTrip" /\ act'.err =>
         NRules(ref) = 0 \/ \E x \in ref.d \cup ref.s \cup ref.k \cup ref.r : ~Expressible(x)]_vars
=============================================================================
