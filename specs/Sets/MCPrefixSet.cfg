CONSTANTS
  W = ${W}
  Fams = ${Fams}
  Lines <- MCLines
  MaxPrefixes = ${MaxPrefixes}
INIT InitE
NEXT Next
VIEW View
${EMIT}
INVARIANTS TypeOK ContainsIsMeaning RoundTripIsIdentity SizeIsDistinctPrefixes ${CASE}
PROPERTIES RoundTripPreserves
CHECK_DEADLOCK FALSE
