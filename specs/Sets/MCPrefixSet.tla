---------------------------- MODULE MCPrefixSet ----------------------------
EXTENDS PrefixSet, Sequences, Json
MCLines == ${Lines}
View == sv
Obs == [tbl |-> tbl, has |-> {q \in [fam : Fams, x : Addrs] : Contains(tbl, q.fam, q.x)}]
Emit == PrintT("EDGE " \o ToJson([f |-> sv, a |-> act', t |-> sv']))
StateOut == PrintT("STATE " \o ToJson([s |-> sv, o |-> Obs]))
EmitInit == PrintT("INIT " \o ToJson([t |-> sv]))
InitE == Init /\ EmitInit
\* one line per distinct state: the lines, the stored prefixes and the addresses contained
CaseOut == PrintT("CASE " \o ToJson([src |-> src, tbl |-> tbl,
                                     has |-> {q \in [fam : Fams, x : Addrs] : Contains(tbl, q.fam, q.x)}]))
NoCase == TRUE
=============================================================================
