------------------------------- MODULE PortSet -------------------------------
(* Port sets of shadowsocks-go: the bit set, the range list extracted from   *)
(* it, the single-port form, and the range-string parser.                    *)
(*                                                                          *)
(* Code:  portset/portset.go   PortSet{blocks [65536/blockBits]uint},        *)
(*                             Add, AddRange/addRange, Parse, Contains,      *)
(*                             Count, First, RangeCount, RangeSet            *)
(*        portset/range.go     PortRangeSet.Contains (binary search)         *)
(*        router/route.go      the loader's choice: Count()==1 -> a single    *)
(*                             port compared for equality; RangeCount()<=16  *)
(*                             -> PortRangeSet; else the bit set             *)
(*                                                                          *)
(* A block is the set of its 1-bit positions (0 = least significant).  The   *)
(* word operations the code uses (shift right, complement, trailing zeros)   *)
(* are defined on that representation for a word of BlockBits bits, and the  *)
(* scan loops are transcribed iteration by iteration.                        *)
EXTENDS Integers, Sequences, FiniteSets, TLC

CONSTANTS
    BlockBits,      \* code: blockBits = bits.UintSize (64)
    NBlocks,        \* code: len(PortSet.blocks) = 65536 / blockBits
    MaxRanges,      \* router: a set with at most this many ranges is kept as a range list (16)
    AddPorts,       \* ports offered to Add
    AddRanges,      \* <<from, to>> pairs offered to AddRange
    Strings,        \* range strings offered to Parse
    MaxOps,         \* bound on the number of mutating calls (0 = unbounded)
    Concrete        \* TRUE: blocks and the port-by-port ghost set are maintained (small words);
                    \* FALSE: only the interval ghost is (the code's word size, where the expected
                    \* observations are computed from intervals)

VARIABLES
    blocks,         \* [0..NBlocks-1 -> SUBSET (0..BlockBits-1)]
    set,            \* ghost: the set of ports the calls so far mean
    ivs,            \* ghost: the same as a set of intervals <<from, to>> (maintained when ~Concrete)
    nops,
    act

sv == <<blocks, set, ivs, nops>>
vars == <<sv, act>>

B == BlockBits
MaxPort == B * NBlocks - 1          \* 65535
Word == 0..(B - 1)
Ports == 1..MaxPort

Min(S) == CHOOSE x \in S : \A y \in S : x <= y
Max(S) == CHOOSE x \in S : \A y \in S : x >= y

-----------------------------------------------------------------------------
(* word operations *)
TZ(S) == IF S = {} THEN B ELSE Min(S)                   \* bits.TrailingZeros(x); TrailingZeros(0) = UintSize
Shr(S, k) == {x - k : x \in {y \in S : y >= k}}         \* x >> k
Not(S) == Word \ S                                      \* ^x
MaskFrom(k) == {x \in Word : x >= k}                    \* ^uint(0) << k
MaskBelow(k) == {x \in Word : x < k}                    \* ^(^uint(0) << k)

BlockIndex(p) == p \div B
BitIndex(p) == p % B

\* PortSet.Contains (panics for port 0)
Contains(bl, p) == BitIndex(p) \in bl[BlockIndex(p)]
\* PortSet.add
AddBit(bl, p) == [bl EXCEPT ![BlockIndex(p)] = @ \cup {BitIndex(p)}]

\* PortSet.addRange(fromInclusive, toExclusive)
AddRangeTo(bl, from, toEx) ==
    LET fbi == BlockIndex(from)   fbit == BitIndex(from)
        tbi == BlockIndex(toEx)   tbit == BitIndex(toEx)
    IN IF fbi = tbi
         THEN [bl EXCEPT ![fbi] = @ \cup (MaskFrom(fbit) \cap MaskBelow(tbit))]
         ELSE [i \in DOMAIN bl |->
                 IF i = fbi THEN bl[i] \cup MaskFrom(fbit)
                 ELSE IF i > fbi /\ i < tbi THEN Word
                 ELSE IF i = tbi THEN bl[i] \cup MaskBelow(tbit)     \* only "if toBlockIndex < len(s.blocks)"
                 ELSE bl[i]]

\* PortSet.Count / First
Members(bl) == {p \in 0..MaxPort : Contains(bl, p)}
RECURSIVE CountFrom(_, _)
CountFrom(bl, i) == IF i = NBlocks THEN 0 ELSE Cardinality(bl[i]) + CountFrom(bl, i + 1)
Count(bl) == CountFrom(bl, 0)
RECURSIVE FirstFrom(_, _)
FirstFrom(bl, i) == IF i = NBlocks THEN 0
                    ELSE IF bl[i] = {} THEN FirstFrom(bl, i + 1)
                    ELSE i * B + TZ(bl[i])
First(bl) == FirstFrom(bl, 0)

\* The scan shared by RangeCount and RangeSet.  st = [in, from, ranges, count];
\* one unfolding of ScanBlock = one iteration of the inner "for { ... }".
RECURSIVE ScanBlock(_, _, _, _)
ScanBlock(i, blk, rem, st) ==
    LET tz == TZ(blk)
        st1 == IF tz # 0 /\ st.in
                 THEN [st EXCEPT !.in = FALSE,
                                 !.ranges = Append(@, [from |-> st.from, to |-> (i + 1) * B - rem - 1])]
                 ELSE st
    IN IF tz # 0 /\ tz >= rem THEN st1                                  \* break: rest of the block is zero
       ELSE LET blk1 == IF tz # 0 THEN Shr(blk, tz) ELSE blk
                rem1 == IF tz # 0 THEN rem - tz ELSE rem
                ones == TZ(Not(blk1))                                   \* trailing ones
                st2 == IF ~st1.in THEN [st1 EXCEPT !.in = TRUE, !.from = (i + 1) * B - rem1, !.count = @ + 1]
                                  ELSE st1
            IN IF ones = rem1 THEN st2                                  \* break: ones up to the end of the block
               ELSE ScanBlock(i, Shr(blk1, ones), rem1 - ones, st2)
RECURSIVE ScanFrom(_, _, _)
ScanFrom(bl, i, st) == IF i = NBlocks THEN st ELSE ScanFrom(bl, i + 1, ScanBlock(i, bl[i], B, st))
Scan(bl) == ScanFrom(bl, 0, [in |-> FALSE, from |-> 0, ranges |-> <<>>, count |-> 0])
RangeCount(bl) == Scan(bl).count
RangeSet(bl) == LET st == Scan(bl) IN
                IF st.in THEN Append(st.ranges, [from |-> st.from, to |-> MaxPort]) ELSE st.ranges   \* "To: 65535"

\* PortRangeSet.Contains: binary search (indices 0-based as in the code)
RECURSIVE Search(_, _, _, _)
Search(r, port, i, j) ==
    IF i >= j THEN FALSE
    ELSE LET h == (i + j) \div 2 IN
         IF port > r[h + 1].to THEN Search(r, port, h + 1, j)
         ELSE IF port < r[h + 1].from THEN Search(r, port, i, h)
         ELSE TRUE
RangeContains(r, port) == Search(r, port, 0, Len(r))

-----------------------------------------------------------------------------
(* Parse: the string level *)
Ch(s, i) == SubSeq(s, i, i)
From(s, i) == SubSeq(s, i, Len(s))
RECURSIVE IndexFrom(_, _, _)
IndexFrom(s, c, i) == IF i > Len(s) THEN 0 ELSE IF Ch(s, i) = c THEN i ELSE IndexFrom(s, c, i + 1)
IndexByte(s, c) == IndexFrom(s, c, 1)
DigitVal == [c \in {"0", "1", "2", "3", "4", "5", "6", "7", "8", "9"} |->
               CASE c = "0" -> 0 [] c = "1" -> 1 [] c = "2" -> 2 [] c = "3" -> 3 [] c = "4" -> 4
                 [] c = "5" -> 5 [] c = "6" -> 6 [] c = "7" -> 7 [] c = "8" -> 8 [] c = "9" -> 9]
\* strconv.ParseUint(s, 10, 16): [ok, v]; not ok for "", a non-digit, or a value above the port range
RECURSIVE ParseNum(_, _, _)
ParseNum(s, i, v) == IF i > Len(s) THEN [ok |-> TRUE, v |-> v]
                     ELSE IF Ch(s, i) \notin DOMAIN DigitVal THEN [ok |-> FALSE, v |-> 0]
                     ELSE LET w == v * 10 + DigitVal[Ch(s, i)] IN
                          IF w > MaxPort THEN [ok |-> FALSE, v |-> 0] ELSE ParseNum(s, i + 1, w)
ParseUint(s) == IF s = "" THEN [ok |-> FALSE, v |-> 0] ELSE ParseNum(s, 1, 0)

\* PortSet.Parse: items are applied as they are read; an error leaves the earlier items applied
RECURSIVE ParseInto(_, _)
ParseInto(bl, str) ==
    IF str = "" THEN [bl |-> bl, err |-> FALSE]
    ELSE LET comma == IndexByte(str, ",")
             item == IF comma = 0 THEN str ELSE SubSeq(str, 1, comma - 1)
             rest == IF comma = 0 THEN "" ELSE From(str, comma + 1)
             dash == IndexByte(item, "-")
         IN IF dash = 0
              THEN LET p == ParseUint(item) IN
                   IF ~p.ok \/ p.v = 0 THEN [bl |-> bl, err |-> TRUE]
                   ELSE ParseInto(AddBit(bl, p.v), rest)
              ELSE LET f == ParseUint(SubSeq(item, 1, dash - 1))
                       t == ParseUint(From(item, dash + 1))
                   IN IF ~f.ok \/ f.v = 0 \/ ~t.ok \/ f.v >= t.v THEN [bl |-> bl, err |-> TRUE]
                      ELSE ParseInto(AddRangeTo(bl, f.v, t.v + 1), rest)

\* What a range string means: the union of its comma separated items, "p" or "a-b" with 0 < a < b.
\* (A string ending in a comma is read as if the comma was not there; any other empty item is an error.)
RECURSIVE SplitBy(_, _)
SplitBy(s, c) == LET k == IndexByte(s, c) IN
                 IF k = 0 THEN <<s>> ELSE <<SubSeq(s, 1, k - 1)>> \o SplitBy(From(s, k + 1), c)
ItemsOf(str) == LET q == SplitBy(str, ",") IN
                IF str = "" THEN <<>> ELSE IF q[Len(q)] = "" THEN SubSeq(q, 1, Len(q) - 1) ELSE q
ItemOK(it) == LET q == SplitBy(it, "-") IN
              \/ Len(q) = 1 /\ ParseUint(q[1]).ok /\ ParseUint(q[1]).v > 0
              \/ Len(q) = 2 /\ ParseUint(q[1]).ok /\ ParseUint(q[2]).ok /\ 0 < ParseUint(q[1]).v
                 /\ ParseUint(q[1]).v < ParseUint(q[2]).v
ItemSet(it) == LET q == SplitBy(it, "-") IN
               IF Len(q) = 1 THEN {ParseUint(q[1]).v} ELSE ParseUint(q[1]).v..ParseUint(q[2]).v
StringOK(str) == \A i \in 1..Len(ItemsOf(str)) : ItemOK(ItemsOf(str)[i])
\* the items before the first bad one (what an erroneous Parse leaves behind)
RECURSIVE GoodPrefix(_)
GoodPrefix(q) == IF q = <<>> \/ ~ItemOK(Head(q)) THEN <<>> ELSE <<Head(q)>> \o GoodPrefix(Tail(q))
StringSet(str) == LET q == GoodPrefix(ItemsOf(str)) IN UNION {ItemSet(q[i]) : i \in 1..Len(q)}

\* The maximal runs of a set of ports, in increasing order
Runs(S) ==
    LET starts == {p \in S : p - 1 \notin S}
        endOf(p) == Min({q \in S : q >= p /\ q + 1 \notin S})
        RECURSIVE Build(_)
        Build(T) == IF T = {} THEN <<>> ELSE LET p == Min(T) IN <<[from |-> p, to |-> endOf(p)]>> \o Build(T \ {p})
    IN Build(starts)

\* The same runs computed from the items' intervals alone (no port-by-port enumeration; used to
\* tabulate expectations for the full 16-bit port range).  A run starts at an interval start that
\* is not covered from the left and ends at the first interval end not covered from the right.
IvOf(it) == LET q == SplitBy(it, "-") IN
            IF Len(q) = 1 THEN <<ParseUint(q[1]).v, ParseUint(q[1]).v>> ELSE <<ParseUint(q[1]).v, ParseUint(q[2]).v>>
IvsOf(str) == LET q == GoodPrefix(ItemsOf(str)) IN {IvOf(q[i]) : i \in 1..Len(q)}
IvIn(I, p) == \E iv \in I : iv[1] <= p /\ p <= iv[2]
IvRuns(I) ==
    LET starts == {iv[1] : iv \in {jv \in I : ~IvIn(I, jv[1] - 1)}}
        endOf(p) == Min({iv[2] : iv \in {jv \in I : jv[2] >= p /\ ~IvIn(I, jv[2] + 1)}})
        RECURSIVE Build(_)
        Build(T) == IF T = {} THEN <<>> ELSE LET p == Min(T) IN <<[from |-> p, to |-> endOf(p)]>> \o Build(T \ {p})
    IN Build(starts)
RECURSIVE SumRuns(_)
SumRuns(r) == IF r = <<>> THEN 0 ELSE (Head(r).to - Head(r).from + 1) + SumRuns(Tail(r))
IvForm(r) == IF SumRuns(r) = 1 THEN "single" ELSE IF Len(r) <= MaxRanges THEN "ranges" ELSE "bits"

\* router/route.go: the representation the loader keeps for a non-empty set
Form(S) == IF Cardinality(S) = 1 THEN "single"
           ELSE IF Len(Runs(S)) <= MaxRanges THEN "ranges" ELSE "bits"

-----------------------------------------------------------------------------
Init ==
    /\ blocks = [i \in 0..(NBlocks - 1) |-> {}]
    /\ set = {} /\ ivs = {} /\ nops = 0
    /\ act = [n |-> "Init"]

\* MaxOps = 0: unbounded and not counted (the exhaustive configuration: the state is the set)
Step == \/ MaxOps = 0 /\ nops' = nops
        \/ MaxOps > 0 /\ nops < MaxOps /\ nops' = nops + 1

\* PortSet.Add(port)  (port 0 panics: not offered)
Add(p) ==
    /\ Step
    /\ IF Concrete THEN blocks' = AddBit(blocks, p) /\ set' = set \cup {p} ELSE UNCHANGED <<blocks, set>>
    /\ ivs' = IF Concrete THEN ivs ELSE ivs \cup {<<p, p>>}
    /\ act' = [n |-> "Add", p |-> p]

\* PortSet.AddRange(from, to)  (from = 0 or from >= to panic: not offered)
AddRange(f, t) ==
    /\ Step
    /\ IF Concrete THEN blocks' = AddRangeTo(blocks, f, t + 1) /\ set' = set \cup (f..t) ELSE UNCHANGED <<blocks, set>>
    /\ ivs' = IF Concrete THEN ivs ELSE ivs \cup {<<f, t>>}
    /\ act' = [n |-> "AddRange", from |-> f, to |-> t]

\* PortSet.Parse(string)
Parse(str) ==
    /\ Step
    /\ IF Concrete
         THEN LET r == ParseInto(blocks, str) IN
              /\ blocks' = r.bl /\ set' = set \cup StringSet(str)
              /\ act' = [n |-> "Parse", s |-> str, err |-> r.err]
         ELSE /\ UNCHANGED <<blocks, set>>
              /\ act' = [n |-> "Parse", s |-> str, err |-> ~StringOK(str)]
    /\ ivs' = IF Concrete THEN ivs ELSE ivs \cup IvsOf(str)

Next ==
    \/ \E p \in AddPorts : Add(p)
    \/ \E r \in AddRanges : AddRange(r[1], r[2])
    \/ \E s \in Strings : Parse(s)

Spec == Init /\ [][Next]_vars

-----------------------------------------------------------------------------
TypeOK == /\ Concrete => blocks \in [0..(NBlocks - 1) -> SUBSET Word] /\ set \subseteq Ports
          /\ \A iv \in ivs : 0 < iv[1] /\ iv[1] <= iv[2] /\ iv[2] <= MaxPort

\* C10, port part: the bit set, the range list and the single-port form answer alike, and as the
\* calls mean.
BitsAreTheSet == Members(blocks) = set                      \* in particular port 0 is never a member
RangesAreTheRuns == RangeSet(blocks) = Runs(set)
RangeCountIsLen == RangeCount(blocks) = Len(RangeSet(blocks))
RangeListAgrees == LET r == RangeSet(blocks) IN \A p \in 0..MaxPort : RangeContains(r, p) = (p \in set)
CountAndFirst == /\ Count(blocks) = Cardinality(set)
                 /\ First(blocks) = IF set = {} THEN 0 ELSE Min(set)
SinglePortAgrees == Count(blocks) = 1 => \A p \in Ports : (p = First(blocks)) = (p \in set)
\* the range list is sorted, disjoint and non-adjacent (what the binary search relies on)
RangesSorted == LET r == RangeSet(blocks) IN
                /\ \A i \in 1..Len(r) : 0 < r[i].from /\ r[i].from <= r[i].to
                /\ \A i \in 1..(Len(r) - 1) : r[i].to + 1 < r[i + 1].from

\* Parse reports an error exactly for a malformed string, and a well-formed string adds what it means
ParseIsMeaning ==
    [][act'.n = "Parse" => act'.err = ~StringOK(act'.s)]_vars
\* the interval computation used for the full-range tables is the run computation
IvRunsAreRuns ==
    act.n = "Init" /\ Concrete =>      \* a statement about IvRuns alone: evaluated once
        LET All == {<<p, p>> : p \in AddPorts} \cup AddRanges IN
        /\ \A s \in Strings : IvRuns(IvsOf(s)) = Runs(StringSet(s))
        /\ \A i1 \in All, i2 \in All, i3 \in {i \in All : i[2] - i[1] <= 1} :
               IvRuns({i1, i2, i3}) = Runs((i1[1]..i1[2]) \cup (i2[1]..i2[2]) \cup (i3[1]..i3[2]))
\* nothing is ever removed (with BitsAreTheSet: the bit set only grows)
Monotone == [][set \subseteq set' /\ ivs \subseteq ivs']_vars
=============================================================================
