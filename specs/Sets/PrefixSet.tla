------------------------------ MODULE PrefixSet ------------------------------
(* Prefix sets of shadowsocks-go: text -> bart.Lite -> text.                 *)
(*                                                                          *)
(* Code:  prefixset/prefixset.go  PrefixSetFromText (NonEmptyLines, '#'      *)
(*                                comments, netip.ParsePrefix, Lite.Insert), *)
(*                                PrefixSetToText / PrefixSetWriteText       *)
(*                                (Lite.All), Config.LoadPrefixSet           *)
(*        router/route.go         Source/DestIPCriterion: Lite.Contains      *)
(*                                                                          *)
(* Addresses are W-bit numbers per family (W stands for 32 and 128: the      *)
(* driver stretches every model bit over a run of real bits, so that the     *)
(* model lengths 0..W land on real lengths such as 0,1,8,31,32 / 0,64,127,   *)
(* 128).  A line of the text form is [fam, a, len] and may have host bits    *)
(* set ("10.1.2.3/8" parses); the table stores masked prefixes.              *)
EXTENDS Integers, FiniteSets, TLC

CONSTANTS
    W,              \* address width in the model
    Fams,           \* address families, e.g. {"4", "6"}
    Lines,          \* lines offered to Insert: [fam, a, len]
    MaxPrefixes     \* bound on the number of distinct lines inserted

VARIABLES
    tbl,            \* bart.Lite: set of masked prefixes [fam, a, len]
    src,            \* ghost: the lines inserted so far
    act

sv == <<tbl, src>>
vars == <<sv, act>>

RECURSIVE Pow2(_)
Pow2(n) == IF n = 0 THEN 1 ELSE 2 * Pow2(n - 1)
Addrs == 0..(Pow2(W) - 1)
Mask(a, len) == (a \div Pow2(W - len)) * Pow2(W - len)          \* netip.Prefix.Masked
Canon(l) == [fam |-> l.fam, a |-> Mask(l.a, l.len), len |-> l.len]

\* what a line means: the addresses of its family that agree with it on the first len bits
LineHas(l, fam, x) == fam = l.fam /\ Mask(x, l.len) = Mask(l.a, l.len)
\* Lite.Contains: some stored prefix covers the address
Contains(t, fam, x) == \E p \in t : p.fam = fam /\ Mask(x, p.len) = p.a

\* PrefixSetToText: one line per stored prefix (Lite.All, order unspecified);
\* PrefixSetFromText of that: parse and insert every line
ToText(t) == t
FromText(L) == {Canon(l) : l \in L}

Init == tbl = {} /\ src = {} /\ act = [n |-> "Init"]

\* netip.ParsePrefix(line) then Lite.Insert(prefix)
Insert(l) ==
    /\ l \in src \/ Cardinality(src) < MaxPrefixes
    /\ tbl' = tbl \cup {Canon(l)}
    /\ src' = src \cup {l}
    /\ act' = [n |-> "Insert", line |-> l]

\* PrefixSetFromText(PrefixSetToText(s))
RoundTrip ==
    /\ tbl' = FromText(ToText(tbl)) /\ UNCHANGED src
    /\ act' = [n |-> "RoundTrip"]

Next == (\E l \in Lines : Insert(l)) \/ RoundTrip
Spec == Init /\ [][Next]_vars

-----------------------------------------------------------------------------
TypeOK == /\ \A p \in tbl : p.fam \in Fams /\ p.len \in 0..W /\ p.a \in Addrs /\ Mask(p.a, p.len) = p.a
          /\ src \subseteq Lines
\* C10, prefix part
ContainsIsMeaning == \A f \in Fams, x \in Addrs : Contains(tbl, f, x) = (\E l \in src : LineHas(l, f, x))
RoundTripIsIdentity == FromText(ToText(tbl)) = tbl
SizeIsDistinctPrefixes == Cardinality(tbl) = Cardinality({Canon(l) : l \in src})
RoundTripPreserves == [][act'.n = "RoundTrip" => \A f \in Fams, x \in Addrs : Contains(tbl', f, x) = Contains(tbl, f, x)]_vars
=============================================================================
