----------------------------- MODULE MCPortSet -----------------------------
(* Model-checking shell of PortSet.  Two uses:                               *)
(*  - small words (BlockBits 4, 3 blocks): every set of ports is reached by  *)
(*    Add/AddRange/Parse and the invariants compare the transcribed scans    *)
(*    with the set semantics;                                                *)
(*  - the code's word size: CASE lines (range string, error, expected runs   *)
(*    and form) for the driver, which asks the real bit set, range list and  *)
(*    single-port form about all 65535 ports; and simulated behaviours       *)
(*    (EDGE lines) whose expected ranges come from the transcribed scan.     *)
EXTENDS PortSet, Json

Num(N) == {ToString(a) : a \in N}
Rng(N) == {ToString(q[1]) \o "-" \o ToString(q[2]) : q \in {x \in N \X N : x[1] < x[2]}}
Items(N) == Num(N) \cup Rng(N)
Lists2(I, J) == {x \o "," \o y : x \in I, y \in J}
\* n items of width w, the k-th starting at start + k*step
RECURSIVE Stripe(_, _, _, _)
Stripe(start, step, w, n) ==
    LET it == IF w = 1 THEN ToString(start) ELSE ToString(start) \o "-" \o ToString(start + w - 1) IN
    IF n = 1 THEN it ELSE it \o "," \o Stripe(start + step, step, w, n - 1)

MCAddPorts == ${AddPorts}
MCAddRanges == ${AddRanges}
MCStrings == ${Strings}
MCCaseStrings == ${CaseStrings}

View == sv
\* what the driver compares: with Concrete the transcribed scans, else the interval computation
\* (equal by RangesAreTheRuns / IvRunsAreRuns / CountAndFirst on the small words)
Obs == IF Concrete
         THEN [ranges |-> RangeSet(blocks), count |-> Count(blocks), first |-> First(blocks), rc |-> RangeCount(blocks)]
         ELSE LET r == IvRuns(ivs) IN
              [ranges |-> r, count |-> SumRuns(r), first |-> IF r = <<>> THEN 0 ELSE r[1].from, rc |-> Len(r)]
\* EDGE lines carry states and action only, STATE lines (an invariant: once per distinct state) the
\* observation: primed expressions are evaluated without caching and would dominate the run
SKey == IF Concrete THEN <<set, nops>> ELSE <<ivs, nops>>
Emit == PrintT("EDGE " \o ToJson([f |-> SKey, a |-> act', t |-> SKey']))
StateOut == PrintT("STATE " \o ToJson([s |-> SKey, o |-> Obs]))
EmitInit == PrintT("INIT " \o ToJson([t |-> SKey]))
InitE == Init /\ EmitInit

CaseOf(s) == LET I == IvsOf(s)  r == IvRuns(I) IN
             [s |-> s, err |-> ~StringOK(s), runs |-> r, form |-> IF r = <<>> THEN "empty" ELSE IvForm(r)]
ASSUME \A s \in MCCaseStrings : PrintT("CASE " \o ToJson(CaseOf(s)))
=============================================================================
