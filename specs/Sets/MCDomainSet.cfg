CONSTANTS
  DomainRules <- MCDomainRules
  SuffixRules <- MCSuffixRules
  KeywordRules <- MCKeywordRules
  RegexpRules <- MCRegexpRules
  Probes <- MCProbes
  Texts <- MCTexts
  Sizes <- MCSizes
  MaxRules = ${MaxRules}
  MaxClear = ${MaxClear}
  Conv = ${Conv}
  MaxLinearDomains = ${MaxLinearDomains}
  MaxLinearSuffixes = ${MaxLinearSuffixes}
INIT InitE
NEXT Next
VIEW View
${EMIT}
INVARIANTS TypeOK MatchIsMeaning SuffixMatchersAgree TrieCanonical TrieRebuilds ParserIsMeaning ${CASE}
PROPERTIES ConversionsPreserve TextRefusedOnlyWhenEmpty ${PROPS}
CHECK_DEADLOCK FALSE
