---------------------------- MODULE MCDomainSet ----------------------------
(* Model-checking shell of DomainSet: alphabets, the labelled state graph    *)
(* (EDGE/INIT lines, replayed step by step on the real builder) and one      *)
(* CASE line per distinct state (rule sets with the expected answers, which  *)
(* the driver pushes through every matcher, size and round trip).            *)
EXTENDS DomainSet, Json

\* all strings over the characters C of length <= n
RECURSIVE StrsUpTo(_, _)
StrsUpTo(C, n) == IF n = 0 THEN {""} ELSE LET P == StrsUpTo(C, n - 1) IN P \cup {s \o c : s \in P, c \in C}

\* documents: up to n lines of L, each ended by one of E; the last one possibly unterminated
RECURSIVE Docs(_, _, _)
Docs(L, E, n) == IF n = 0 THEN {""} ELSE LET P == Docs(L, E, n - 1) IN P \cup {l \o e \o d : l \in L, e \in E, d \in P}
DocsU(L, E, n) == Docs(L, E, n) \cup {d \o l : d \in Docs(L, E, n - 1), l \in L}

GoodHint == HintPrefix \o "1 2 0 0 " \o HintSuffix
BadHint == HintPrefix \o "1 2 0 " \o HintSuffix

MCDomainRules == ${DomainRules}
MCSuffixRules == ${SuffixRules}
MCKeywordRules == ${KeywordRules}
MCRegexpRules == ${RegexpRules}
MCProbes == ${Probes}
MCTexts == ${Texts}
MCSizes == ${Sizes}

View == sv
Obs == [m |-> MatchSet(b), keys |-> TrieKeys(b.t), dnil |-> FALSE, tnil |-> b.t.nil,
        n |-> [d |-> Cardinality(b.d), s |-> KeyCount(b.t), k |-> Len(b.k), r |-> Len(b.r)]]
\* The labelled state graph: one EDGE line per transition (states and action only: primed expressions
\* are evaluated without caching, so the observation is not computed here) and one STATE line per
\* distinct state with the observation; the runner joins them.
Emit == PrintT("EDGE " \o ToJson([f |-> sv, a |-> act', t |-> sv']))
StateOut == PrintT("STATE " \o ToJson([s |-> sv, o |-> Obs]))
Table == {[kind |-> "d", bk |-> bk, n |-> n, sel |-> SelDomain(bk, n)] : bk \in DomainBuilders, n \in Sizes}
         \cup {[kind |-> "s", bk |-> bk, n |-> n, sel |-> SelSuffix(bk, n)] : bk \in SuffixBuilders, n \in Sizes}
EmitInit == PrintT("INIT " \o ToJson([t |-> sv]))
ASSUME PrintT("TABLE " \o ToJson(Table))
InitE == Init /\ EmitInit

\* evaluated once per distinct state
CaseOut == PrintT("CASE " \o ToJson([ref |-> ref, keys |-> TrieKeys(b.t), m |-> MatchSet(b)]))
NoCase == TRUE
=============================================================================
