CONSTANTS
  Users = {"A","B"}
  Keys = {"k1","k2"}
  Stores <- TStores
  Procs = {"w0","w1","w2","w3","w4"}
  MaxOps = 1000000
  MaxEdits = 0
  EditKinds <- TEditKinds
  RejectDupKey = TRUE
  LiveUnderLock = TRUE
  ReadUnderLock = TRUE
  DrainOnCancel = TRUE
  SaveOps <- TSaveOps
  Faults = FALSE
SPECIFICATION TSpec
CONSTRAINT Hw
POSTCONDITION TraceAccepted
CHECK_DEADLOCK FALSE
