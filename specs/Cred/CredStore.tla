------------------------------ MODULE CredStore ------------------------------
(* Credential management of a multi-user Shadowsocks 2022 server.           *)
(* Code: cred/manager.go (ManagedServer), ss2022/credstore.go (CredStore),   *)
(* api/ssm/ssm.go (handlers calling Add/Update/Delete/LoadFromFile).         *)
(*                                                                          *)
(* Three views of the user set:                                             *)
(*   cache/ulm  - cachedCredMap (user -> key), cachedUserLookupMap (key ->  *)
(*                user), guarded by ManagedServer.mu                         *)
(*   live[s]    - CredStore.ulm of the TCP / UDP server, consulted by every *)
(*                handshake, guarded by CredStore.mu                         *)
(*   disk.path  - the JSON store file, rewritten by the debounced saver      *)
(*                                                                          *)
(* The structure constants say where the implementation puts the steps that *)
(* matter; TRUE everywhere is the repaired code, FALSE reproduces the        *)
(* original defects (kept as must-fail configurations, see MCCredStore).     *)
EXTENDS Integers, Sequences, FiniteSets, TLC

CONSTANTS
    Users, Keys,        \* small universes, e.g. {"A","B"}, {"k1","k2"}
    Stores,             \* subset of {"tcp","udp"}: which servers exist
    Procs,              \* concurrent API clients
    MaxOps,             \* bound on API operations started
    MaxEdits,           \* bound on administrator edits of the file
    EditKinds,          \* kinds of content an administrator may write: subset of {"doc","dup","invalid","empty"}
    RejectDupKey,       \* Add/Update refuse a key that already belongs to a user
    LiveUnderLock,      \* live maps are updated before ManagedServer.mu is released
    ReadUnderLock,      \* LoadFromFile reads the file after taking the lock
    DrainOnCancel,      \* the saver saves a queued job when it sees the cancellation first
    SaveOps,            \* the file operations of one save, in order (derived from an strace of the real save)
    Faults              \* TRUE: write errors / crashes may hit a save

VARIABLES
    cache,      \* [Users -> Keys \cup {None}]        cachedCredMap
    ulm,        \* [Keys -> Users \cup {None}]        cachedUserLookupMap
    live,       \* [Stores -> [Keys -> Users \cup {None}]]
    cc,         \* cachedContent (a file content)
    disk,       \* [path |-> content, tmp |-> content or NoFile]
    queue,      \* saveQueue, 0 or 1
    spc,        \* saver: "wait", "cool", "presave", "save", "stopped"
    si,         \* index of the next element of SaveOps while spc = "save"
    wsrc,       \* the map being written by the running save
    final,      \* the running save is the last one (context already seen as cancelled)
    cancelled,  \* context cancelled
    pc, op, rd, \* per API client: program counter, current operation, content read by Load
    stable,     \* ghost: last content completely written to path (by a save or by the administrator)
    edited,     \* ghost: the administrator changed the file and no load has looked at it yet
    failed,     \* ghost: a save failed with a write error
    crashed,    \* ghost: the process died
    mutated,    \* ghost: some API mutation was acknowledged
    nops, nedits,
    act

None == "-"
NoFile == [kind |-> "nofile", m |-> [u \in Users |-> None]]
NoUsers == [u \in Users |-> None]
Doc(m) == [kind |-> "doc", m |-> m]
Empty == [kind |-> "empty", m |-> NoUsers]
Partial == [kind |-> "partial", m |-> NoUsers]
Invalid == [kind |-> "invalid", m |-> NoUsers]

sv == <<cache, ulm, live, cc, disk, queue, spc, si, wsrc, final, cancelled, pc, op, rd,
        stable, edited, failed, crashed, mutated, nops, nedits>>
vars == <<sv, act>>

Maps == [Users -> Keys \cup {None}]
HasDup(m) == \E u1, u2 \in Users : u1 # u2 /\ m[u1] # None /\ m[u1] = m[u2]
\* key -> user lookup map of a duplicate-free map
Inverse(m) == [k \in Keys |-> IF \E u \in Users : m[u] = k THEN CHOOSE u \in Users : m[u] = k ELSE None]
NoKeys == [k \in Keys |-> None]

\* What LoadFromFile does with a file content c when cachedContent is cur:
\* "skip" (unchanged), "swap" (parsed and validated), "error".
LoadVerdict(c, cur) ==
    IF c = cur THEN "skip"
    ELSE IF c.kind = "doc" /\ ~HasDup(c.m) THEN "swap"
    ELSE "error"

\* A fresh process start (RegisterServer): empty maps, then LoadFromFile; the start-up fails on error.
Loadable(c) == c.kind = "empty" \/ (c.kind = "doc" /\ ~HasDup(c.m))
UsersAfterStart(c) == IF c.kind = "doc" THEN c.m ELSE NoUsers

Init ==
    /\ cache = NoUsers /\ ulm = NoKeys
    /\ live = [s \in Stores |-> NoKeys]
    /\ cc = Doc(NoUsers)
    /\ disk = [path |-> Doc(NoUsers), tmp |-> NoFile]
    /\ queue = 0 /\ spc = "wait" /\ si = 1 /\ wsrc = NoUsers /\ final = FALSE /\ cancelled = FALSE
    /\ pc = [p \in Procs |-> "idle"]
    /\ op = [p \in Procs |-> [n |-> "none", u |-> None, k |-> None, kold |-> None]]
    /\ rd = [p \in Procs |-> NoFile]
    /\ stable = Doc(NoUsers) /\ edited = FALSE /\ failed = FALSE /\ crashed = FALSE /\ mutated = FALSE
    /\ nops = 0 /\ nedits = 0
    /\ act = [n |-> "Init"]

Saving == spc = "save"          \* the saver holds the read lock: writers wait

-----------------------------------------------------------------------------
(* API operations.  Begin picks the operation; Locked is the critical section under            *)
(* ManagedServer.mu; Enqueue is enqueueSave; LiveStep applies the change to one live map when   *)
(* the implementation does that outside the lock.                                               *)

Begin(p, o) ==
    /\ ~crashed /\ ~cancelled /\ pc[p] = "idle" /\ nops < MaxOps
    /\ nops' = nops + 1
    /\ op' = [op EXCEPT ![p] = o]
    /\ IF o.n = "Load" /\ ~ReadUnderLock
         THEN rd' = [rd EXCEPT ![p] = disk.path]    \* mmap.ReadFile before s.mu.Lock()
         ELSE rd' = rd
    /\ pc' = [pc EXCEPT ![p] = "start"]
    /\ UNCHANGED <<cache, ulm, live, cc, disk, queue, spc, si, wsrc, final, cancelled, stable, edited, failed, crashed, mutated, nedits>>
    /\ act' = [n |-> "Begin", p |-> p, o |-> o]

\* effect of an accepted mutation on a lookup map
ApplyAdd(l, u, k) == [l EXCEPT ![k] = u]
ApplyUpd(l, u, kold, k) == [[l EXCEPT ![kold] = None] EXCEPT ![k] = u]
ApplyDel(l, k) == [l EXCEPT ![k] = None]

LiveAfter(l, o, kold) ==
    CASE o.n = "Add" -> ApplyAdd(l, o.u, o.k)
      [] o.n = "Update" -> ApplyUpd(l, o.u, kold, o.k)
      [] o.n = "Delete" -> ApplyDel(l, kold)

Locked(p) ==
    /\ ~crashed /\ pc[p] = "start" /\ ~Saving
    /\ LET o == op[p] IN
       CASE o.n = "Add" ->
              IF cache[o.u] # None \/ (RejectDupKey /\ ulm[o.k] # None)
                THEN /\ pc' = [pc EXCEPT ![p] = "idle"]
                     /\ UNCHANGED <<cache, ulm, live, cc, mutated, edited>>
                     /\ act' = [n |-> "Locked", p |-> p, o |-> o, out |-> "error"]
                ELSE /\ cache' = [cache EXCEPT ![o.u] = o.k]
                     /\ ulm' = ApplyAdd(ulm, o.u, o.k)
                     /\ live' = IF LiveUnderLock THEN [s \in Stores |-> ApplyAdd(live[s], o.u, o.k)] ELSE live
                     /\ pc' = [pc EXCEPT ![p] = "enq"] /\ mutated' = TRUE
                     /\ UNCHANGED <<cc, edited>>
                     /\ act' = [n |-> "Locked", p |-> p, o |-> o, out |-> "ok"]
         [] o.n = "Update" ->
              IF cache[o.u] = None \/ cache[o.u] = o.k \/ (RejectDupKey /\ ulm[o.k] # None)
                THEN /\ pc' = [pc EXCEPT ![p] = "idle"]
                     /\ UNCHANGED <<cache, ulm, live, cc, mutated, edited>>
                     /\ act' = [n |-> "Locked", p |-> p, o |-> o, out |-> "error"]
                ELSE /\ cache' = [cache EXCEPT ![o.u] = o.k]
                     /\ ulm' = ApplyUpd(ulm, o.u, cache[o.u], o.k)
                     /\ live' = IF LiveUnderLock THEN [s \in Stores |-> ApplyUpd(live[s], o.u, cache[o.u], o.k)] ELSE live
                     /\ pc' = [pc EXCEPT ![p] = "enq"] /\ mutated' = TRUE
                     /\ UNCHANGED <<cc, edited>>
                     /\ act' = [n |-> "Locked", p |-> p, o |-> o, out |-> "ok", kold |-> cache[o.u]]
         [] o.n = "Delete" ->
              IF cache[o.u] = None
                THEN /\ pc' = [pc EXCEPT ![p] = "idle"]
                     /\ UNCHANGED <<cache, ulm, live, cc, mutated, edited>>
                     /\ act' = [n |-> "Locked", p |-> p, o |-> o, out |-> "error"]
                ELSE /\ cache' = [cache EXCEPT ![o.u] = None]
                     /\ ulm' = ApplyDel(ulm, cache[o.u])
                     /\ live' = IF LiveUnderLock THEN [s \in Stores |-> ApplyDel(live[s], cache[o.u])] ELSE live
                     /\ pc' = [pc EXCEPT ![p] = "enq"] /\ mutated' = TRUE
                     /\ UNCHANGED <<cc, edited>>
                     /\ act' = [n |-> "Locked", p |-> p, o |-> o, out |-> "ok", kold |-> cache[o.u]]
         [] o.n = "Load" ->
              LET c == IF ReadUnderLock THEN disk.path ELSE rd[p]
                  v == LoadVerdict(c, cc) IN
              /\ mutated' = mutated
              /\ edited' = IF c = disk.path /\ v # "error" THEN FALSE ELSE edited
              /\ IF v = "swap"
                   THEN /\ cache' = c.m /\ ulm' = Inverse(c.m) /\ cc' = c
                        /\ live' = IF LiveUnderLock THEN [s \in Stores |-> Inverse(c.m)] ELSE live
                        /\ pc' = [pc EXCEPT ![p] = IF LiveUnderLock THEN "idle" ELSE "live"]
                   ELSE /\ UNCHANGED <<cache, ulm, live, cc>>
                        /\ pc' = [pc EXCEPT ![p] = "idle"]
              /\ act' = [n |-> "Locked", p |-> p, o |-> o, out |-> v]
    /\ op' = IF op[p].n \in {"Update", "Delete"} /\ pc'[p] = "enq"
               THEN [op EXCEPT ![p].kold = cache[op[p].u]]
               ELSE op
    /\ UNCHANGED <<disk, queue, spc, si, wsrc, final, cancelled, rd, stable, failed, crashed, nops, nedits>>

Enqueue(p) ==
    /\ ~crashed /\ pc[p] = "enq"
    /\ queue' = 1
    /\ pc' = [pc EXCEPT ![p] = IF LiveUnderLock THEN "idle" ELSE "live"]
    /\ UNCHANGED <<cache, ulm, live, cc, disk, spc, si, wsrc, final, cancelled, op, rd, stable, edited, failed, crashed, mutated, nops, nedits>>
    /\ act' = [n |-> "Enqueue", p |-> p, o |-> op[p], out |-> "ok"]

\* Only when ~LiveUnderLock: apply the change to the live maps, one store after the other
\* (updateProdULM / ReplaceUserLookupMap(maps.Clone(cachedUserLookupMap)) read at this moment).
LiveStep(p) ==
    /\ ~crashed /\ pc[p] = "live" /\ ~LiveUnderLock
    /\ LET o == op[p] IN
       live' = [s \in Stores |->
                  IF o.n = "Load" THEN ulm
                  ELSE LiveAfter(live[s], o, IF o.n = "Add" THEN None ELSE o.kold)]
    /\ pc' = [pc EXCEPT ![p] = "idle"]
    /\ UNCHANGED <<cache, ulm, cc, disk, queue, spc, si, wsrc, final, cancelled, op, rd, stable, edited, failed, crashed, mutated, nops, nedits>>
    /\ act' = [n |-> "LiveStep", p |-> p]

-----------------------------------------------------------------------------
(* The administrator edits the file (an editor writes the whole content).  *)
EditContents ==
    (IF "doc" \in EditKinds THEN {Doc(m) : m \in {x \in Maps : ~HasDup(x)}} ELSE {})
    \cup (IF "dup" \in EditKinds THEN {Doc(m) : m \in {x \in Maps : HasDup(x)}} ELSE {})
    \cup (IF "invalid" \in EditKinds THEN {Invalid} ELSE {})
    \cup (IF "empty" \in EditKinds THEN {Empty} ELSE {})

EditFile(c) ==
    /\ ~crashed /\ ~Saving /\ nedits < MaxEdits /\ c # disk.path
    /\ disk' = [disk EXCEPT !.path = c]
    /\ stable' = c /\ edited' = TRUE /\ nedits' = nedits + 1
    /\ UNCHANGED <<cache, ulm, live, cc, queue, spc, si, wsrc, final, cancelled, pc, op, rd, failed, crashed, mutated, nops>>
    /\ act' = [n |-> "EditFile", c |-> c]

-----------------------------------------------------------------------------
(* The saver goroutine: dequeueSave / save / saveToFile / writeFileAtomic. *)

\* first select: a job is queued
SvTake ==
    /\ ~crashed /\ spc = "wait" /\ queue = 1
    /\ queue' = 0 /\ spc' = "cool"
    /\ UNCHANGED <<cache, ulm, live, cc, disk, si, wsrc, final, cancelled, pc, op, rd, stable, edited, failed, crashed, mutated, nops, nedits>>
    /\ act' = [n |-> "SvTake"]

\* first select: the context is done (when a job is queued too, Go picks either case)
SvSeeCancel ==
    /\ ~crashed /\ spc = "wait" /\ cancelled
    /\ IF DrainOnCancel /\ queue = 1
         THEN queue' = 0 /\ spc' = "presave" /\ final' = TRUE
         ELSE queue' = queue /\ spc' = "stopped" /\ final' = final
    /\ UNCHANGED <<cache, ulm, live, cc, disk, si, wsrc, cancelled, pc, op, rd, stable, edited, failed, crashed, mutated, nops, nedits>>
    /\ act' = [n |-> "SvSeeCancel"]

\* second select (5 s cool-down or context done), then the non-blocking drain of the queue
SvCool ==
    /\ ~crashed /\ spc = "cool"
    /\ queue' = 0 /\ spc' = "presave"
    /\ UNCHANGED <<cache, ulm, live, cc, disk, si, wsrc, final, cancelled, pc, op, rd, stable, edited, failed, crashed, mutated, nops, nedits>>
    /\ act' = [n |-> "SvCool"]

\* s.mu.RLock(); snapshot of cachedCredMap (json.MarshalIndent)
SvBeginSave ==
    /\ ~crashed /\ spc = "presave"
    /\ spc' = "save" /\ si' = 1 /\ wsrc' = cache
    /\ UNCHANGED <<cache, ulm, live, cc, disk, queue, final, cancelled, pc, op, rd, stable, edited, failed, crashed, mutated, nops, nedits>>
    /\ act' = [n |-> "SvBeginSave"]

EndSave(ok) ==
    /\ spc' = IF final THEN "stopped" ELSE "wait"
    /\ si' = 1
    /\ cc' = IF ok THEN Doc(wsrc) ELSE cc

\* one file operation of the save completes normally
SvFileOp ==
    /\ ~crashed /\ spc = "save" /\ si <= Len(SaveOps)
    /\ LET o == SaveOps[si] IN
       /\ disk' = CASE o = "trunc_path" -> [disk EXCEPT !.path = Empty]
                    [] o = "write_path" -> [disk EXCEPT !.path = Doc(wsrc)]
                    [] o = "creat_tmp" -> [disk EXCEPT !.tmp = Empty]
                    [] o = "write_tmp" -> [disk EXCEPT !.tmp = Doc(wsrc)]
                    [] o = "rename_tmp_path" -> [path |-> disk.tmp, tmp |-> NoFile]
                    [] o \in {"rename_path_away", "unlink_path"} -> [disk EXCEPT !.path = NoFile]   \* the store name vanishes
                    [] OTHER -> disk
       /\ stable' = IF o \in {"write_path", "rename_tmp_path"} THEN disk'.path ELSE stable
       /\ edited' = IF o \in {"trunc_path", "write_path", "rename_tmp_path"} THEN FALSE ELSE edited
       /\ IF si = Len(SaveOps)
            THEN EndSave(TRUE)
            ELSE si' = si + 1 /\ spc' = spc /\ cc' = cc
       /\ act' = [n |-> "SvFileOp", f |-> o]
    /\ UNCHANGED <<cache, ulm, live, queue, wsrc, final, cancelled, pc, op, rd, failed, crashed, mutated, nops, nedits>>

\* a write fails half-way (disk full, RLIMIT_FSIZE): the target keeps a prefix, the save returns the error
SvWriteError ==
    /\ Faults /\ ~crashed /\ spc = "save" /\ si <= Len(SaveOps) /\ SaveOps[si] \in {"write_path", "write_tmp"}
    /\ \E c \in {Empty, Partial} :
         /\ disk' = IF SaveOps[si] = "write_path" THEN [disk EXCEPT !.path = c]
                    ELSE [disk EXCEPT !.tmp = NoFile]      \* the temporary file is removed on error
         /\ act' = [n |-> "SvWriteError", left |-> c.kind]
    /\ failed' = TRUE
    /\ EndSave(FALSE)
    /\ UNCHANGED <<cache, ulm, live, queue, wsrc, final, cancelled, pc, op, rd, stable, edited, crashed, mutated, nops, nedits>>

\* the process dies: between two file operations, or in the middle of a write
Crash ==
    /\ Faults /\ ~crashed
    /\ crashed' = TRUE
    /\ \/ disk' = disk
       \/ /\ spc = "save" /\ si <= Len(SaveOps) /\ SaveOps[si] \in {"write_path", "write_tmp"}
          /\ \E c \in {Empty, Partial} :
               disk' = IF SaveOps[si] = "write_path" THEN [disk EXCEPT !.path = c] ELSE [disk EXCEPT !.tmp = c]
    /\ UNCHANGED <<cache, ulm, live, cc, queue, spc, si, wsrc, final, cancelled, pc, op, rd, stable, edited, failed, mutated, nops, nedits>>
    /\ act' = [n |-> "Crash", path |-> disk'.path.kind]

Cancel ==
    /\ ~crashed /\ ~cancelled /\ \A p \in Procs : pc[p] = "idle"   \* changes acknowledged before shutdown begins
    /\ cancelled' = TRUE
    /\ UNCHANGED <<cache, ulm, live, cc, disk, queue, spc, si, wsrc, final, pc, op, rd, stable, edited, failed, crashed, mutated, nops, nedits>>
    /\ act' = [n |-> "Cancel"]

Ops ==
    {[n |-> "Add", u |-> u, k |-> k, kold |-> None] : u \in Users, k \in Keys}
    \cup {[n |-> "Update", u |-> u, k |-> k, kold |-> None] : u \in Users, k \in Keys}
    \cup {[n |-> "Delete", u |-> u, k |-> None, kold |-> None] : u \in Users}
    \cup {[n |-> "Load", u |-> None, k |-> None, kold |-> None]}

Next ==
    \/ \E p \in Procs, o \in Ops : Begin(p, o)
    \/ \E p \in Procs : Locked(p) \/ Enqueue(p) \/ LiveStep(p)
    \/ \E c \in EditContents : EditFile(c)
    \/ SvTake \/ SvSeeCancel \/ SvCool \/ SvBeginSave \/ SvFileOp \/ SvWriteError
    \/ Crash \/ Cancel

Spec == Init /\ [][Next]_vars

-----------------------------------------------------------------------------
Quiescent == /\ ~crashed /\ \A p \in Procs : pc[p] = "idle"
             /\ queue = 0 /\ spc = "wait"

\* C08: at quiescence the keys the servers accept, the keys the API lists and the keys in the
\* file are the same, each key attributed to one user.
ViewsAgree ==
    Quiescent =>
      /\ ~HasDup(cache)
      /\ ulm = Inverse(cache)
      /\ \A s \in Stores : live[s] = ulm
      /\ (~edited /\ ~failed) => disk.path = Doc(cache)

\* C08: a change is effective on the live servers when the API call has returned
\* (a deleted or rotated key stops working, an added key works).
LiveTracksCache ==
    (~crashed /\ \A p \in Procs : pc[p] \in {"idle", "start"}) =>
        \A s \in Stores : live[s] = ulm

\* C08: attribution - the live maps never attribute a key to a user the manager does not
\* list with that key, once no operation is in flight.
AttributionOK ==
    (~crashed /\ \A p \in Procs : pc[p] \in {"idle", "start"}) =>
        \A s \in Stores, k \in Keys : live[s][k] # None => cache[live[s][k]] = k

\* C20: at every instant the store file is what a restart would accept, and it holds the
\* previous or the new user set (stable = last completely written content; the administrator
\* is responsible for what she writes herself).
OldOrNew ==
    disk.path = stable \/ (Saving /\ disk.path = Doc(wsrc))
AlwaysLoadable ==
    Loadable(stable) => Loadable(disk.path)

\* C20: changes acknowledged before shutdown began are in the file when the saver has stopped.
AckedThenSaved ==
    (spc = "stopped" /\ ~crashed /\ ~failed /\ mutated /\ ~edited) => disk.path = Doc(cache)

\* no temporary file is left behind by a completed save
NoTmpLeft == (~crashed /\ spc \in {"wait", "stopped"}) => disk.tmp = NoFile

TypeOK ==
    /\ cache \in Maps /\ queue \in {0, 1}
    /\ spc \in {"wait", "cool", "presave", "save", "stopped"}
=============================================================================
