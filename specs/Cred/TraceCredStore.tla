--------------------------- MODULE TraceCredStore ---------------------------
(* Trace validation of concurrent management-API traffic against CredStore. *)
(* The driver (harness/drivers/c08 TestStress) logs, under one mutex, a     *)
(* "call" event before each API call and a "ret" event with the outcome     *)
(* after it returned; the state change itself is not logged (it happens      *)
(* under ManagedServer.mu somewhere between the two).  The trace spec lets   *)
(* TLC place each operation's critical section (Locked) anywhere between     *)
(* its call and its return and demands that every logged outcome, and the    *)
(* final listing, is the one the specification computes: the recorded        *)
(* history must be linearizable with respect to the spec's atomic            *)
(* operations.  Several rounds are concatenated; "init" starts a round.      *)
EXTENDS CredStore, Json

VARIABLES l, res
tvars == <<vars, l, res>>

Trace == ndJsonDeserialize("trace.ndjson")
TStores == {"tcp", "udp"}
TEditKinds == {}
TSaveOps == <<"creat_tmp", "write_tmp", "sync_tmp", "rename_tmp_path">>
Ev == Trace[l]
More == l <= Len(Trace)

TInit ==
    /\ Init /\ l = 1 /\ res = [p \in Procs |-> "none"]
    /\ TLCSet(1, 0)

\* start of a round: the store holds Ev.list, nothing is in flight
TRound ==
    /\ More /\ Ev.e = "init"
    /\ \A p \in Procs : pc[p] = "idle" /\ res[p] = "none"
    /\ cache' = Ev.list /\ ulm' = Inverse(Ev.list)
    /\ live' = [s \in Stores |-> Inverse(Ev.list)]
    /\ cc' = Doc(Ev.list) /\ disk' = [path |-> Doc(Ev.list), tmp |-> NoFile]
    /\ queue' = 0 /\ stable' = Doc(Ev.list) /\ edited' = FALSE /\ mutated' = FALSE /\ nops' = 0
    /\ UNCHANGED <<spc, si, wsrc, final, cancelled, pc, op, rd, failed, crashed, nedits, act, res>>
    /\ l' = l + 1

TCall ==
    /\ More /\ Ev.e = "call"
    /\ Begin(Ev.w, [n |-> Ev.op, u |-> Ev.u, k |-> Ev.k, kold |-> None])
    /\ l' = l + 1 /\ UNCHANGED res

\* the operation's critical section, somewhere between call and return (not logged)
TLin(p) ==
    /\ pc[p] = "start" /\ res[p] = "none"
    /\ Locked(p)
    /\ res' = [res EXCEPT ![p] = IF act'.out \in {"ok", "skip", "swap"} THEN "ok" ELSE "error"]
    /\ UNCHANGED l
TEnq(p) ==
    /\ pc[p] = "enq" /\ Enqueue(p)
    /\ UNCHANGED <<l, res>>

TRet ==
    /\ More /\ Ev.e = "ret"
    /\ pc[Ev.w] = "idle" /\ res[Ev.w] = Ev.out
    /\ res' = [res EXCEPT ![Ev.w] = "none"]
    /\ l' = l + 1 /\ UNCHANGED vars

\* end of a round: what the API lists must be the specification's cache
TFinal ==
    /\ More /\ Ev.e = "final"
    /\ \A p \in Procs : pc[p] = "idle" /\ res[p] = "none"
    /\ cache = Ev.list
    /\ l' = l + 1 /\ UNCHANGED <<vars, res>>

TNext == TRound \/ TCall \/ TRet \/ TFinal \/ \E p \in Procs : TLin(p) \/ TEnq(p)
TSpec == TInit /\ [][TNext]_tvars

\* high-water mark of the consumed prefix (needs -workers 1)
Hw == IF l > TLCGet(1) THEN TLCSet(1, l) ELSE TRUE
TraceAccepted == PrintT(<<"TRACE-HW", TLCGet(1), Len(Trace)>>) /\ TLCGet(1) = Len(Trace) + 1
=============================================================================
