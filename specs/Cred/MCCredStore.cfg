CONSTANTS
  Users = ${Users}
  Keys = ${Keys}
  Stores <- MCStores
  Procs = ${Procs}
  MaxOps = ${MaxOps}
  MaxEdits = ${MaxEdits}
  EditKinds <- MCEditKinds
  RejectDupKey = ${RejectDupKey}
  LiveUnderLock = ${LiveUnderLock}
  ReadUnderLock = ${ReadUnderLock}
  DrainOnCancel = ${DrainOnCancel}
  SaveOps <- MCSaveOps
  Faults = ${Faults}
INIT InitE
NEXT ${NEXT}
VIEW View
${EMIT}
INVARIANTS TypeOK ${INVS}
CHECK_DEADLOCK FALSE
