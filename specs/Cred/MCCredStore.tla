---------------------------- MODULE MCCredStore ----------------------------
EXTENDS CredStore, Json
MCSaveOps == ${SaveOps}
MCStores == ${Stores}
MCEditKinds == ${EditKinds}
View == sv
Obs == [cache |-> cache, live |-> live, path |-> disk.path, queue |-> queue, spc |-> spc]
Emit == PrintT("EDGE " \o ToJson([f |-> sv, a |-> act', t |-> sv', o |-> Obs']))
EmitInit == PrintT("INIT " \o ToJson([t |-> sv, o |-> Obs]))
InitE == Init /\ EmitInit

\* Sequential replay alphabet: API operations run to completion, the debounced save is one step
\* (the driver advances the virtual clock past the cool-down and waits for the saver).
SeqApi(p, o) == (Begin(p, o) \cdot Locked(p)) \cdot (IF pc[p] = "enq" THEN Enqueue(p) ELSE UNCHANGED vars)
\* a complete debounced save: SvTake, SvCool, SvBeginSave and every file operation
Flush ==
    /\ ~crashed /\ queue = 1 /\ spc = "wait" /\ ~cancelled
    /\ queue' = 0 /\ disk' = [path |-> Doc(cache), tmp |-> NoFile] /\ cc' = Doc(cache)
    /\ stable' = Doc(cache) /\ edited' = FALSE
    /\ UNCHANGED <<cache, ulm, live, spc, si, wsrc, final, cancelled, pc, op, rd, failed, crashed, mutated, nops, nedits>>
    /\ act' = [n |-> "Flush", path |-> Doc(cache)]
NextSeq ==
    \/ \E p \in Procs, o \in Ops : SeqApi(p, o)
    \/ \E c \in EditContents : EditFile(c)
    \/ Flush
=============================================================================
