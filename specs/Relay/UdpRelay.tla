------------------------------ MODULE UdpRelay ------------------------------
(* UDP relay sessions: lifecycle (C12) and datagram isolation (C11).        *)
(* Code: service/udp_nat.go, udp_nat_mmsg.go, udp_session.go,                *)
(* udp_session_mmsg.go (the four share this skeleton), direct/packet.go      *)
(* DirectPacketClientPacker (resolution cache), direct/udp.go.               *)
(*                                                                          *)
(* Per session key s (client address for NAT relays, client session id for  *)
(* Shadowsocks 2022) there are up to two goroutines:                         *)
(*   I  - created by the receive loop under the relay mutex: initialises    *)
(*        (route, client session, socket, first deadline), swaps the state  *)
(*        pointer, then is the DOWNLINK loop; on exit it closes the send     *)
(*        channel and deletes the table entry under the mutex.               *)
(*   U  - the UPLINK: ranges over the send channel, packs, sends, re-arms   *)
(*        the natConn read deadline; closes the socket when the channel is  *)
(*        closed.                                                            *)
(* Stop: deadline of the server socket into the past, wait for the receive *)
(* loops, swap every entry's state to the server conn and force the natConn *)
(* deadline into the past, wait for all session goroutines, close.           *)
EXTENDS Integers, Sequences, FiniteSets, TLC

CONSTANTS
    Sess,           \* session keys
    Targets,        \* target names; domains resolve through IpOf, "ip" targets are their own address
    Domains,        \* subset of Targets that are domain names
    ChanCap,        \* send channel capacity (scaled)
    MaxSend,        \* packets per session
    MaxReply,       \* replies per session
    MaxTimer,       \* NAT timer expiries
    SharedPacker,   \* TRUE: every session of the client uses one packer instance (one resolution cache)
    RearmGuard,     \* TRUE: after re-arming the deadline the uplink re-checks that shutdown has not begun
    Rejected,       \* targets the router rejects: a session whose first packet names one fails to initialise
    Unresolvable,   \* domain names whose lookup fails (NXDOMAIN): the packet is dropped, the cache must not change
    MaxFault,       \* how many times creating a session's socket fails after its client session has been created
    UpBatch,        \* TRUE: the uplink of the recvmmsg/sendmmsg path: it keeps dequeuing without blocking, packs every packet
                    \* it finds, and writes the whole batch with one sendmmsg call
    GarbageOn,      \* TRUE: clients also send datagrams that do not parse (Garbage), at any time, also as their very first
    Batch,          \* TRUE: the downlink reads every reply that has arrived in one recvmmsg batch (sendmmsg path)
    Keyed           \* "addr": sessions keyed by client address (NAT relays); "sid": keyed by client session id, following
                    \* the client's latest address (Shadowsocks 2022 session relays)

VARIABLES
    table,      \* keys in the relay's table (guarded by the relay mutex)
    state,      \* entry.state: "nil" -> "nat" (initialised) -> "srv" (shutting down)
    ch, chOpen, \* send channel content / open flag
    ipc,        \* goroutine I: "none","init","swap","read","reply","cleanup","done"
    upc,        \* goroutine U: "none","idle","chk","res","sto","lod","send","rearm","done"
    first,      \* target of the packet that created the session (routing decision)
    cur,        \* target of the packet the uplink is working on
    rip,        \* uplink local: the IP just resolved
    dest,       \* uplink local: destination chosen for the packet
    dl,         \* natConn read deadline: "none","future","past"
    sock,       \* natConn: "none","open","closed"
    pk,         \* packer resolution cache per owner: [dom, ip]
    cli,        \* the client's current address (1 or 2); only "sid" relays let a session move
    seen,       \* the client address the relay has recorded for the session (source of the last accepted packet)
    inbox,      \* replies that have arrived at the session's socket and are not read yet: Seq({"ok","big"})
    got,        \* the batch the downlink has read and is working on
    cs,         \* the client's session object (for a SOCKS5 client: its TCP control connection): "none","open","closed"
    nfault,
    ub,         \* batched uplink: destinations packed and not yet written, Seq([t, to])
    has,        \* this generation of the session has sent a datagram (so a reply can come back to its socket)
    sent,       \* ghost/output: datagrams that left the relay  [s, t, to]
    back,       \* ghost/output: replies delivered to clients  [s]
    spc,        \* Stop: "idle","waitrecv","swap","waitall","done"
    rloop,      \* receive loop: "run","done"
    nsend, nreply, ntimer,
    act

None == "-"
sv == <<table, state, ch, chOpen, ipc, upc, first, cur, rip, dest, dl, sock, pk, cli, seen, inbox, got, has, sent, back, spc, rloop, nsend, nreply, ntimer, ub, cs, nfault>>
vars == <<sv, act>>

Owner(s) == IF SharedPacker THEN "shared" ELSE s
Owners == IF SharedPacker THEN {"shared"} ELSE Sess
IpOf(t) == t     \* the resolver maps each name to "its" address; addresses are named after their target

Init ==
    /\ table = {} /\ state = [s \in Sess |-> "nil"]
    /\ ch = [s \in Sess |-> <<>>] /\ chOpen = [s \in Sess |-> FALSE]
    /\ ipc = [s \in Sess |-> "none"] /\ upc = [s \in Sess |-> "none"]
    /\ first = [s \in Sess |-> None]
    /\ cur = [s \in Sess |-> None] /\ rip = [s \in Sess |-> None] /\ dest = [s \in Sess |-> None]
    /\ dl = [s \in Sess |-> "none"] /\ sock = [s \in Sess |-> "none"]
    /\ pk = [o \in Owners |-> [dom |-> None, ip |-> None]]
    /\ cli = [s \in Sess |-> 1] /\ seen = [s \in Sess |-> 0]
    /\ inbox = [s \in Sess |-> <<>>] /\ got = [s \in Sess |-> <<>>]
    /\ has = [s \in Sess |-> FALSE]
    /\ ub = [s \in Sess |-> <<>>]
    /\ cs = [s \in Sess |-> "none"] /\ nfault = 0
    /\ sent = {} /\ back = {}
    /\ spc = "idle" /\ rloop = "run"
    /\ nsend = [s \in Sess |-> 0] /\ nreply = [s \in Sess |-> 0] /\ ntimer = 0
    /\ act = [n |-> "Init"]

Gone(s) == ipc[s] \in {"none", "done"} /\ upc[s] \in {"none", "done"}

\* recvFromServerConn*: one authenticated, parseable packet from client s for target t (under s.mu)
RecvPkt(s, t) ==
    /\ rloop = "run" /\ nsend[s] < MaxSend
    /\ nsend' = [nsend EXCEPT ![s] = @ + 1]
    /\ IF s \in table
         THEN /\ IF Len(ch[s]) < ChanCap
                   THEN ch' = [ch EXCEPT ![s] = Append(@, t)] /\ act' = [n |-> "RecvPkt", s |-> s, t |-> t, out |-> "queued", from |-> cli[s]]
                   ELSE ch' = ch /\ act' = [n |-> "RecvPkt", s |-> s, t |-> t, out |-> "dropped", from |-> cli[s]]
              /\ UNCHANGED <<ub, cs, nfault, table, state, chOpen, ipc, upc, dl, sock, first>>
         ELSE /\ Gone(s)       \* (the model keeps one generation per key at a time)
              /\ table' = table \cup {s}
              /\ state' = [state EXCEPT ![s] = "nil"]
              /\ ch' = [ch EXCEPT ![s] = <<t>>] /\ chOpen' = [chOpen EXCEPT ![s] = TRUE]
              /\ ipc' = [ipc EXCEPT ![s] = "init"] /\ upc' = [upc EXCEPT ![s] = "none"]
              /\ dl' = [dl EXCEPT ![s] = "none"] /\ sock' = [sock EXCEPT ![s] = "none"]
              /\ first' = [first EXCEPT ![s] = t]
              /\ act' = [n |-> "RecvPkt", s |-> s, t |-> t, out |-> "new", from |-> cli[s]]
    /\ has' = IF s \in table THEN has ELSE [has EXCEPT ![s] = FALSE]
    /\ inbox' = (IF s \in table THEN inbox ELSE [inbox EXCEPT ![s] = <<>>])
    /\ got' = got
    /\ seen' = [seen EXCEPT ![s] = cli[s]] /\ cli' = cli
    /\ cs' = IF s \in table THEN cs ELSE [cs EXCEPT ![s] = "none"]
    /\ UNCHANGED <<ub, nfault, cur, rip, dest, pk, sent, back, spc, rloop, nreply, ntimer>>

\* a datagram that does not parse / authenticate: nothing changes - in particular no table entry is made for its
\* source address, and a valid datagram that follows it is treated exactly as if the garbage had never arrived
Garbage(s) ==
    /\ GarbageOn /\ rloop = "run"
    /\ UNCHANGED sv
    /\ act' = [n |-> "Garbage", s |-> s]

\* the client of a session-id keyed relay starts sending from another address (roaming, NAT rebinding)
Move(s) ==
    /\ Keyed = "sid" /\ cli[s] = 1
    /\ cli' = [cli EXCEPT ![s] = 2]
    /\ UNCHANGED <<ub, cs, nfault, table, state, ch, chOpen, ipc, upc, first, cur, rip, dest, dl, sock, pk, seen, inbox, got, has, sent, back, spc, rloop, nsend, nreply, ntimer>>
    /\ act' = [n |-> "Move", s |-> s]

\* a datagram from a foreign address that carries a live session's id but does not authenticate (forged or
\* corrupted replay): it is dropped and in particular does not redirect the session's replies
Forged(s) ==
    /\ Keyed = "sid" /\ rloop = "run" /\ s \in table
    /\ UNCHANGED sv
    /\ act' = [n |-> "Forged", s |-> s]

\* I: GetUDPClient, NewSession, ListenUDP, SetReadDeadline(now+natTimeout), NewPacker
InitOk(s) ==
    /\ ipc[s] = "init" /\ first[s] \notin Rejected
    /\ sock' = [sock EXCEPT ![s] = "open"] /\ dl' = [dl EXCEPT ![s] = "future"]
    /\ ipc' = [ipc EXCEPT ![s] = "swap"]
    /\ cs' = [cs EXCEPT ![s] = "open"]
    /\ UNCHANGED <<ub, nfault, table, state, ch, chOpen, upc, first, cur, rip, dest, pk, cli, seen, inbox, got, has, sent, back, spc, rloop, nsend, nreply, ntimer>>
    /\ act' = [n |-> "InitOk", s |-> s]

InitFail(s) ==
    /\ ipc[s] = "init" /\ first[s] \in Rejected
    /\ ipc' = [ipc EXCEPT ![s] = "cleanup"]
    /\ UNCHANGED <<ub, cs, nfault, table, state, ch, chOpen, upc, first, cur, rip, dest, dl, sock, pk, cli, seen, inbox, got, has, sent, back, spc, rloop, nsend, nreply, ntimer>>
    /\ act' = [n |-> "InitFail", s |-> s, at |-> "route"]

\* I: routing and client.NewSession succeeded, creating the session's own socket fails (EMFILE, a refused socket option):
\* the client session that already exists is closed before the goroutine gives up
InitFailSock(s) ==
    /\ ipc[s] = "init" /\ first[s] \notin Rejected /\ nfault < MaxFault
    /\ nfault' = nfault + 1
    /\ cs' = [cs EXCEPT ![s] = "closed"]
    /\ ipc' = [ipc EXCEPT ![s] = "cleanup"]
    /\ UNCHANGED <<ub, table, state, ch, chOpen, upc, first, cur, rip, dest, dl, sock, pk, cli, seen, inbox, got, has, sent, back, spc, rloop, nsend, nreply, ntimer>>
    /\ act' = [n |-> "InitFail", s |-> s, at |-> "socket"]

\* I: oldState := entry.state.Swap(natConn)
Swap(s) ==
    /\ ipc[s] = "swap"
    /\ IF state[s] = "nil"
         THEN /\ state' = [state EXCEPT ![s] = "nat"]
              /\ upc' = [upc EXCEPT ![s] = "idle"]
              /\ ipc' = [ipc EXCEPT ![s] = "read"]
              /\ sock' = sock /\ cs' = cs
              /\ act' = [n |-> "Swap", s |-> s, out |-> "started"]
         ELSE /\ state' = state /\ upc' = upc         \* Stop was first: close and give up
              /\ sock' = [sock EXCEPT ![s] = "closed"] /\ cs' = [cs EXCEPT ![s] = "closed"]
              /\ ipc' = [ipc EXCEPT ![s] = "cleanup"]
              /\ act' = [n |-> "Swap", s |-> s, out |-> "aborted"]
    /\ UNCHANGED <<ub, nfault, table, ch, chOpen, first, cur, rip, dest, dl, pk, cli, seen, inbox, got, has, sent, back, spc, rloop, nsend, nreply, ntimer>>

\* U: queuedPacket := <-natConnSendCh
UpDequeue(s) ==
    /\ upc[s] = "idle" /\ ch[s] # <<>>
    /\ cur' = [cur EXCEPT ![s] = Head(ch[s])] /\ ch' = [ch EXCEPT ![s] = Tail(@)]
    /\ IF Head(ch[s]) \in Domains
         THEN upc' = [upc EXCEPT ![s] = "chk"] /\ dest' = dest
         ELSE upc' = [upc EXCEPT ![s] = IF UpBatch THEN "ip" ELSE "send"] /\ dest' = [dest EXCEPT ![s] = Head(ch[s])]
    /\ UNCHANGED <<ub, cs, nfault, table, state, chOpen, ipc, first, rip, dl, sock, pk, cli, seen, inbox, got, has, sent, back, spc, rloop, nsend, nreply, ntimer>>
    /\ act' = [n |-> "UpDequeue", s |-> s, t |-> Head(ch[s])]

\* U: the channel is closed and drained: natConn.Close(), clientSession.Close()
UpClosed(s) ==
    /\ upc[s] = "idle" /\ ch[s] = <<>> /\ ~chOpen[s]
    /\ upc' = [upc EXCEPT ![s] = "done"] /\ sock' = [sock EXCEPT ![s] = "closed"] /\ cs' = [cs EXCEPT ![s] = "closed"]
    /\ UNCHANGED <<ub, nfault, table, state, ch, chOpen, ipc, first, cur, rip, dest, dl, pk, cli, seen, inbox, got, has, sent, back, spc, rloop, nsend, nreply, ntimer>>
    /\ act' = [n |-> "UpClosed", s |-> s]

\* DirectPacketClientPacker.updateDomainIPCache / PackInPlace, four steps
PackChk(s) ==
    /\ upc[s] = "chk"
    /\ upc' = [upc EXCEPT ![s] = IF pk[Owner(s)].dom = cur[s] THEN "lod" ELSE "res"]
    /\ UNCHANGED <<ub, cs, nfault, table, state, ch, chOpen, ipc, first, cur, rip, dest, dl, sock, pk, cli, seen, inbox, got, has, sent, back, spc, rloop, nsend, nreply, ntimer>>
    /\ act' = [n |-> "PackChk", s |-> s, out |-> IF pk[Owner(s)].dom = cur[s] THEN "hit" ELSE "miss"]
\* ResolveIP(ctx, ...): the manager's context is cancelled when shutdown begins, the lookup then fails,
\* the packet is dropped ("Failed to pack packet") and the uplink goes back to the channel without re-arming
ResOk(s) == spc = "idle" /\ cur[s] \notin Unresolvable
PackRes(s) ==
    /\ upc[s] = "res" /\ ~(UpBatch /\ ub[s] # <<>> /\ ~ResOk(s))
    /\ IF spc = "idle" /\ cur[s] \notin Unresolvable
         THEN /\ rip' = [rip EXCEPT ![s] = IpOf(cur[s])] /\ upc' = [upc EXCEPT ![s] = "sto"]
              /\ act' = [n |-> "PackRes", s |-> s, out |-> "ok"]
         ELSE /\ rip' = rip /\ upc' = [upc EXCEPT ![s] = "idle"]
              /\ act' = [n |-> "PackRes", s |-> s, out |-> IF spc = "idle" THEN "failed" ELSE "cancelled"]
    /\ UNCHANGED <<ub, cs, nfault, table, state, ch, chOpen, ipc, first, cur, dest, dl, sock, pk, cli, seen, inbox, got, has, sent, back, spc, rloop, nsend, nreply, ntimer>>
PackSto(s) ==
    /\ upc[s] = "sto"
    /\ pk' = [pk EXCEPT ![Owner(s)] = [dom |-> cur[s], ip |-> rip[s]]] /\ upc' = [upc EXCEPT ![s] = "lod"]
    /\ UNCHANGED <<ub, cs, nfault, table, state, ch, chOpen, ipc, first, cur, rip, dest, dl, sock, cli, seen, inbox, got, has, sent, back, spc, rloop, nsend, nreply, ntimer>>
    /\ act' = [n |-> "PackSto", s |-> s]
PackLod(s) ==
    /\ ~UpBatch /\ upc[s] = "lod"
    /\ dest' = [dest EXCEPT ![s] = pk[Owner(s)].ip] /\ upc' = [upc EXCEPT ![s] = "send"]
    /\ UNCHANGED <<ub, cs, nfault, table, state, ch, chOpen, ipc, first, cur, rip, dl, sock, pk, cli, seen, inbox, got, has, sent, back, spc, rloop, nsend, nreply, ntimer>>
    /\ act' = [n |-> "PackLod", s |-> s, out |-> pk[Owner(s)].ip]

\* ---- batched uplink (relayServerConnToNatConnSendmmsg): after a packet has been packed, or dropped while the batch is not
\* empty, the loop takes the next queued packet without blocking; when there is none, everything packed so far is
\* written with one sendmmsg call, each datagram to the destination packed for it
AfterPack(s, b) ==
    IF ch[s] # <<>>
      THEN /\ cur' = [cur EXCEPT ![s] = Head(ch[s])] /\ ch' = [ch EXCEPT ![s] = Tail(@)]
           /\ upc' = [upc EXCEPT ![s] = IF Head(ch[s]) \in Domains THEN "chk" ELSE "ip"]
           /\ ub' = [ub EXCEPT ![s] = b] /\ sent' = sent /\ has' = has
      ELSE /\ cur' = cur /\ ch' = ch
           /\ upc' = [upc EXCEPT ![s] = IF b = <<>> THEN "idle" ELSE "rearm"]
           /\ ub' = [ub EXCEPT ![s] = <<>>]
           /\ sent' = sent \cup {[s |-> s, t |-> b[i].t, to |-> b[i].to] : i \in 1..Len(b)}
           /\ has' = IF b = <<>> THEN has ELSE [has EXCEPT ![s] = TRUE]
NextOf(s) == IF ch[s] # <<>> THEN Head(ch[s]) ELSE None
UpPack(s) ==
    /\ UpBatch /\ upc[s] \in {"ip", "lod"}
    /\ LET to == IF upc[s] = "ip" THEN cur[s] ELSE pk[Owner(s)].ip
           b == Append(ub[s], [t |-> cur[s], to |-> to]) IN
         /\ dest' = [dest EXCEPT ![s] = to]
         /\ AfterPack(s, b)
         /\ act' = [n |-> "UpPack", s |-> s, t |-> cur[s], to |-> to, next |-> NextOf(s),
                    flush |-> IF ch[s] # <<>> THEN <<>> ELSE b]
    /\ UNCHANGED <<cs, nfault, table, state, chOpen, ipc, first, rip, dl, sock, pk, cli, seen, inbox, got, back, spc, rloop, nsend, nreply, ntimer>>
PackResB(s) ==
    /\ UpBatch /\ upc[s] = "res" /\ ub[s] # <<>> /\ ~ResOk(s)
    /\ AfterPack(s, ub[s])
    /\ act' = [n |-> "PackRes", s |-> s, out |-> IF spc = "idle" THEN "failed" ELSE "cancelled", next |-> NextOf(s),
               flush |-> IF ch[s] # <<>> THEN <<>> ELSE ub[s]]
    /\ UNCHANGED <<cs, nfault, table, state, chOpen, ipc, first, rip, dest, dl, sock, pk, cli, seen, inbox, got, back, spc, rloop, nsend, nreply, ntimer>>

\* U: natConn.WriteToUDPAddrPort / WriteMsgs
UpSend(s) ==
    /\ ~UpBatch /\ upc[s] = "send"
    /\ sent' = sent \cup {[s |-> s, t |-> cur[s], to |-> dest[s]]}
    /\ has' = [has EXCEPT ![s] = TRUE]
    /\ upc' = [upc EXCEPT ![s] = "rearm"]
    /\ UNCHANGED <<ub, cs, nfault, table, state, ch, chOpen, ipc, first, cur, rip, dest, dl, sock, pk, cli, seen, inbox, got, back, spc, rloop, nsend, nreply, ntimer>>
    /\ act' = [n |-> "UpSend", s |-> s, t |-> cur[s], to |-> dest[s]]

\* U: natConn.SetReadDeadline(now + natTimeout)  [+ the guard, when present]
UpRearm(s) ==
    /\ upc[s] = "rearm"
    /\ dl' = [dl EXCEPT ![s] = IF RearmGuard /\ state[s] = "srv" THEN "past" ELSE "future"]
    /\ upc' = [upc EXCEPT ![s] = "idle"]
    /\ UNCHANGED <<ub, cs, nfault, table, state, ch, chOpen, ipc, first, cur, rip, dest, sock, pk, cli, seen, inbox, got, has, sent, back, spc, rloop, nsend, nreply, ntimer>>
    /\ act' = [n |-> "UpRearm", s |-> s]

\* the target answers: a datagram arrives at the session's socket ("big": one that the server packer will refuse
\* because it does not fit the client's path MTU)
TargetReply(s, k) ==
    /\ has[s] /\ sock[s] = "open" /\ nreply[s] < MaxReply
    /\ nreply' = [nreply EXCEPT ![s] = @ + 1]
    /\ inbox' = [inbox EXCEPT ![s] = Append(@, k)]
    /\ UNCHANGED <<ub, cs, nfault, table, state, ch, chOpen, ipc, upc, first, cur, rip, dest, dl, sock, pk, cli, seen, got, has, sent, back, spc, rloop, nsend, ntimer>>
    /\ act' = [n |-> "TargetReply", s |-> s, k |-> k]
\* I (downlink): ReadMsgUDPAddrPort returns one datagram / ReadMsgs returns everything that has arrived
DlRead(s) ==
    /\ ipc[s] = "read" /\ dl[s] = "future" /\ inbox[s] # <<>>
    /\ got' = [got EXCEPT ![s] = IF Batch THEN inbox[s] ELSE <<Head(inbox[s])>>]
    /\ inbox' = [inbox EXCEPT ![s] = IF Batch THEN <<>> ELSE Tail(inbox[s])]
    /\ ipc' = [ipc EXCEPT ![s] = "reply"]
    /\ UNCHANGED <<ub, cs, nfault, table, state, ch, chOpen, upc, first, cur, rip, dest, dl, sock, pk, cli, seen, has, sent, back, spc, rloop, nsend, nreply, ntimer>>
    /\ act' = [n |-> "DlRead", s |-> s, k |-> Len(got'[s])]
\* I (downlink): unpack, pack for the client (an oversized one is dropped), send what was packed - and only that -
\* to the session's recorded client address
Oks(q) == Len(SelectSeq(q, LAMBDA x : x = "ok"))
DlSendBack(s) ==
    /\ ipc[s] = "reply"
    /\ back' = IF Oks(got[s]) > 0 THEN back \cup {[s |-> s, to |-> seen[s]]} ELSE back
    /\ got' = [got EXCEPT ![s] = <<>>]
    /\ ipc' = [ipc EXCEPT ![s] = "read"]
    /\ UNCHANGED <<ub, cs, nfault, table, state, ch, chOpen, upc, first, cur, rip, dest, dl, sock, pk, cli, seen, inbox, has, sent, spc, rloop, nsend, nreply, ntimer>>
    /\ act' = [n |-> "DlSendBack", s |-> s, to |-> seen[s], k |-> Oks(got[s]), drop |-> Len(got[s]) - Oks(got[s])]
\* I (downlink): the read returns os.ErrDeadlineExceeded
DlTimeout(s) ==
    /\ ipc[s] = "read" /\ dl[s] = "past"
    /\ ipc' = [ipc EXCEPT ![s] = "cleanup"]
    /\ UNCHANGED <<ub, cs, nfault, table, state, ch, chOpen, upc, first, cur, rip, dest, dl, sock, pk, cli, seen, inbox, got, has, sent, back, spc, rloop, nsend, nreply, ntimer>>
    /\ act' = [n |-> "DlTimeout", s |-> s]

\* the NAT timeout elapses without the uplink re-arming (only before shutdown, see StopTerminates)
TimerFire(s) ==
    /\ spc = "idle" /\ dl[s] = "future" /\ ntimer < MaxTimer
    /\ dl' = [dl EXCEPT ![s] = "past"] /\ ntimer' = ntimer + 1
    /\ UNCHANGED <<ub, cs, nfault, table, state, ch, chOpen, ipc, upc, first, cur, rip, dest, sock, pk, cli, seen, inbox, got, has, sent, back, spc, rloop, nsend, nreply>>
    /\ act' = [n |-> "TimerFire", s |-> s]

\* I: deferred: s.mu.Lock(); close(natConnSendCh); delete(s.table, key); s.mu.Unlock(); drain if the uplink never ran
Cleanup(s) ==
    /\ ipc[s] = "cleanup"
    /\ chOpen' = [chOpen EXCEPT ![s] = FALSE] /\ table' = table \ {s}
    /\ ch' = IF upc[s] = "none" THEN [ch EXCEPT ![s] = <<>>] ELSE ch
    /\ sock' = IF upc[s] = "none" /\ sock[s] = "open" THEN [sock EXCEPT ![s] = "closed"] ELSE sock
    /\ ipc' = [ipc EXCEPT ![s] = "done"]
    /\ cs' = IF upc[s] = "none" /\ cs[s] = "open" THEN [cs EXCEPT ![s] = "closed"] ELSE cs
    /\ UNCHANGED <<ub, nfault, state, upc, first, cur, rip, dest, dl, pk, cli, seen, inbox, got, has, sent, back, spc, rloop, nsend, nreply, ntimer>>
    /\ act' = [n |-> "Cleanup", s |-> s]

\* Stop: serverConn.SetReadDeadline(past); the receive loop ends
StopBegin ==
    /\ spc = "idle"
    /\ spc' = "waitrecv"
    /\ UNCHANGED <<ub, cs, nfault, table, state, ch, chOpen, ipc, upc, first, cur, rip, dest, dl, sock, pk, cli, seen, inbox, got, has, sent, back, rloop, nsend, nreply, ntimer>>
    /\ act' = [n |-> "StopBegin"]
RecvLoopEnd ==
    /\ spc = "waitrecv" /\ rloop = "run"
    /\ rloop' = "done"
    /\ UNCHANGED <<ub, cs, nfault, table, state, ch, chOpen, ipc, upc, first, cur, rip, dest, dl, sock, pk, cli, seen, inbox, got, has, sent, back, spc, nsend, nreply, ntimer>>
    /\ act' = [n |-> "RecvLoopEnd"]
\* s.mwg.Wait() returned; under s.mu: swap every entry's state, force initialised natConns' deadline into the past
StopSwapAll ==
    /\ spc = "waitrecv" /\ rloop = "done"
    /\ state' = [s \in Sess |-> IF s \in table THEN "srv" ELSE state[s]]
    /\ dl' = [s \in Sess |-> IF s \in table /\ state[s] = "nat" THEN "past" ELSE dl[s]]
    /\ spc' = "waitall"
    /\ UNCHANGED <<ub, cs, nfault, table, ch, chOpen, ipc, upc, first, cur, rip, dest, sock, pk, cli, seen, inbox, got, has, sent, back, rloop, nsend, nreply, ntimer>>
    /\ act' = [n |-> "StopSwapAll"]
\* s.wg.Wait() returned; listeners closed
StopEnd ==
    /\ spc = "waitall" /\ \A s \in Sess : Gone(s)
    /\ spc' = "done"
    /\ UNCHANGED <<ub, cs, nfault, table, state, ch, chOpen, ipc, upc, first, cur, rip, dest, dl, sock, pk, cli, seen, inbox, got, has, sent, back, rloop, nsend, nreply, ntimer>>
    /\ act' = [n |-> "StopEnd"]

SessionStep(s) ==
    \/ InitOk(s) \/ InitFail(s) \/ InitFailSock(s) \/ Swap(s) \/ UpDequeue(s) \/ UpClosed(s)
    \/ PackChk(s) \/ PackRes(s) \/ PackResB(s) \/ PackSto(s) \/ PackLod(s) \/ UpPack(s) \/ UpSend(s) \/ UpRearm(s)
    \/ DlRead(s) \/ DlSendBack(s) \/ DlTimeout(s) \/ Cleanup(s)

Next ==
    \/ \E s \in Sess, t \in Targets : RecvPkt(s, t)
    \/ \E s \in Sess : SessionStep(s) \/ (\E k \in {"ok", "big"} : TargetReply(s, k)) \/ TimerFire(s) \/ Move(s) \/ Forged(s) \/ Garbage(s)
    \/ StopBegin \/ RecvLoopEnd \/ StopSwapAll \/ StopEnd

\* goroutine steps are weakly fair; clients, targets and timers are not obliged to act
Fairness ==
    /\ \A s \in Sess : WF_vars(SessionStep(s))
    /\ WF_vars(RecvLoopEnd) /\ WF_vars(StopSwapAll) /\ WF_vars(StopEnd)

Spec == Init /\ [][Next]_vars /\ Fairness

-----------------------------------------------------------------------------
TypeOK ==
    /\ table \subseteq Sess
    /\ \A s \in Sess : Len(ch[s]) <= ChanCap

\* C12: a packet is only ever queued to an open channel (same mutex as close+delete)
NoSendOnClosed == \A s \in table : chOpen[s]

\* C12: when Stop has returned nothing is left: no goroutine, no socket, empty table
NoLeak ==
    spc = "done" => /\ table = {}
                    /\ \A s \in Sess : Gone(s) /\ sock[s] # "open" /\ cs[s] # "open"

\* a finished session has released its socket
SocketReleased == \A s \in Sess : (ipc[s] = "done" /\ upc[s] \in {"none", "done"}) => (sock[s] # "open" /\ cs[s] # "open")

\* C11: every datagram leaves towards the address of the target its own session named
RightDestination == \A x \in sent : x.to = IpOf(x.t)

\* batched uplink: a batch is held only while the uplink is between its first pack and the write
BatchHeldOnlyWhilePacking == \A s \in Sess : ub[s] # <<>> => (UpBatch /\ upc[s] \in {"chk", "res", "sto", "lod", "ip"})

\* C11: replies go to the client that owns the session (by construction of DlSendBack; the replay checks the real thing)
RepliesToOwner == \A b \in back : (\E x \in sent : x.s = b.s) /\ b.to \in {1, 2}

\* C12 liveness: once Stop has begun it returns, without any NAT timer firing (TimerFire is disabled after StopBegin)
StopTerminates == (spc # "idle") ~> (spc = "done")

\* C12 liveness: a session whose deadline passed is torn down
IdleEvicts == \A s \in Sess :
    (ipc[s] = "read" /\ dl[s] = "past" /\ upc[s] = "idle" /\ ch[s] = <<>> /\ nsend[s] = MaxSend) ~> (s \notin table)
=============================================================================
