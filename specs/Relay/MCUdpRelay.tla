---------------------------- MODULE MCUdpRelay ----------------------------
EXTENDS UdpRelay, Json
MCTargets == ${Targets}
MCDomains == ${Domains}
MCRejected == ${Rejected}
MCUnresolvable == ${Unresolvable}
View == sv
Obs == [table |-> table, sent |-> sent, back |-> back]
Emit == PrintT("EDGE " \o ToJson([f |-> sv, a |-> act', t |-> sv', o |-> Obs']))
EmitInit == PrintT("INIT " \o ToJson([t |-> sv, o |-> Obs]))
InitE == Init /\ EmitInit
SpecE == InitE /\ [][Next]_vars /\ Fairness
=============================================================================
