---------------------------- MODULE MCTcpRelay ----------------------------
EXTENDS TcpRelay, Json
MCCodes == ${Codes}
View == sv
Emit == PrintT("EDGE " \o ToJson([f |-> sv, a |-> act', t |-> sv']))
EmitInit == PrintT("INIT " \o ToJson([t |-> sv]))
InitE == Init /\ EmitInit
SpecE == InitE /\ [][Next]_vars /\ WF_vars(RelayStep)
=============================================================================
