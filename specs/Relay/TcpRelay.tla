------------------------------ MODULE TcpRelay ------------------------------
(* One accepted connection of the TCP relay.                                *)
(* Code: service/tcp.go TCPRelay.handleConn, netio/stream.go                 *)
(* BidirectionalCopy, router.Router.GetTCPClient, conn/dialresult.go.        *)
(*                                                                          *)
(* Streams are byte positions: the client sends cs bytes to the relay in     *)
(* order, the target gets the prefix tg of them; symmetric for ts / cg.      *)
(* Loss, repetition and reordering are visible as position mismatches in the *)
(* replay; here they are counters with the invariants relating them.         *)
EXTENDS Integers, Sequences, FiniteSets, TLC

CONSTANTS
    ServerNative,   \* BOOLEAN: the server protocol carries the initial payload in its request (ss2022)
    ClientNative,   \* BOOLEAN: the chosen client can send the initial payload with its request
    ListenerWait,   \* BOOLEAN: the listener allows waiting (not disableInitialPayloadWait)
    MaxBytes,       \* bytes each side may send (scaled)
    Codes           \* dial failure codes (conn.DialResultCode names) plus "ok"

VARIABLES
    phase,      \* "accepted","routed","waiting","dial","copy","closed"
    rejected,   \* the router rejected the request
    reqp,       \* bytes of initial payload delivered inside the server protocol's request
    cs, cclosed,\* client: bytes sent after the handshake / write side closed
    ts, tclosed,\* target: bytes sent / write side closed
    tabort,     \* the target reset the connection (RST): nothing more can be delivered to it
    buf,        \* bytes the relay read from the client while waiting for the initial payload
    waited,     \* the relay waited (and therefore signalled success first)
    dialp,      \* bytes handed to DialStream as initial payload
    tg, cg,     \* bytes the target / the client have received
    l2r, r2l,   \* bytes moved by the two copy loops
    l2rdone, r2ldone,
    tshut, cshut,\* the relay has shut down its write side towards the target / the client
    reply,      \* what the client was told: "none", "ok", or a failure code
    stats,      \* <<uplink, downlink>> handed to the collector, or <<-1,-1>>
    act

sv == <<phase, rejected, reqp, cs, cclosed, ts, tclosed, tabort, buf, waited, dialp, tg, cg, l2r, r2l, l2rdone, r2ldone, tshut, cshut, reply, stats>>
vars == <<sv, act>>

WaitDecision == reqp = 0 /\ ClientNative /\ ListenerWait /\ ~ServerNative

Init ==
    /\ phase = "accepted" /\ rejected \in BOOLEAN
    /\ reqp \in (IF ServerNative THEN 0..1 ELSE {0})
    /\ cs = 0 /\ cclosed = FALSE /\ ts = 0 /\ tclosed = FALSE /\ tabort = FALSE
    /\ buf = 0 /\ waited = FALSE /\ dialp = 0 /\ tg = 0 /\ cg = 0 /\ l2r = 0 /\ r2l = 0
    /\ l2rdone = FALSE /\ r2ldone = FALSE /\ tshut = FALSE /\ cshut = FALSE
    /\ reply = "none" /\ stats = <<-1, -1>>
    /\ act = [n |-> "Init"]

\* the client may write to the relay as soon as its handshake is out (data "sent after" the handshake)
\* (environment assumption: once the target has reset the connection the client sends nothing more - what a relay writes
\* towards a dead connection or a next hop that has not noticed yet may be counted as sent although nobody receives it,
\* and the property's "bytes actually delivered" has no exact meaning for those bytes)
ClientSend(k) ==
    /\ ~cclosed /\ ~tabort /\ cs + k <= MaxBytes /\ phase # "closed"
    /\ cs' = cs + k
    /\ UNCHANGED <<phase, rejected, reqp, cclosed, ts, tclosed, tabort, buf, waited, dialp, tg, cg, l2r, r2l, l2rdone, r2ldone, tshut, cshut, reply, stats>>
    /\ act' = [n |-> "ClientSend", k |-> k]
ClientClose ==
    /\ ~cclosed /\ phase # "closed"
    /\ cclosed' = TRUE
    /\ UNCHANGED <<phase, rejected, reqp, cs, ts, tclosed, tabort, buf, waited, dialp, tg, cg, l2r, r2l, l2rdone, r2ldone, tshut, cshut, reply, stats>>
    /\ act' = [n |-> "ClientClose"]
\* the target may write as soon as it is connected (far side first)
TargetSend(k) ==
    /\ phase = "copy" /\ ~tclosed /\ ts + k <= MaxBytes
    /\ ts' = ts + k
    /\ UNCHANGED <<phase, rejected, reqp, cs, cclosed, tclosed, tabort, buf, waited, dialp, tg, cg, l2r, r2l, l2rdone, r2ldone, tshut, cshut, reply, stats>>
    /\ act' = [n |-> "TargetSend", k |-> k]
TargetClose ==
    /\ phase = "copy" /\ ~tclosed
    /\ tclosed' = TRUE
    /\ UNCHANGED <<phase, rejected, reqp, cs, cclosed, ts, tabort, buf, waited, dialp, tg, cg, l2r, r2l, l2rdone, r2ldone, tshut, cshut, reply, stats>>
    /\ act' = [n |-> "TargetClose"]

\* HandleStream succeeded; router.GetTCPClient
Route ==
    /\ phase = "accepted"
    /\ IF rejected
         THEN /\ phase' = "closed" /\ reply' = "EACCES"       \* req.Abort(DialResultFromError(ErrRejected))
              /\ act' = [n |-> "Route", out |-> "rejected"]
         ELSE /\ phase' = "routed" /\ reply' = reply
              /\ act' = [n |-> "Route", out |-> "ok"]
    /\ UNCHANGED <<rejected, reqp, cs, cclosed, ts, tclosed, tabort, buf, waited, dialp, tg, cg, l2r, r2l, l2rdone, r2ldone, tshut, cshut, stats>>

\* the wait decision; when waiting, success is signalled first (req.Proceed())
Decide ==
    /\ phase = "routed"
    /\ IF WaitDecision
         THEN phase' = "waiting" /\ waited' = TRUE /\ reply' = "ok"
         ELSE phase' = "dial" /\ waited' = FALSE /\ reply' = reply
    /\ UNCHANGED <<rejected, reqp, cs, cclosed, ts, tclosed, tabort, buf, dialp, tg, cg, l2r, r2l, l2rdone, r2ldone, tshut, cshut, stats>>
    /\ act' = [n |-> "Decide", out |-> IF WaitDecision THEN "wait" ELSE "nowait"]

\* clientConn.Read(req.Payload) under the initial payload wait deadline: some of what the client has
\* sent so far (at least one byte if any is there), or EOF, or the timeout
ReadInitial ==
    /\ phase = "waiting"
    /\ \E k \in 0..cs :
         /\ buf' = k
         /\ act' = [n |-> "ReadInitial", k |-> k, eof |-> (cclosed /\ k = cs)]
    /\ phase' = "dial"
    /\ UNCHANGED <<rejected, reqp, cs, cclosed, ts, tclosed, tabort, waited, dialp, tg, cg, l2r, r2l, l2rdone, r2ldone, tshut, cshut, reply, stats>>

\* dialer.DialStream(ctx, req.Addr, req.Payload)
Dial(code) ==
    /\ phase = "dial"
    /\ dialp' = reqp + buf
    /\ IF code = "ok"
         THEN /\ phase' = "copy" /\ tg' = reqp + buf
              /\ reply' = "ok"                                 \* Proceed() now, unless done before waiting
         ELSE /\ phase' = "closed" /\ tg' = tg
              /\ reply' = IF waited THEN reply ELSE code       \* Abort(code) only if success was not signalled
    /\ UNCHANGED <<rejected, reqp, cs, cclosed, ts, tclosed, tabort, buf, waited, cg, l2r, r2l, l2rdone, r2ldone, tshut, cshut, stats>>
    /\ act' = [n |-> "Dial", code |-> code, payload |-> reqp + buf]

\* io.Copy(right, left): moves the client's bytes beyond the initial payload
CopyL2R(k) ==
    /\ phase = "copy" /\ ~l2rdone /\ ~tabort /\ k > 0 /\ buf + l2r + k <= cs
    /\ l2r' = l2r + k /\ tg' = tg + k
    /\ UNCHANGED <<phase, rejected, reqp, cs, cclosed, ts, tclosed, tabort, buf, waited, dialp, cg, r2l, l2rdone, r2ldone, tshut, cshut, reply, stats>>
    /\ act' = [n |-> "CopyL2R", k |-> k]
\* EOF from the client after everything was moved: right.CloseWrite()
L2REof ==
    /\ phase = "copy" /\ ~l2rdone /\ cclosed /\ buf + l2r = cs
    /\ l2rdone' = TRUE /\ tshut' = TRUE
    /\ UNCHANGED <<phase, rejected, reqp, cs, cclosed, ts, tclosed, tabort, buf, waited, dialp, tg, cg, l2r, r2l, r2ldone, cshut, reply, stats>>
    /\ act' = [n |-> "L2REof"]
CopyR2L(k) ==
    /\ phase = "copy" /\ ~r2ldone /\ k > 0 /\ r2l + k <= ts
    /\ r2l' = r2l + k /\ cg' = cg + k
    /\ UNCHANGED <<phase, rejected, reqp, cs, cclosed, ts, tclosed, tabort, buf, waited, dialp, tg, l2r, l2rdone, r2ldone, tshut, cshut, reply, stats>>
    /\ act' = [n |-> "CopyR2L", k |-> k]
R2LEof ==
    /\ phase = "copy" /\ ~r2ldone /\ tclosed /\ r2l = ts
    /\ r2ldone' = TRUE /\ cshut' = TRUE
    /\ UNCHANGED <<phase, rejected, reqp, cs, cclosed, ts, tclosed, tabort, buf, waited, dialp, tg, cg, l2r, r2l, l2rdone, tshut, reply, stats>>
    /\ act' = [n |-> "R2LEof"]

\* the target resets the connection (RST) after everything it sent was relayed, whether or not the client has finished:
\* the target-to-client copy ends with an error (the client is told end-of-stream), nothing more can be delivered to the
\* target, and the session still has to be accounted with what was delivered until then
TargetAbort ==
    /\ phase = "copy" /\ ~r2ldone /\ ~tclosed /\ r2l = ts
    /\ (l2rdone \/ buf + l2r = cs)     \* (the relay moves what it has at once: nothing of the client's is still waiting)
    /\ tclosed' = TRUE /\ tabort' = TRUE /\ r2ldone' = TRUE /\ cshut' = TRUE
    /\ UNCHANGED <<phase, rejected, reqp, cs, cclosed, ts, buf, waited, dialp, tg, cg, l2r, r2l, l2rdone, tshut, reply, stats>>
    /\ act' = [n |-> "TargetAbort"]
\* both loops ended: CollectTCPSession(username, nr2l, nl2r + len(payload)); connections closed
Collect ==
    /\ phase = "copy" /\ l2rdone /\ r2ldone
    /\ stats' = <<l2r + dialp, r2l>>
    /\ phase' = "closed"
    /\ UNCHANGED <<rejected, reqp, cs, cclosed, ts, tclosed, tabort, buf, waited, dialp, tg, cg, l2r, r2l, l2rdone, r2ldone, tshut, cshut, reply>>
    /\ act' = [n |-> "Collect", up |-> l2r + dialp, down |-> r2l]

Next ==
    \/ \E k \in 1..MaxBytes : ClientSend(k) \/ TargetSend(k) \/ CopyL2R(k) \/ CopyR2L(k)
    \/ ClientClose \/ TargetClose \/ TargetAbort \/ Route \/ Decide \/ ReadInitial \/ L2REof \/ R2LEof \/ Collect
    \/ \E c \in Codes : Dial(c)

\* the relay's own steps (the peers are not obliged to do anything)
RelayStep == Route \/ Decide \/ ReadInitial \/ L2REof \/ R2LEof \/ Collect \/ (\E k \in 1..MaxBytes : CopyL2R(k) \/ CopyR2L(k))
Spec == Init /\ [][Next]_vars /\ WF_vars(RelayStep)

-----------------------------------------------------------------------------
\* the target receives a prefix of what the client sent (request payload + stream), nothing invented
TargetGetsPrefix == tg <= reqp + cs /\ (tg > 0 => tg = dialp + l2r)
ClientGetsPrefix == cg <= ts /\ cg = r2l
\* bytes read while waiting are in the dial payload and nowhere else
InitialPayloadOnce == phase \in {"copy", "closed"} /\ reply = "ok" => dialp = reqp + buf
\* failure reply unless success had to be signalled first
FailureReply ==
    (phase = "closed" /\ stats = <<-1, -1>> /\ ~rejected) => (waited => reply = "ok") /\ (~waited => reply \in Codes \ {"ok"})
RejectReply == (phase = "closed" /\ rejected) => reply = "EACCES"
\* half-close is mirrored only after everything was moved, and the other direction may continue
HalfClose == (tshut => cclosed /\ tg = reqp + cs) /\ (cshut => tclosed /\ cg = ts)
\* the figures handed to statistics are the bytes delivered each way
StatsEqualDelivered == stats # <<-1, -1>> => stats = <<tg, cg>>
\* every connection ends (under fairness of the relay's own steps, when both ends close)
Terminates == (cclosed /\ tclosed /\ phase = "copy") ~> (phase = "closed")
=============================================================================
