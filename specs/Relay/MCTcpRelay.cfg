CONSTANTS
  ServerNative = ${ServerNative}
  ClientNative = ${ClientNative}
  ListenerWait = ${ListenerWait}
  MaxBytes = ${MaxBytes}
  Codes <- MCCodes
SPECIFICATION SpecE
VIEW View
${EMIT}
INVARIANTS TargetGetsPrefix ClientGetsPrefix InitialPayloadOnce FailureReply RejectReply HalfClose StatsEqualDelivered
PROPERTIES Terminates
CHECK_DEADLOCK FALSE
