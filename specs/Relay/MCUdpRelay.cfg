CONSTANTS
  Sess = ${Sess}
  Targets <- MCTargets
  Domains <- MCDomains
  ChanCap = ${ChanCap}
  MaxSend = ${MaxSend}
  MaxReply = ${MaxReply}
  MaxTimer = ${MaxTimer}
  SharedPacker = ${SharedPacker}
  RearmGuard = ${RearmGuard}
  Rejected <- MCRejected
  Unresolvable <- MCUnresolvable
  Keyed = ${Keyed}
  Batch = ${Batch}
  GarbageOn = ${GarbageOn}
  UpBatch = ${UpBatch}
  MaxFault = ${MaxFault}
SPECIFICATION SpecE
VIEW View
${EMIT}
INVARIANTS TypeOK NoSendOnClosed NoLeak SocketReleased RightDestination RepliesToOwner BatchHeldOnlyWhilePacking
${PROPS}
CHECK_DEADLOCK FALSE
