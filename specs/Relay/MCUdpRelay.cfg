CONSTANTS
  Sess = ${Sess}
  Targets <- MCTargets
  Domains <- MCDomains
  ChanCap = ${ChanCap}
  MaxSend = ${MaxSend}
  MaxReply = ${MaxReply}
  MaxTimer = ${MaxTimer}
  SharedPacker = ${SharedPacker}
  RearmGuard = ${RearmGuard}
  Rejected <- MCRejected
  Unresolvable <- MCUnresolvable
  Keyed = ${Keyed}
  Batch = ${Batch}
  GarbageOn = ${GarbageOn}
SPECIFICATION SpecE
VIEW View
${EMIT}
INVARIANTS TypeOK NoSendOnClosed NoLeak SocketReleased RightDestination RepliesToOwner
${PROPS}
CHECK_DEADLOCK FALSE
