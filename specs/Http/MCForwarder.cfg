CONSTANTS
  QueueCap = ${QueueCap}
  ReqMsgs <- MCReqMsgs
  RespMsgs <- MCRespMsgs
  ReqDef <- MCReqDef
  RespDef <- MCRespDef
  ReqNext <- MCReqNext
  RespNext <- MCRespNext
  MaxReq = ${MaxReq}
  MaxResp = ${MaxResp}
  AuthModes <- MCAuthModes
  Closers <- MCClosers
  Sync = ${Sync}
INIT InitE
NEXT Next
VIEW View
${EMIT}
${CONSTRAINT}
INVARIANTS TypeOK QueueBound NoDrop NothingBeforeAuth Filtered InOrder WrongHostNeverSent OtherOriginEnds SpellingDecides CloseEnds InterimNotFinal Terminates HalfTerminates
PROPERTIES NothingAfterEnd
CHECK_DEADLOCK FALSE
