------------------------------ MODULE Forwarder ------------------------------
(* Plain-HTTP (non-CONNECT) proxying of httpproxy/server.go:                  *)
(*   ServerHandle            the 407 loop, CONNECT fast-track, Host -> target *)
(*   serverNonConnectPendingConn.Proceed / Abort                              *)
(*   serverForwardRequests   goroutine "F" (client -> origin)                 *)
(*   serverForwardResponses  goroutine "R" (origin -> client)                 *)
(*   removeConnectionSpecificFields, delete(Upgrade)   the field filter       *)
(* over netio pipes (netio/pipe.go: one done channel and one error per        *)
(* direction).                                                                *)
(*                                                                            *)
(* Messages are abstract records.  A request is                               *)
(*   [m  method: "GET","HEAD","POST","CONNECT", or "BAD" (unparsable bytes),  *)
(*    h  host spelling id (DOMAIN HostDef; "" = no/empty Host),               *)
(*    cl  close indication,                                                   *)
(*    au proxy credentials: "none","bad","good",                              *)
(*    hs set of header classes present, bd body kind]                         *)
(* and a response is [st status class, cl, hs, bd].  The driver renders a     *)
(* record to HTTP/1.1 text (random casing, Connection nominations, bodies)    *)
(* and parses the bytes the scripted origin / client received back into the   *)
(* same records.                                                              *)
(*                                                                            *)
(* The environment is a scripted client (ClientSend/ClientClose/ClientAbort), *)
(* the service that owns the pending connection (Proceed/Abort) and a         *)
(* scripted origin (OriginSend/OriginClose) that reads everything it is sent. *)
(* The scripts are chosen step by step (sent, osent grow); everything else    *)
(* refers to them by index, so the state stays small.                         *)
EXTENDS Integers, Sequences, FiniteSets, TLC

CONSTANTS
    QueueCap,   \* code: cap(reqCh) in Proceed ("allow pipelining up to 16 requests"); measured on the compiled code
    ReqMsgs,    \* names (1..n) of the request records the client may send
    RespMsgs,   \* names (1..n) of the response records the origin may send
    ReqDef,     \* [ReqMsgs -> request record] (a tuple)
    RespDef,    \* [RespMsgs -> response record] (a tuple)
    ReqNext(_), \* ReqNext(f): subset of ReqMsgs the client may send after its first message f (= ReqMsgs except in lattice
                \* runs and in the host-pair runs, where follow-ups stay in the family of spellings of the first host)
    RespNext,   \* subset of RespMsgs the origin may send after its first message
    MaxReq,     \* bound on the number of client messages
    MaxResp,    \* bound on the number of origin messages (interim + final)
    AuthModes,  \* subset of BOOLEAN: is basic authentication configured (usernameByToken # nil)
    Closers,    \* subset of {"cclose","cabort","ow","orw"}: which close actions the environment may take
    Sync        \* TRUE: the environment acts only when the proxy is quiescent (what a synctest driver can do)

VARIABLES
    authOn,     \* usernameByToken # nil
    phase,      \* "auth" ServerHandle loop | "pending" non-CONNECT PendingConn returned | "cpending" CONNECT PendingConn
                \* | "fwd" both goroutines running | "tunnel" | "failed" ServerHandle error | "aborted" | "done" rw closed
    sent,       \* client script so far: Seq(ReqMsgs)
    cnext,      \* index of the next client message the proxy will parse (rwbr position)
    cclosed,    \* client closed its write side (EOF after the last message)
    cdead,      \* client closed its read side too (proxy writes to rw fail)
    fixedHost,  \* serverForwardRequests: fixedHost := req.Host of the first request
    first,      \* index of the request ServerHandle returned with (0 = none)
    fpc,        \* F: "idle" | "announce" | "write" | "read" | "done"
    fcur,       \* F: index of the request in hand
    reqQ,       \* reqCh: Seq(request index), capacity QueueCap
    qclosed,    \* close(reqCh)
    nann,       \* ghost: number of requests put into reqCh
    rpc,        \* R: "idle" | "peek" | "take" | "read" | "write" | "done"
    rcur,       \* R: index of the request taken from reqCh
    rresp,      \* R: index (in osent) of the response in hand, 0 = none
    respDone,   \* close(respDone)
    osent,      \* origin script so far: Seq([for |-> request index answered, id |-> name in RespMsgs])
    rnext,      \* index of the next origin message R will parse (plbr position)
    oclosedW,   \* origin closed its write side (pr.CloseWrite / pr.Close): R sees EOF after the last message
    oclosedR,   \* origin closed its read side (pr.Close): F's writes fail
    orx,        \* what the origin received: Seq(request index); the message is FilterReq(Rq(i))
    oeof,       \* what the origin's reader saw at the end: "open" | "eof" (CloseWriteWithError(nil)) | "err"
    crx,        \* what the client received: Seq([k, j, q]); k: "407","400","502","200c" (proxy's own) or "fwd":
                \* origin message j, paired by R with request q; the message is FilterResp(Rs(j))
    ceof,       \* client saw EOF (rw.CloseWrite / rw.Close)
    act         \* last action (output only)

sv == <<authOn, phase, sent, cnext, cclosed, cdead, fixedHost, first, fpc, fcur, reqQ, qclosed, nann,
        rpc, rcur, rresp, respDone, osent, rnext, oclosedW, oclosedR, orx, oeof, crx, ceof>>
vars == <<sv, act>>

-----------------------------------------------------------------------------
(* The field filter, stated as the property states it.                       *)
(* Request header classes: "e2e" end-to-end fields, "ua" a User-Agent field,  *)
(* "hop" Keep-Alive / Proxy-Connection / TE, "nom" a field nominated by      *)
(* Connection, "upg" Upgrade; proxy credentials are the au component.        *)
(* Body kinds: "none", "len" (Content-Length), "chunked", "trailer" (chunked  *)
(* with an end-to-end trailer field), "nomtrailer" (chunked with an           *)
(* end-to-end trailer field and one nominated by Connection), and for         *)
(* responses "eof" (delimited by the origin closing).                         *)
ReqClasses == {"e2e", "ua", "hop", "nom", "upg"}
ReqKept == {"e2e", "ua"}
RespClasses == {"e2e", "hop", "nom", "pauth"}
RespKept == {"e2e"}
ReqBodies == {"none", "len", "chunked", "trailer", "nomtrailer"}
RespBodies == ReqBodies \cup {"eof"}
Interims == {"100", "103"}
NoBodyFinals == {"204", "304"}
\* redirects: "301s" Location = the very Host of the request, "307r" a relative Location, and Locations elsewhere:
\* "302o" another domain, "302p" the same domain/address on another port, "302c" the same host in another letter
\* case (IPv6: another spelling of the address), "302d" the same host with the default port written out / left off
ElsewhereRedirects == {"302o", "302p", "302c", "302d"}
Finals == {"200", "404", "301s", "307r"} \cup ElsewhereRedirects \cup NoBodyFinals
FilterBody(b) == IF b = "nomtrailer" THEN "trailer" ELSE b

NoResp == [st |-> "BAD", cl |-> FALSE, hs |-> {}, bd |-> "none"]

-----------------------------------------------------------------------------
(* Hosts.  A request names its destination by a host spelling (the Host      *)
(* field / the authority of an absolute-form target).  HostDef gives, for    *)
(* every spelling id the driver can render, the origin it denotes:           *)
(*   n  the case-folded domain name or the IP address, p  the port (80 when  *)
(*   the spelling has none: hostHeaderToAddr), k  "dom" | "ip4" | "ip6".     *)
(* Two spellings name the same origin iff n and p agree.                     *)
(*   a   origin-a.test:8080        aP  origin-a.test:8081                    *)
(*   aC  ORIGIN-A.Test:8080        aCP Origin-A.TEST:8081                    *)
(*   aN  origin-a.test                                                       *)
(*   b   origin-b.test                                                       *)
(*   d   origin-d.test             dE  origin-d.test:80                      *)
(*   dC  Origin-D.Test             dP  origin-d.test:8080                    *)
(*   i   192.0.2.10:8080           iP  192.0.2.10:8081                       *)
(*   iO  192.0.2.11:8080           iN  192.0.2.10     iE  192.0.2.10:80      *)
(*   v   [2001:db8::1]:8080        vP  [2001:db8::1]:8081                    *)
(*   vC  [2001:DB8:0:0::1]:8080                                              *)
HostDef == [
    a   |-> [n |-> "a",  p |-> 8080, k |-> "dom"],
    aP  |-> [n |-> "a",  p |-> 8081, k |-> "dom"],
    aC  |-> [n |-> "a",  p |-> 8080, k |-> "dom"],
    aCP |-> [n |-> "a",  p |-> 8081, k |-> "dom"],
    aN  |-> [n |-> "a",  p |-> 80,   k |-> "dom"],
    b   |-> [n |-> "b",  p |-> 80,   k |-> "dom"],
    d   |-> [n |-> "d",  p |-> 80,   k |-> "dom"],
    dE  |-> [n |-> "d",  p |-> 80,   k |-> "dom"],
    dC  |-> [n |-> "d",  p |-> 80,   k |-> "dom"],
    dP  |-> [n |-> "d",  p |-> 8080, k |-> "dom"],
    i   |-> [n |-> "i",  p |-> 8080, k |-> "ip4"],
    iP  |-> [n |-> "i",  p |-> 8081, k |-> "ip4"],
    iO  |-> [n |-> "i2", p |-> 8080, k |-> "ip4"],
    iN  |-> [n |-> "i",  p |-> 80,   k |-> "ip4"],
    iE  |-> [n |-> "i",  p |-> 80,   k |-> "ip4"],
    v   |-> [n |-> "v",  p |-> 8080, k |-> "ip6"],
    vP  |-> [n |-> "v",  p |-> 8081, k |-> "ip6"],
    vC  |-> [n |-> "v",  p |-> 8080, k |-> "ip6"]]
HostIds == DOMAIN HostDef
Origin(h) == [n |-> HostDef[h].n, p |-> HostDef[h].p]
\* what C16 means by "a different host": another destination.  "" (no Host) names no origin at all.
SameOrigin(h1, h2) == h1 # "" /\ h2 # "" /\ Origin(h1) = Origin(h2)
\* what the code compares (server.go: req.Host != fixedHost, url.Host vs req.Host): the spellings, as strings.
\* Equal spellings name the same origin; a follow-up (or a Location) that names the same origin in another
\* spelling ends the connection in the code and in this model, which C16 allows but does not demand: the
\* driver reports a proxy that forwards it instead as drift, not as a violation.
SameSpelling(h1, h2) == h1 = h2

\* what the origin must receive for client request r: method, target (host), end-to-end fields and body
\* unchanged; hop-by-hop fields, nominated fields, Upgrade and proxy credentials gone
FilterReq(r) == [m |-> r.m, h |-> r.h, hs |-> r.hs \cap ReqKept, bd |-> FilterBody(r.bd), au |-> "none"]
\* what the code means the client to receive for origin response s (removeConnectionSpecificFields on the
\* response).  C16's filtering sentence is worded for requests; for responses it promises order, interim before
\* final, and bodies.  The driver therefore reports differences in response fields as notes, not violations.
FilterResp(s) == [st |-> s.st, hs |-> s.hs \cap RespKept, bd |-> FilterBody(s.bd)]

Interim(s) == s.st \in Interims
\* serverForwardResponses: resp.Close (Connection: close, or a body delimited by EOF) or a 301/302/307 whose
\* Location does not spell the request's Host
RespCloses(s) == s.cl \/ s.st \in ElsewhereRedirects \/ s.bd = "eof"

Rq(i) == ReqDef[sent[i]]            \* the i-th client message
Rs(j) == RespDef[osent[j].id]       \* the j-th origin message
NFinals == Cardinality({j \in 1..Len(osent) : ~Interim(Rs(j))})
N407 == Cardinality({p \in 1..Len(crx) : crx[p].k = "407"})
Own(k) == [k |-> k, j |-> 0, q |-> 0]

-----------------------------------------------------------------------------
(* Enabling conditions of the proxy's own steps; Quiescent = every goroutine *)
(* of the proxy is blocked (this is what synctest.Wait() waits for).         *)
HandleEn == phase = "auth" /\ (cnext <= Len(sent) \/ cclosed)
FAnnounceEn == phase = "fwd" /\ fpc = "announce" /\ (Len(reqQ) < QueueCap \/ respDone)
FWriteEn == phase = "fwd" /\ fpc = "write"
FReadEn == phase = "fwd" /\ fpc = "read" /\ (cnext <= Len(sent) \/ cclosed)
RPeekEn == phase = "fwd" /\ rpc = "peek" /\ (rnext <= Len(osent) \/ oclosedW)
RTakeEn == phase = "fwd" /\ rpc = "take" /\ (reqQ # <<>> \/ qclosed)
RReadEn == phase = "fwd" /\ rpc = "read" /\ (rnext <= Len(osent) \/ oclosedW)
RWriteEn == phase = "fwd" /\ rpc = "write"
FinishEn == phase = "fwd" /\ fpc = "done" /\ rpc = "done"
Quiescent == ~(HandleEn \/ FAnnounceEn \/ FWriteEn \/ FReadEn \/ RPeekEn \/ RTakeEn \/ RReadEn \/ RWriteEn \/ FinishEn)
EnvOK == ~Sync \/ Quiescent
Terminal == phase \in {"tunnel", "failed", "aborted", "done"}

Init ==
    /\ authOn \in AuthModes
    /\ phase = "auth" /\ sent = <<>> /\ cnext = 1 /\ cclosed = FALSE /\ cdead = FALSE
    /\ fixedHost = "" /\ first = 0
    /\ fpc = "idle" /\ fcur = 0 /\ reqQ = <<>> /\ qclosed = FALSE /\ nann = 0
    /\ rpc = "idle" /\ rcur = 0 /\ rresp = 0 /\ respDone = FALSE
    /\ osent = <<>> /\ rnext = 1 /\ oclosedW = FALSE /\ oclosedR = FALSE
    /\ orx = <<>> /\ oeof = "open" /\ crx = <<>> /\ ceof = FALSE
    /\ act = [n |-> "Init"]

-----------------------------------------------------------------------------
(* Environment: client                                                       *)
ClientSend(id) ==
    /\ EnvOK /\ ~Terminal /\ ~cclosed /\ Len(sent) < MaxReq
    /\ sent # <<>> => id \in ReqNext(sent[1])
    /\ sent' = Append(sent, id)
    /\ act' = [n |-> "ClientSend", i |-> Len(sent) + 1, msg |-> ReqDef[id]]
    /\ UNCHANGED <<authOn, phase, cnext, cclosed, cdead, fixedHost, first, fpc, fcur, reqQ, qclosed, nann,
                   rpc, rcur, rresp, respDone, osent, rnext, oclosedW, oclosedR, orx, oeof, crx, ceof>>

\* the client shuts down its write side: the proxy reads EOF after the last message
ClientClose ==
    /\ "cclose" \in Closers /\ EnvOK /\ ~Terminal /\ ~cclosed
    /\ cclosed' = TRUE
    /\ act' = [n |-> "ClientClose"]
    /\ UNCHANGED <<authOn, phase, sent, cnext, cdead, fixedHost, first, fpc, fcur, reqQ, qclosed, nann,
                   rpc, rcur, rresp, respDone, osent, rnext, oclosedW, oclosedR, orx, oeof, crx, ceof>>

\* the client closes the connection: EOF for the proxy's reads, errors for its writes
ClientAbort ==
    /\ "cabort" \in Closers /\ EnvOK /\ ~Terminal /\ ~cdead
    /\ cclosed' = TRUE /\ cdead' = TRUE
    /\ act' = [n |-> "ClientAbort"]
    /\ UNCHANGED <<authOn, phase, sent, cnext, fixedHost, first, fpc, fcur, reqQ, qclosed, nann,
                   rpc, rcur, rresp, respDone, osent, rnext, oclosedW, oclosedR, orx, oeof, crx, ceof>>

-----------------------------------------------------------------------------
(* ServerHandle: one iteration of the loop (ReadRequest, credential check,   *)
(* 407 or return).  server.go:34-122                                         *)
HandleRequest ==
    /\ HandleEn
    /\ UNCHANGED <<authOn, sent, cclosed, cdead, fpc, reqQ, qclosed, nann, rpc, rcur, rresp, respDone,
                   osent, rnext, oclosedW, oclosedR, orx, oeof>>
    /\ IF cnext > Len(sent)
         THEN \* ReadRequest: io.EOF -> "failed to read HTTP request"; the caller closes the connection
              /\ phase' = "failed" /\ ceof' = TRUE
              /\ UNCHANGED <<cnext, fixedHost, first, fcur, crx>>
              /\ act' = [n |-> "HandleRequest", out |-> "eof"]
         ELSE LET r == Rq(cnext) IN
              /\ cnext' = cnext + 1
              /\ IF r.m = "BAD"
                   THEN /\ phase' = "failed" /\ ceof' = TRUE
                        /\ UNCHANGED <<fixedHost, first, fcur, crx>>
                        /\ act' = [n |-> "HandleRequest", out |-> "readerr"]
                 ELSE IF authOn /\ r.au # "good"
                   THEN \* send407; the round consumes exactly this request; req.Close ends the connection
                        /\ UNCHANGED <<fixedHost, first, fcur>>
                        /\ IF cdead
                             THEN /\ crx' = crx /\ phase' = "failed" /\ ceof' = TRUE
                                  /\ act' = [n |-> "HandleRequest", out |-> "407werr"]
                             ELSE /\ crx' = Append(crx, Own("407"))
                                  /\ IF r.cl THEN phase' = "failed" /\ ceof' = TRUE ELSE phase' = phase /\ ceof' = ceof
                                  /\ act' = [n |-> "HandleRequest", out |-> IF r.cl THEN "407close" ELSE "407"]
                 ELSE IF r.h = ""
                   THEN \* CONNECT with an unparsable target / empty Host: send400
                        /\ crx' = IF cdead THEN crx ELSE Append(crx, Own("400"))
                        /\ phase' = "failed" /\ ceof' = TRUE
                        /\ UNCHANGED <<fixedHost, first, fcur>>
                        /\ act' = [n |-> "HandleRequest", out |-> "400"]
                 ELSE /\ phase' = IF r.m = "CONNECT" THEN "cpending" ELSE "pending"
                      /\ fixedHost' = r.h /\ first' = cnext /\ fcur' = cnext
                      /\ UNCHANGED <<crx, ceof>>
                      /\ act' = [n |-> "HandleRequest", out |-> phase']

\* the service dialled the target and calls PendingConn.Proceed: pipe + two goroutines (server.go:173-205)
Proceed ==
    /\ EnvOK /\ phase = "pending"
    /\ phase' = "fwd" /\ fpc' = "announce" /\ rpc' = "peek"
    /\ act' = [n |-> "Proceed"]
    /\ UNCHANGED <<authOn, sent, cnext, cclosed, cdead, fixedHost, first, fcur, reqQ, qclosed, nann,
                   rcur, rresp, respDone, osent, rnext, oclosedW, oclosedR, orx, oeof, crx, ceof>>

\* CONNECT: Proceed answers 200 and hands the raw connection over (server.go:137-142); outside C16 from here on
ProceedConnect ==
    /\ EnvOK /\ phase = "cpending"
    /\ phase' = "tunnel"
    /\ crx' = IF cdead THEN crx ELSE Append(crx, Own("200c"))
    /\ act' = [n |-> "Proceed"]
    /\ UNCHANGED <<authOn, sent, cnext, cclosed, cdead, fixedHost, first, fpc, fcur, reqQ, qclosed, nann,
                   rpc, rcur, rresp, respDone, osent, rnext, oclosedW, oclosedR, orx, oeof, ceof>>

\* the dial failed: PendingConn.Abort answers 502 (server.go:145-150, 208-213); the caller closes
Abort ==
    /\ EnvOK /\ phase \in {"pending", "cpending"}
    /\ phase' = "aborted" /\ ceof' = TRUE
    /\ crx' = IF cdead THEN crx ELSE Append(crx, Own("502"))
    /\ act' = [n |-> "Abort"]
    /\ UNCHANGED <<authOn, sent, cnext, cclosed, cdead, fixedHost, first, fpc, fcur, reqQ, qclosed, nann,
                   rpc, rcur, rresp, respDone, osent, rnext, oclosedW, oclosedR, orx, oeof>>

-----------------------------------------------------------------------------
(* F = serverForwardRequests (server.go:233-326)                             *)

\* return err; pl.CloseWriteWithError(err); close(reqCh)   (server.go:190-194)
FFinish(kind) ==
    /\ fpc' = "done" /\ qclosed' = TRUE
    /\ oeof' = IF oeof = "open" /\ ~oclosedR THEN kind ELSE oeof

\* filter the header (removeConnectionSpecificFields, delete Upgrade), then
\* select { case reqCh <- req: case <-respDone: }.  Once respDone is closed nobody reads reqCh again, so the
\* two ready cases are indistinguishable; the model takes the respDone case.
FAnnounce ==
    /\ FAnnounceEn
    /\ IF respDone
         THEN /\ UNCHANGED <<reqQ, nann>>
              /\ act' = [n |-> "FAnnounce", i |-> fcur, out |-> "respDone"]
         ELSE /\ reqQ' = Append(reqQ, fcur) /\ nann' = nann + 1
              /\ act' = [n |-> "FAnnounce", i |-> fcur, out |-> "queued"]
    /\ fpc' = "write"
    /\ UNCHANGED <<authOn, phase, sent, cnext, cclosed, cdead, fixedHost, first, fcur, qclosed,
                   rpc, rcur, rresp, respDone, osent, rnext, oclosedW, oclosedR, orx, oeof, crx, ceof>>

\* req.Write(plbw); plbw.Flush(): header, body and trailers reach the origin (which reads everything)
FWrite ==
    /\ FWriteEn
    /\ IF oclosedR
         THEN /\ FFinish("err") /\ orx' = orx
              /\ act' = [n |-> "FWrite", i |-> fcur, out |-> "werr"]
         ELSE /\ orx' = Append(orx, fcur)
              /\ fpc' = "read" /\ UNCHANGED <<qclosed, oeof>>
              /\ act' = [n |-> "FWrite", i |-> fcur, out |-> "sent"]
    /\ UNCHANGED <<authOn, phase, sent, cnext, cclosed, cdead, fixedHost, first, fcur, reqQ, nann,
                   rpc, rcur, rresp, respDone, osent, rnext, oclosedW, oclosedR, crx, ceof>>

\* http.ReadRequest(rwbr), then the CONNECT and fixed-host tests
FRead ==
    /\ FReadEn
    /\ UNCHANGED <<authOn, phase, sent, cclosed, cdead, fixedHost, first, reqQ, nann,
                   rpc, rcur, rresp, respDone, osent, rnext, oclosedW, oclosedR, orx, crx, ceof>>
    /\ IF cnext > Len(sent)
         THEN /\ FFinish("eof") /\ UNCHANGED <<cnext, fcur>>
              /\ act' = [n |-> "FRead", out |-> "eof"]
         ELSE LET r == Rq(cnext) IN
              /\ cnext' = cnext + 1
              /\ IF r.m = "BAD"
                   THEN FFinish("err") /\ fcur' = fcur /\ act' = [n |-> "FRead", out |-> "readerr"]
                 ELSE IF r.m = "CONNECT"
                   THEN FFinish("eof") /\ fcur' = fcur /\ act' = [n |-> "FRead", out |-> "connect"]
                 ELSE IF ~SameSpelling(r.h, fixedHost)
                   THEN \* "hostchanged": another origin (C16: must end); "respelled": the same origin spelled
                        \* differently (the code ends the connection too; C16 does not decide it)
                        FFinish("eof") /\ fcur' = fcur
                        /\ act' = [n |-> "FRead", out |-> IF SameOrigin(r.h, fixedHost) THEN "respelled" ELSE "hostchanged"]
                 ELSE /\ fcur' = cnext /\ fpc' = "announce" /\ UNCHANGED <<qclosed, oeof>>
                      /\ act' = [n |-> "FRead", out |-> "next"]

-----------------------------------------------------------------------------
(* R = serverForwardResponses (server.go:330-487)                            *)

\* return; pl.CloseReadWithError(err); rw.CloseWrite(); close(respDone)   (server.go:196-199)
RFinish == rpc' = "done" /\ respDone' = TRUE /\ ceof' = TRUE

\* plbr.Peek(1)
RPeek ==
    /\ RPeekEn
    /\ IF rnext <= Len(osent)
         THEN /\ rpc' = "take" /\ UNCHANGED <<respDone, ceof>>
              /\ act' = [n |-> "RPeek", out |-> "data"]
         ELSE /\ RFinish
              /\ act' = [n |-> "RPeek", out |-> "eof"]
    /\ UNCHANGED <<authOn, phase, sent, cnext, cclosed, cdead, fixedHost, first, fpc, fcur, reqQ, qclosed, nann,
                   rcur, rresp, osent, rnext, oclosedW, oclosedR, orx, oeof, crx>>

\* req, ok := <-reqCh
RTake ==
    /\ RTakeEn
    /\ IF reqQ # <<>>
         THEN /\ rcur' = Head(reqQ) /\ reqQ' = Tail(reqQ) /\ rpc' = "read" /\ UNCHANGED <<respDone, ceof>>
              /\ act' = [n |-> "RTake", i |-> Head(reqQ), out |-> "req"]
         ELSE \* closed and drained: errPayloadAfterFinalResponse
              /\ RFinish /\ UNCHANGED <<rcur, reqQ>>
              /\ act' = [n |-> "RTake", out |-> "closed"]
    /\ UNCHANGED <<authOn, phase, sent, cnext, cclosed, cdead, fixedHost, first, fpc, fcur, qclosed, nann,
                   rresp, osent, rnext, oclosedW, oclosedR, orx, oeof, crx>>

\* http.ReadResponse(plbr, req); the Location test; removeConnectionSpecificFields(resp.Header, resp.Trailer)
RRead ==
    /\ RReadEn
    /\ UNCHANGED <<authOn, phase, sent, cnext, cclosed, cdead, fixedHost, first, fpc, fcur, reqQ, qclosed, nann,
                   rcur, osent, oclosedW, oclosedR, orx, oeof>>
    /\ IF rnext <= Len(osent) /\ Rs(rnext).st # "BAD"
         THEN /\ rresp' = rnext /\ rnext' = rnext + 1 /\ rpc' = "write"
              /\ UNCHANGED <<respDone, ceof, crx>>
              /\ act' = [n |-> "RRead", j |-> rnext, out |-> "resp"]
         ELSE \* unparsable bytes or EOF inside a response: send502, return
              /\ RFinish /\ rresp' = 0
              /\ rnext' = IF rnext <= Len(osent) THEN rnext + 1 ELSE rnext
              /\ crx' = IF cdead THEN crx ELSE Append(crx, Own("502"))
              /\ act' = [n |-> "RRead", out |-> "502"]

\* resp.Write(rwbwpcw); rwbw.Flush(); then the close conditions.  An interim response never ends the
\* exchange: its final response is still owed to the client.
RWrite ==
    /\ RWriteEn
    /\ UNCHANGED <<authOn, phase, sent, cnext, cclosed, cdead, fixedHost, first, fpc, fcur, reqQ, qclosed, nann,
                   osent, rnext, oclosedW, oclosedR, orx, oeof>>
    /\ LET s == Rs(rresp) IN
       IF cdead
         THEN \* pipeClosingWriter: CloseReadWithError, return
              /\ RFinish /\ crx' = crx /\ rresp' = 0 /\ rcur' = rcur
              /\ act' = [n |-> "RWrite", j |-> rresp, out |-> "werr"]
         ELSE /\ crx' = Append(crx, [k |-> "fwd", j |-> rresp, q |-> rcur])
              /\ rresp' = 0
              /\ IF Interim(s)
                   THEN /\ rpc' = "read" /\ rcur' = rcur /\ UNCHANGED <<respDone, ceof>>
                        /\ act' = [n |-> "RWrite", j |-> rresp, out |-> "interim"]
                 ELSE IF Rq(rcur).cl \/ RespCloses(s)
                   THEN /\ RFinish /\ rcur' = rcur
                        /\ act' = [n |-> "RWrite", j |-> rresp, out |-> "close"]
                 ELSE /\ rpc' = "peek" /\ rcur' = 0 /\ UNCHANGED <<respDone, ceof>>
                      /\ act' = [n |-> "RWrite", j |-> rresp, out |-> "final"]

\* wg.Wait() returned: deferred c.rw.Close()
Finish ==
    /\ FinishEn
    /\ phase' = "done"
    /\ act' = [n |-> "Finish"]
    /\ UNCHANGED <<authOn, sent, cnext, cclosed, cdead, fixedHost, first, fpc, fcur, reqQ, qclosed, nann,
                   rpc, rcur, rresp, respDone, osent, rnext, oclosedW, oclosedR, orx, oeof, crx, ceof>>

-----------------------------------------------------------------------------
(* Environment: origin.  It answers, in order, requests it has received; once *)
(* F has ended it may also send one unsolicited message (R must not deliver  *)
(* it: errPayloadAfterFinalResponse).                                        *)
OriginSend(id) ==
    /\ EnvOK /\ phase = "fwd" /\ ~oclosedW /\ rpc # "done" /\ Len(osent) < MaxResp
    /\ NFinals < Len(orx) \/ (NFinals = Len(orx) /\ fpc = "done")
    /\ osent # <<>> => id \in RespNext
    /\ LET i == IF NFinals < Len(orx) THEN orx[NFinals + 1] ELSE 0
           s == RespDef[id] IN
       /\ s.bd = "eof" => i > 0 /\ Rq(i).m # "HEAD" /\ s.st \in {"200", "404"}
       \* a Location derived from the Host of the answered request: another letter case needs letters, the
       \* default-port variants need a host on port 80
       /\ s.st \in {"302p", "302c", "302d"} => i > 0
       /\ s.st = "302c" => (i > 0 /\ HostDef[Rq(i).h].k # "ip4")
       /\ s.st = "302d" => (i > 0 /\ HostDef[Rq(i).h].p = 80)
       /\ osent' = Append(osent, [for |-> i, id |-> id])
       /\ oclosedW' = (s.bd = "eof")     \* a body delimited by EOF ends with the origin closing
       /\ act' = [n |-> "OriginSend", j |-> Len(osent) + 1, for |-> i, head |-> (i > 0 /\ Rq(i).m = "HEAD"), msg |-> s]
    /\ UNCHANGED <<authOn, phase, sent, cnext, cclosed, cdead, fixedHost, first, fpc, fcur, reqQ, qclosed, nann,
                   rpc, rcur, rresp, respDone, rnext, oclosedR, orx, oeof, crx, ceof>>

\* how = "ow": pr.CloseWrite(); how = "orw": pr.Close()
OriginClose(how) ==
    /\ how \in Closers /\ EnvOK /\ phase = "fwd"
    /\ IF how = "ow" THEN ~oclosedW /\ oclosedR' = oclosedR ELSE ~oclosedR /\ oclosedR' = TRUE
    /\ oclosedW' = TRUE
    /\ act' = [n |-> "OriginClose", how |-> how]
    /\ UNCHANGED <<authOn, phase, sent, cnext, cclosed, cdead, fixedHost, first, fpc, fcur, reqQ, qclosed, nann,
                   rpc, rcur, rresp, respDone, osent, rnext, orx, oeof, crx, ceof>>

Internal == HandleRequest \/ FAnnounce \/ FWrite \/ FRead \/ RPeek \/ RTake \/ RRead \/ RWrite \/ Finish
Env ==
    \/ \E r \in ReqMsgs : ClientSend(r)
    \/ ClientClose \/ ClientAbort \/ Proceed \/ ProceedConnect \/ Abort
    \/ \E s \in RespMsgs : OriginSend(s)
    \/ \E how \in {"ow", "orw"} : OriginClose(how)
Next == Internal \/ Env
Spec == Init /\ [][Next]_vars

-----------------------------------------------------------------------------
TypeOK ==
    /\ authOn \in BOOLEAN
    /\ phase \in {"auth", "pending", "cpending", "fwd", "tunnel", "failed", "aborted", "done"}
    /\ fpc \in {"idle", "announce", "write", "read", "done"}
    /\ rpc \in {"idle", "peek", "take", "read", "write", "done"}
    /\ cnext \in 1..(Len(sent) + 1) /\ rnext \in 1..(Len(osent) + 1)
    /\ oeof \in {"open", "eof", "err"}
    /\ \A k \in 1..Len(reqQ) : reqQ[k] \in 1..Len(sent)
    /\ \A i \in 1..Len(sent) : sent[i] \in ReqMsgs /\ Rq(i).h \in HostIds \cup {""}
    /\ fixedHost \in HostIds \cup {""}

\* the request queue never exceeds its capacity ...
QueueBound == Len(reqQ) <= QueueCap
\* ... and back-pressures rather than drops: while R lives, every request was announced before it was written,
\* and every announced request is written next
NoDrop ==
    /\ ~respDone /\ ~oclosedR => nann = Len(orx) + (IF fpc = "write" THEN 1 ELSE 0)
    /\ \A k \in 1..Len(reqQ) : reqQ[k] = first + (nann - Len(reqQ)) + k - 1   \* FIFO, contiguous, nothing skipped

\* C16: with authentication enabled nothing is forwarded before valid credentials were presented; every
\* refused request costs exactly one 407 and is never forwarded
NothingBeforeAuth ==
    /\ phase = "auth" => orx = <<>> /\ osent = <<>> /\ first = 0
    /\ first > 0 => (authOn => Rq(first).au = "good")
    /\ \A k \in 1..Len(orx) : first > 0 /\ orx[k] >= first
    /\ authOn => N407 = (IF first > 0 THEN first - 1 ELSE N407)
    /\ authOn /\ phase = "auth" => N407 = cnext - 1
    /\ ~authOn => N407 = 0

\* C16: the origin receives each request with method, target, end-to-end fields and body unchanged and without
\* hop-by-hop fields, nominated fields, Upgrade, or proxy credentials; the same for responses
Filtered ==
    /\ \A k \in 1..Len(orx) :
         LET r == Rq(orx[k])  f == FilterReq(r) IN
         /\ f.m = r.m /\ f.h = r.h
         /\ f.hs = r.hs \ {"hop", "nom", "upg"}
         /\ f.au = "none"
         /\ f.bd = FilterBody(r.bd) /\ f.bd # "nomtrailer"
    /\ \A p \in 1..Len(crx) : crx[p].k = "fwd" =>
         LET s == Rs(crx[p].j)  f == FilterResp(s) IN
         /\ f.st = s.st /\ f.hs = s.hs \ {"hop", "nom", "pauth"}
         /\ f.bd = FilterBody(s.bd) /\ f.bd # "nomtrailer"

\* C16: requests reach the origin in the order sent, responses reach the client in the order the origin sent
\* them (interim ones before their final response), each paired with the request the origin answered
FwdIdx == SelectSeq(crx, LAMBDA e : e.k = "fwd")
InOrder ==
    /\ \A k \in 1..Len(orx) : orx[k] = first + k - 1
    /\ \A p \in 1..Len(FwdIdx) : FwdIdx[p].j = p /\ FwdIdx[p].q = osent[p].for
    /\ \A p, p2 \in 1..Len(crx) : p < p2 /\ crx[p].k = "fwd" => crx[p2].k \in {"fwd", "502"}

\* C16: a request for another host (= another origin: domain, address or port), a later CONNECT (or unparsable
\* bytes) is never sent, nor anything after it
GoodFollower(i) == Rq(i).m \notin {"CONNECT", "BAD"} /\ SameOrigin(Rq(i).h, fixedHost)
WrongHostNeverSent ==
    \A k \in 1..Len(orx) : \A i \in first..orx[k] : GoodFollower(i)
\* ... and it ends the proxy connection: once F has read such a request it has stopped for good
OtherOriginEnds ==
    phase \in {"fwd", "done"} =>
        \A i \in (first + 1)..(cnext - 1) : ~GoodFollower(i) => fpc = "done" /\ qclosed
\* the code's rule is stricter than C16's (model self-check): only requests that spell the first Host are forwarded
SpellingDecides ==
    \A k \in 1..Len(orx) : SameSpelling(Rq(orx[k]).h, fixedHost)

\* C16: a close indication (request or response) ends the proxy connection once the final response is delivered;
\* nothing is delivered after it
CloseEnds ==
    \A p \in 1..Len(crx) :
        (crx[p].k = "fwd" /\ ~Interim(Rs(crx[p].j))
            /\ (Rq(crx[p].q).cl \/ RespCloses(Rs(crx[p].j))))
        => p = Len(crx) /\ ceof /\ rpc = "done"
NothingAfterEnd == [][rpc = "done" => crx' = crx]_vars

\* an interim response is followed by its final response before anything else is delivered, and never ends
\* the exchange
InterimNotFinal ==
    \A p \in 1..Len(crx) : crx[p].k = "fwd" /\ Interim(Rs(crx[p].j)) /\ p < Len(crx)
        => crx[p + 1].k = "502" \/ (crx[p + 1].k = "fwd" /\ crx[p + 1].q = crx[p].q)

\* termination: once the client has shut down (or was refused) and the origin has closed, both goroutines end and
\* the connection is closed; more generally the proxy is never stuck with both peers gone
Terminates ==
    Quiescent /\ cclosed /\ oclosedW => phase # "fwd"
\* F ends as soon as the client's side ends, R as soon as the origin's side ends
HalfTerminates ==
    Quiescent /\ phase = "fwd" =>
        /\ (cclosed => fpc = "done" \/ (fpc = "announce" /\ Len(reqQ) = QueueCap))
        /\ (oclosedW => rpc = "done")
=============================================================================
