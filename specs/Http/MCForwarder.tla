---------------------------- MODULE MCForwarder ----------------------------
(* Model-checking shell of Forwarder.  Configurations (lib/props/c16.py):     *)
(*  design  exhaustive, Sync = FALSE (the environment may act between any two *)
(*          steps of the proxy), scaled QueueCap, no graph;                   *)
(*  replay  exhaustive, Sync = TRUE, the code's QueueCap, labelled graph ->   *)
(*          path cover replayed on the real ServerHandle/Proceed;             *)
(*  deep    exhaustive, Sync = TRUE, the code's QueueCap, up to QueueCap + 3  *)
(*          pipelined requests (queue full, back-pressure), labelled graph;   *)
(*  hosts   exhaustive, Sync = TRUE: first request x follow-ups within the     *)
(*          family of spellings of the first host (same origin, other port,   *)
(*          other case, default port written out, other domain/address), and  *)
(*          redirects whose Location is such a variant of the request's Host; *)
(*  sim     -simulate with seeded random message sets from the whole lattice. *)
EXTENDS Forwarder, Json

MCReqDef == ${ReqDef}
MCRespDef == ${RespDef}
MCReqMsgs == DOMAIN MCReqDef
MCRespMsgs == DOMAIN MCRespDef
MCAuthModes == ${AuthModes}
MCClosers == ${Closers}

\* lattice runs (Lattice = TRUE): every message of the set is sent once, as the first message; the second client
\* message, if any, is the plain follow-up request (message 1), the message after an interim response the plain
\* final response (message 1)
\* host-pair runs (Follow # <<>>): Follow[f] = the messages that may follow when f was the first message
MCFollow == ${Follow}
MCReqNext(f) == IF ${Lattice} THEN {1} ELSE IF MCFollow = <<>> THEN MCReqMsgs ELSE MCFollow[f]
MCRespNext == IF ${Lattice} THEN {1} ELSE MCRespMsgs

\* long runs of refused requests: at most one more message after the accepted one
AuthDeepOK == first = 0 \/ Len(sent) <= first + 1

\* the filter on the whole message lattice: nothing that must not travel survives, everything else does
ReqLattice == [m : {"GET", "HEAD", "POST"}, h : {"a"}, cl : BOOLEAN, au : {"none", "bad", "good"},
               hs : SUBSET ReqClasses, bd : ReqBodies]
RespLattice == [st : Interims \cup Finals, cl : BOOLEAN, hs : SUBSET RespClasses, bd : RespBodies]
ASSUME \A k \in MCReqMsgs : MCReqDef[k].h \in HostIds \cup {""}
\* the origin relation: equal spellings name equal origins, and the alphabet has every class C16 must decide
ASSUME \A h \in HostIds : SameOrigin(h, h)
ASSUME /\ ~SameOrigin("a", "aP") /\ SameOrigin("a", "aC") /\ ~SameOrigin("a", "aCP") /\ ~SameOrigin("a", "aN") /\ ~SameOrigin("a", "b")
       /\ SameOrigin("d", "dE") /\ SameOrigin("d", "dC") /\ ~SameOrigin("d", "dP")
       /\ ~SameOrigin("i", "iP") /\ ~SameOrigin("i", "iO") /\ SameOrigin("iN", "iE") /\ ~SameOrigin("i", "iN")
       /\ ~SameOrigin("v", "vP") /\ SameOrigin("v", "vC")
ASSUME \A r \in ReqLattice : LET f == FilterReq(r) IN
          /\ f.m = r.m /\ f.h = r.h /\ f.au = "none"
          /\ f.hs \cap {"hop", "nom", "upg"} = {} /\ \A c \in ReqKept : (c \in f.hs) = (c \in r.hs)
          /\ f.bd # "nomtrailer" /\ (r.bd # "nomtrailer" => f.bd = r.bd)
ASSUME \A s \in RespLattice : LET f == FilterResp(s) IN
          /\ f.st = s.st
          /\ f.hs \cap {"hop", "nom", "pauth"} = {} /\ \A c \in RespKept : (c \in f.hs) = (c \in s.hs)
          /\ f.bd # "nomtrailer" /\ (s.bd # "nomtrailer" => f.bd = s.bd)

View == sv
\* what the driver compares with the real connection whenever the model is quiescent (q)
ORx == [k \in 1..Len(orx) |-> [i |-> orx[k], msg |-> FilterReq(Rq(orx[k]))]]
CRx == [p \in 1..Len(crx) |-> [k |-> crx[p].k, j |-> crx[p].j, q |-> crx[p].q,
                               msg |-> IF crx[p].k = "fwd" THEN FilterResp(Rs(crx[p].j)) ELSE FilterResp(NoResp)]]
Obs == [auth |-> authOn, orx |-> ORx, crx |-> CRx, ceof |-> ceof, oeof |-> oeof, phase |-> phase, q |-> Quiescent,
        qlen |-> Len(reqQ), fpc |-> fpc, rpc |-> rpc]
Emit == PrintT("EDGE " \o ToJson([f |-> sv, a |-> act', t |-> sv', o |-> Obs']))
EmitInit == PrintT("INIT " \o ToJson([t |-> sv, o |-> Obs]))
InitE == Init /\ EmitInit
=============================================================================
