---------------------------- MODULE MCForwarder ----------------------------
(* Model-checking shell of Forwarder.  Configurations (lib/props/c16.py):     *)
(*  design  exhaustive, Sync = FALSE (the environment may act between any two *)
(*          steps of the proxy), scaled QueueCap, no graph;                   *)
(*  replay  exhaustive, Sync = TRUE, the code's QueueCap, labelled graph ->   *)
(*          path cover replayed on the real ServerHandle/Proceed;             *)
(*  deep    exhaustive, Sync = TRUE, the code's QueueCap, up to QueueCap + 3  *)
(*          pipelined requests (queue full, back-pressure), labelled graph;   *)
(*  sim     -simulate with seeded random message sets from the whole lattice. *)
EXTENDS Forwarder, Json

MCReqDef == ${ReqDef}
MCRespDef == ${RespDef}
MCReqMsgs == DOMAIN MCReqDef
MCRespMsgs == DOMAIN MCRespDef
MCAuthModes == ${AuthModes}
MCClosers == ${Closers}

\* lattice runs (Lattice = TRUE): every message of the set is sent once, as the first message; the second client
\* message, if any, is the plain follow-up request (message 1), the message after an interim response the plain
\* final response (message 1)
MCReqNext == IF ${Lattice} THEN {1} ELSE MCReqMsgs
MCRespNext == IF ${Lattice} THEN {1} ELSE MCRespMsgs

\* long runs of refused requests: at most one more message after the accepted one
AuthDeepOK == first = 0 \/ Len(sent) <= first + 1

\* the filter on the whole message lattice: nothing that must not travel survives, everything else does
ReqLattice == [m : {"GET", "HEAD", "POST"}, h : {"a"}, cl : BOOLEAN, au : {"none", "bad", "good"},
               hs : SUBSET ReqClasses, bd : ReqBodies]
RespLattice == [st : Interims \cup Finals, cl : BOOLEAN, hs : SUBSET RespClasses, bd : RespBodies]
ASSUME \A r \in ReqLattice : LET f == FilterReq(r) IN
          /\ f.m = r.m /\ f.h = r.h /\ f.au = "none"
          /\ f.hs \cap {"hop", "nom", "upg"} = {} /\ \A c \in ReqKept : (c \in f.hs) = (c \in r.hs)
          /\ f.bd # "nomtrailer" /\ (r.bd # "nomtrailer" => f.bd = r.bd)
ASSUME \A s \in RespLattice : LET f == FilterResp(s) IN
          /\ f.st = s.st
          /\ f.hs \cap {"hop", "nom", "pauth"} = {} /\ \A c \in RespKept : (c \in f.hs) = (c \in s.hs)
          /\ f.bd # "nomtrailer" /\ (s.bd # "nomtrailer" => f.bd = s.bd)

View == sv
\* what the driver compares with the real connection whenever the model is quiescent (q)
ORx == [k \in 1..Len(orx) |-> [i |-> orx[k], msg |-> FilterReq(Rq(orx[k]))]]
CRx == [p \in 1..Len(crx) |-> [k |-> crx[p].k, j |-> crx[p].j, q |-> crx[p].q,
                               msg |-> IF crx[p].k = "fwd" THEN FilterResp(Rs(crx[p].j)) ELSE FilterResp(NoResp)]]
Obs == [auth |-> authOn, orx |-> ORx, crx |-> CRx, ceof |-> ceof, oeof |-> oeof, phase |-> phase, q |-> Quiescent,
        qlen |-> Len(reqQ), fpc |-> fpc, rpc |-> rpc]
Emit == PrintT("EDGE " \o ToJson([f |-> sv, a |-> act', t |-> sv', o |-> Obs']))
EmitInit == PrintT("INIT " \o ToJson([t |-> sv, o |-> Obs]))
InitE == Init /\ EmitInit
=============================================================================
