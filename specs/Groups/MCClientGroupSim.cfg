CONSTANTS
  Universe <- MCUniverse
  Group <- MCGroup
  Policies <- MCPolicies
  AvailRing = ${AvailRing}
  LatRing = ${LatRing}
  T = ${T}
  UnitNs = ${UnitNs}
  Alpha <- MCAlpha
  Conc = ${Conc}
  Callers <- MCCallers
  MaxSel = ${MaxSel}
  MaxRounds = ${MaxRounds}
  Wrap = ${Wrap}
INIT InitE
NEXT Next
VIEW View

INVARIANTS TypeOK TicketsDistinct TicketsBelow NoneSkipped SelectedIsArgBest ScanIsArgBest SelIsLocal InFlightBound OncePerRound NoProbesWithoutService
CHECK_DEADLOCK FALSE
