CONSTANTS
  Universe <- MCUniverse
  Group <- MCGroup
  Policies <- MCPolicies
  AvailRing = ${AvailRing}
  LatRing = ${LatRing}
  T = ${T}
  UnitNs = ${UnitNs}
  Alpha <- MCAlpha
  Conc = ${Conc}
  Callers <- MCCallers
  MaxSel = 1
  MaxRounds = 1000000
  Wrap = 2147483647
INIT SInitE
NEXT Next
VIEW SView
ACTION_CONSTRAINT ScriptEmit
INVARIANTS TypeOK SelectedIsArgBest ScanIsArgBest SelIsLocal InFlightBound OncePerRound
PROPERTIES AlwaysMember StableDuringRound
CHECK_DEADLOCK FALSE
