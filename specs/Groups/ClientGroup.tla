----------------------------- MODULE ClientGroup -----------------------------
(* Client groups: one group of clients behind one client name, and the policy that picks   *)
(* the member that serves a connection / session.                                            *)
(*                                                                                          *)
(* Code: clientgroups/clientgroups.go (AddClientGroup, roundRobinClientSelector,            *)
(* randomClientSelector and the TCP/UDP group wrappers), clientgroups/probe.go              *)
(* (atomicClientSelector, probeAvailability / probeLatency / probeMinMaxLatency, the two    *)
(* probe jobs, ProbeService), probe/tcp.go and probe/udp.go (what a probe outcome is).      *)
(* The TCP and the UDP groups instantiate the same generic selectors, so one model serves   *)
(* both; the drivers run it against both instantiations.                                    *)
(*                                                                                          *)
(* The state is the state AFTER ClientGroupConfig.AddClientGroup returned nil: the group is *)
(* registered in the client map under its own name, the members are the entries of the      *)
(* configured list (looked up by name, configuration order kept, duplicates possible), and  *)
(* for the three probing policies selector.init(&clients[0]) has stored position 0.         *)
(*                                                                                          *)
(* Positions are 0-based as in the code; Name(i) is the client at position i.               *)
(*                                                                                          *)
(* Outcomes.  A probe of one client in one round ends with an outcome o \in 0..T:           *)
(*   o < T : success after o latency units (one unit = UnitNs nanoseconds);                 *)
(*   o = T : failure of any kind (dial error, no answer until the deadline, wrong status,   *)
(*           connection closed, NewSession error ...): "a failed probe counts as the        *)
(*           timeout" - latencyProbeJob.Run stores j.timeout, availabilityProbeJob.Run      *)
(*           clears the bit.                                                                *)
(* A success never takes T or longer: the job's context deadline is start+timeout.          *)
EXTENDS Integers, Sequences, FiniteSets, TLC

CONSTANTS
    Universe,   \* names in the client maps given to AddClientGroup (members and non-members)
    Group,      \* code: ClientSelectionConfig.Clients - sequence of names, configuration order
    Policies,   \* the policies explored; Init picks one (code: ClientSelectionConfig.Policy)
    AvailRing,  \* code: bits.UintSize - rounds retained by probeAvailability (bits of a uint)
    LatRing,    \* code: latencyProbeResultSize - rounds retained by the two latency policies
    T,          \* probe timeout in latency units (code: ConnectivityProbeConfig.Timeout)
    UnitNs,     \* nanoseconds per latency unit; the code averages in whole nanoseconds.  (TLC integers are 32
                \* bits: when the real unit is a multiple of LatRing the average is exact and every score is
                \* proportional to the unit, so the checks then pass LatRing itself as the unit.)
    Alpha,      \* Alpha[i+1]: the outcomes position i can produce (subset of 0..T)
    Conc,       \* code: ConnectivityProbeConfig.Concurrency as configured (workers = min(Conc, N))
    Callers,    \* goroutines that call the group (Select)
    MaxSel,     \* bound on the number of round-robin selections (model bound)
    MaxRounds,  \* bound on the number of probe rounds (model bound; none when the rings are scaled down,
                \* because then only probeCount mod ring size is part of the state)
    Wrap        \* code: 2^63 - the round-robin counter is masked to a non-negative int

VARIABLES
    pol,        \* the group's policy
    \* --- roundRobinClientSelector
    rr,         \* number of index.Add(1) executed so far (index starts at ^0, so the k-th add, k = 0.., yields k)
    cpc,        \* cpc[p] \in {"idle","called","added"}: where caller p is inside Select
    ctk,        \* ctk[p]: the value p's add returned ("ticket")
    given,      \* ghost: given[i+1] = number of tickets that map to position i
    \* --- atomicClientSelector + probe loop goroutine
    phase,      \* "none" (policy without probes), "new" (ProbeService not started), "idle" (waiting for the
                \* ticker), "probing" (between the tick and the scan), "stopped" (loop returned)
    cancelled,  \* the context given to ProbeService.Start is done
    ring,       \* ring[i+1][s+1]: probeResult[i] - bit s of the uint / entry s of the latency array
    slot,       \* probeCount mod ring size: where this round's outcome is written
    nxt,        \* next position whose job the loop will hand to a worker (jobCh <- job), N when all are handed
    run,        \* positions whose job is running in a worker
    cidx,       \* the loop's local clientIndex
    sel,        \* atomicClientSelector.selected, as a position
    nr,         \* probeCount: completed rounds (kept out of sv: only its residue `slot` matters)
    act         \* last action with the outputs the model expects (output only)

sv == <<pol, rr, cpc, ctk, given, phase, cancelled, ring, slot, nxt, run, cidx, sel>>
vars == <<sv, nr, act>>

N == Len(Group)
Pos == 0..(N - 1)
Name(i) == Group[i + 1]
Members == {Group[j] : j \in 1..N}
Probing == {"availability", "latency", "min-max-latency"}
R(p) == IF p = "availability" THEN AvailRing ELSE LatRing
K == IF Conc < N THEN Conc ELSE N          \* probe.go newProbeConfig: concurrency: min(c.Concurrency, len(clients))

-----------------------------------------------------------------------------
(* Scores over the retained history, exactly as the three loops compute them.                *)

RECURSIVE SumTo(_, _), MaxTo(_, _)
SumTo(s, n) == IF n = 0 THEN 0 ELSE s[n] + SumTo(s, n - 1)
MaxTo(s, n) == IF n = 0 THEN 0 ELSE LET m == MaxTo(s, n - 1) IN IF s[n] > m THEN s[n] ELSE m
SumSeq(s) == SumTo(s, Len(s))
MaxSeq(s) == MaxTo(s, Len(s))

\* probeAvailability: successCount := bits.OnesCount(result); a bit never written is 0.
SuccessCount(rg, i) == SumSeq(rg[i + 1])
\* probeLatency: avgLatency := sum(result)/len(result) on time.Duration, i.e. whole nanoseconds, truncating.
\* An entry never written is 0 ns; every member has the same number of such entries.
AvgNs(rg, i) == (SumSeq(rg[i + 1]) * UnitNs) \div LatRing
\* probeMinMaxLatency: maxLatency := slices.Max(result[:]).
MaxNs(rg, i) == MaxSeq(rg[i + 1]) * UnitNs

Score(p, rg, i) ==
    CASE p = "availability" -> SuccessCount(rg, i)
      [] p = "latency" -> AvgNs(rg, i)
      [] OTHER -> MaxNs(rg, i)

\* a beats b
Better(p, a, b) == IF p = "availability" THEN a > b ELSE a < b

\* The value the scan starts from: bestSuccessCount = 0 / bestAvgLatency = pc.timeout / bestMaxLatency = pc.timeout.
ScanInit(p) == IF p = "availability" THEN 0 ELSE T * UnitNs

\* The scores of all positions as a tuple (sc[i + 1] is the score of position i), built eagerly so that TLC
\* computes each score once.
RECURSIVE ScoresFrom(_, _, _)
ScoresFrom(p, rg, i) == IF i = N THEN <<>> ELSE <<Score(p, rg, i)>> \o ScoresFrom(p, rg, i + 1)
Scores(p, rg) == ScoresFrom(p, rg, 0)

\* The scan: "for i, result := range probeResult { if score better than best { bestIndex = i; best = score } }"
\* with bestIndex initially 0 (strict improvement, configuration order).
RECURSIVE Scan(_, _, _, _, _)
Scan(p, sc, i, bi, bs) ==
    IF i = N THEN bi
    ELSE IF Better(p, sc[i + 1], bs) THEN Scan(p, sc, i + 1, i, sc[i + 1])
    ELSE Scan(p, sc, i + 1, bi, bs)
Best(p, rg) == LET sc == Scores(p, rg) IN Scan(p, sc, 0, 0, ScanInit(p))

\* What C19 states: the first position in configuration order whose score no other position beats.
ArgBest(p, rg) ==
    LET sc == Scores(p, rg) IN
    CHOOSE i \in Pos :
        /\ \A j \in Pos : ~Better(p, sc[j + 1], sc[i + 1])
        /\ \A j \in Pos : j < i => Better(p, sc[i + 1], sc[j + 1])

-----------------------------------------------------------------------------
ZeroRing(p) == [i \in 1..N |-> [s \in 1..R(p) |-> 0]]

Init ==
    /\ pol \in Policies
    /\ rr = 0
    /\ cpc = [p \in Callers |-> "idle"]
    /\ ctk = [p \in Callers |-> 0]
    /\ given = [i \in 1..N |-> 0]
    /\ phase = IF pol \in Probing THEN "new" ELSE "none"
    /\ cancelled = FALSE
    /\ ring = IF pol \in Probing THEN ZeroRing(pol) ELSE <<>>
    /\ slot = 0 /\ nxt = 0 /\ run = {}
    /\ cidx = 0 /\ sel = 0          \* probe.go newAtomicClientGroup: g.selector.init(&clients[0])
    /\ nr = 0
    /\ act = [n |-> "Init"]

RRU == UNCHANGED <<rr, cpc, ctk, given>>
LoopU == UNCHANGED <<phase, cancelled, ring, slot, nxt, run, cidx, sel, nr>>

\* ---------------------------------------------------------------- round-robin
\* clientgroups.go roundRobinClientSelector.Select:
\*     s.clients[int(s.index.Add(1)&uintptrToNonNegativeInt)%len(s.clients)]
\* Three steps per call so that concurrent callers interleave around the one atomic add.
SelCall(p) ==
    /\ pol = "round-robin" /\ cpc[p] = "idle" /\ rr + Cardinality({q \in Callers : cpc[q] = "called"}) < MaxSel
    /\ cpc' = [cpc EXCEPT ![p] = "called"]
    /\ UNCHANGED <<pol, rr, ctk, given>> /\ LoopU
    /\ act' = [n |-> "SelCall", p |-> p]

RRPos(k) == (k % Wrap) % N

SelAdd(p) ==
    /\ pol = "round-robin" /\ cpc[p] = "called"
    /\ cpc' = [cpc EXCEPT ![p] = "added"]
    /\ ctk' = [ctk EXCEPT ![p] = rr]
    /\ rr' = rr + 1
    /\ given' = [given EXCEPT ![RRPos(rr) + 1] = @ + 1]
    /\ UNCHANGED pol /\ LoopU
    /\ act' = [n |-> "SelAdd", p |-> p, k |-> rr, out |-> Name(RRPos(rr))]

SelRet(p) ==
    /\ pol = "round-robin" /\ cpc[p] = "added"
    /\ cpc' = [cpc EXCEPT ![p] = "idle"]
    /\ UNCHANGED <<pol, rr, ctk, given>> /\ LoopU
    /\ act' = [n |-> "SelRet", p |-> p, k |-> ctk[p], out |-> Name(RRPos(ctk[p]))]

\* ---------------------------------------------------------------- random
\* clientgroups.go randomClientSelector.Select: s.clients[rand.IntN(len(s.clients))]
SelRandom(p, i) ==
    /\ pol = "random"
    /\ UNCHANGED sv /\ UNCHANGED nr
    /\ act' = [n |-> "Select", p |-> p, out |-> Name(i), any |-> TRUE]

\* ---------------------------------------------------------------- probing policies
\* probe.go atomicClientSelector.Select: *s.selected.Load() - one atomic load, at any time.
SelLoad(p) ==
    /\ pol \in Probing
    /\ UNCHANGED sv /\ UNCHANGED nr
    /\ act' = [n |-> "Select", p |-> p, out |-> Name(sel), any |-> FALSE]

\* ProbeService.Start: go selector.probeX(ctx, ...) - workers started, ticker created.
Start ==
    /\ phase = "new"
    /\ phase' = "idle"
    /\ UNCHANGED <<pol, cancelled, ring, slot, nxt, run, cidx, sel, nr>> /\ RRU
    /\ act' = [n |-> "Start"]

\* The context ends (service manager shutting down).  Running probes see their context cancelled.
Cancel ==
    /\ phase \in {"idle", "probing"} /\ ~cancelled
    /\ cancelled' = TRUE
    /\ UNCHANGED <<pol, phase, ring, slot, nxt, run, cidx, sel, nr>> /\ RRU
    /\ act' = [n |-> "Cancel"]

\* "case <-done: return".  (A tick racing the cancellation may start one more round in which every
\* probe fails at once; it needs a round longer than the interval and is not modelled.)
Exit ==
    /\ phase = "idle" /\ cancelled
    /\ phase' = "stopped"
    /\ UNCHANGED <<pol, cancelled, ring, slot, nxt, run, cidx, sel, nr>> /\ RRU
    /\ act' = [n |-> "Exit"]

\* "case <-ticker.C:" wg.Add(len(clients)); the jobs are then handed out one by one.
RoundStart ==
    /\ phase = "idle" /\ ~cancelled /\ nr < MaxRounds
    /\ phase' = "probing" /\ nxt' = 0 /\ run' = {}
    /\ UNCHANGED <<pol, cancelled, ring, slot, cidx, sel, nr>> /\ RRU
    /\ act' = [n |-> "RoundStart", k |-> nr]

\* "jobCh <- job" for position nxt: needs a free worker (unbuffered channel, min(Conc, N) workers).
JobStart ==
    /\ phase = "probing" /\ nxt < N /\ Cardinality(run) < K
    /\ run' = run \cup {nxt} /\ nxt' = nxt + 1
    /\ UNCHANGED <<pol, phase, cancelled, ring, slot, cidx, sel, nr>> /\ RRU
    /\ act' = [n |-> "JobStart", c |-> nxt]

\* job.Run returns: availabilityProbeJob.Run sets/clears bit count%UintSize,
\* latencyProbeJob.Run stores time.Since(start) or the timeout at count%latencyProbeResultSize.
ProbeDone(c, o) ==
    /\ phase = "probing" /\ c \in run
    /\ o \in Alpha[c + 1]
    /\ cancelled => o = T
    /\ run' = run \ {c}
    /\ ring' = [ring EXCEPT ![c + 1][slot + 1] =
                    IF pol = "availability" THEN (IF o < T THEN 1 ELSE 0) ELSE o]
    /\ UNCHANGED <<pol, phase, cancelled, slot, nxt, cidx, sel, nr>> /\ RRU
    /\ act' = [n |-> "ProbeDone", c |-> c, o |-> o]

\* wg.Wait() returned: probeCount++, the scan, and "if clientIndex != bestIndex { store }".
RoundEnd ==
    /\ phase = "probing" /\ nxt = N /\ run = {}
    /\ LET b == Best(pol, ring) IN
       /\ cidx' = b /\ sel' = b
       /\ act' = [n |-> "RoundEnd", k |-> nr, out |-> Name(b), pos |-> b, changed |-> (b # cidx)]
    /\ phase' = "idle"
    /\ slot' = (slot + 1) % R(pol) /\ nr' = nr + 1
    /\ UNCHANGED <<pol, cancelled, ring, nxt, run>> /\ RRU

Next ==
    \/ \E p \in Callers : SelCall(p) \/ SelAdd(p) \/ SelRet(p) \/ SelLoad(p)
    \/ \E p \in Callers, i \in Pos : SelRandom(p, i)
    \/ Start \/ Cancel \/ Exit \/ RoundStart \/ JobStart \/ RoundEnd
    \/ \E c \in Pos, o \in 0..T : ProbeDone(c, o)

Spec == Init /\ [][Next]_vars

-----------------------------------------------------------------------------
TypeOK ==
    /\ pol \in Policies
    /\ rr \in 0..MaxSel
    /\ cpc \in [Callers -> {"idle", "called", "added"}]
    /\ phase \in {"none", "new", "idle", "probing", "stopped"}
    /\ slot \in 0..(R(pol) - 1) /\ nxt \in 0..N /\ run \subseteq Pos
    /\ cidx \in Pos /\ sel \in Pos
    /\ Members \subseteq Universe
    /\ pol \in Probing => \A i \in 1..N : \A s \in 1..R(pol) : ring[i][s] \in 0..T

\* C19: a group never returns a client outside itself.  (Every output of every selecting action.)
AlwaysMember ==
    [][ act'.n \in {"Select", "SelAdd", "SelRet", "RoundEnd"} => act'.out \in Members ]_vars

\* C19: round-robin, "none skipped even under concurrent selection": the tickets handed out so far are
\* 0..rr-1, each once, so the members have been handed out in cyclic configuration order - position i
\* exactly as often as i occurs in (0..rr-1) mod N.  Stated for fewer than Wrap selections (the code masks the
\* counter to 63 bits; at 2^63 selections the cycle restarts at position 0 whatever N is).
TicketsDistinct ==
    \A p, q \in Callers : (p # q /\ cpc[p] = "added" /\ cpc[q] = "added") => ctk[p] # ctk[q]
TicketsBelow == \A p \in Callers : cpc[p] = "added" => ctk[p] < rr
NoneSkipped ==
    pol = "round-robin" => \A i \in Pos : given[i + 1] = (rr + N - 1 - i) \div N
\* the k-th add returns position k mod N
RoundRobinCyclic ==
    [][ act'.n \in {"SelAdd", "SelRet"} /\ act'.k < Wrap => act'.out = Name(act'.k % N) ]_vars

\* C19: after each probe round the group serves the first member in configuration order with the best score
\* over the retained history; before the first round it serves the first member (which is the same statement
\* on the empty history).
SelectedIsArgBest ==
    (pol \in Probing /\ phase # "probing") => sel = ArgBest(pol, ring)
\* The code's strict-improvement scan from its initial value is that statement (no score is worse than the
\* initial value because no outcome exceeds the timeout).
ScanIsArgBest == pol \in Probing => Best(pol, ring) = ArgBest(pol, ring)

\* C19: the group keeps serving its previous choice while probes are running.
StableDuringRound ==
    [][ sel' # sel => act'.n = "RoundEnd" ]_vars
ServesPreviousWhileProbing ==
    [][ (act'.n = "Select" /\ phase = "probing" /\ pol \in Probing) => act'.out = Name(cidx) ]_vars

\* Side conditions of the loop.
SelIsLocal == sel = cidx
InFlightBound == Cardinality(run) <= K /\ (phase # "probing" => run = {})
OncePerRound == phase = "probing" => run \subseteq 0..(nxt - 1)
NoProbesWithoutService == pol \notin Probing => phase = "none" /\ nr = 0
=============================================================================
