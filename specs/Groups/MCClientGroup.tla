--------------------------- MODULE MCClientGroup ---------------------------
(* Model-checking front end of ClientGroup.tla.                                               *)
(*  - MCClientGroup.cfg: exhaustive (rings scaled down) or -simulate (real rings); with       *)
(*    ${EMIT} = "ACTION_CONSTRAINT Emit" the labelled state graph is printed for the replay.  *)
(*  - MCClientGroupScript.cfg: the model is run along outcome histories given as the constant *)
(*    MCScript (one history per policy, real ring sizes, longer than the retention); TLC      *)
(*    checks the invariants along them and prints the one path per policy, with the           *)
(*    selection the model expects after every round, for the replay.                          *)
EXTENDS ClientGroup, Json

MCUniverse == ${Universe}
MCGroup == ${Group}
MCPolicies == ${Policies}
MCAlpha == ${Alpha}
MCCallers == ${Callers}
\* MCScript[policy][round][position+1] = outcome
MCScript == ${Script}

View == sv
Obs == [pol |-> pol, sel |-> Name(sel), phase |-> phase]
Emit == PrintT("EDGE " \o ToJson([f |-> sv, a |-> act', t |-> sv', o |-> Obs']))
EmitInit == PrintT("INIT " \o ToJson([t |-> sv, o |-> Obs]))
InitE == Init /\ EmitInit

\* ---- scripted histories
SView == <<sv, nr>>
\* a compact key that is injective along a scripted path (the rings are functions of it)
SKey == [pol |-> pol, nr |-> nr, phase |-> phase, nxt |-> nxt, run |-> run]
MinOf(S) == CHOOSE x \in S : \A y \in S : x <= y
ScriptOK ==
    /\ act'.n \in {"Start", "RoundStart", "JobStart", "ProbeDone", "RoundEnd"}
    /\ act'.n = "RoundStart" => nr < Len(MCScript[pol])
    \* one canonical order: hand out every job a worker is free for, then finish the lowest running position
    /\ act'.n = "ProbeDone" =>
          /\ ~(nxt < N /\ Cardinality(run) < K)
          /\ act'.c = MinOf(run)
          /\ act'.o = MCScript[pol][nr + 1][act'.c + 1]
ScriptEmit ==
    /\ ScriptOK
    /\ PrintT("EDGE " \o ToJson([f |-> SKey, a |-> act', t |-> SKey', o |-> Obs']))
SInitE == Init /\ PrintT("INIT " \o ToJson([t |-> SKey, o |-> Obs]))
=============================================================================
