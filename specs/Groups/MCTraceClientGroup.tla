------------------------- MODULE MCTraceClientGroup -------------------------
EXTENDS TraceClientGroup
MCUniverse == ${Universe}
MCGroup == ${Group}
MCCallers == ${Callers}
MCAlpha == <<>>
MCTraceFile == "${TraceFile}"
=============================================================================
