-------------------------- MODULE TraceClientGroup --------------------------
(* Trace validation of the real round-robin group against ClientGroup.tla.                  *)
(*                                                                                          *)
(* roundRobinClientSelector.Select is lock-free (one atomic add), so the recorder           *)
(* (harness/drivers/c19 TestRecordRR) cannot log at the linearisation point.  Concurrent    *)
(* callers log, under one mutex, a "call" line immediately BEFORE calling the group         *)
(* (NewStreamDialer / DialStream / NewSession) and a "ret" line immediately AFTER, with the *)
(* name of the member that served.  The atomic add (SelAdd) is an internal step TLC has to  *)
(* place between the two lines of each call: a trace is accepted iff there is an order of   *)
(* the adds, consistent with the logged real-time order, in which the k-th add returned     *)
(* member k mod N - i.e. the calls got distinct consecutive tickets and none was skipped.   *)
(*                                                                                          *)
(* The file is a concatenation of independent sub-traces (each on a fresh group), each      *)
(* introduced by {"e":"reset","t":id,"next":line of the next reset}.  From a reset line TLC *)
(* may also jump to the next one, so a rejected sub-trace does not hide the later ones;     *)
(* "ACCEPT id" is printed when the last line of a sub-trace is consumed.                    *)
EXTENDS ClientGroup, Json

CONSTANT TraceFile
Trace == ndJsonDeserialize(TraceFile)
NL == Len(Trace)

VARIABLES
    i,      \* next line to consume
    ok,     \* the current sub-trace has been consumed line by line (not skipped)
    tid     \* id of the current sub-trace

tvars == <<vars, i, ok, tid>>

IsEv(e) == i <= NL /\ Trace[i].e = e
Line == Trace[i]
Boundary(j) == j > NL \/ Trace[j].e = "reset"

\* A fresh group: newRoundRobinTCPClientGroup / newRoundRobinUDPClientGroup -> selector.init.  C19 fixes the
\* cyclic order, not the member the cycle starts with, so the validation accepts any start (the code starts at
\* position 0; the replay driver reports another start as model drift).
Fresh ==
    /\ rr' \in 0..(N - 1)
    /\ cpc' = [p \in Callers |-> "idle"]
    /\ ctk' = [p \in Callers |-> 0]
    /\ given' = [j \in 1..N |-> 0]
    /\ UNCHANGED <<pol, phase, cancelled, ring, slot, nxt, run, cidx, sel, nr>>

TInit == Init /\ i = 1 /\ ok = FALSE /\ tid = ""

EvReset ==
    /\ IsEv("reset")
    /\ Fresh /\ i' = i + 1 /\ ok' = TRUE /\ tid' = Line.t
    /\ act' = [n |-> "TraceReset"]

EvSkip ==
    /\ IsEv("reset") /\ Line.next <= NL
    /\ Fresh /\ i' = Line.next /\ ok' = FALSE /\ tid' = Line.t
    /\ act' = [n |-> "TraceSkip"]

Advance ==
    /\ i' = i + 1 /\ UNCHANGED <<ok, tid>>
    /\ IF Boundary(i + 1) /\ ok THEN PrintT("ACCEPT " \o tid) ELSE TRUE

EvCall ==
    /\ IsEv("call")
    /\ SelCall(Line.p)
    /\ Advance

\* the member that served is the one the call's ticket maps to
EvRet ==
    /\ IsEv("ret")
    /\ SelRet(Line.p)
    /\ act'.out = Line.c
    /\ Advance

\* The atomic add of a call in progress (not logged).  Two reductions that lose no accepted trace:
\*  - an add is postponed as far as possible: adds only happen when the next line is the return of a caller
\*    that has not added yet (postponing an add, keeping the order of the adds, keeps it between its call
\*    and its return line);
\*  - the caller that adds is one whose logged return names the member the next ticket maps to (any other
\*    add would make that caller's return line unmatched).
NextRetOf(p) == Trace[CHOOSE j \in i..NL : Trace[j].e = "ret" /\ Trace[j].p = p
                                          /\ \A h \in i..(j - 1) : ~(Trace[h].e = "ret" /\ Trace[h].p = p)].c
Internal ==
    /\ IsEv("ret") /\ cpc[Line.p] = "called"
    /\ \E p \in Callers :
          /\ cpc[p] = "called" /\ NextRetOf(p) = Name(RRPos(rr))
          /\ SelAdd(p)
    /\ UNCHANGED <<i, ok, tid>>

TNext == EvReset \/ EvSkip \/ EvCall \/ EvRet \/ Internal

\* Only the member a ticket maps to matters for the rest of a trace, not the ticket itself.
TView == <<rr, cpc, [p \in Callers |-> IF cpc[p] = "added" THEN RRPos(ctk[p]) ELSE 0], i, ok, tid>>
=============================================================================
