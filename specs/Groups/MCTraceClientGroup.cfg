CONSTANTS
  Universe <- MCUniverse
  Group <- MCGroup
  Policies = {"round-robin"}
  AvailRing = 64
  LatRing = 32
  T = 1
  UnitNs = 1
  Alpha <- MCAlpha
  Conc = 1
  Callers <- MCCallers
  MaxSel = 1000000
  MaxRounds = 0
  Wrap = 2147483647
  TraceFile <- MCTraceFile
INIT TInit
NEXT TNext
VIEW TView
CHECK_DEADLOCK FALSE
