-------------------------- MODULE MCSS2022Stream --------------------------
EXTENDS SS2022Stream, Json
MCAddrLens == ${AddrLens}
MCIdleSecs == ${IdleSecs}
MCPads == ${Pads}
MCPSizes == ${PSizes}
MCWSizes == ${WSizes}
MCRSizes == ${RSizes}
MCSrcCaps == ${SrcCaps}
MCDSizes == ${DSizes}
MCPaths == ${Paths}
View == sv
\* projection compared with the real tunnel after every step
Obs == [sent |-> sent, dlv |-> dlv, eof |-> eof, st |-> st]
Emit == PrintT("EDGE " \o ToJson([f |-> sv, a |-> act', t |-> sv', o |-> Obs']))
EmitInit == PrintT("INIT " \o ToJson([t |-> sv, o |-> Obs]))
InitE == Init /\ EmitInit
\* liveness configuration: everything written is eventually read (or the reader failed on a
\* short first read / end of budget cannot happen because reads are not budgeted there)
Drained == \A w \in Ends : (st[Peer(w)] = "open" /\ ~rerr[w]) => dlv[w] = sent[w]
EventuallyDrained == []<>Drained
=============================================================================
