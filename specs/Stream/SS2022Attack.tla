---------------------------- MODULE SS2022Attack ----------------------------
(* An on-path attacker against one direction of a Shadowsocks 2022 TCP       *)
(* tunnel (property C02).                                                    *)
(*                                                                           *)
(* Code: ss2022/stream.go  ShadowStreamConn.read (:434), Read (:390),        *)
(*                         ShadowStreamClientConn.Read/initRead/             *)
(*                         readFirstPayloadChunk (:175, :272, :323),         *)
(*                         ShadowStreamCipher.DecryptInPlace/DecryptTo       *)
(*                         (nonce advanced only on a successful open)        *)
(*       ss2022/tcp.go     StreamServer.HandleStream (:269) incl. the        *)
(*                         deferred fallback (:300)                          *)
(*       ss2022/header.go  ParseTCPResponseHeader (request-salt binding)     *)
(*                                                                           *)
(* The victim session V has a genuine ciphertext stream in the direction     *)
(* under attack (Role = "server": client-to-server, read by HandleStream and *)
(* then by Read calls; Role = "client": server-to-client).  A second genuine  *)
(* session X (same or different key) supplies material to splice.  The       *)
(* attacker first rewrites the stream (phase "attack"), then the real reader  *)
(* consumes it call by call (phase "read").                                  *)
(*                                                                           *)
(* The reader takes BYTES, not frames: a read of k bytes that does not find  *)
(* exactly one whole frame of k bytes at its cursor gets a mixture that no    *)
(* key ever sealed.  AEAD is the axiom Opens: a string opens iff it is one    *)
(* whole unmodified frame sealed under the reader's session subkey with the   *)
(* reader's current nonce.  The axiom is deliberately blind to the KIND of    *)
(* frame: the protocol has no domain separation between length chunks and    *)
(* payload chunks, so a 2-byte payload chunk opens as a length chunk if it is *)
(* what stands at the cursor when the nonces agree.                          *)
EXTENDS Integers, Sequences, FiniteSets, TLC

CONSTANTS
    Role,        \* "server" or "client": who reads the attacked direction
    Tag,         \* AEAD overhead (16), measured from the code
    HdrSz,       \* size of the first frame: request salt+identity+fixed header, or response header
    HasPfx,      \* the first frame starts with a non-empty unsafe stream prefix (checked before any key is derived)
    Rq2Extra,    \* Role = "server": address + padding-length field + padding of the request
    GSizes,      \* V's plaintext chunk sizes; GSizes[1] is the payload inside the handshake
    GVals,       \* GVals[i]: the number a 2-byte chunk i encodes (big endian), else -1
    XSizes, XVals,   \* the same for session X
    SameKey,     \* X uses the victim's key (another session of the same user) or a foreign key
    AllowSeg,    \* segmented first header allowed
    Fallback,    \* the server has a fallback address
    Latch,       \* TRUE: a failed read is final (design needed by the property);
                 \* FALSE: the code as it is: the next Read tries again at the same nonce
    Ops,         \* attacker operators enabled
    JunkSizes,   \* sizes of byte strings the attacker invents
    MaxOps,      \* attacker operations per behaviour
    MaxReads     \* reader calls per behaviour

VARIABLES
    phase,    \* "attack" -> "read"
    wire,     \* the stream as the reader will see it
    nops,
    pos,      \* reader cursor: [i |-> frame index, o |-> byte offset inside it]
    stage,    \* "hs" (handshake pending), "data", "dead" (latched failure), "eof"
    sk,       \* session whose subkey the reader derived ("none", "V", "X", "junk")
    rN,       \* reader nonce
    peer,     \* the session the reader is bound to: V for the client; for the server the session
              \*   whose untouched handshake it authenticated ("none" before)
    gi,       \* index (in the peer's genuine stream) of the next frame a clean read would consume
    good,     \* genuine plaintext bytes delivered so far, in order
    req,      \* Role = "server": result of HandleStream
    bound,    \* Role = "client": the response header was accepted
    alien,    \* ghost: bytes were delivered that are not the next bytes the genuine peer sent
    touched,  \* ghost: a call consumed altered data and still succeeded
    forged,   \* ghost: a request / response header was accepted that is not V's untouched one
    failed,   \* ghost: some earlier call failed
    nreads,
    act

sv == <<phase, wire, nops, pos, stage, sk, rN, peer, gi, good, req, bound, alien, touched, forged, failed, nreads>>
vars == <<sv, act>>

-----------------------------------------------------------------------------
LnSz == 2 + Tag
Frame(ses, key, k, id, nc, n, lo, sz, val) ==
    [ses |-> ses, key |-> key, k |-> k, id |-> id, nc |-> nc, n |-> n, lo |-> lo, sz |-> sz, val |-> val,
     flip |-> FALSE, cut |-> FALSE, pok |-> TRUE]

RECURSIVE Chunks(_, _, _, _, _, _, _)
Chunks(ses, key, sizes, vals, i, lo, id) ==
    IF i > Len(sizes) THEN <<>>
    ELSE <<Frame(ses, key, "ln", id, 2 * (i - 1), sizes[i], lo, LnSz, sizes[i]),
           Frame(ses, key, "py", id + 1, 2 * (i - 1) + 1, sizes[i], lo, sizes[i] + Tag, vals[i])>>
         \o Chunks(ses, key, sizes, vals, i + 1, lo + sizes[i], id + 2)

\* The genuine stream of a session in the attacked direction.
Stream(ses, key, sizes, vals) ==
    (IF Role = "server"
       THEN <<Frame(ses, key, "rq1", 1, 0, 0, 0, HdrSz, Rq2Extra + sizes[1]),
              Frame(ses, key, "rq2", 2, 1, sizes[1], 0, Rq2Extra + sizes[1] + Tag, -1)>>
       ELSE <<Frame(ses, key, "rs", 1, 0, sizes[1], 0, HdrSz, -1),
              Frame(ses, key, "py", 2, 1, sizes[1], 0, sizes[1] + Tag, vals[1])>>)
    \o Chunks(ses, key, sizes, vals, 2, sizes[1], 3)

G == Stream("V", "k1", GSizes, GVals)
XS == Stream("X", IF SameKey THEN "k1" ELSE "k2", XSizes, XVals)
RECURSIVE Total(_, _)
Total(s, i) == IF i > Len(s) THEN 0 ELSE s[i] + Total(s, i + 1)
GTotal == Total(GSizes, 1)
JunkFrame(sz) == [Frame("J", "none", "junk", 0, -1, 0, 0, sz, -1) EXCEPT !.flip = TRUE]

\* ---- byte cursor ----
RECURSIVE Remaining(_, _)
Remaining(q, p) == IF p.i > Len(q) THEN 0 ELSE (q[p.i].sz - p.o) + Remaining(q, [i |-> p.i + 1, o |-> 0])
RECURSIVE Adv(_, _, _)
Adv(q, p, k) ==
    IF k = 0 \/ p.i > Len(q) THEN p
    ELSE LET r == q[p.i].sz - p.o IN
         IF k < r THEN [i |-> p.i, o |-> p.o + k] ELSE Adv(q, [i |-> p.i + 1, o |-> 0], k - r)
End(q) == [i |-> Len(q) + 1, o |-> 0]
\* exactly one whole frame of k bytes stands at the cursor
Whole(q, p, k) == p.i <= Len(q) /\ p.o = 0 /\ q[p.i].sz = k /\ ~q[p.i].cut
\* the AEAD axiom
Opens(q, p, k, s, n) == Whole(q, p, k) /\ ~q[p.i].flip /\ q[p.i].ses = s /\ q[p.i].nc = n
\* the frame at the cursor is session s's untouched genuine frame number g
Genuine(q, p, g, s) == p.i <= Len(q) /\ p.o = 0 /\ q[p.i].ses = s /\ q[p.i].id = g /\ ~q[p.i].flip /\ ~q[p.i].cut
PLen(f) == f.sz - Tag    \* plaintext bytes of a frame
Next1(p) == [i |-> p.i + 1, o |-> 0]

-----------------------------------------------------------------------------
Init ==
    /\ phase = "attack" /\ wire = G /\ nops = 0
    /\ pos = [i |-> 1, o |-> 0] /\ stage = "hs" /\ sk = "none" /\ rN = 0 /\ gi = 1 /\ good = 0
    /\ peer = IF Role = "client" THEN "V" ELSE "none"
    /\ req = "none" /\ bound = FALSE
    /\ alien = FALSE /\ touched = FALSE /\ forged = FALSE /\ failed = FALSE /\ nreads = 0
    /\ act = [n |-> "Init"]

Readers == <<pos, stage, sk, rN, peer, gi, good, req, bound, alien, touched, forged, failed, nreads>>
Insert(q, j, f) == SubSeq(q, 1, j - 1) \o <<f>> \o SubSeq(q, j, Len(q))
Remove(q, i) == SubSeq(q, 1, i - 1) \o SubSeq(q, i + 1, Len(q))

Attack(name, args, q) ==
    /\ phase = "attack" /\ nops < MaxOps /\ name \in Ops
    /\ wire' = q /\ nops' = nops + 1
    /\ UNCHANGED <<phase, Readers>>
    /\ act' = [n |-> name] @@ args

\* flip a bit somewhere in frame i: in the stream prefix of a first frame, or anywhere else
Flip(i, part) ==
    /\ part = "pfx" => HasPfx /\ wire[i].k \in {"rq1", "rs"}
    /\ Attack("Flip", [i |-> i, part |-> part, id |-> wire[i].id, ses |-> wire[i].ses],
              [wire EXCEPT ![i].flip = TRUE, ![i].pok = (@ /\ part # "pfx")])
\* cut the stream: keep only `keep` bytes of frame i (0 = cut at the frame boundary)
Cut(i, keep) ==
    /\ keep < wire[i].sz
    /\ Attack("Cut", [i |-> i, keep |-> keep],
              SubSeq(wire, 1, i - 1) \o (IF keep = 0 THEN <<>> ELSE <<[wire[i] EXCEPT !.sz = keep, !.cut = TRUE]>>))
Drop(i) == Attack("Drop", [i |-> i], Remove(wire, i))
Dup(i, j) == Attack("Dup", [i |-> i, j |-> j], Insert(wire, j, wire[i]))
Swap(i, j) == /\ i < j
              /\ Attack("Swap", [i |-> i, j |-> j], [wire EXCEPT ![i] = wire[j], ![j] = wire[i]])
\* insert frame x of the other session before position j
Splice(x, j) == Attack("Splice", [x |-> x, j |-> j], Insert(wire, j, XS[x]))
\* insert invented bytes before position j
Junk(j, s) == Attack("Junk", [j |-> j, sz |-> s], Insert(wire, j, JunkFrame(s)))
\* hand the reader the other session's whole stream: a response recorded from another session
\* (Role = "client"), or a client speaking with a key the server does not hold (Role = "server")
Substitute == /\ nops = 0 /\ (Role = "client" \/ ~SameKey)
              /\ Attack("Substitute", [same |-> SameKey], XS)

Start == /\ phase = "attack" /\ phase' = "read"
         /\ UNCHANGED <<wire, nops, Readers>>
         /\ act' = [n |-> "Start", len |-> Len(wire)]

\* ---- the reader ----
CanCall == phase = "read" /\ nreads < MaxReads /\ stage \notin {"eof"}

\* common bookkeeping of one reader call
\*   p2: cursor after the call;  n2: nonce;  s2: stage;  k2: session subkey in use;  pr: peer
\*   res: what the caller sees;  dl: index of the frame delivered as payload (0 = none)
\*   clean: everything the call consumed is the peer's untouched stream in order
\*   cn: number of leading frames consumed that were (the genuine cursor advances past them)
Finish(name, res, p2, n2, s2, k2, pr, dl, clean, cn) ==
    LET okc == res \in {"data", "ok", "eof"}
        f == IF dl > 0 THEN wire[dl] ELSE JunkFrame(Tag)
        \* delivered bytes are the next genuine ones iff the frame is the peer's payload at position `good`
        nextgen == dl > 0 /\ f.ses = pr /\ f.k \in {"py", "rq2"} /\ f.lo = good /\ ~f.flip /\ ~f.cut
        \* a failure is final once a cipher exists (a refusal before that consumed nothing that was decrypted)
        lat == Latch /\ ~okc /\ res # "fallback" /\ s2 # "hs"
    IN
    /\ pos' = p2 /\ rN' = n2 /\ sk' = k2 /\ peer' = pr
    /\ stage' = IF lat THEN "dead" ELSE s2
    /\ good' = IF nextgen THEN good + f.n ELSE good
    /\ alien' = (alien \/ (dl > 0 /\ PLen(f) > 0 /\ ~nextgen))
    /\ touched' = (touched \/ (okc /\ res # "eof" /\ ~clean))
    /\ gi' = gi + cn
    /\ failed' = (failed \/ ~okc)
    /\ nreads' = nreads + 1
    /\ UNCHANGED <<phase, wire, nops>>
    /\ act' = [n |-> name, out |-> [res |-> res, n |-> IF dl > 0 THEN PLen(f) ELSE 0, lo |-> good,
                                    after |-> failed, nonce |-> n2, gen |-> nextgen]]

\* A latched reader keeps failing without touching the transport.
Dead(name) ==
    /\ CanCall /\ stage = "dead"
    /\ UNCHANGED <<req, bound, forged>>
    /\ Finish(name, "dead", pos, rN, "dead", sk, peer, 0, TRUE, 0)

\* ShadowStreamConn.read (stream.go:434) behind Read with a large buffer: a length chunk, then a payload chunk.
Read ==
    LET rem == Remaining(wire, pos)
        fin(res, p2, n2, dl, clean, cn) == Finish("Read", res, p2, n2, IF res = "eof" THEN "eof" ELSE "data", sk, peer, dl, clean, cn)
    IN
    /\ CanCall /\ stage = "data"
    /\ UNCHANGED <<req, bound, forged>>
    /\ IF rem = 0 THEN fin("eof", pos, rN, 0, TRUE, 0)
       ELSE IF rem < LnSz THEN fin("ueof", End(wire), rN, 0, FALSE, 0)
       ELSE IF ~Opens(wire, pos, LnSz, sk, rN) THEN fin("auth", Adv(wire, pos, LnSz), rN, 0, FALSE, 0)
       ELSE LET L == wire[pos.i].val
                p1 == Next1(pos)
                c1 == IF Genuine(wire, pos, gi, peer) THEN 1 ELSE 0
                rem1 == Remaining(wire, p1) IN
            IF L = 0 THEN fin("zerolen", p1, rN + 1, 0, FALSE, c1)
            ELSE IF rem1 < L + Tag THEN fin(IF rem1 = 0 THEN "eof" ELSE "ueof", End(wire), rN + 1, 0, FALSE, c1)
            ELSE IF ~Opens(wire, p1, L + Tag, sk, rN + 1) THEN fin("auth", Adv(wire, p1, L + Tag), rN + 1, 0, FALSE, c1)
            ELSE LET c2 == c1 = 1 /\ Genuine(wire, p1, gi + 1, peer) IN
                 fin("data", Next1(p1), rN + 2, p1.i, c2, IF c2 THEN 2 ELSE c1)

\* StreamServer.HandleStream (tcp.go:269): first read (one Read call unless AllowSeg), key lookup and
\* AEAD open of the fixed-length header, then io.ReadFull + open of the variable-length header.
\* Before the fixed header authenticated, a failure with n > 0 bytes read goes to the fallback.
ServerHandle ==
    LET rem == Remaining(wire, pos)
        f == wire[pos.i]
        pre(res, p2) == \* failure while unauthenticated
            /\ req' = IF Fallback /\ rem > 0 THEN "fallback" ELSE "none"
            /\ UNCHANGED <<bound, forged>>
            /\ Finish("ServerHandle", IF Fallback /\ rem > 0 THEN "fallback" ELSE res, p2, rN, "dead", "junk", "none", 0, TRUE, 0)
    IN
    /\ CanCall /\ stage = "hs" /\ Role = "server"
    /\ IF rem = 0 THEN pre("eof", pos)
       ELSE IF rem < HdrSz THEN pre(IF AllowSeg THEN "ueof" ELSE "firstread", End(wire))
       ELSE IF ~(Whole(wire, pos, HdrSz) /\ ~f.flip /\ f.k = "rq1" /\ f.key = "k1")
              THEN pre("auth", Adv(wire, pos, HdrSz))
       ELSE LET L == f.val     \* length of the variable-length header announced by the fixed header
                p1 == Next1(pos)
                rem1 == Remaining(wire, p1)
                post(res, p2) == /\ req' = "none" /\ UNCHANGED <<bound, forged>>
                                 /\ Finish("ServerHandle", res, p2, 1, "dead", f.ses, "none", 0, FALSE, 0)
            IN
            IF rem1 < L + Tag THEN post(IF rem1 = 0 THEN "eof" ELSE "ueof", End(wire))
            ELSE IF ~Opens(wire, p1, L + Tag, f.ses, 1) THEN post("auth", Adv(wire, p1, L + Tag))
            ELSE LET gen == Genuine(wire, pos, 1, f.ses) /\ Genuine(wire, p1, 2, f.ses) IN
                 /\ req' = "ok"
                 /\ forged' = (forged \/ ~gen)
                 /\ UNCHANGED bound
                 /\ Finish("ServerHandle", "ok", Next1(p1), 2, "data", f.ses, f.ses, p1.i, gen, 2)

\* ShadowStreamClientConn.Read, first call (stream.go:175): initRead reads the response header, derives
\* the session subkey from the salt it carries (readCipher is set BEFORE the open), opens it, checks
\* type, timestamp and the request salt; then the first payload chunk.
ClientFirst ==
    LET rem == Remaining(wire, pos)
        f == wire[pos.i]
        wh == Whole(wire, pos, HdrSz)
    IN
    /\ CanCall /\ stage = "hs" /\ Role = "client"
    /\ UNCHANGED req
    /\ IF rem = 0 THEN /\ UNCHANGED <<bound, forged>>
                       /\ Finish("Read", "eof", pos, rN, "eof", sk, peer, 0, TRUE, 0)
       ELSE IF rem < HdrSz
              THEN /\ UNCHANGED <<bound, forged>>
                   /\ Finish("Read", IF AllowSeg THEN "ueof" ELSE "firstread", End(wire), rN, "hs", sk, peer, 0, FALSE, 0)
       ELSE IF HasPfx /\ ~(wh /\ f.k = "rs" /\ f.pok)
              THEN \* stream prefix mismatch: refused before any cipher exists; the next Read starts over
                   /\ UNCHANGED <<bound, forged>>
                   /\ Finish("Read", "auth", Adv(wire, pos, HdrSz), rN, "hs", sk, peer, 0, FALSE, 0)
       ELSE IF ~(wh /\ ~f.flip /\ f.k = "rs" /\ f.key = "k1")
              THEN \* the cipher is derived from whatever stands where the salt should be
                   /\ UNCHANGED <<bound, forged>>
                   /\ Finish("Read", "auth", Adv(wire, pos, HdrSz), 0, "data", "junk", peer, 0, FALSE, 0)
       ELSE IF f.ses # "V"
              THEN \* opened under the shared key, but it answers another request
                   /\ UNCHANGED <<bound, forged>>
                   /\ Finish("Read", "saltmismatch", Next1(pos), 1, "data", f.ses, peer, 0, FALSE, 0)
       ELSE LET L == f.n
                p1 == Next1(pos)
                rem1 == Remaining(wire, p1) IN
            /\ bound' = TRUE
            /\ forged' = (forged \/ ~Genuine(wire, pos, 1, "V"))
            /\ IF rem1 < L + Tag THEN Finish("Read", IF rem1 = 0 THEN "eof" ELSE "ueof", End(wire), 1, "data", f.ses, peer, 0, FALSE, 1)
               ELSE IF ~Opens(wire, p1, L + Tag, f.ses, 1)
                      THEN Finish("Read", "auth", Adv(wire, p1, L + Tag), 1, "data", f.ses, peer, 0, FALSE, 1)
               ELSE Finish("Read", "data", Next1(p1), 2, "data", f.ses, peer, p1.i,
                           Genuine(wire, pos, 1, "V") /\ Genuine(wire, p1, 2, "V"), 2)

Next ==
    \/ \E i \in 1..Len(wire) : Flip(i, "pfx") \/ Flip(i, "body") \/ Drop(i)
    \/ \E i \in 1..Len(wire) : \E keep \in {0, 1, wire[i].sz - 1} : Cut(i, keep)
    \/ \E i \in 1..Len(wire), j \in 1..(Len(wire) + 1) : Dup(i, j)
    \/ \E i \in 1..Len(wire), j \in 1..Len(wire) : Swap(i, j)
    \/ \E x \in 1..Len(XS), j \in 1..(Len(wire) + 1) : Splice(x, j)
    \/ \E j \in 1..(Len(wire) + 1), s \in JunkSizes : Junk(j, s)
    \/ Substitute
    \/ Start
    \/ ServerHandle \/ ClientFirst \/ Read
    \/ Dead("Read")

Spec == Init /\ [][Next]_vars

-----------------------------------------------------------------------------
(* The property (C02) *)

TypeOK == /\ phase \in {"attack", "read"} /\ stage \in {"hs", "data", "dead", "eof"}
          /\ good \in 0..GTotal /\ rN \in Nat /\ nops \in 0..MaxOps

\* Neither endpoint ever returns application bytes other than a prefix of what its genuine peer sent.
OnlyGenuinePrefix == ~alien
\* A read that touches altered data fails.
TouchFails == ~touched
\* The server never produces a request from an altered handshake or under a key it does not hold;
\* the client never accepts a response that is not bound to its own request.
NoForgery == ~forged
ResponseBound == bound => sk = "V"
\* The fallback only ever fires while nothing has been authenticated.
FallbackOnlyUnauthenticated == req = "fallback" => rN = 0
\* The nonce is advanced only by successful opens: never by a failing call more than the frames it opened.
NonceOnlyOnOpen == [][ rN' >= rN /\ (rN' > rN => act'.n \in {"Read", "ServerHandle"}) ]_vars
\* Without an attacker (no operations) everything genuine is delivered and nothing fails.
NoAttackNoFailure == nops = 0 /\ phase = "read" => ~failed
=============================================================================
