CONSTANTS
  MaxChunk = ${MaxChunk}
  PadMax = ${PadMax}
  Tag = ${Tag}
  SaltLen = ${SaltLen}
  FixLen = ${FixLen}
  EihLen = ${EihLen}
  Depth = ${Depth}
  ReqPfx = ${ReqPfx}
  RspPfx = ${RspPfx}
  AllowSeg = ${AllowSeg}
  FirstCap = ${FirstCap}
  Two = ${Two}
  FlushLeftover = ${FlushLeftover}
  RelayInit = ${RelayInit}
  AddrLens <- MCAddrLens
  Pads <- MCPads
  PSizes <- MCPSizes
  WSizes <- MCWSizes
  RSizes <- MCRSizes
  SrcCaps <- MCSrcCaps
  DSizes <- MCDSizes
  Paths <- MCPaths
  IdleSecs <- MCIdleSecs
  MaxW = ${MaxW}
  MaxR = ${MaxR}
  Writers = ${Writers}
  MaxSent = ${MaxSent}
  Count = ${Count}
SPECIFICATION FairSpec
INVARIANTS TypeOK Prefix Conservation Lockstep RequestFaithful EofLast FramesOK OnlyMixedIsBad
PROPERTIES EventuallyDrained
CHECK_DEADLOCK FALSE
