CONSTANTS
  Role = ${Role}
  Tag = ${Tag}
  HdrSz = ${HdrSz}
  HasPfx = ${HasPfx}
  Rq2Extra = ${Rq2Extra}
  GSizes <- MCGSizes
  GVals <- MCGVals
  XSizes <- MCXSizes
  XVals <- MCXVals
  SameKey = ${SameKey}
  AllowSeg = ${AllowSeg}
  Fallback = ${Fallback}
  Latch = ${Latch}
  Ops <- MCOps
  JunkSizes <- MCJunkSizes
  MaxOps = ${MaxOps}
  MaxReads = ${MaxReads}
INIT InitE
NEXT Next
VIEW View
${EMIT}
INVARIANTS TypeOK NoForgery ResponseBound FallbackOnlyUnauthenticated NoAttackNoFailure
PROPERTIES NonceOnlyOnOpen
CHECK_DEADLOCK FALSE
