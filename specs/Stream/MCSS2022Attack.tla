-------------------------- MODULE MCSS2022Attack --------------------------
EXTENDS SS2022Attack, Json
MCGSizes == ${GSizes}
MCGVals == ${GVals}
MCXSizes == ${XSizes}
MCXVals == ${XVals}
MCOps == ${Ops}
MCJunkSizes == ${JunkSizes}
View == sv
Obs == [good |-> good, stage |-> stage, req |-> req, rN |-> rN]
\* the graph handed to the driver: one node per state (every frame is determined by session, number, size and its damage flags)
Node == [phase |-> phase, w |-> [i \in 1..Len(wire) |-> <<wire[i].ses, wire[i].id, wire[i].sz, wire[i].flip, wire[i].cut, wire[i].pok>>], nops |-> nops,
         pos |-> pos, stage |-> stage, sk |-> sk, rN |-> rN, peer |-> peer, gi |-> gi, good |-> good, req |-> req, bound |-> bound,
         bad |-> <<alien, touched, forged, failed>>, nr |-> nreads]
Emit == PrintT("EDGE " \o ToJson([f |-> Node, a |-> act', t |-> Node', o |-> Obs']))
EmitInit == PrintT("INIT " \o ToJson([t |-> Node, o |-> Obs]))
InitE == Init /\ EmitInit
=============================================================================
