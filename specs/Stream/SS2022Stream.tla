---------------------------- MODULE SS2022Stream ----------------------------
(* The Shadowsocks 2022 TCP tunnel as a state machine over byte POSITIONS.   *)
(*                                                                           *)
(* Code: ss2022/tcp.go    StreamClient.DialStream, StreamServer.HandleStream *)
(*       ss2022/stream.go ShadowStreamConn.{Read,Write,ReadFrom,WriteTo,     *)
(*                        read,write,writeToShadowStreamConn},               *)
(*                        ShadowStreamServerConn.{Write,readFromGeneric,     *)
(*                        prepareInitWriteBufs,initWrite,WriteTo,ReadFrom},  *)
(*                        ShadowStreamClientConn.{Read,initRead,             *)
(*                        readFirstPayloadChunk,writeToGeneric,              *)
(*                        writeToServerConn,ReadFrom}, readOnceExpectFull    *)
(*       ss2022/header.go Put/ParseTCPRequest*Header, TCPResponseHeader      *)
(*                                                                           *)
(* Application bytes never matter, only their positions in the stream of     *)
(* their direction, so a frame carries the interval [lo, lo+n) it seals.     *)
(* The same module runs with toy constants (every size around a 6-byte chunk *)
(* limit) and with the constants measured from the compiled code (65535,     *)
(* 900, 16, ...), where sizes come from boundary alphabets.                   *)
(*                                                                           *)
(* Endpoints: "Ac"/"As" are client and server of session A, "Bc"/"Bs" of a   *)
(* second session B (only when Two): a relay node owns As and Bc and may     *)
(* move data As -> Bc and Bc -> As with the tunnel-to-tunnel fast path.      *)
(* A STREAM is named after the endpoint that writes it; endpoint e reads     *)
(* stream Peer(e).                                                           *)
EXTENDS Integers, Sequences, FiniteSets, TLC

CONSTANTS
    MaxChunk,      \* code: streamMaxPayloadSize (0xFFFF), measured by vconst
    PadMax,        \* code: MaxPaddingLength (900)
    Tag,           \* code: tagSize (AEAD overhead, 16), measured by vconst
    SaltLen,       \* 16 (aes-128) or 32 (aes-256) = len(PSK)
    FixLen,        \* code: TCPRequestFixedLengthHeaderLength (11)
    EihLen,        \* code: IdentityHeaderLength (16)
    Depth,         \* number of iPSKs the client holds (0 = no identity header, 1..3)
    ReqPfx,        \* len(UnsafeRequestStreamPrefix)
    RspPfx,        \* len(UnsafeResponseStreamPrefix)
    AllowSeg,      \* AllowSegmentedFixedLengthHeader (both sides)
    FirstCap,      \* payload capacity of the server's first write buffer
                   \* (prepareInitWriteBufs; depends on RspPfx and the allocator), measured
    Two,           \* BOOLEAN: second session + relay (tunnel-to-tunnel copy paths)
    FlushLeftover, \* TRUE: the design the property needs (WriteTo/tunnel copy first hand over
                   \* the left-over read buffer); FALSE: the code as it is (finding F11)
    RelayInit,     \* TRUE: the design (a tunnel copy into a server tunnel that has not answered yet writes the
                   \* response header first, whatever the reading side did before); FALSE: the code as it is
                   \* (only a client tunnel that has not read yet takes that path; otherwise the nil write
                   \* cipher is used: finding stream.relay/first-write-after-plain-read)
    AddrLens,      \* SOCKS address lengths of the targets dialled (7 = IPv4, 19 = IPv6, 4+L = domain)
    Pads,          \* candidate padding lengths (the real client draws them at random)
    PSizes,        \* initial payload sizes
    WSizes,        \* write sizes
    RSizes,        \* read buffer sizes (>= 1)
    SrcCaps,       \* ReadFrom: most bytes the source returns per Read call
    DSizes,        \* transport: sizes of the pieces in which ciphertext arrives
    Paths,         \* subset of {"plain","rf","wt","t2t"}: copy paths enabled
    Writers,       \* endpoints whose application writes after the handshake (the two directions are
                   \* independent, so configurations explore them separately or together)
    MaxSent,       \* bound on the bytes written into one stream
    Count,         \* BOOLEAN: count calls (configurations with the real constants bound the number
                   \* of calls; the toy configurations are bounded by MaxSent alone)
    IdleSecs,      \* durations (seconds) for which both sides may stay silent while nothing is on the wire
    MaxW, MaxR     \* budgets when Count: writer-side calls, reader-side calls

VARIABLES
    st,      \* st[e] \in {"idle","wait","open","failed"}
    dial,    \* dial[s] = [al, p, pad] once session s was dialled, else NoDial
    req,     \* req[s]  = [al, user, n]: what HandleStream returned, else NoReq
    sent,    \* sent[w]: bytes the application has written into stream w (incl. the initial payload)
    wire,    \* wire[w]: frames written to the transport and not yet consumed by the reading tunnel
    fly,     \* fly[w]: bytes of wire[w] still in flight
    arr,     \* arr[w]: bytes of wire[w] that have arrived at the reader's socket
    wN,      \* wN[w]: writer's AEAD nonce counter (ShadowStreamCipher.nonce of the write cipher)
    rN,      \* rN[w]: reader's AEAD nonce counter for stream w
    rbuf,    \* rbuf[w] = [lo, hi]: left-over decrypted bytes (readBuf[readStart:]) at the reader
    dlv,     \* dlv[w]: bytes of stream w handed to the reading application (or relayed)
    closed,  \* closed[w]: the writer called CloseWrite
    eof,     \* eof[w]: the reader observed end of stream
    rerr,    \* rerr[w]: the reader failed (short first read)
    winit,   \* winit[e] (servers): the response header has not been written yet (writeCipher == nil)
    rinit,   \* rinit[e] (clients): the response header has not been read yet (readCipher == nil)
    mixed,   \* mixed[w]: the reader of w used plain Read and later a WriteTo/tunnel copy while
             \*           a left-over was pending (ghost; only the F11 pattern sets it)
    bad,     \* bad[w] (ghost): some byte of w was skipped, repeated or reordered at the reader
    nw, nr,
    act

sv == <<st, dial, req, sent, wire, fly, arr, wN, rN, rbuf, dlv, closed, eof, rerr, winit, rinit, mixed, bad, nw, nr>>
vars == <<sv, act>>

-----------------------------------------------------------------------------
Min(a, b) == IF a < b THEN a ELSE b
Inc(c) == IF Count THEN c + 1 ELSE c
Sess == IF Two THEN {"A", "B"} ELSE {"A"}
Ends == IF Two THEN {"Ac", "As", "Bc", "Bs"} ELSE {"Ac", "As"}
Cl(s) == IF s = "A" THEN "Ac" ELSE "Bc"
Sv(s) == IF s = "A" THEN "As" ELSE "Bs"
Peer(e) == CASE e = "Ac" -> "As" [] e = "As" -> "Ac" [] e = "Bc" -> "Bs" [] e = "Bs" -> "Bc"
IsClient(e) == e \in {"Ac", "Bc"}
NoDial == [al |-> 0, p |-> 0, pad |-> 0, set |-> FALSE]
NoReq == [al |-> 0, user |-> "", n |-> 0, set |-> FALSE]
User == IF Depth > 0 THEN "user" ELSE ""
ReadMin == MaxChunk + Tag          \* code: streamReadMinBufferSize

\* byte lengths on the wire
NEihS == IF Depth > 0 THEN 1 ELSE 0                              \* identity headers the server reads
ReqHdrC == ReqPfx + SaltLen + Depth * EihLen + FixLen + Tag      \* what the client emits (tcp.go:112-122)
ReqHdrS == ReqPfx + SaltLen + NEihS * EihLen + FixLen + Tag      \* what HandleStream reads first (tcp.go:278-297)
RspHdr == RspPfx + SaltLen + (FixLen + SaltLen) + Tag            \* stream.go:272-276 initRead bufferLen
LnSz == 2 + Tag
Frame(k, n, lo, nc, sz, x) == [k |-> k, n |-> n, lo |-> lo, nc |-> nc, sz |-> sz, x |-> x]

\* ShadowStreamConn.Write (stream.go:471): chunks of at most MaxChunk, one transport write each,
\* each a length frame + a payload frame (ShadowStreamConn.write, stream.go:510).
RECURSIVE Chunks(_, _, _)
Chunks(n, lo, nc) ==
    IF n = 0 THEN <<>>
    ELSE LET k == Min(n, MaxChunk) IN
         <<Frame("ln", k, lo, nc, LnSz, 0), Frame("py", k, lo, nc + 1, k + Tag, 0)>> \o Chunks(n - k, lo + k, nc + 2)

\* ShadowStreamServerConn.Write first call (stream.go:57-69): response header announcing the
\* first payload chunk + that chunk in ONE transport write; the remainder through Write.
FirstWrite(n, lo) ==
    LET f == Min(n, FirstCap) IN
    <<Frame("rs", f, lo, 0, RspHdr, 0), Frame("py", f, lo, 1, f + Tag, 0)>> \o Chunks(n - f, lo + f, 2)

\* One application write of n > 0 bytes by endpoint e.
WriteFrames(e, n, lo, nc, first) == IF first THEN FirstWrite(n, lo) ELSE Chunks(n, lo, nc)

\* ReadFrom (stream.go:489, :83): the source returns at most c bytes per Read; every non-empty
\* Read result becomes one chunk; the server's first chunk is limited by the first-write buffer.
RECURSIVE SrcFrames(_, _, _, _, _)
SrcFrames(rem, c, lo, nc, first) ==
    IF rem = 0 THEN <<>>
    ELSE LET k == Min(Min(rem, c), IF first THEN FirstCap ELSE MaxChunk) IN
         (IF first THEN <<Frame("rs", k, lo, 0, RspHdr, 0), Frame("py", k, lo, 1, k + Tag, 0)>>
                   ELSE <<Frame("ln", k, lo, nc, LnSz, 0), Frame("py", k, lo, nc + 1, k + Tag, 0)>>)
         \o SrcFrames(rem - k, c, lo + k, nc + 2, FALSE)

\* A list of pieces written one after the other (tunnel-to-tunnel copy: one write per chunk read).
RECURSIVE PieceFrames(_, _, _, _)
PieceFrames(ps, lo, nc, first) ==
    IF ps = <<>> THEN <<>>
    ELSE LET f == WriteFrames("", Head(ps), lo, nc, first) IN
         f \o PieceFrames(Tail(ps), lo + Head(ps), nc + Len(f), FALSE)

RECURSIVE Bytes(_)
Bytes(q) == IF q = <<>> THEN 0 ELSE Head(q).sz + Bytes(Tail(q))
RECURSIVE PayBytes(_)
PayBytes(q) == IF q = <<>> THEN 0 ELSE (IF Head(q).k \in {"py", "rq2"} THEN Head(q).n ELSE 0) + PayBytes(Tail(q))
\* every tunnel write to the transport carries exactly two frames (rq1+rq2, rs+py, ln+py)
RECURSIVE TW(_)
TW(q) == IF q = <<>> THEN <<>> ELSE <<q[1].sz + q[2].sz>> \o TW(Tail(Tail(q)))
RECURSIVE PySizes(_)
PySizes(q) == IF q = <<>> THEN <<>> ELSE (IF Head(q).k = "py" THEN <<Head(q).n>> ELSE <<>>) \o PySizes(Tail(q))
RECURSIVE Sum(_)
Sum(q) == IF q = <<>> THEN 0 ELSE Head(q) + Sum(Tail(q))
Left(w) == rbuf[w].hi - rbuf[w].lo

\* tcp.go:99-110: padding rules of the request
PadOK(p, room, pad) ==
    IF p > room THEN pad = 0
    ELSE IF p >= PadMax THEN pad = 0
    ELSE IF p > 0 THEN pad >= 0 /\ pad <= PadMax - p
    ELSE pad >= 1 /\ pad <= PadMax

-----------------------------------------------------------------------------
Init ==
    /\ st = [e \in Ends |-> "idle"]
    /\ dial = [s \in Sess |-> NoDial]
    /\ req = [s \in Sess |-> NoReq]
    /\ sent = [e \in Ends |-> 0]
    /\ wire = [e \in Ends |-> <<>>]
    /\ fly = [e \in Ends |-> 0]
    /\ arr = [e \in Ends |-> 0]
    /\ wN = [e \in Ends |-> 0]
    /\ rN = [e \in Ends |-> 0]
    /\ rbuf = [e \in Ends |-> [lo |-> 0, hi |-> 0]]
    /\ dlv = [e \in Ends |-> 0]
    /\ closed = [e \in Ends |-> FALSE]
    /\ eof = [e \in Ends |-> FALSE]
    /\ rerr = [e \in Ends |-> FALSE]
    /\ winit = [e \in Ends |-> ~IsClient(e)]
    /\ rinit = [e \in Ends |-> IsClient(e)]
    /\ mixed = [e \in Ends |-> FALSE]
    /\ bad = [e \in Ends |-> FALSE]
    /\ nw = 0 /\ nr = 0
    /\ act = [n |-> "Init"]

\* All writer-side actions append frames to the writer's own stream.
Put(e, fr, napp) ==
    /\ wire' = [wire EXCEPT ![e] = @ \o fr]
    /\ fly' = [fly EXCEPT ![e] = @ + Bytes(fr)]
    /\ wN' = [wN EXCEPT ![e] = @ + Len(fr)]
    /\ sent' = [sent EXCEPT ![e] = @ + napp]

\* StreamClient.DialStream(ctx, T, P) (tcp.go:89): salt, identity headers, fixed- and
\* variable-length header with as much of P as fits in one transport write, the excess of P
\* through Write (tcp.go:193).
Dial(s, al, p, pad) ==
    LET c == Cl(s)
        room == MaxChunk - al - 2
        inreq == Min(p, room)
        fr == <<Frame("rq1", 0, 0, 0, ReqHdrS, 0),
                Frame("rq2", inreq, 0, 1, al + 2 + pad + inreq + Tag, [al |-> al, pad |-> pad])>>
              \o Chunks(p - inreq, inreq, 2)
    IN
    /\ st[c] = "idle" /\ nw < MaxW /\ p <= MaxSent
    /\ PadOK(p, room, pad)
    /\ st' = [st EXCEPT ![c] = "open", ![Sv(s)] = "wait"]
    /\ dial' = [dial EXCEPT ![s] = [al |-> al, p |-> p, pad |-> pad, set |-> TRUE]]
    /\ Put(c, fr, p)
    /\ nw' = Inc(nw)
    /\ UNCHANGED <<req, arr, rN, rbuf, dlv, closed, eof, rerr, winit, rinit, mixed, bad, nr>>
    /\ act' = [n |-> "Dial", e |-> c, al |-> al, p |-> p, pad |-> pad,
               out |-> [inreq |-> inreq, room |-> room,
                        \* what the client itself writes: its header carries Depth identity headers
                        tw |-> <<ReqHdrC + fr[2].sz>> \o TW(SubSeq(fr, 3, Len(fr)))]]

\* The transport delivers k more bytes of stream w to the reader's socket.
\* A partial delivery is only taken when nothing is pending at the reader: pending bytes that do not
\* complete a frame cannot be consumed anyway, so longer partial sequences add no behaviour.
Deliver(w, k) ==
    /\ k >= 1 /\ k <= fly[w] /\ (k < fly[w] => arr[w] = 0)
    /\ fly' = [fly EXCEPT ![w] = @ - k]
    /\ arr' = [arr EXCEPT ![w] = @ + k]
    /\ UNCHANGED <<st, dial, req, sent, wire, wN, rN, rbuf, dlv, closed, eof, rerr, winit, rinit, mixed, bad, nw, nr>>
    /\ act' = [n |-> "Deliver", e |-> w, k |-> k, out |-> [arr |-> arr[w] + k, rest |-> fly[w] - k]]

\* StreamServer.HandleStream (tcp.go:269).  The first read is one Read call unless segmented
\* headers are allowed (readOnceExpectFull, stream.go:599); the variable-length header is read
\* with io.ReadFull.  The action is enabled when the call would not block.
ServerHandle(s) ==
    LET c == Cl(s)
        e == Sv(s)
        q == wire[c]
    IN
    /\ st[e] = "wait" /\ arr[c] >= 1
    /\ IF arr[c] < ReqHdrS
         THEN /\ ~AllowSeg
              /\ st' = [st EXCEPT ![e] = "failed"]
              /\ UNCHANGED <<req, wire, arr, rN, dlv>>
              /\ act' = [n |-> "ServerHandle", e |-> e, out |-> [res |-> "firstread"]]
         ELSE /\ arr[c] >= ReqHdrS + q[2].sz
              /\ st' = [st EXCEPT ![e] = "open"]
              /\ req' = [req EXCEPT ![s] = [al |-> q[2].x.al, user |-> User, n |-> q[2].n, set |-> TRUE]]
              /\ wire' = [wire EXCEPT ![c] = Tail(Tail(q))]
              /\ arr' = [arr EXCEPT ![c] = @ - ReqHdrS - q[2].sz]
              /\ rN' = [rN EXCEPT ![c] = @ + 2]
              /\ dlv' = [dlv EXCEPT ![c] = @ + q[2].n]
              /\ act' = [n |-> "ServerHandle", e |-> e,
                         out |-> [res |-> "ok", al |-> q[2].x.al, user |-> User, lo |-> 0, n |-> q[2].n]]
    /\ UNCHANGED <<dial, sent, fly, wN, rbuf, closed, eof, rerr, winit, rinit, mixed, bad, nw, nr>>

CanWrite(e) == st[e] = "open" /\ ~closed[e] /\ nw < MaxW

\* Conn.Write(b) with len(b) = n (stream.go:52 for the server, :471 for both).
Write(e, n) ==
    LET fr == IF n = 0 THEN <<>> ELSE WriteFrames(e, n, sent[e], wN[e], winit[e]) IN
    /\ CanWrite(e) /\ "plain" \in Paths /\ e \in Writers /\ sent[e] + n <= MaxSent
    /\ Put(e, fr, n)
    /\ winit' = [winit EXCEPT ![e] = @ /\ n = 0]
    /\ nw' = Inc(nw)
    /\ UNCHANGED <<st, dial, req, arr, rN, rbuf, dlv, closed, eof, rerr, rinit, mixed, bad, nr>>
    /\ act' = [n |-> "Write", e |-> e, len |-> n, out |-> [n |-> n, tw |-> TW(fr)]]

\* Conn.ReadFrom(src): src holds total bytes, returns at most c per Read call, then io.EOF.
ReadFrom(e, total, c) ==
    LET fr == SrcFrames(total, c, sent[e], wN[e], winit[e]) IN
    /\ CanWrite(e) /\ "rf" \in Paths /\ e \in Writers /\ sent[e] + total <= MaxSent
    /\ Put(e, fr, total)
    /\ winit' = [winit EXCEPT ![e] = @ /\ total = 0]
    /\ nw' = Inc(nw)
    /\ UNCHANGED <<st, dial, req, arr, rN, rbuf, dlv, closed, eof, rerr, rinit, mixed, bad, nr>>
    /\ act' = [n |-> "ReadFrom", e |-> e, len |-> total, cap |-> c, out |-> [n |-> total, tw |-> TW(fr)]]

CloseWrite(e) ==
    /\ CanWrite(e)
    /\ closed' = [closed EXCEPT ![e] = TRUE]
    /\ nw' = Inc(nw)
    /\ UNCHANGED <<st, dial, req, sent, wire, fly, arr, wN, rN, rbuf, dlv, eof, rerr, winit, rinit, mixed, bad, nr>>
    /\ act' = [n |-> "CloseWrite", e |-> e, out |-> [sent |-> sent[e]]]

CanRead(e) == st[e] = "open" /\ ~rerr[Peer(e)] /\ ~eof[Peer(e)] /\ nr < MaxR

\* Conn.Read(b), len(b) = m.  (1) left-over first (stream.go:391,408); (2) end of stream;
\* (3) the client's first read: response header + first payload chunk (stream.go:175);
\* (4) a length chunk + payload chunk (stream.go:434); direct into b when b is large enough,
\* else through readBuf with the rest kept as left-over.
Read(e, m) ==
    LET w == Peer(e)
        q == wire[w]
        ret(lo, k, how) == /\ dlv' = [dlv EXCEPT ![w] = @ + k]
                           /\ bad' = [bad EXCEPT ![w] = @ \/ lo # dlv[w]]
                           /\ act' = [n |-> "Read", e |-> e, m |-> m, out |-> [res |-> "data", lo |-> lo, n |-> k, how |-> how]]
    IN
    /\ CanRead(e) /\ "plain" \in Paths
    /\ nr' = Inc(nr)
    /\ UNCHANGED <<st, dial, req, sent, fly, wN, closed, winit, mixed, nw>>
    /\ IF Left(w) > 0
         THEN /\ ret(rbuf[w].lo, Min(m, Left(w)), "leftover")
              /\ rbuf' = [rbuf EXCEPT ![w].lo = @ + Min(m, Left(w))]
              /\ UNCHANGED <<wire, arr, rN, eof, rerr, rinit>>
       ELSE IF q = <<>>
         THEN /\ closed[w]
              /\ eof' = [eof EXCEPT ![w] = TRUE]
              /\ UNCHANGED <<wire, arr, rN, rbuf, dlv, rerr, rinit, bad>>
              /\ act' = [n |-> "Read", e |-> e, m |-> m, out |-> [res |-> "eof", lo |-> dlv[w], n |-> 0, how |-> "eof"]]
       ELSE IF q[1].k = "rs" /\ arr[w] < RspHdr
         THEN /\ ~AllowSeg /\ arr[w] >= 1
              /\ rerr' = [rerr EXCEPT ![w] = TRUE]
              /\ UNCHANGED <<wire, arr, rN, rbuf, dlv, eof, rinit, bad>>
              /\ act' = [n |-> "Read", e |-> e, m |-> m, out |-> [res |-> "firstread", lo |-> dlv[w], n |-> 0, how |-> "first"]]
       ELSE /\ arr[w] >= q[1].sz + q[2].sz
            /\ wire' = [wire EXCEPT ![w] = Tail(Tail(q))]
            /\ arr' = [arr EXCEPT ![w] = @ - q[1].sz - q[2].sz]
            /\ rN' = [rN EXCEPT ![w] = @ + 2]
            /\ rinit' = [rinit EXCEPT ![e] = FALSE]
            /\ LET k == Min(m, q[2].n)
                   direct == IF q[1].k = "rs" THEN q[2].n + Tag <= m ELSE m >= ReadMin IN
               /\ ret(q[2].lo, k, IF q[1].k = "rs" THEN (IF direct THEN "first-direct" ELSE "first-buffered")
                                   ELSE (IF direct THEN "direct" ELSE "buffered"))
               /\ rbuf' = [rbuf EXCEPT ![w] = [lo |-> q[2].lo + k, hi |-> q[2].lo + q[2].n]]
            /\ UNCHANGED <<eof, rerr>>

\* What a draining reader (WriteTo or tunnel copy) hands on: the left-over (design) and then every
\* chunk on the wire.  Enabled when everything written has arrived, so the call ends either at
\* end of stream ("eof": returns nil) or at a frame boundary with nothing to read ("block": the
\* transport's read deadline fires; the tunnel state stays consistent).
Pieces(w) == (IF Left(w) > 0 /\ FlushLeftover THEN <<Left(w)>> ELSE <<>>) \o PySizes(wire[w])
CanDrain(e) == CanRead(e) /\ fly[Peer(e)] = 0

Drain(e, w, crashx) ==
    /\ arr' = [arr EXCEPT ![w] = 0]
    /\ rN' = [rN EXCEPT ![w] = @ + Len(wire[w])]
    /\ rbuf' = [rbuf EXCEPT ![w] = [lo |-> sent[w], hi |-> sent[w]]]
    /\ dlv' = [dlv EXCEPT ![w] = @ + Sum(Pieces(w))]
    /\ mixed' = [x \in Ends |-> mixed[x] \/ (x = w /\ Left(w) > 0) \/ x = crashx]
    /\ bad' = [x \in Ends |-> bad[x] \/ (x = w /\ Left(w) > 0 /\ ~FlushLeftover) \/ x = crashx]
    /\ eof' = [eof EXCEPT ![w] = closed[w]]
    /\ rinit' = [rinit EXCEPT ![e] = @ /\ wire[w] = <<>>]
    /\ nr' = Inc(nr)

\* Conn.WriteTo(sink) for a sink that is not a tunnel (stream.go:414, :244): one sink.Write per chunk.
WriteTo(e) ==
    LET w == Peer(e) IN
    /\ CanDrain(e) /\ "wt" \in Paths
    /\ Drain(e, w, "none")
    /\ wire' = [wire EXCEPT ![w] = <<>>]
    /\ UNCHANGED <<st, dial, req, sent, fly, wN, closed, rerr, winit, nw>>
    /\ act' = [n |-> "WriteTo", e |-> e,
               out |-> [res |-> IF closed[w] THEN "eof" ELSE "block", lo |-> dlv[w], n |-> Sum(Pieces(w)),
                        pieces |-> Pieces(w), left |-> Left(w)]]

\* Tunnel-to-tunnel copy at the relay: r.WriteTo(x) / x.ReadFrom(r) with both ends tunnels
\* (stream.go:44, :76, :209-242, :335, :362): every chunk opened on r is sealed again on x as one
\* chunk; x's first write (a server that has not answered yet) goes through the first-write layout.
Relay(r, x) ==
    LET w == Peer(r)
        ps == Pieces(w)
        fr == PieceFrames(ps, sent[x], wN[x], winit[x])
        \* stream.go:216-241: only a client tunnel that has not read yet writes x's response header
        crash == ~RelayInit /\ ~IsClient(x) /\ winit[x] /\ ~rinit[r] /\ ps # <<>>
    IN
    /\ Two /\ "t2t" \in Paths
    /\ <<r, x>> \in {<<"As", "Bc">>, <<"Bc", "As">>}
    /\ CanDrain(r) /\ CanWrite(x)
    /\ Drain(r, w, IF crash THEN x ELSE "none")
    /\ wire' = [wire EXCEPT ![w] = <<>>, ![x] = @ \o fr]
    /\ fly' = [fly EXCEPT ![x] = @ + Bytes(fr)]
    /\ wN' = [wN EXCEPT ![x] = @ + Len(fr)]
    /\ sent' = [sent EXCEPT ![x] = @ + Sum(ps)]
    /\ winit' = [winit EXCEPT ![x] = @ /\ ps = <<>>]
    /\ nw' = Inc(nw)
    /\ UNCHANGED <<st, dial, req, closed, rerr>>
    /\ act' = [n |-> "Relay", e |-> r, x |-> x,
               out |-> [res |-> IF closed[w] THEN "eof" ELSE "block", lo |-> dlv[w], n |-> Sum(ps),
                        pieces |-> ps, left |-> Left(w), tw |-> TW(fr), crash |-> crash]]

\* Time passes while nothing is on the wire (every frame written has been consumed by the reading tunnel), so no header
\* is in flight that could go stale: the tunnel must work exactly as before, however long the silence was - in particular
\* a server that says its first word long after the handshake (the response header carries the time of that first write).
Idle(d) ==
    /\ \A w \in Ends : wire[w] = <<>>
    /\ \E s \in Sess : dial[s].set
    /\ UNCHANGED sv
    /\ act' = [n |-> "Idle", d |-> d]

Next ==
    \/ \E d \in IdleSecs : Idle(d)
    \/ \E s \in Sess, al \in AddrLens, p \in PSizes, pad \in Pads : Dial(s, al, p, pad)
    \/ \E w \in Ends : \E k \in DSizes \cup {fly[w]} : Deliver(w, k)
    \/ \E s \in Sess : ServerHandle(s)
    \/ \E e \in Ends, n \in WSizes : Write(e, n)
    \/ \E e \in Ends, n \in WSizes, c \in SrcCaps : ReadFrom(e, n, c)
    \/ \E e \in Ends : CloseWrite(e)
    \/ \E e \in Ends, m \in RSizes : Read(e, m)
    \/ \E e \in Ends : WriteTo(e)
    \/ \E r \in Ends, x \in Ends : Relay(r, x)

Spec == Init /\ [][Next]_vars

-----------------------------------------------------------------------------
(* The property (C01) *)

TypeOK ==
    /\ st \in [Ends -> {"idle", "wait", "open", "failed"}]
    /\ \A e \in Ends : sent[e] \in Nat /\ dlv[e] \in Nat /\ arr[e] \in Nat /\ fly[e] \in Nat
    /\ \A e \in Ends : arr[e] + fly[e] = Bytes(wire[e]) \/ st[Peer(e)] = "failed" \/ rerr[e]

\* Every byte is read exactly once, in order: each Read/WriteTo/relay step handed over exactly the
\* interval that starts where the previous one ended, and never beyond what was written.
Prefix == \A w \in Ends : ~bad[w] /\ dlv[w] <= sent[w]

\* Nothing is lost or duplicated anywhere between the writer and the reading application.
Conservation == \A w \in Ends : ~bad[w] => sent[w] = dlv[w] + Left(w) + PayBytes(wire[w])

\* The AEAD nonces stay in lock step: frame i on the wire was sealed with exactly the nonce the
\* reader will use for it, and the counters are equal once the wire is drained.
Lockstep ==
    \A w \in Ends :
        /\ wN[w] = rN[w] + Len(wire[w])
        /\ \A i \in 1..Len(wire[w]) : wire[w][i].nc = rN[w] + i - 1

\* The server observes exactly T, the owning user and P[0, min(|P|, room)); the rest of P leads
\* the client-to-server stream (Prefix on that stream, whose positions start with P).
RequestFaithful ==
    \A s \in Sess : req[s].set =>
        /\ dial[s].set
        /\ req[s].al = dial[s].al
        /\ req[s].user = User
        /\ req[s].n = Min(dial[s].p, MaxChunk - dial[s].al - 2)

\* End of stream is reported only after every byte, and only if the writer closed.
EofLast == \A w \in Ends : eof[w] => closed[w] /\ dlv[w] = sent[w] /\ Left(w) = 0 /\ wire[w] = <<>>

\* Framing limits (stream.go:18, header.go:24, tcp.go:97): chunk payloads 1..MaxChunk, the request's
\* variable-length header fits one chunk, padding bounded, first response chunk within the buffer.
FramesOK ==
    \A w \in Ends : \A i \in 1..Len(wire[w]) :
        LET f == wire[w][i] IN
        /\ f.k \in {"py", "ln"} => f.n >= 1 /\ f.n <= MaxChunk
        /\ f.k = "rs" => f.n >= 1 /\ f.n <= FirstCap /\ f.n <= MaxChunk
        /\ f.k = "rq2" => f.x.al + 2 + f.x.pad + f.n <= MaxChunk /\ f.x.pad <= PadMax /\ f.x.pad + f.n >= 1

\* A tunnel-to-tunnel step writes exactly what it consumed, and positions never move backwards.
RelayConserves ==
    [][ act'.n = "Relay" => sent'[act'.x] - sent[act'.x] = dlv'[Peer(act'.e)] - dlv[Peer(act'.e)] ]_vars
Monotone == [][ \A w \in Ends : dlv'[w] >= dlv[w] /\ sent'[w] >= sent[w] /\ rN'[w] >= rN[w] ]_vars

\* The left-over is only ever at risk when a reader changes its copy path mid-stream.
OnlyMixedIsBad == \A w \in Ends : bad[w] => mixed[w]

\* Liveness (checked in the small fair configuration): whatever was written is eventually read.
Fairness == /\ \A w \in Ends : WF_vars(Deliver(w, fly[w]))
            /\ \A e \in Ends : WF_vars(\E m \in RSizes : Read(e, m))
            /\ \A s \in Sess : WF_vars(ServerHandle(s))
FairSpec == Spec /\ Fairness
=============================================================================
