------------------------------ MODULE UdpSession ------------------------------
(* The downlink of a UDP *session* relay over the life of ONE client session. *)
(* Property C05: "a packed packet never exceeds the size derived from the     *)
(* configured MTU and address family, and a payload that cannot fit is        *)
(* refused".                                                                  *)
(*                                                                            *)
(* A Shadowsocks 2022 session is named by its client session id, not by the   *)
(* client's address: the client may continue it from another address          *)
(* (roaming, NAT rebinding), and on a dual-stack listener ("udp", [::]:port)  *)
(* from an address of the other FAMILY: there an IPv4 client is seen as       *)
(* ::ffff:a.b.c.d (kind "m4"), an IPv6 client as itself ("v6"); a listener    *)
(* bound to an IPv4 address sees "v4" only.  The size limit of a server ->    *)
(* client packet is a function of the MTU and of the family of the address    *)
(* the session is at NOW (zerocopy.MaxPacketSizeForAddr: Is4 || Is4In6 ->     *)
(* MTU-28, otherwise MTU-48), whatever addresses it was at before.            *)
(*                                                                            *)
(* Code: service/udp_session.go, service/udp_session_mmsg.go                  *)
(*   recvFromServerConn*          on a packet of the session whose source     *)
(*                                address or pktinfo differs from the cached  *)
(*                                one: entry.clientAddrInfo.Store(new), then  *)
(*                                the packet goes on to the target            *)
(*   relayNatConnToServerConn*    the downlink loop holds clientAddrInfop,    *)
(*                                clientAddrPort and maxClientPacketSize in   *)
(*                                locals; after each read from the target it  *)
(*                                compares the pointer and refreshes them,    *)
(*                                then ServerPacker.PackInPlace(...,          *)
(*                                maxClientPacketSize): ErrPayloadTooBig or a *)
(*                                packet for clientAddrPort                   *)
(*                                                                            *)
(* Open/Move are the uplink's view (a packet of the session arrives from an   *)
(* address), Reply is one iteration of the downlink loop.  The amount of      *)
(* padding is the packer's choice (UdpLayout!PaddingBounded): a reply that is *)
(* sent has any length in need .. max.                                        *)
EXTENDS UdpCodec, Sequences

CONSTANTS
    Cfgs,           \* relay configurations explored: [mtu, ln, sp]; ln = "dual" | "v4" | "v6" (what the listener is bound to)
    Socks,          \* the client's sockets per address kind (a change of socket = a change of port)
    MaxMoves,       \* how often the session changes its address
    Sources,        \* payload source addresses (UdpCodec address records) the target's replies carry
    Refresh,        \* when the downlink loop recomputes its limit after the address changed: "always" (the code); "is4":
                    \* only when netip.Addr.Is4 flips (a design mutant that MCUdpSession must refute: Is4 is false for
                    \* both ::ffff:a.b.c.d and a real IPv6 address, their limits differ)
    LensOf(_, _)    \* payload lengths tried for (configuration, source): around the limits of BOTH families

VARIABLES
    cfg,        \* the relay's configuration
    path,       \* the addresses the session was at, in order; the last one is where the client is now; <<>>: no session
    info,       \* entry.clientAddrInfo: the address the uplink stored last
    held,       \* the downlink loop's local copy of it (clientAddrInfop / clientAddrPort)
    maxp,       \* the downlink loop's maxClientPacketSize
    act         \* last action (output only, hidden by the VIEW)

sv == <<cfg, path, info, held, maxp>>
vars == <<sv, act>>

-----------------------------------------------------------------------------
NoClient == [k |-> "-", s |-> 0]
\* the client address kinds a listener can report (net.UDPConn.ReadMsgUDPAddrPort does not unmap)
KindsOn(ln) == CASE ln = "dual" -> {"m4", "v6"} [] ln = "v4" -> {"v4"} [] OTHER -> {"v6"}
ClientsOn(ln) == {[k |-> k, s |-> s] : k \in KindsOn(ln), s \in Socks}
Last(p) == p[Len(p)]
Here == Last(path)

\* the size bound as a function of MTU and an address: the function the property speaks of
Limit(mtu, a) == MaxPacketSize(mtu, FamOf(a))
\* the smallest server message that carries L bytes from src
Need(sp, src, L) == Hdr0(sp, "s2c", src) + L + TagLen(sp)

Init ==
    /\ cfg \in Cfgs
    /\ path = <<>> /\ info = NoClient /\ held = NoClient /\ maxp = 0
    /\ act = [n |-> "Init"]

\* the first packet of the session: the entry is created and the downlink goroutine starts with this address
Open ==
    /\ path = <<>>
    /\ \E a \in ClientsOn(cfg.ln) :
        /\ path' = <<a>> /\ info' = a /\ held' = a /\ maxp' = Limit(cfg.mtu, a)
        /\ act' = [n |-> "Open", at |-> a]
    /\ UNCHANGED cfg

\* a packet of the session arrives from another address: the uplink stores it; the downlink loop has not looked yet
Move ==
    /\ path # <<>> /\ Len(path) <= MaxMoves
    /\ \E a \in ClientsOn(cfg.ln) \ {Here} :
        /\ path' = Append(path, a) /\ info' = a
        /\ act' = [n |-> "Move", at |-> a]
    /\ UNCHANGED <<cfg, held, maxp>>

\* one iteration of the downlink loop: a reply of L payload bytes from src came back from the target
Reply ==
    /\ path # <<>>
    /\ \E src \in Sources : \E L \in LensOf(cfg, src) :
        LET fresh == info # held
            m2 == IF fresh /\ (Refresh = "always" \/ (info.k = "v4") # (held.k = "v4")) THEN Limit(cfg.mtu, info) ELSE maxp
            need == Need(cfg.sp, src, L)
        IN /\ held' = info /\ maxp' = m2
           /\ act' = [n |-> "Reply", src |-> src, L |-> L, fresh |-> fresh, to |-> info,
                      out |-> [e |-> need > m2, need |-> need, max |-> m2]]
    /\ UNCHANGED <<cfg, path, info>>

Next == Open \/ Move \/ Reply
Spec == Init /\ [][Next]_vars

-----------------------------------------------------------------------------
(* properties *)
TypeOK ==
    /\ cfg \in Cfgs /\ Len(path) <= MaxMoves + 1
    /\ \A i \in 1 .. Len(path) : path[i] \in ClientsOn(cfg.ln)
    /\ \A i \in 1 .. Len(path) - 1 : path[i] # path[i + 1]
    /\ path # <<>> => info = Here
\* whenever the downlink loop's copy of the address is current, so is its limit
CachedLimit == (path # <<>> /\ held = info) => maxp = Limit(cfg.mtu, Here)
IsReply(a) == a.n = "Reply"
\* every reply is judged by the limit of the address the session is at now, and goes there
LimitIsCurrent == [][IsReply(act') => act'.out.max = Limit(cfg.mtu, Here) /\ act'.to = Here]_vars
\* whatever the packer makes of a reply it does not refuse fits the path MTU of the family it travels on
WithinMtu == [][IsReply(act') /\ ~act'.out.e => WireSize(act'.out.max, FamOf(Here)) <= cfg.mtu]_vars
\* exactly the replies that cannot fit are refused
TooBigIsRefused == [][IsReply(act') => (act'.out.e <=> WireSize(act'.out.need, FamOf(Here)) > cfg.mtu)]_vars
\* the addresses the session was at before do not matter
HistoryFree == [][IsReply(act') => act'.out.e = (Need(cfg.sp, act'.src, act'.L) > Limit(cfg.mtu, Here))]_vars
=============================================================================
