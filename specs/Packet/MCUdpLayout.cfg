CONSTANTS
  SepLen = ${SepLen}
  IdLen = ${IdLen}
  CFix = ${CFix}
  SFix = ${SFix}
  Tag = ${Tag}
  PadCap = ${PadCap}
  Rsv = ${Rsv}
  V4Len = ${V4Len}
  V6Len = ${V6Len}
  DomFix = ${DomFix}
  IPv4Hdr = ${IPv4Hdr}
  IPv6Hdr = ${IPv6Hdr}
  UdpHdr = ${UdpHdr}
  JumboOpt = ${JumboOpt}
  JumboMtu = ${JumboMtu}
  HrCP <- MCHrCP
  HrSU <- MCHrSU
  HrSP <- MCHrSP
  HrCU <- MCHrCU
  Gen = ${Gen}
  Groups <- MCGroups
  BasesOf <- MCBasesOf
  LensOf <- MCLensOf
INIT Init
NEXT Next
VIEW View
${EMIT}
INVARIANTS ${INVARIANTS}
PROPERTIES ${PROPERTIES}
CHECK_DEADLOCK FALSE
