------------------------------ MODULE UdpLayout ------------------------------
(* UDP packet layout of shadowsocks-go: where every codec puts its packet in  *)
(* the caller's buffer, how large the packet may become, and why the buffers  *)
(* the relay services allocate make every server protocol x client protocol   *)
(* re-packing safe.  Property C05.                                            *)
(*                                                                            *)
(* Code:                                                                      *)
(*   zerocopy/zerocopy.go   Headroom, MaxHeadroom, UDPRelayHeadroom           *)
(*   zerocopy/packet.go     MaxPacketSizeForAddr, the four packer/unpacker    *)
(*                          interfaces, ErrPayloadTooBig                      *)
(*   ss2022/packet.go       ShadowPacketClientPacker / ServerPacker           *)
(*                          .PackInPlace (maxPaddingLen), the two unpackers,  *)
(*                          ShadowPacket{Client,Server}MessageHeadroom        *)
(*   ss2022/header.go       UDP header constants, Put/ParseUDP*MessageHeader  *)
(*   ss2022/udp.go          NewUDPClient / NewSession (maxPacketSize,         *)
(*                          nonAEADHeaderLen), NewUDPServer (identityHeaderLen*)
(*   direct/packet.go       Direct*, ShadowsocksNone*, Socks5* packers,       *)
(*                          unpackers and their headroom variables            *)
(*   socks5/addr.go         SOCKS address lengths, IPv4-mapped -> IPv4        *)
(*   service/service.go     Config.Manager: maxClientPackerHeadroom           *)
(*   service/server.go      ServerConfig.UDPRelay: packetBufHeadroom,         *)
(*                          packetBufRecvSize, packetBufSize                  *)
(*   service/udp_nat*.go, udp_session*.go                                     *)
(*                          recvFromServerConn* (unpack at the front          *)
(*                          headroom), relayServerConnToNatConn* (re-pack for *)
(*                          the client protocol), relayNatConnToServerConn*   *)
(*                          (downlink buffer, unpack, re-pack for the server  *)
(*                          protocol with maxClientPacketSize)                *)
(*                                                                            *)
(* A behaviour is the journey of ONE datagram through ONE relay hop:          *)
(*                                                                            *)
(*   OriginPack   the sender packs payload+address in its own buffer          *)
(*                (uplink: the downstream client's ClientPacker of the        *)
(*                relay's server protocol; downlink: the upstream server's    *)
(*                ServerPacker of the relay's client protocol)                *)
(*   Recv         the relay service receives the datagram at its front        *)
(*                headroom in a buffer of the size the SERVICE computed       *)
(*                (Truncated: the datagram exceeds the receive window and is  *)
(*                dropped, MSG_TRUNC)                                         *)
(*   RelayUnpack  ServerUnpacker (uplink) / ClientUnpacker (downlink)         *)
(*   RelayPack    ClientPacker (uplink) / ServerPacker (downlink) of the      *)
(*                OTHER protocol, in place, in the same buffer                *)
(*   PeerUnpack   the next hop unpacks what the relay sent                    *)
(*                                                                            *)
(* Bytes are abstract: a packet is [start, len) plus the lengths of its       *)
(* parts; a payload is its length; an address is its SOCKS shape (kind,       *)
(* domain length, port).  AEAD/AES fidelity is not modelled (the replay       *)
(* observes it on real bytes).  The amount of padding is a nondeterministic   *)
(* choice bounded exactly as in PackInPlace; TLC follows the two extreme      *)
(* choices (1 and the bound), every position is affine in the padding.        *)
EXTENDS UdpCodec

CONSTANTS
    \* ---- exploration space
    Gen,            \* how far beyond the advertised headroom a "generous" sender puts the payload
    Groups,         \* the (direction, server protocol, client protocol) triples explored
    BasesOf(_),     \* the case lattice of a triple, without the payload length (MCUdpLayout)
    LensOf(_)       \* the payload lengths tried for a base case (they depend on the case: around its size limits)

VARIABLES
    c,          \* the case: see CaseOK
    stage,      \* "idle", "new", "sent", "recvd", "unpacked", "repacked", "done" | "refused" | "dropped"
    o,          \* result of OriginPack (a Pack record) and the sender's buffer
    rb,         \* the relay's packet buffer: [front, rear, recv, len]
    u1,         \* result of RelayUnpack: [ps, pl, a]
    r,          \* result of RelayPack (a Pack record)
    u2,         \* result of PeerUnpack: [pl, a]
    canon,      \* ghost: every padding choice so far was the smallest one (one emitted CASE per case)
    act         \* last action (output only, hidden by the VIEW)

sv == <<c, stage, o, rb, u1, r, u2, canon>>
vars == <<sv, act>>

-----------------------------------------------------------------------------
(* the case and what the services derive from it (x is a case record, see CaseOK) *)
Up(x) == x.dir = "up"
Kind(x) == IF Up(x) THEN "c2s" ELSE "s2c"
OriginProto(x) == IF Up(x) THEN x.sp ELSE x.cp      \* protocol spoken between the sender and the relay
RelayProto(x) == IF Up(x) THEN x.cp ELSE x.sp       \* protocol the relay re-packs for
\* the sender's limit: ClientPacker.maxPacketSize from (MTU, relay address) / maxPacketLen given to ServerPacker
OriginMax(x) == MaxPacketSize(x.omtu, IF Up(x) THEN x.lfam ELSE x.ufam)
OriginAdv(x) == IF Up(x) THEN HrCP[x.sp] ELSE HrSP[x.cp]
\* where the sender puts the payload: exactly behind the smallest header, one byte more, at the advertised
\* headroom (what every caller in the repository does), or generously beyond it
OriginPS(x) ==
    LET h == Hdr0(OriginProto(x), Kind(x), x.a)
    IN CASE x.psm = "min" -> h [] x.psm = "min1" -> h + 1 [] x.psm = "adv" -> OriginAdv(x).front
         [] OTHER -> OriginAdv(x).front + Gen
OriginBuf(x) == OriginPS(x) + x.L + OriginAdv(x).rear

\* service.Config.Manager: maxClientPackerHeadroom over every configured UDP client
AllClientsHeadroom == [front |-> MaxOf({HrCP[p].front : p \in ClientProtos}), rear |-> MaxOf({HrCP[p].rear : p \in ClientProtos})]
MaxClientPackerHeadroom(x) == IF x.allc THEN AllClientsHeadroom ELSE HrCP[x.cp]
\* uplink: ServerConfig.UDPRelay (packetBufHeadroom, packetBufRecvSize, packetBufSize)
\* downlink: relayNatConnToServerConn* (headroom, natConnRecvBufSize = UDPClientSession.MaxPacketSize)
RelayBuf(x) ==
    LET hr == IF Up(x) THEN RelayHeadroom(MaxClientPackerHeadroom(x), HrSU[x.sp]) ELSE RelayHeadroom(HrSP[x.sp], HrCU[x.cp])
        recv == IF Up(x) THEN MaxPacketSize(x.smtu, "v4")
                ELSE IF x.cp = "direct" THEN MaxPacketSize(x.cmtu, "v4") ELSE MaxPacketSize(x.cmtu, x.ufam)
    IN [front |-> hr.front, rear |-> hr.rear, recv |-> recv, len |-> hr.front + recv + hr.rear]
\* the relay packer's limit: ClientPacker.maxPacketSize from (client MTU, upstream address; for direct the
\* target itself) / maxClientPacketSize from (server MTU, client address)
RelayMax(x, a) ==
    IF Up(x) THEN MaxPacketSize(x.cmtu, IF x.cp = "direct" THEN FamOf(a) ELSE x.ufam)
    ELSE MaxPacketSize(x.smtu, x.lfam)
\* the link a packet travels on: its MTU and address family
OriginFam(x) == IF Up(x) THEN x.lfam ELSE x.ufam
RelayMtu(x) == IF Up(x) THEN x.cmtu ELSE x.smtu
RelayFam(x, a) == IF Up(x) THEN (IF x.cp = "direct" THEN FamOf(a) ELSE x.ufam) ELSE x.lfam
\* the address the relay's unpacker reports: the direct server reports its configured tunnel target, the
\* direct client the datagram's source; the others what the wire carries
UnpackedAddr(x) == IF OriginProto(x) = "direct" THEN x.a ELSE Norm(x.a)
\* what the next hop learns: a direct client sends to the address itself; a direct server's client only sees the relay
PeerAddr(x, a) == IF RelayProto(x) = "direct" THEN (IF Up(x) THEN a ELSE NoAddr) ELSE Norm(a)

NoBuf == [front |-> 0, rear |-> 0, recv |-> 0, len |-> 0]
NoUnpack == [ps |-> 0, pl |-> 0, a |-> NoAddr]

\* a relay exists for a pair of protocols and a direction of travel; everything else is configuration and traffic
DefaultCase(g) ==
    [dir |-> g.dir, sp |-> g.sp, cp |-> g.cp, smtu |-> 1500, cmtu |-> 1500, omtu |-> 1500, lfam |-> "v4", ufam |-> "v4",
     a |-> [k |-> "v4", n |-> 0, port |-> 0], L |-> 0, opol |-> "none", rpol |-> "none", psm |-> "adv", allc |-> FALSE, lm |-> "-"]
Init ==
    /\ \E g \in Groups : c = DefaultCase(g)
    /\ stage = "idle" /\ o = NoPack /\ rb = NoBuf /\ u1 = NoUnpack /\ r = NoPack /\ u2 = NoUnpack /\ canon = TRUE
    /\ act = [n |-> "Init"]

\* the operator's configuration (MTUs, padding policies, the other clients, the tunnel target of a direct server),
\* the network (address families of the two links) and the datagram (address, payload length, the sender's layout)
Configure ==
    /\ stage = "idle"
    /\ \E b \in BasesOf(c) : \E l \in LensOf(b) : c' = [b EXCEPT !.L = l]
    /\ stage' = "new"
    /\ UNCHANGED <<o, rb, u1, r, u2, canon>>
    /\ act' = [n |-> "Configure"]

\* the sender's PackInPlace in a buffer of its own
OriginPack ==
    /\ stage = "new"
    /\ \E pad \in PackPads(OriginProto(c), Kind(c), c.a, OriginPS(c), c.L, OriginMax(c), c.opol) :
        /\ o' = Pack(OriginProto(c), Kind(c), c.a, OriginPS(c), c.L, OriginMax(c), c.opol, pad, OriginBuf(c))
        /\ canon' = (canon /\ pad <= 1)
        /\ act' = [n |-> "OriginPack", pad |-> pad]
    /\ stage' = IF o'.err THEN "refused" ELSE "sent"
    /\ UNCHANGED <<c, rb, u1, r, u2>>

\* ReadMsgUDPAddrPort / recvmmsg into buf[front : front+recv]
Recv ==
    /\ stage = "sent" /\ o.len <= RelayBuf(c).recv
    /\ rb' = RelayBuf(c) /\ stage' = "recvd"
    /\ UNCHANGED <<c, o, u1, r, u2, canon>>
    /\ act' = [n |-> "Recv"]
\* the datagram is longer than the receive window: MSG_TRUNC, conn.ParseFlagsForError, dropped
Truncated ==
    /\ stage = "sent" /\ o.len > RelayBuf(c).recv
    /\ rb' = RelayBuf(c) /\ stage' = "dropped"
    /\ UNCHANGED <<c, o, u1, r, u2, canon>>
    /\ act' = [n |-> "Truncated"]

\* UnpackInPlace(buf, src, packetStart = front, packetLen = n)
RelayUnpack ==
    /\ stage = "recvd"
    /\ u1' = [ps |-> rb.front + o.h + o.pad, pl |-> o.len - o.h - o.pad - TagLen(OriginProto(c)), a |-> UnpackedAddr(c)]
    /\ stage' = "unpacked"
    /\ UNCHANGED <<c, o, rb, r, u2, canon>>
    /\ act' = [n |-> "RelayUnpack"]

\* PackInPlace of the other protocol on the unpacked payload, in place
RelayPack ==
    /\ stage = "unpacked"
    /\ \E pad \in PackPads(RelayProto(c), Kind(c), u1.a, u1.ps, u1.pl, RelayMax(c, u1.a), c.rpol) :
        /\ r' = Pack(RelayProto(c), Kind(c), u1.a, u1.ps, u1.pl, RelayMax(c, u1.a), c.rpol, pad, rb.len)
        /\ canon' = (canon /\ pad <= 1)
        /\ act' = [n |-> "RelayPack", pad |-> pad]
    /\ stage' = IF r'.err THEN "refused" ELSE "repacked"
    /\ UNCHANGED <<c, o, rb, u1, u2>>

\* the next hop's UnpackInPlace
PeerUnpack ==
    /\ stage = "repacked"
    /\ u2' = [ps |-> r.start + r.h + r.pad, pl |-> r.len - r.h - r.pad - TagLen(RelayProto(c)), a |-> PeerAddr(c, u1.a)]
    /\ stage' = "done"
    /\ UNCHANGED <<c, o, rb, u1, r, canon>>
    /\ act' = [n |-> "PeerUnpack"]

Next == Configure \/ OriginPack \/ Recv \/ Truncated \/ RelayUnpack \/ RelayPack \/ PeerUnpack
Spec == Init /\ [][Next]_vars

Terminal == stage \in {"done", "refused", "dropped"}

-----------------------------------------------------------------------------
(* properties *)
Stages == {"idle", "new", "sent", "recvd", "unpacked", "repacked", "done", "refused", "dropped"}
Packed == stage \notin {"idle", "new"}
Repacked == stage \in {"repacked", "done"} \/ (stage = "refused" /\ ~o.err)

CaseOK(x) ==
    /\ x.dir \in {"up", "down"} /\ x.sp \in ServerProtos /\ x.cp \in ClientProtos
    /\ x.smtu \in Nat /\ x.cmtu \in Nat /\ x.omtu \in Nat /\ x.lfam \in {"v4", "v6"} /\ x.ufam \in {"v4", "v6"}
    /\ x.a.k \in {"v4", "m4", "v6", "dom"} /\ x.a.n \in 0 .. 255 /\ x.a.port \in 0 .. 65535
    /\ (x.a.k = "dom") = (x.a.n > 0)
    /\ x.dir = "down" => IsIP(x.a)                              \* a server message carries a netip.AddrPort
    /\ (x.dir = "up" /\ x.cp = "direct") => IsIP(x.a)           \* a direct client resolves domains first (C11/C17)
    /\ x.L \in Nat /\ x.opol \in {"none", "dns", "all"} /\ x.rpol \in {"none", "dns", "all"}
    /\ x.psm \in {"min", "min1", "adv", "gen"} /\ x.allc \in BOOLEAN /\ x.lm \in STRING
TypeOK == CaseOK(c) /\ stage \in Stages /\ canon \in BOOLEAN

\* no byte outside the buffer is written, the packet lies inside the buffer
InBuffer ==
    /\ Packed => 0 <= o.lo /\ o.lo <= o.hi /\ o.hi <= o.buflen /\ (~o.err => 0 <= o.start /\ o.start + o.len <= o.buflen)
    /\ Repacked => 0 <= r.lo /\ r.lo <= r.hi /\ r.hi <= rb.len /\ (~r.err => 0 <= r.start /\ r.start + r.len <= rb.len)
\* a packed packet never exceeds the size derived from MTU and address family
WithinMtu ==
    /\ (Packed /\ ~o.err) => o.len <= o.max /\ WireSize(o.len, OriginFam(c)) <= c.omtu
    /\ (Repacked /\ ~r.err) => r.len <= r.max /\ WireSize(r.len, RelayFam(c, u1.a)) <= RelayMtu(c)
\* exactly the payloads that cannot fit are refused
TooBigIsRefused ==
    /\ Packed => (o.err <=> o.need > o.max)
    /\ Repacked => (r.err <=> r.need > r.max)
\* the service's headroom formula leaves the relay packer its header in front and its tag behind
RelaySafe ==
    stage = "unpacked" =>
        /\ u1.ps >= Hdr0(RelayProto(c), Kind(c), u1.a)
        /\ u1.ps + u1.pl + TagLen(RelayProto(c)) <= rb.len
        /\ u1.ps >= rb.front /\ u1.ps + u1.pl <= rb.front + rb.recv
\* payload length and address survive each pack/unpack
RoundTrip ==
    /\ stage \in {"unpacked", "repacked", "done"} => u1.pl = c.L /\ Norm(u1.a) = Norm(c.a)
    /\ stage = "done" => u2.pl = c.L /\ (u2.a = NoAddr \/ Norm(u2.a) = Norm(c.a)) /\ u2.ps + u2.pl + TagLen(RelayProto(c)) = r.start + r.len
\* padding stays inside what PackInPlace computed
PaddingBounded ==
    /\ Packed /\ ~o.err => o.pad <= Max2(0, Min3(o.budget, o.room, PadCap)) /\ (o.pad > 0 => o.sp)
    /\ Repacked /\ ~r.err => r.pad <= Max2(0, Min3(r.budget, r.room, PadCap)) /\ (r.pad > 0 => r.sp)
\* the packet handed to the socket is exactly header + padding + payload + tag, ending where the payload (+tag) ends
PacketShape ==
    /\ (Packed /\ ~o.err) => o.len = o.need + o.pad /\ o.start + o.len = o.ps + c.L + TagLen(OriginProto(c))
    /\ (Repacked /\ ~r.err) => r.len = r.need + r.pad /\ r.start + r.len = u1.ps + u1.pl + TagLen(RelayProto(c))
\* action property: positions are affine in the padding (what lets the replay follow the code's random padding)
PaddingShifts == [][act'.n = "RelayPack" /\ ~r'.err => r'.start = u1.ps - r'.h - act'.pad /\ r'.len = r'.need + act'.pad]_vars
\* a failure is final and leaves the earlier results alone
StagesAdvance == [][stage \notin {"done", "refused", "dropped"} /\ (stage # "idle" => c' = c)]_vars
=============================================================================
