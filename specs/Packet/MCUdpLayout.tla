----------------------------- MODULE MCUdpLayout -----------------------------
(* Model-checking / case-generation instance of UdpLayout.  The ${...}        *)
(* placeholders are filled in by lib/props/c05.py: the constants of the code  *)
(* (harness/cmd/vconst/packet.go) and the case lattice of the tier.           *)
EXTENDS UdpLayout, Sequences, Json

\* headroom tables read from the compiled code
MCHrCP == ${HrCP}
MCHrSU == ${HrSU}
MCHrSP == ${HrSP}
MCHrCU == ${HrCU}

-----------------------------------------------------------------------------
(* the case lattice *)
A(k, n, port) == [k |-> k, n |-> n, port |-> port]
\* a case may only pair what the code pairs: server messages and direct clients carry IP addresses
Valid(x) == (x.dir = "down" => IsIP(x.a)) /\ ((x.dir = "up" /\ x.cp = "direct") => IsIP(x.a))
\* one slice of the lattice: a product of dimension sets.  Mtus: <<server MTU, client MTU, sender MTU>> (sender
\* MTU 0 = the MTU of the link it shares with the relay); Fams: <<family of the downstream link, of the upstream
\* link>>; Pols: <<sender's padding policy, relay's>>; lm names the payload lengths tried (LensOf).  g is the
\* (direction, server protocol, client protocol) triple the slice is asked for.
Slice(g, lm, Dirs, SPs, CPs, Mtus, Fams, Addrs, Pols, Psms, Allcs) ==
    IF g.dir \notin Dirs \/ g.sp \notin SPs \/ g.cp \notin CPs THEN {} ELSE
    {x \in {[dir |-> g.dir, sp |-> g.sp, cp |-> g.cp, smtu |-> m[1], cmtu |-> m[2],
             omtu |-> IF m[3] # 0 THEN m[3] ELSE IF g.dir = "up" THEN m[1] ELSE m[2],
             lfam |-> f[1], ufam |-> f[2], a |-> a, L |-> 0, opol |-> p[1], rpol |-> p[2], psm |-> ps, allc |-> ac, lm |-> lm] :
                m \in Mtus, f \in Fams, a \in Addrs, p \in Pols, ps \in Psms, ac \in Allcs} :
        Valid(x)}
\* payload lengths of a case: the small ones, and those around the largest payload the sender / the relay can carry
Deltas == ${Deltas}
Small == ${Small}
OFit(x) == OriginMax(x) - Hdr0(OriginProto(x), Kind(x), x.a) - TagLen(OriginProto(x))
RFit(x) == RelayMax(x, UnpackedAddr(x)) - Hdr0(RelayProto(x), Kind(x), UnpackedAddr(x)) - TagLen(RelayProto(x))
\* (lengths beyond the sender's own limit + 2 add nothing: the sender refuses them all alike)
EdgeLens(x) == {l \in Small \cup {OFit(x) + d : d \in Deltas} \cup {RFit(x) + d : d \in Deltas} : l >= 0 /\ l <= OFit(x) + 2}
\* named fixed payload lengths (slices where the lengths are given)
FixedLens == ${FixedLens}
MCLensOf(x) == IF x.lm = "edge" THEN EdgeLens(x) ELSE FixedLens[x.lm]

AllSP == ServerProtos
AllCP == ClientProtos
MCGroups == {[dir |-> d, sp |-> s, cp |-> q] : d \in {"up", "down"}, s \in ServerProtos, q \in ClientProtos}
MCBasesOf(g) == ${Bases}

-----------------------------------------------------------------------------
(* emission: one CASE line per case, for the behaviour whose padding choices were the smallest *)
P(x) == [e |-> x.err, s |-> x.start, l |-> x.len, p |-> x.pad, lo |-> x.lo, hi |-> x.hi, h |-> x.h, need |-> x.need,
         max |-> x.max, bud |-> x.budget, room |-> x.room, sp |-> x.sp, ps |-> x.ps, bl |-> x.buflen]
CaseOut == [c |-> c, st |-> stage, o |-> P(o), rb |-> rb, u1 |-> u1, r |-> P(r), u2 |-> u2]
Emit == (stage' \in {"done", "refused", "dropped"} /\ canon') => PrintT("CASE " \o ToJson(CaseOut'))
View == sv
=============================================================================
