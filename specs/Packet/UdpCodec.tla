------------------------------- MODULE UdpCodec ------------------------------
(* The size and layout arithmetic of the UDP codecs of shadowsocks-go, shared *)
(* by UdpLayout (one datagram through one relay hop) and UdpSession (the      *)
(* downlink of one client session whose address changes).  Property C05.      *)
(*                                                                            *)
(* Code:                                                                      *)
(*   zerocopy/zerocopy.go   Headroom, MaxHeadroom, UDPRelayHeadroom           *)
(*   zerocopy/packet.go     MaxPacketSizeForAddr, ErrPayloadTooBig            *)
(*   ss2022/packet.go       ShadowPacketClientPacker / ServerPacker           *)
(*                          .PackInPlace (maxPaddingLen)                      *)
(*   ss2022/header.go       UDP header constants                              *)
(*   direct/packet.go       Direct*, ShadowsocksNone*, Socks5* packers        *)
(*   socks5/addr.go         SOCKS address lengths, IPv4-mapped -> IPv4        *)
(*                                                                            *)
(* Bytes are abstract: a packet is [start, len) plus the lengths of its       *)
(* parts; a payload is its length; an address is its SOCKS shape (kind,       *)
(* domain length, port).                                                      *)
EXTENDS Integers, TLC

CONSTANTS
    \* ---- constants of the code (lib/props/c05.py reads them from the compiled code: harness/cmd/vconst/packet.go)
    SepLen,         \* ss2022.UDPSeparateHeaderLength: session id + packet id
    IdLen,          \* ss2022.IdentityHeaderLength
    CFix,           \* ss2022.UDPClientMessageHeaderFixedLength: type + timestamp + padding length
    SFix,           \* ss2022.UDPServerMessageHeaderFixedLength: + client session id
    Tag,            \* AEAD overhead (Headroom.Rear of the Shadowsocks 2022 codecs)
    PadCap,         \* largest value of the u16 padding length field (math.MaxUint16 in PackInPlace)
    Rsv,            \* SOCKS5 UDP request header before the address: RSV RSV FRAG
    V4Len, V6Len,   \* socks5.IPv4AddrLen, socks5.IPv6AddrLen
    DomFix,         \* ATYP + length octet + port of a domain address (socks5.MaxAddrLen - 255)
    IPv4Hdr, IPv6Hdr, UdpHdr, JumboOpt, JumboMtu,   \* zerocopy.MaxPacketSizeForAddr
    HrCP,           \* protocol -> [front, rear]: headroom advertised for the ClientPacker (UDPClient.Info)
    HrSU,           \* ... for the ServerUnpacker (UDPNATServer.Info / UDPSessionServer.Info)
    HrSP,           \* ... by ServerPacker.ServerPackerInfo
    HrCU            \* ... by ClientUnpacker.ClientUnpackerInfo

-----------------------------------------------------------------------------
(* arithmetic *)
Max2(a, b) == IF a >= b THEN a ELSE b
Min2(a, b) == IF a <= b THEN a ELSE b
Min3(a, b, d) == Min2(a, Min2(b, d))
MaxOf(S) == CHOOSE m \in S : \A x \in S : x <= m

(* protocols *)
SSProtos == {"ss0", "ss1", "ss2", "ss3"}                \* Shadowsocks 2022 with 0..3 identity headers
ServerProtos == {"ss0", "ss1", "none", "socks5", "direct"}   \* a 2022 server strips exactly 0 or 1 identity header
ClientProtos == SSProtos \cup {"none", "socks5", "direct"}
IsSS(p) == p \in SSProtos
Eih(p) == CASE p = "ss1" -> 1 [] p = "ss2" -> 2 [] p = "ss3" -> 3 [] OTHER -> 0

(* addresses: [k, n, port]; k = "v4" | "m4" (IPv4-mapped IPv6) | "v6" | "dom", n = domain length (0 for IP)  *)
IsIP(a) == a.k \in {"v4", "m4", "v6"}
\* socks5.LengthOfAddrFromAddrPort / LengthOfAddrFromConnAddr
AddrLen(a) == CASE a.k \in {"v4", "m4"} -> V4Len [] a.k = "v6" -> V6Len [] OTHER -> DomFix + a.n
\* socks5.WriteAddrFrom*: an IPv4-mapped IPv6 address goes on the wire as IPv4 and comes back as IPv4
Norm(a) == IF a.k = "m4" THEN [a EXCEPT !.k = "v4"] ELSE a
\* address family as zerocopy.MaxPacketSizeForAddr sees it (Is4 || Is4In6)
FamOf(a) == IF a.k \in {"v4", "m4"} THEN "v4" ELSE "v6"
NoAddr == [k |-> "-", n |-> 0, port |-> 0]

\* zerocopy.MaxPacketSizeForAddr
MaxPacketSize(mtu, fam) ==
    IF fam = "v4" THEN mtu - IPv4Hdr - UdpHdr
    ELSE IF mtu > JumboMtu THEN mtu - IPv6Hdr - JumboOpt - UdpHdr
    ELSE mtu - IPv6Hdr - UdpHdr

\* what the network allows, independent of the code's constants: the IP packet that carries a UDP datagram of n
\* bytes (RFC 791: 20, RFC 8200: 40, RFC 768: 8, RFC 2675: the jumbo payload option when the 16-bit length overflows)
WireSize(n, fam) == IF fam = "v4" THEN 20 + 8 + n ELSE IF 8 + n > 65535 THEN 40 + 8 + 8 + n ELSE 40 + 8 + n

\* zerocopy.MaxHeadroom, zerocopy.UDPRelayHeadroom
MaxHeadroom(h1, h2) == [front |-> Max2(h1.front, h2.front), rear |-> Max2(h1.rear, h2.rear)]
RelayHeadroom(packer, unpacker) ==
    [front |-> Max2(0, packer.front - unpacker.front), rear |-> Max2(0, packer.rear - unpacker.rear)]

(* message kinds: "c2s" = client message (ClientPacker -> ServerUnpacker), "s2c" = server message *)
\* header in front of the payload when no padding is added
Hdr0(p, kind, a) ==
    CASE IsSS(p) /\ kind = "c2s" -> SepLen + Eih(p) * IdLen + CFix + AddrLen(a)     \* headerNoPaddingLen, client packer
      [] IsSS(p) /\ kind = "s2c" -> SepLen + SFix + AddrLen(a)                      \* headerNoPaddingLen, server packer
      [] p = "none" -> AddrLen(a)
      [] p = "socks5" -> Rsv + AddrLen(a)
      [] OTHER -> 0                                                                 \* direct
TagLen(p) == IF IsSS(p) THEN Tag ELSE 0

\* ss2022.NoPadding / PadPlainDNS / PadAll
ShouldPad(pol, a) == pol = "all" \/ (pol = "dns" /\ a.port = 53)

\* maxPaddingLen of the two Shadowsocks 2022 PackInPlace methods
PadBudget(maxp, h, L) == maxp - h - L - Tag
PadRoom(ps, h) == ps - h
PadBound(maxp, h, L, ps) == Min3(PadBudget(maxp, h, L), PadRoom(ps, h), PadCap)
\* 1 + mrand.IntN(maxPaddingLen): any of 1..bound; TLC follows the two ends
PadChoices(bound, should) == IF should /\ bound > 0 THEN {1, bound} ELSE {0}

NoPack == [err |-> FALSE, start |-> 0, len |-> 0, pad |-> 0, lo |-> 0, hi |-> 0, h |-> 0, need |-> 0, max |-> 0,
           budget |-> 0, room |-> 0, sp |-> FALSE, ps |-> 0, buflen |-> 0]
\* PackInPlace(b, addr, payloadStart = ps, payloadLen = L) with packet size limit maxp and padding `pad`.
\* [lo, hi) is the hull of the bytes the packer writes.  `need` = smallest packet that carries the payload.
Pack(p, kind, a, ps, L, maxp, pol, pad, buflen) ==
    LET h == Hdr0(p, kind, a)
        base == [NoPack EXCEPT !.h = h, !.need = h + L + TagLen(p), !.max = maxp, !.ps = ps, !.buflen = buflen,
                               !.budget = PadBudget(maxp, h, L), !.room = PadRoom(ps, h), !.sp = ShouldPad(pol, a)]
    IN IF IsSS(p) THEN
           IF PadBound(maxp, h, L, ps) < 0
           THEN [base EXCEPT !.err = TRUE, !.lo = ps, !.hi = ps]                      \* ErrPayloadTooBig, nothing written
           ELSE [base EXCEPT !.start = ps - h - pad, !.len = h + pad + L + Tag, !.pad = pad,
                             !.lo = ps - h - pad, !.hi = ps + L + Tag]                \* header, sealed body, tag
       ELSE IF p = "direct" THEN
           [base EXCEPT !.err = L > maxp, !.start = ps, !.len = L, !.lo = ps, !.hi = ps]
       ELSE \* none, socks5: the header is written before the size is judged
           [base EXCEPT !.err = h + L > maxp, !.start = ps - h, !.len = h + L, !.lo = ps - h, !.hi = ps]
PackPads(p, kind, a, ps, L, maxp, pol) ==
    IF IsSS(p) THEN PadChoices(PadBound(maxp, Hdr0(p, kind, a), L, ps), ShouldPad(pol, a)) ELSE {0}

=============================================================================
