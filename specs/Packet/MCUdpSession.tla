----------------------------- MODULE MCUdpSession -----------------------------
(* Model-checking / case-generation instance of UdpSession.  The ${...}       *)
(* placeholders are filled in by lib/props/c05.py: the constants of the code  *)
(* (harness/cmd/vconst/packet.go) and the configurations of the tier.         *)
EXTENDS UdpSession, Json

\* headroom tables read from the compiled code (not used by the session model; UdpCodec declares them)
MCHrCP == ${HrCP}
MCHrSU == ${HrSU}
MCHrSP == ${HrSP}
MCHrCU == ${HrCU}

A(k, n, port) == [k |-> k, n |-> n, port |-> port]
MCCfgs == ${SessCfgs}
MCSocks == ${SessSocks}
MCSources == ${SessSources}
\* payload lengths: the small ones, and those whose smallest packet lies around the limit of EITHER family (a stale
\* limit of the other family decides differently exactly between the two)
Deltas == ${SessDeltas}
Small == ${SessSmall}
MCLensOf(cf, src) ==
    LET h == Need(cf.sp, src, 0)
    IN {l \in Small \cup {MaxPacketSize(cf.mtu, f) - h + d : f \in {"v4", "v6"}, d \in Deltas} : l >= 0}

\* one CASE line per reply, with the history of the session
Emit == IsReply(act') => PrintT("CASE " \o ToJson([cfg |-> cfg, path |-> path, r |-> act']))
View == sv
=============================================================================
