CONSTANTS
  SepLen = ${SepLen}
  IdLen = ${IdLen}
  CFix = ${CFix}
  SFix = ${SFix}
  Tag = ${Tag}
  PadCap = ${PadCap}
  Rsv = ${Rsv}
  V4Len = ${V4Len}
  V6Len = ${V6Len}
  DomFix = ${DomFix}
  IPv4Hdr = ${IPv4Hdr}
  IPv6Hdr = ${IPv6Hdr}
  UdpHdr = ${UdpHdr}
  JumboOpt = ${JumboOpt}
  JumboMtu = ${JumboMtu}
  HrCP <- MCHrCP
  HrSU <- MCHrSU
  HrSP <- MCHrSP
  HrCU <- MCHrCU
  Cfgs <- MCCfgs
  Socks <- MCSocks
  MaxMoves = ${SessMaxMoves}
  Sources <- MCSources
  Refresh = "${SessRefresh}"
  LensOf <- MCLensOf
INIT Init
NEXT Next
VIEW View
${EMIT}
INVARIANTS TypeOK CachedLimit
PROPERTIES LimitIsCurrent WithinMtu TooBigIsRefused HistoryFree
CHECK_DEADLOCK FALSE
