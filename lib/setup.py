#!/usr/bin/env python3
"""setup_cmd: warm the Go build cache for the harness (offline, from files on disk only)."""
import os, sys, subprocess
sys.path.insert(0, os.path.dirname(os.path.abspath(__file__)))
import vlib
vlib.sync_gosum()
env = vlib.goenv()
d = vlib.scratch("setup")
rc = 0
drv = os.path.join(vlib.HARNESS, "drivers")
for pkg in sorted(os.listdir(drv)):
    p = subprocess.run(["go", "test", "-c", "-vet=off", "-tags", "verif", "-o", os.path.join(d, pkg + ".test"), "./drivers/" + pkg],
                       cwd=vlib.HARNESS, env=env)
    rc |= p.returncode
p = subprocess.run(["go", "build", "-tags", "verif", "-o", d, "./cmd/..."], cwd=vlib.HARNESS, env=env)
rc |= p.returncode
p = subprocess.run(["java", "-cp", vlib.TLA_JAR, "tlc2.TLC", "-h"], stdout=subprocess.DEVNULL, stderr=subprocess.DEVNULL)
print("setup done rc=%d" % rc)
sys.exit(1 if rc else 0)
