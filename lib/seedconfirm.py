#!/usr/bin/env python3
"""Confirm a seeded change in a scratch worktree and file it under /verif/seeded/<name>/.
usage: seedconfirm.py <srcdir with patch.diff, meta.json, demo> <name> [pkgs to test ...]"""
import json, os, shutil, subprocess, sys, tempfile
sys.path.insert(0, os.path.dirname(os.path.abspath(__file__)))
import vlib
src, name = sys.argv[1], sys.argv[2]
pkgs = sys.argv[3:]
meta = json.load(open(os.path.join(src, "meta.json")))
wt = tempfile.mkdtemp(prefix="confirm-")
os.rmdir(wt)
env = vlib.goenv()
def sh(cmd, cwd=wt, timeout=1800):
    p = subprocess.run(cmd, shell=True, cwd=cwd, env=env, stdout=subprocess.PIPE, stderr=subprocess.STDOUT, text=True, timeout=timeout)
    return p.returncode, p.stdout
subprocess.check_call(["git", "-C", "/repo", "worktree", "add", "-q", "--detach", wt, "HEAD"])
out = {}
try:
    demo_src = sorted([f for f in os.listdir(src) if f not in ("patch.diff", "meta.json") and (f.endswith(".go") or os.path.isdir(os.path.join(src, f)))])
    place = meta["demo_place"].split()[0]
    dst = os.path.join(wt, place)
    os.makedirs(os.path.dirname(dst), exist_ok=True)
    # the demo is the single non-patch/non-meta file (or directory)
    d0 = os.path.join(src, demo_src[0])
    if os.path.isdir(d0):
        shutil.copytree(d0, dst, dirs_exist_ok=True)
    else:
        shutil.copy(d0, dst)
    rc0, o0 = sh(meta["demo_cmd"])
    out["demo_without_change"] = "pass" if rc0 == 0 else "FAIL"
    rc, o = sh("git apply " + os.path.join(os.path.abspath(src), "patch.diff"))
    out["patch_applies"] = rc == 0
    rcb, ob = sh("go build ./... && go vet " + " ".join(pkgs or ["./..."]))
    out["builds"] = rcb == 0
    rc1, o1 = sh(meta["demo_cmd"])
    out["demo_with_change"] = "fail" if rc1 != 0 else "PASS(!)"
    # existing tests of the touched packages (demo file removed)
    if os.path.isdir(dst):
        shutil.rmtree(dst)
    else:
        os.remove(dst)
    rct, ot = sh(os.environ.get("SEED_TESTCMD") or ("go test -vet=off -count=1 -timeout 60m " + " ".join(pkgs or ["./..."])))
    out["existing_tests_with_change"] = "pass" if rct == 0 else "FAIL"
    out["existing_tests_tail"] = ot[-600:]
    out["demo_fail_tail"] = o1[-800:]
finally:
    subprocess.call(["git", "-C", "/repo", "worktree", "remove", "--force", wt])
ok = out.get("demo_without_change") == "pass" and out.get("demo_with_change") == "fail" and out.get("existing_tests_with_change") == "pass" and out.get("builds")
print(json.dumps(out, indent=1))
if ok:
    dstdir = os.path.join(vlib.VERIF, "seeded", name)
    os.makedirs(dstdir, exist_ok=True)
    for f in os.listdir(src):
        s = os.path.join(src, f)
        if os.path.isdir(s):
            shutil.copytree(s, os.path.join(dstdir, f), dirs_exist_ok=True)
        else:
            shutil.copy(s, dstdir)
    meta["confirmed"] = {k: out[k] for k in ("demo_without_change", "demo_with_change", "existing_tests_with_change", "builds")}
    meta["confirmed"]["packages_tested"] = pkgs or ["./..."]
    json.dump(meta, open(os.path.join(dstdir, "meta.json"), "w"), indent=1)
    print("CONFIRMED ->", dstdir)
else:
    print("NOT CONFIRMED")
    sys.exit(1)
