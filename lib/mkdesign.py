#!/usr/bin/env python3
"""Regenerates the generated parts of DESIGN.md: the seeded-changes table (from seeded/*/meta.json) and the tier table
(from evidence/*.json as left by the last runs on the unchanged tree)."""
import json, os, re, subprocess, glob
V = os.path.dirname(os.path.dirname(os.path.abspath(__file__)))
p = os.path.join(V, "DESIGN.md")
s = open(p).read()
table = subprocess.run(["python3", os.path.join(V, "lib", "seedtable.py")], stdout=subprocess.PIPE, text=True).stdout
s = re.sub(r"<!-- SEEDTABLE -->.*?<!-- /SEEDTABLE -->", lambda m: "<!-- SEEDTABLE -->\n" + table + "\n<!-- /SEEDTABLE -->", s, flags=re.S)
rows = ["| Property | tier | seed | wall (s) | states | transitions | replayed on / validated against the code | violations |", "|---|---|---|---|---|---|---|---|"]
for f in sorted(glob.glob(os.path.join(V, "evidence", "C*.json"))):
    d = json.load(open(f))
    c = d.get("coverage", {})
    rows.append("| %s | %s | %s | %s | %s | %s | %s | %s |" % (d.get("property_id"), d.get("tier"), d.get("seed"), round(d.get("wall_s", 0)), c.get("states", "-"), c.get("transitions", "-"),
                                                         c.get("traces_validated_against_impl", "-"), d.get("violations", 0)))
s = re.sub(r"<!-- TIERTABLE -->.*?<!-- /TIERTABLE -->", lambda m: "<!-- TIERTABLE -->\n" + "\n".join(rows) + "\n<!-- /TIERTABLE -->", s, flags=re.S)
open(p, "w").write(s)
print("DESIGN.md: %d seeded changes, %d evidence files" % (table.count("\n") - 2, len(rows) - 2))
