"""C07 - SOCKS5, HTTP CONNECT and Shadowsocks-none handshakes carry requests faithfully.
Spec: specs/Wire/Handshake.tla.  Binding: replay of TLC behaviours against the real servers and clients
over a scripted fragmenting connection inside testing/synctest (drivers/c07)."""
import json, random
import vlib
from props import common

SPEC = vlib.os.path.join(vlib.VERIF, "specs", "Wire")

# the 13 named dial result codes, in the order of conn/dialresult.go
DC = ["DcSuccess", "DcEACCES", "DcENETDOWN", "DcENETUNREACH", "DcENETRESET", "DcECONNABORTED", "DcECONNRESET",
      "DcETIMEDOUT", "DcECONNREFUSED", "DcEHOSTDOWN", "DcEHOSTUNREACH", "DcDNS", "DcOther"]
UDP_BND = [1, 127, 0, 0, 1, 4, 56]      # SOCKS address of the driver's LocalAddr 127.0.0.1:1080


# ---------------------------------------------------------------- TLA+ literals
def tla(v):
    if isinstance(v, bool):
        return "TRUE" if v else "FALSE"
    if isinstance(v, int):
        return str(v)
    if isinstance(v, str):
        return '"%s"' % v
    if isinstance(v, (list, tuple)):
        return "<<" + ", ".join(tla(x) for x in v) + ">>"
    if isinstance(v, (set, frozenset)):
        return "{" + ", ".join(sorted(tla(x) for x in v)) + "}"
    if isinstance(v, dict):
        return "[" + ", ".join("%s |-> %s" % (k, tla(x)) for k, x in v.items()) + "]"
    raise TypeError(v)


class S(list):
    """a TLA+ set given as a python list (elements may be unhashable)"""


def lit(v):
    if isinstance(v, S):
        return "{" + ", ".join(lit(x) for x in v) + "}"
    if isinstance(v, dict):
        return "[" + ", ".join("%s |-> %s" % (k, lit(x)) for k, x in v.items()) + "]"
    if isinstance(v, (list, tuple)) and not isinstance(v, S):
        return "<<" + ", ".join(lit(x) for x in v) + ">>"
    return tla(v)


def rbytes(rnd, n, alphabet=None):
    if alphabet:
        return [rnd.choice(alphabet) for _ in range(n)]
    return [rnd.randrange(256) for _ in range(n)]


HOSTCHARS = [ord(c) for c in "abcdefghijklmnopqrstuvwxyz0123456789"]


def addr(kind, b, port):
    return {"k": kind, "b": list(b), "port": port}


def plan(atts, pipe=False, meth="CONNECT", xh=0):
    return {"atts": [{"cred": c, "close": cl} for c, cl in atts], "pipe": pipe, "meth": meth, "xh": xh}


def base_consts(k):
    c = dict(k["Wire"])
    c.update(Variant="code", CutMode="all", EMIT="", INV_EXTRA="LenConsistent", UdpBnd=lit(UDP_BND))
    return c


def users_and_creds(rnd, lens):
    """Two configured users and the credential lattice around them: right pair, wrong password, unknown
    user, the other user's password, name/password swapped (PASSWD overwrites UNAME in the scratch buffer:
    the swapped pair makes the overwritten bytes equal a configured name), zero-length fields."""
    l1, l2 = lens
    u1 = rbytes(rnd, l1, HOSTCHARS)
    p1 = rbytes(rnd, l2)
    u2 = rbytes(rnd, l2, HOSTCHARS)
    while u2 == u1:
        u2 = rbytes(rnd, l2, HOSTCHARS)
    p2 = list(u1)          # user 2's password is user 1's name
    users = [{"u": u1, "p": p1}, {"u": u2, "p": p2}]
    wrong = list(p1)
    wrong[-1] = (wrong[-1] + 1) % 256
    unknown = list(u1)
    unknown[0] = HOSTCHARS[(HOSTCHARS.index(unknown[0]) + 1) % len(HOSTCHARS)] if unknown[0] in HOSTCHARS else 97
    if unknown in (u1, u2):
        unknown = unknown + [120]
    creds = [
        {"u": u1, "p": p1},            # 1 right
        {"u": u2, "p": p2},            # 2 right, other user
        {"u": u1, "p": wrong},         # 3 wrong password
        {"u": unknown, "p": p1},       # 4 unknown user, somebody's password
        {"u": u1, "p": p2},            # 5 other user's password (= own name)
        {"u": p1 if all(x in HOSTCHARS for x in p1) else u2, "p": u1},   # 6 swapped / name of 2 with name of 1 as password... = right for user 2
        {"u": [], "p": p1},            # 7 ULEN = 0
        {"u": u1, "p": []},            # 8 PLEN = 0
    ]
    return users, creds


def small_config(k, seed, level, variant=0):
    """Short fields, every segmentation (CutMode all).  level 0: the graph that is replayed edge by edge in the
    quick tier (its alternatives rotate with `variant`; six variants cover every alternative, among them all
    twelve abort codes); 1: quick design run; 2: thorough design run."""
    rnd = random.Random(seed * 7919 + 1 + level)
    users, creds = users_and_creds(rnd, (1, 2))
    w = k["Wire"]
    v4 = addr("v4", rbytes(rnd, 4), rnd.choice([0, 80, 65535]))
    v6 = addr("v6", rbytes(rnd, 16), rnd.randrange(65536))
    d1 = addr("dom", rbytes(rnd, 1, HOSTCHARS), rnd.randrange(65536))
    d3 = addr("dom", rbytes(rnd, 3, HOSTCHARS), 80)
    dx = addr("dom", rbytes(rnd, 2), rnd.randrange(65536))          # any byte values: SOCKS5 / ss-none only
    d0, bad = addr("dom0", [], 80), addr("bad", [], 0)
    v6h, v4h = addr("v6", v6["b"], 80), addr("v4", v4["b"], 80)      # port 80: the Host header may omit it
    c = base_consts(k)
    allcodes = [w[x] for x in DC[1:]]
    plans = [plan([(0, False)]), plan([(1, False)]), plan([(3, False)]), plan([(3, True)]),
             plan([(0, False), (1, False)]), plan([(3, False), (2, False)], pipe=True),
             plan([(0, False), (4, True)]), plan([(1, False)], xh=1), plan([(2, False)], meth="GET"),
             plan([(0, False)], meth="GET")]
    if level == 0:
        pick = lambda opts: opts[variant % len(opts)]
        addrs, haddrs = [pick([v4, v6]), dx, pick([d0, bad, d0])], [pick([v6h, v4h, v6, v4]), d3, d0]
        mls = [[0], [2], pick([[1, 2, 0], [0, 2], [2, 1, 0]])]
        cidx = [0, 1, pick([3, 4, 5]), pick([6, 7, 8, 2])]
        cmds = [w["CmdConnect"], pick([w["CmdUdp"], w["CmdBind"], w["CmdUdp"]])]
        ens = [pick([[True, True], [True, False], [True, True], [False, True]])]
        bnds = ["v4", pick(["dom", "v6"])]
        plans = [plans[i] for i in (0, 1, 3, 4, 5, 7, 8)] if variant % 2 == 0 else [plans[i] for i in (0, 2, 4, 6, 7, 9)]
        allcodes = [allcodes[(3 * variant + i) % len(allcodes)] for i in range(3)]
        maxdata, wsz, rsz = 2, [2], [0, 1]
    elif level == 1:
        addrs, haddrs = [v4, v6, dx, d0, bad], [v4, v6h, d3, d0]
        mls = [[0], [2], [0, 2], [1, 2, 0], [1]]
        cidx = [0, 1, 2, 3, 4, 5, 6, 7, 8]
        cmds = [w["CmdConnect"], w["CmdBind"], w["CmdUdp"]]
        ens = [[True, True], [True, False], [False, True]]
        bnds = ["v4", "v6", "dom"]
        maxdata, wsz, rsz = 2, [1, 2], [0, 1]
    else:
        addrs, haddrs = [v4, v6, d1, dx, d3, d0, bad], [v4h, v6, v6h, d1, d3, d0]
        mls = [[0], [2], [0, 2], [1, 2, 0], [1], [2, 2], [2, 0]]
        cidx = [0, 1, 2, 3, 4, 5, 6, 7, 8]
        cmds = [w["CmdConnect"], w["CmdBind"], w["CmdUdp"]]
        ens = [[True, True], [True, False], [False, True], [False, False]]
        bnds = ["v4", "v6", "dom"]
        maxdata, wsz, rsz = 3, [1, 2], [0, 1, 2]
    c.update(Protos=lit(S(["socks5", "http", "none"])), Users=lit(users), Creds=lit(creds), CredIdx=lit(S(cidx)),
             Addrs=lit(S(addrs)), HttpAddrs=lit(S(haddrs)), MethodLists=lit(S(mls)), CmdSet=lit(S(cmds)),
             AuthModes=lit(S([True, False])), Enables=lit(S(ens)), Bnds=lit(S(bnds)), HttpPlans=lit(S(plans)),
             AbortCodes=lit(S(allcodes)), MaxData=maxdata, WriteSizes=lit(S(wsz)), ReadSizes=lit(S(rsz)))
    return c, users, creds


def long_config(k, seed, level):
    """Fields at their maximum lengths (255-byte names, passwords, domains, method lists), ports 0 and 65535;
    segment boundaries at and next to field boundaries only (CutMode edge).  level 0: quick replay graph,
    1: thorough replay graph / quick design, 2: thorough design."""
    rnd = random.Random(seed * 104729 + 5 + level)
    w = k["Wire"]
    u1, p1 = rbytes(rnd, 255, HOSTCHARS), rbytes(rnd, 255)
    u2, p2 = rbytes(rnd, 2, HOSTCHARS), rbytes(rnd, 1)
    users = [{"u": u1, "p": p1}, {"u": u2, "p": p2}]
    wrong = p1[:-1] + [(p1[-1] + 1) % 256]
    unknown = u1[:-1] + [HOSTCHARS[(HOSTCHARS.index(u1[-1]) + 1) % len(HOSTCHARS)]]
    creds = [{"u": u1, "p": p1}, {"u": u2, "p": p2}, {"u": u1, "p": wrong}, {"u": unknown, "p": p1},
             {"u": u1[:254], "p": p1}, {"u": u1, "p": p1[:254]}, {"u": u2, "p": p1}]
    m255 = lambda pos, want: [want if i == pos else 1 for i in range(255)]
    mls = [m255(0, 2), m255(127, 2), m255(254, 2), m255(254, 0), m255(-1, 0), [3] * 254 + [0], [0, 2]]
    addrs = [addr("dom", rbytes(rnd, 255), 65535), addr("dom", rbytes(rnd, 254), 0), addr("v6", rbytes(rnd, 16), 65535)]
    haddrs = [addr("dom", rbytes(rnd, 255, HOSTCHARS), 65535), addr("v6", rbytes(rnd, 16), 1)]
    c = base_consts(k)
    plans = [plan([(1, False)]), plan([(3, False)]), plan([(0, False), (1, False)]), plan([(4, False), (2, False)], pipe=True),
             plan([(1, False)], xh=1)]
    if level == 0:
        cidx, ads, hads, ml, pl = [0, 1, 6, rnd.choice([3, 4, 5])], addrs[:1], haddrs[:1], [rnd.choice(mls[:3]), rnd.choice(mls[3:6])], plans[:2]
        cmds, codes, bnds, maxdata = [w["CmdConnect"]], [w["DcECONNREFUSED"]], ["v4"], 1
    elif level == 1:
        cidx, ads, hads, ml, pl = [0, 1, 3, 5], addrs[:2], haddrs[:1], [mls[1], mls[3], mls[4]], plans[:3]
        cmds, codes, bnds, maxdata = [w["CmdConnect"], w["CmdUdp"]], [w["DcECONNREFUSED"], w["DcOther"]], ["v4"], 2
    else:
        cidx, ads, hads, ml, pl = [0, 1, 2, 3, 4, 5, 6, 7], addrs, haddrs, mls, plans
        cmds, codes, bnds, maxdata = [w["CmdConnect"], w["CmdUdp"]], [w["DcECONNREFUSED"], w["DcOther"]], ["v4", "dom"], 2
    c.update(Protos=lit(S(["socks5", "http", "none"])), Users=lit(users), Creds=lit(creds), CredIdx=lit(S(cidx)),
             Addrs=lit(S(ads)), HttpAddrs=lit(S(hads)), MethodLists=lit(S(ml)), CmdSet=lit(S(cmds)),
             AuthModes=lit(S([True, False])), Enables=lit(S([[True, True]])), Bnds=lit(S(bnds)), HttpPlans=lit(S(pl)),
             AbortCodes=lit(S(codes)), MaxData=maxdata, WriteSizes=lit(S([maxdata])), ReadSizes=lit(S([0, 1])),
             CutMode="edge", INV_EXTRA="")
    return c, users, creds


# ---------------------------------------------------------------- the check

def spec_reply_table(out):
    for line in out.splitlines():
        if line.startswith('"REPTABLE '):
            return {int(c): int(r) for c, r in json.loads(json.loads(line)[9:])}
    return None


def drive(v, binary, behs, users, creds, seed, what, timeout=3000, extra_params=None):
    """Replay behaviours on the real code, in parallel processes."""
    if not behs:
        return 0, 0, 0
    inputs = [{"behaviours": ch, "seed": seed, "consts": {"Users": users, "Creds": creds}, "params": extra_params or {}}
              for ch in common.chunks(behs, 16)]
    runs = steps = distinct = 0
    modes = {}
    for res, out, rc in common.run_parallel(binary, "TestHandshake", inputs, timeout):
        if res is None and rc != 0 and ("panic:" in out or "fatal error:" in out) and "database64128/shadowsocks-go" in out:
            v.violation("hs/panic", "the code under test panicked during replay: " + out[-1500:], {"stdout": out[-4000:]})
            continue
        res = common.absorb(v, res, out, rc, what)
        runs += res["behaviours"]
        steps += res["steps"]
        distinct = max(distinct, res.get("distinct", 0))
        for k_, n in res.get("counters", {}).items():
            if k_.startswith("mode"):
                modes[k_] = modes.get(k_, 0) + n
    v.coverage.setdefault("replay_modes", {})
    for k_, n in modes.items():
        v.coverage["replay_modes"][k_] = v.coverage["replay_modes"].get(k_, 0) + n
    return runs, steps, distinct


def graph_tlc(cfg, workers, timeout):
    c = dict(cfg)
    c["EMIT"] = "ACTION_CONSTRAINT Emit"
    return vlib.tlc(SPEC, "MCHandshake", "MCHandshake.cfg", c, workers=workers, timeout=timeout, edges=True, heap="3g")


def graph_replay(v, binary, g, users, creds, seed, name, max_paths=None, walks=0):
    """Replay a path cover of every edge of an emitted state graph on the real code."""
    if g.violation:
        raise vlib.Broken("graph configuration %s violates %s in the design: %s" % (name, g.violation, g.out[-1500:]))
    graph = vlib.Graph(g)
    paths, left = graph.cover(seed=seed, max_len=60, max_paths=max_paths)
    behs = [graph.behaviour(p) for p in paths]
    if walks:
        behs += [graph.behaviour(p) for p in graph.random_walks(walks, 40, seed=seed)]
    runs, steps, distinct = drive(v, binary, behs, users, creds, seed, "replay of " + name)
    acts = {}
    for e in graph.edges:
        acts[e[1]["n"]] = acts.get(e[1]["n"], 0) + 1
    v.coverage.setdefault("graphs", {})[name] = {"distinct": g.distinct, "generated": g.generated, "edges": len(graph.edges),
                                                 "scenarios": len(graph.inits), "paths": len(paths), "uncovered_edges": left,
                                                 "runs_on_real_code": runs, "steps": steps, "tlc_wall_s": round(g.wall, 1),
                                                 "edges_by_action": acts}
    for n_, c_ in acts.items():
        v.coverage.setdefault("actions_replayed", {})
        v.coverage["actions_replayed"][n_] = v.coverage["actions_replayed"].get(n_, 0) + c_
    return runs, steps, distinct, left


ALL_ACTIONS = ["C_Start", "C_Close", "C_ReadMsel", "C_ReadAuth", "C_ReadRep5", "C_ReadRepRest", "C_HFill", "C_HParse",
               "S_Eof", "S_M3", "S_MRest", "S_A4", "S_ARest", "S_APw", "S_R5", "S_RRest", "S_UdpHold", "S_N2", "S_NRest",
               "S_HFill", "S_HParse", "Proceed", "Abort", "Deliver", "AppWrite", "AppRead", "ClientClose"]


def run(tier, seed, replay):
    from concurrent.futures import ThreadPoolExecutor
    v = vlib.Verdict("C07", tier, seed, "model_checking")
    work = vlib.scratch("c07")
    big = tier == "thorough"
    with ThreadPoolExecutor(max_workers=4) as ex:
        fb = ex.submit(vlib.build_driver, "c07", work)
        fk = ex.submit(common.vconst, work)
        binary, k = fb.result(), fk.result()

    if replay:
        doc = json.load(open(replay))
        rp = doc["replay"].get("replay") or doc["replay"].get("Replay") or doc["replay"]
        if rp.get("kind") == "reptable":
            check_reply_table(v, k, {int(c): r for c, r in rp["spec"].items()})
            v.coverage.update(states=1, transitions=256, traces_validated_against_impl=1)
            v.sample(rp)
            return v.finish()
        beh = {"init": rp["init"], "steps": rp["steps"], "cex": True}
        res, out, rc = vlib.run_driver(binary, "TestHandshake", {"behaviours": [beh], "seed": rp.get("seed", seed),
                                                                   "consts": {"Users": rp["users"], "Creds": rp["creds"]},
                                                                   "params": {"mode": rp["mode"]}}, 120)
        common.absorb(v, res, out, rc, "replay")
        v.coverage.update(states=1, transitions=len(rp["steps"]), traces_validated_against_impl=1)
        v.sample({"mode": rp["mode"], "steps": len(rp["steps"])})
        return v.finish()

    v.coverage["constants_from_code"] = k["Wire"]
    nrep = nsteps = uncovered = distinct = 0
    states = transitions = 0

    with ThreadPoolExecutor(max_workers=4) as ex:      # at most four JVMs at a time
        # (1) design, exhaustive, no graph: short fields with every segmentation ...
        dcfg, _, _ = small_config(k, seed, 2 if big else 1)
        fdesign = ex.submit(vlib.tlc, SPEC, "MCHandshake", "MCHandshake.cfg", dcfg, 16 if big else 8, 5400, False,
                            None, None, None, (), "6g", True)
        # ... and fields at their maximum lengths with boundary segmentations
        flong = None
        if big:
            lcfg, _, _ = long_config(k, seed, 2)
            flong = ex.submit(vlib.tlc, SPEC, "MCHandshake", "MCHandshake.cfg", lcfg, 16, 5400, False, None, None, None, (), "4g")

        # (2) state graphs whose every edge is replayed on the real code: short fields (every cut), maximum-length
        #     fields (boundary cuts) and, in the thorough tier, two more byte concretisations of the short-field graph
        jobs = []
        variants = range(6) if big else [seed % 6]
        for i, var in enumerate(variants):
            c2, u2, cr2 = small_config(k, seed * 31 + i, 0, var)
            jobs.append(("short-fields-v%d" % var, ex.submit(graph_tlc, c2, 4, 5400), u2, cr2, seed + i, 1500 if big else 0))
        lq, lu, lc = long_config(k, seed, 1 if big else 0)
        jobs.append(("max-length-fields", ex.submit(graph_tlc, lq, 8 if big else 4, 5400), lu, lc, seed, 0))
        # authentication enabled with an EMPTY user table: nobody can present matching credentials, so every request must
        # be refused (boundary configuration of the auth gate)
        c3, _, cr3 = small_config(k, seed * 17 + 3, 0, seed % 6)
        c3["Users"] = lit([])
        jobs.append(("no-configured-users", ex.submit(graph_tlc, c3, 4, 5400), [], cr3, seed + 11, 0))
        gstates = gtrans = 0
        for name, fut, us, cr, sd, walks in jobs:
            g = fut.result()
            runs, steps, dist, left = graph_replay(v, binary, g, us, cr, sd, name, walks=walks)
            nrep += runs
            nsteps += steps
            uncovered += left
            distinct = max(distinct, dist)
            gstates += g.distinct
            gtrans += g.generated

        design = fdesign.result()
        for name, r in (("short-fields", design), ("max-length-fields", flong.result() if flong else None)):
            if r is None:
                continue
            if r.violation:
                raise vlib.Broken("the design violates %s for %s" % (r.violation, name))
            states += r.distinct
            transitions += r.generated
            v.coverage.setdefault("design_exhaustive", {})[name] = {"distinct": r.distinct, "generated": r.generated,
                                                                    "depth": r.depth, "wall_s": round(r.wall, 1)}
    missing = [a for a in ALL_ACTIONS if not v.coverage.get("actions_replayed", {}).get(a)]
    if missing and big:
        raise vlib.Broken("spec actions never replayed on the real code in this run: %s" % missing)

    # (3) the reply table of the compiled code against the spec's, for every value of the code byte
    table = spec_reply_table(design.out)
    if table is None:
        raise vlib.Broken("the spec did not print its reply table")
    nv = len(v.violations)
    check_reply_table(v, k, table)
    v.violations = v.violations[nv:] + v.violations[:nv]

    v.coverage["states"] = states + gstates
    v.coverage["transitions"] = transitions + gtrans
    v.coverage["traces_validated_against_impl"] = nrep
    v.coverage["replayed_steps"] = nsteps
    v.coverage["distinct_action_outcomes"] = distinct
    v.coverage["exhaustive"] = uncovered == 0
    v.assumptions += ["net/http parses and prints message heads correctly (HTTP heads are modelled as line units)",
                      "the parties are sequential: one goroutine per side during the handshake",
                      "data is written into the tunnel only after the handshake completed on the writer's side "
                      "(early data before an HTTP 2xx is outside the property)",
                      "TLS variants of the HTTP proxy are not exercised; IPv4-mapped IPv6 targets are compared unmapped"]
    return v.finish()


def selftest():
    """Vacuity and teeth of the design spec (not part of the registered tiers): no dead action under
    -coverage 1, and the two design mutants are refuted by TLC."""
    work = vlib.scratch("c07self")
    k = common.vconst(work)
    c, _, _ = small_config(k, 1, 0)
    r = vlib.tlc(SPEC, "MCHandshake", "MCHandshake.cfg", c, workers=8, timeout=1800, edges=False, extra=("-coverage", "1"), keep_out=True)
    import re
    last = {}
    for m in re.finditer(r"^<(\w+) line \d+, col \d+ to line \d+, col \d+ of module Handshake>: (\d+):(\d+)", r.out, re.M):
        last[m.group(1)] = int(m.group(3))
    dead = [a for a, n in last.items() if n == 0]
    print("coverage:", last)
    assert not dead, dead
    for variant, inv in (("lookup-after-overwrite", None), ("raw-conn-after-2xx", "Transparent")):
        c2 = dict(c)
        c2["Variant"] = variant
        r = vlib.tlc(SPEC, "MCHandshake", "MCHandshake.cfg", c2, workers=8, timeout=1800, edges=False)
        print("design mutant", variant, "->", r.violation)
        assert r.violation and (inv is None or r.violation == inv)
    print("selftest ok")


def check_reply_table(v, k, table):
    bad = 0
    code_table = k["WireReplyTable"]
    for code in range(256):
        want = table.get(code, table.get(str(code)))
        if want is not None and code_table[code] != want:
            bad += 1
            v.violation("hs.socks5/reply-code-mapping",
                        "ReplyFromDialResultCode(%d) = %d, the protocol's reply for that dial result is %d" % (code, code_table[code], want),
                        {"kind": "reptable", "code": code, "got": code_table[code], "want": want,
                         "spec": {str(c): r for c, r in table.items()}})
            break
    v.coverage["reply_table_values_compared"] = 256
    return bad
