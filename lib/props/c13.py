"""C13 - the TCP relay connects clients to the routed destination and mirrors half-closes.
Spec: specs/Relay/TcpRelay.tla (handleConn as a phase machine + the two copy loops).  TLC checks the stream, reply,
half-close and statistics invariants and termination for every wait decision.  Binding: every path of the state graph
becomes one real connection through a TCP relay built from a JSON service.Config (server protocol x client protocol,
chained through a second relay for proxy client protocols), harness client through the repository's own client code,
harness target on loopback; stream positions, end-of-stream order, replies and the statistics API are compared."""
import json
import vlib
from props import common

SPEC = vlib.os.path.join(vlib.VERIF, "specs", "Relay")
SERVERS = {True: ["ss2022"], False: ["socks5", "http", "none", "direct"]}
CLIENTS = {True: ["directtfo", "ss2022", "none"], False: ["direct", "socks5", "http"]}
UNITS = [1, 700, 1440, 1441, 70000]
_SV = "phase rejected reqp cs cclosed ts tclosed tabort buf waited dialp tg cg l2r r2l l2rdone r2ldone tshut cshut reply stats".split()
IDX = {name: i for i, name in enumerate(_SV)}   # positions in TcpRelay.tla's sv tuple


def cases_for(graph, paths, sn, cn, lw, rnd, all_combos):
    out = []
    for p in paths:
        edges = [graph.edges[i] for i in p]
        f0 = json.loads(edges[0][0])
        rejected, reqp = f0[IDX["rejected"]], f0[IDX["reqp"]]
        dial = "rejected" if rejected else "ok"
        steps = []
        for (f, a, t, o) in edges:
            st = json.loads(t)
            s = {"n": a["n"], "k": a.get("k", 0), "code": a.get("code", ""), "out": a.get("out", ""), "tg": st[IDX["tg"]], "cg": st[IDX["cg"]],
                 "tshut": st[IDX["tshut"]], "cshut": st[IDX["cshut"]], "reply": st[IDX["reply"]],
                 "up": a.get("up", 0), "down": a.get("down", 0)}
            if a["n"] == "Dial":
                dial = a["code"]
            steps.append(s)
        waited = json.loads(edges[-1][2])[IDX["waited"]]
        combos = [(s, c) for s in SERVERS[sn] for c in CLIENTS[cn]]
        if not all_combos:
            forced = [c for c in combos if c[0] == "socks5" and c[1] in ("direct", "directtfo")]
            if dial not in ("ok", "rejected") and forced and rnd.random() < 0.6:
                # the pairing in which the failure reply carries the dial result code end to end
                combos = [rnd.choice(forced)]
            else:
                combos = [rnd.choice(combos)]
        for (srv, cli) in combos:
            if srv == "direct" and dial in ("dns",):
                continue
            # a proxy client protocol that sends its request without waiting for an answer (ss2022, none) reports the
            # dial as successful; a failure at the far end then shows as success followed by the connection ending
            w = waited or (cli in ("ss2022", "none") and dial not in ("ok", "rejected"))
            out.append({"server": srv, "client": cli, "nowait": not lw, "dial": dial, "reqp": reqp, "unit": rnd.choice(UNITS),
                        "waited": w, "steps": steps})
    return out


def run(tier, seed, replay):
    v = vlib.Verdict("C13", tier, seed, "model_checking")
    work = vlib.scratch("c13")
    binary = vlib.build_driver("c13", work)
    big = tier == "thorough"
    if replay:
        doc = json.load(open(replay))
        case = doc["replay"]["replay"]
        res, out, rc = vlib.run_driver(binary, "TestTCPRelay", {"seed": seed, "params": {"cases": [case]}}, 300)
        common.absorb(v, res, out, rc, "replay")
        v.coverage.update(states=1, transitions=len(case["steps"]), traces_validated_against_impl=1)
        v.sample(case)
        return v.finish()
    rnd = vlib.random.Random(seed)
    cases, states, trans, graphs = [], 0, 0, []
    for sn in (False, True):
        for cn in (False, True):
            for lw in (True, False):
                consts = dict(ServerNative=str(sn).upper(), ClientNative=str(cn).upper(), ListenerWait=str(lw).upper(), MaxBytes=2,
                              Codes='{"ok","ECONNREFUSED","ENETUNREACH","dns"}', EMIT="ACTION_CONSTRAINT Emit")
                r = vlib.tlc(SPEC, "MCTcpRelay", "MCTcpRelay.cfg", consts, workers=8, timeout=900, edges=True)
                if r.violation:
                    raise vlib.Broken("TcpRelay.tla violates %s for %s" % (r.violation, consts))
                states += r.distinct
                trans += max(r.generated, r.nedges)
                g = vlib.Graph(r)
                paths, left = g.cover(seed=seed, max_len=30, max_paths=None if big else 60, prefer=lambda e: e[1]["n"] in ("TargetAbort", "Collect") or (e[1]["n"] == "Dial" and e[1].get("code") != "ok"))
                graphs.append({"ServerNative": sn, "ClientNative": cn, "ListenerWait": lw, "distinct": r.distinct, "edges": len(g.edges),
                               "paths": len(paths), "uncovered_edges": left})
                cases += cases_for(g, paths, sn, cn, lw, rnd, big and False)
    for i, c in enumerate(cases):
        c["id"] = i
    v.coverage["states"], v.coverage["transitions"] = states, trans
    v.coverage["graphs"] = graphs
    outs = common.run_parallel(binary, "TestTCPRelay", [{"seed": seed + i, "params": {"cases": ch}} for i, ch in enumerate(common.chunks(cases, 16))], 2400)
    n, steps, distinct = 0, 0, 0
    for res, out, rc in outs:
        if res is None and ("panic:" in out or "fatal error:" in out):
            v.violation("tcp.relay/panic", "the relay process crashed: " + out[-1200:][:500], {"output": out[-3000:]})
            continue
        res = common.absorb(v, res, out, rc, "tcp relay replay")
        n += res["behaviours"]
        steps += res["steps"]
        distinct = max(distinct, res.get("distinct", 0))
    v.coverage["traces_validated_against_impl"] = n
    v.coverage["replayed_steps"] = steps
    v.coverage["distinct_step_classes"] = distinct
    v.coverage["cases"] = len(cases)
    v.coverage["exhaustive"] = False
    v.assumptions += ["kernel TCP semantics on loopback; TFO falls back when unavailable", "model byte unit mapped to 1/700/1440/1441/70000 real bytes",
                      "dial failures: refused, unreachable, name lookup failure, router rejection"]
    return v.finish()
