"""C09 - routing picks the first route whose documented conditions all hold.
Spec: specs/Route/Router.tla (+ RouterData.tla, MCRouter.tla).  TLC enumerates router configurations
(lattices of variant names) and, for each, the declarative answer for every ask of an ask lattice;
the driver (harness/drivers/c09) builds the real Router from the real JSON and compares
GetTCPClient/GetUDPClient with it."""
import json, os, random, hashlib, collections, time
from concurrent.futures import ThreadPoolExecutor
import vlib
from props import common

SPEC = os.path.join(vlib.VERIF, "specs", "Route")

A4, A4m, B4, C6, D4 = "A4", "A4m", "B4", "C6", "D4"


def S(xs):
    """python list -> TLA+ set literal (strings quoted, TLA+ identifiers such as A4 given as Id('A4'))"""
    return "{" + ", ".join(x.t if isinstance(x, Id) else json.dumps(x) if isinstance(x, str) else str(x) for x in xs) + "}"


class Id:
    def __init__(self, t):
        self.t = t


def behs(pairs):
    def one(x):
        return x if x in (A4, A4m, B4, C6, D4) else json.dumps(x)
    return "{" + ", ".join("<<%s, %s>>" % (one(a), one(b)) for a, b in pairs) + "}"


ALL_PORTS = ["one", "oneR", "two", "adj", "dup", "lo", "top", "hi", "r16", "r17", "big", "blk", "blkR", "allbut"]
ALL_PFX = ["p", "s", "ps", "ss", "v6"]
ALL_DOM = ["l", "M", "L", "s1", "s2", "mid", "big", "kw", "mix"]
ADDRS = [Id(A4), Id(A4m), Id(B4), Id(C6), Id(D4)]
NAMES = ["example.com", "www.example.com", "notexample.com", "a.ads.example.net", "other.test"]
BEH_SMALL = [(A4, "fail"), (D4, "fail"), ("fail", A4), ("errlookup", A4), ("errlookup", "errlookup")]
BEH_ALL = [(A4, "fail"), (D4, "fail"), (A4m, "fail"), (C6, D4), ("fail", A4), ("noaddr", A4), ("errlookup", A4),
           ("errlookup", D4), ("errlookup", "errlookup"), ("errlookup", "fail"), ("errlookup", "noaddr"), (B4, "errlookup")]
PORTS_SMALL = [0, 443, 2001]
PORTS_MID = [0, 1, 443, 444, 1000, 2001, 30001, 30002, 65535]
PORTS_ALL = [0, 1, 63, 64, 65, 128, 129, 190, 191, 193, 194, 443, 444, 998, 999, 1000, 2000, 2001, 30001, 30002, 65533, 65534, 65535]
D_C0 = '[tcp |-> "c0", udp |-> "c0"]'
D_REJ = '[tcp |-> "reject", udp |-> "c0"]'
D_UNSET = '[tcp |-> "", udp |-> "reject"]'

BASE = dict(
    SrvVars=S(["s0", "s01"]), UsrVars=S(["a", "ab"]), PortVars=S(ALL_PORTS), SipVars=S(ALL_PFX), DomVars=S(ALL_DOM),
    ExpVars=S(["p", "s"]), PfxVars=S(ALL_PFX), RsVars=S(["", "r2"]), DefaultSpace="{%s}" % D_C0,
    Usrs=S(["alice", "bob", "mallory", ""]), Sips=S(ADDRS), Ports=S(PORTS_MID), Behs=behs(BEH_SMALL),
    IpTargets=S(ADDRS), DomTargets=S(NAMES), Asks="Vary(Q1) \\cup Vary(Q2)", GetSample=2, MaxRoutes=1,
    RouteSpace="Singles", Given="{}", StartGuard="TRUE", EMIT="ACTION_CONSTRAINT Emit",
    INVARIANTS="TypeOK RefusedNeverServes", PROPERTIES="GetIsPure")

FIELDS = ["net", "cl", "rs", "srv", "srvI", "usr", "usrI", "sp", "spI", "sip", "sipI", "tp", "tpI", "dom", "domI", "exp", "expI",
          "pfx", "pfxI", "nr"]


def random_lists(rnd, n, maxlen, ports, pfx, doms):
    """n route lists of 0..maxlen routes, every field drawn independently; returns the TLA+ text of the set."""
    out = []
    for _ in range(n):
        k = rnd.randint(0, maxlen)
        routes = []
        for i in range(k):
            # absent criteria are likelier than present ones so that several routes of a list get consulted
            def pick(vs, p_absent=0.6):
                return "-" if rnd.random() < p_absent else rnd.choice(vs)
            dom = pick(doms, 0.55)
            r = dict(net=rnd.choice(["", "", "", "tcp", "udp"]), cl="reject" if rnd.random() < 0.15 else "c%d" % (i + 1),
                     rs=rnd.choice(["", "", "r2"]), srv=pick(["s0", "s01"], 0.7), srvI=rnd.random() < 0.3,
                     usr=pick(["a", "ab"], 0.7), usrI=rnd.random() < 0.3, sp=pick(ports, 0.7), spI=rnd.random() < 0.3,
                     sip=pick(pfx, 0.7), sipI=rnd.random() < 0.3, tp=pick(ports, 0.65), tpI=rnd.random() < 0.3,
                     dom=dom, domI=rnd.random() < 0.25, exp="-" if dom == "-" else pick(["p", "s"], 0.6), expI=rnd.random() < 0.3,
                     pfx=pick(pfx, 0.55), pfxI=rnd.random() < 0.3, nr=rnd.random() < 0.35)
            routes.append("R(" + ", ".join(("T" if r[f] else "F") if isinstance(r[f], bool) else json.dumps(r[f]) for f in FIELDS) + ")")
        out.append("<<" + ", ".join(routes) + ">>")
    return "{" + ",\n ".join(sorted(set(out))) + "}"


def plan(tier, seed, k):
    """The TLC runs of a tier: name -> (constants, TLC workers)."""
    rnd = random.Random(seed)
    big = tier == "thorough"
    code = dict(MaxRangeSet=k["MaxRangeSet"], MaxLinearDomains=k["MaxLinearDomains"], MaxLinearSuffixes=k["MaxLinearSuffixes"])
    runs = {}

    def add(name, workers, **kw):
        c = dict(BASE)
        c.update(code)
        c.update(kw)
        runs[name] = (c, workers)

    heavy = "TypeOK RefusedNeverServes AnswersOK ImplRefinesDecl LookupMonotone"
    light = "TypeOK RefusedNeverServes"
    # kinds: one criterion kind per route, every variant, plain and inverted; refused configurations; large alphabets,
    # asks differ from two base requests in one dimension.
    add("kinds", 16 if big else 3, RouteSpace="Singles \\cup Refused", Ports=S(PORTS_ALL), Behs=behs(BEH_ALL),
        DefaultSpace="{%s, %s, %s}" % (D_C0, D_REJ, D_UNSET),
        INVARIANTS=heavy if big else light, PROPERTIES="GetIsPure AppendLaw" if big else "GetIsPure")
    # pairs: two criterion kinds per route (AND across kinds, OR inside the destination group); asks differ from the
    # base requests in up to two dimensions
    if big:
        add("pairs", 16, RouteSpace="Pairs", Asks="Vary2(Q1) \\cup Vary2(Q2)", Usrs=S(["alice", "mallory", ""]),
            Sips=S([Id(A4), Id(A4m), Id(B4), Id(D4)]), Ports=S([0, 443, 2001, 30001]), Behs=behs(BEH_SMALL[:4]),
            IpTargets=S([Id(A4), Id(A4m), Id(D4)]), DomTargets=S(["www.example.com", "other.test"]))
    else:
        add("pairs", 5, RouteSpace="Pairs", Asks="Vary2(Q1) \\cup Vary(Q2)", SrvVars=S(["s0"]), UsrVars=S(["a"]),
            PortVars=S(["one", "r17"]), SipVars=S(["p", "s"]), DomVars=S(["l", "s1"]), PfxVars=S(["p"]),
            Usrs=S(["alice", "mallory"]), Sips=S([Id(A4), Id(A4m), Id(B4), Id(D4)]), Ports=S(PORTS_SMALL), Behs=behs(BEH_SMALL[:4]),
            IpTargets=S([Id(A4), Id(D4)]), DomTargets=S(["example.com", "other.test"]))
    # dest: the destination group in full (domain condition, expectation, prefix condition, resolver choice) against every
    # target and resolver behaviour
    add("dest", 16 if big else 3, RouteSpace="DestLattice", Behs=behs(BEH_ALL), Asks="Vary(Q1) \\cup Vary(Q2)" if big else "Vary(Q1) \\cup {Q2}",
        DomVars=S(["l", "L", "s1", "mid", "big", "mix"] if big else ["l", "s1", "mid"]), PfxVars=S(ALL_PFX if big else ["p", "s"]),
        ExpVars=S(["p", "s"]), Ports=S(PORTS_SMALL), INVARIANTS=heavy if big else light)
    # order: every list of 0..n routes over a handful of templates (true / false / undecidable / rejecting by
    # different mechanisms), every default
    tgts = dict(IpTargets=S([Id(A4), Id(D4)]), DomTargets=S(["www.example.com", "other.test"]),
                Behs=behs([(A4, "fail"), ("fail", A4), (D4, A4), ("errlookup", "errlookup")]))
    order_asks = ('{[Q1 EXCEPT !.net = n, !.usr = u, !.sip = s, !.tport = p, !.tk = t.tk, !.ta = t.ta, !.b = t.b] : '
                  'n \\in Nets, u \\in {"alice", "mallory"}, s \\in %s, p \\in {0, 443}, t \\in Tgts}')
    add("order", 16 if big else 3, RouteSpace="Templates", MaxRoutes=4 if big else 3,
        DefaultSpace="{%s}" % D_REJ,
        Asks=order_asks % "{A4}",
        INVARIANTS=light + (" ImplRefinesDecl" if big else ""), PROPERTIES="GetIsPure AppendLaw" if big else "GetIsPure", **tgts)
    # design (quick only; thorough checks the invariants in every run): all invariants and action properties of the
    # definition on every list of 0..2 template routes
    if not big:
        add("design", 3, RouteSpace="Templates", MaxRoutes=2, DefaultSpace="{%s, %s}" % (D_C0, D_UNSET),
            Asks=order_asks % "{A4}", INVARIANTS=heavy, PROPERTIES="GetIsPure AppendLaw", **tgts)
    # random: seeded route lists of 0..6 routes, every field independent
    n = 900 if big else 160
    add("random", 16 if big else 3, RouteSpace="GivenAt", StartGuard="routes \\in Given", MaxRoutes=6,
        Given=random_lists(rnd, n, 6, ALL_PORTS, ALL_PFX, ALL_DOM),
        Asks="Vary2(Q1) \\cup Vary2(Q2)" if big else "Vary2(Q1) \\cup Vary(Q2)", Usrs=S(["alice", "mallory", ""]),
        Sips=S([Id(A4), Id(A4m), Id(B4), Id(D4)]), Ports=S([0, 443, 2001, 30001] if big else PORTS_SMALL),
        Behs=behs(BEH_SMALL[:4]), IpTargets=S([Id(A4), Id(A4m), Id(D4)]), DomTargets=S(["www.example.com", "other.test"]),
        INVARIANTS=light + " ImplRefinesDecl")
    return runs


def parse(name, r):
    cat, cases = None, []
    for line in r.out.splitlines():
        if line.startswith('"CASE '):
            c = json.loads(json.loads(line)[5:])
            c["src"] = name
            cases.append(c)
        elif line.startswith('"BAD '):
            c = json.loads(json.loads(line)[4:])
            c.update(bad=True, src=name, d={"tcp": "", "udp": ""}, shapes=[], outs=[])
            cases.append(c)
        elif line.startswith('"CAT '):
            cat = json.loads(json.loads(line)[4:])
    if cat is None:
        raise vlib.Broken("TLC run %s printed no catalogue:\n%s" % (name, r.out[-2000:]))
    return cat, cases


class _Cached:
    pass


def run_tlc(name, consts, workers, timeout):
    """One TLC run -> (name, result with .cat/.cases).  VERIF_C09_TLC_CACHE=<dir> (development only: mutation
    experiments re-run the same model many times) keeps the parsed result keyed by spec text + constants."""
    t0 = time.time()
    cache = os.environ.get("VERIF_C09_TLC_CACHE")
    path = None
    if cache:
        h = hashlib.sha1()
        for fn in sorted(os.listdir(SPEC)):
            h.update(open(os.path.join(SPEC, fn), "rb").read())
        h.update(json.dumps(consts, sort_keys=True).encode())
        path = os.path.join(cache, "%s-%s.json" % (name, h.hexdigest()[:16]))
        if os.path.exists(path):
            d = json.load(open(path))
            r = _Cached()
            r.__dict__.update(d)
            vlib.log("[tlc] %s: cached" % name)
            return name, r
    r = vlib.tlc(SPEC, "MCRouter", "MCRouter.cfg", consts, workers=workers, timeout=timeout, edges=False, keep_out=True,
                 heap="6g", dump_trace=True)
    vlib.log("[tlc] %s: %d distinct, %d generated, %.1fs" % (name, r.distinct, r.generated, time.time() - t0))
    if r.violation:
        # the invariants relate the two definitions inside the model; a violation is a defect of the model
        raise vlib.Broken("TLC run %s violates %s: the declarative and the implementation-shaped definition disagree\n%s"
                          % (name, r.violation, r.out[-3000:]))
    r.cat, r.cases = parse(name, r)
    r.out = ""
    if path:
        os.makedirs(cache, exist_ok=True)
        json.dump(dict(cat=r.cat, cases=r.cases, distinct=r.distinct, generated=r.generated, wall=r.wall, violation=None),
                  open(path, "w"))
    return name, r


def case_key(c):
    return hashlib.sha1(json.dumps([c["routes"], c["d"], c.get("bad", False)], sort_keys=True).encode()).hexdigest()


def run(tier, seed, replay):
    v = vlib.Verdict("C09", tier, seed, "exploration")
    work = vlib.scratch("c09")
    binary = vlib.build_driver("c09", work)
    if replay:
        doc = json.load(open(replay))
        rep = doc["replay"].get("replay") or doc["replay"].get("Replay") or doc["replay"]
        cat, case = rep["cat"], rep["case"]
        if "askIndex" in rep:                       # re-run the failing ask only
            cat = dict(cat, asks=[rep["ask"]])
            case = dict(case, outs=[case["outs"][rep["askIndex"]]])
        res, out, rc = vlib.run_driver(binary, "TestCases", {"params": {"cat": cat, "cases": [case]}, "seed": seed}, 120)
        for f in (res or {}).get("violations", []):
            f["replay"].update(cat=dict(cat, asks=[]), askIndex=0)
        common.absorb(v, res, out, rc, "replay")
        v.coverage.update(evaluations=res["steps"], distinct_nontrivial=res["distinct"], rule="replay of one recorded case")
        v.sample({"routes": case["routes"], "asks": cat["asks"][:3]})
        return v.finish()

    k = common.vconst(work)
    for name in ("MaxRangeSet", "MaxLinearDomains", "MaxLinearSuffixes"):
        if not isinstance(k.get(name), int) or k[name] < 1:
            raise vlib.Broken("constant %s could not be read from the compiled code: %r" % (name, k.get(name)))
    v.coverage["constants_from_code"] = {n: k[n] for n in ("MaxRangeSet", "MaxLinearDomains", "MaxLinearSuffixes")}
    runs = plan(tier, seed, k)
    big = tier == "thorough"
    # TLC: quick runs all configurations side by side, thorough one after the other with all workers.  The timeouts are
    # far above the normal run times (seconds to a few minutes): on an oversubscribed machine slow beats BROKEN.
    results = {}
    if big:
        for name, (consts, workers) in runs.items():
            results[name] = run_tlc(name, consts, workers, 5400)[1]
    else:
        with ThreadPoolExecutor(max_workers=len(runs)) as ex:
            for name, r in ex.map(lambda kv: run_tlc(kv[0], kv[1][0], kv[1][1], 3600), runs.items()):
                results[name] = r
    inputs, seen, tlc_cov = [], set(), {}
    evaluations = distinct = nontrivial = 0
    hist = collections.Counter()
    for name, r in results.items():
        cat, cases = r.cat, r.cases
        tlc_cov[name] = {"distinct": r.distinct, "generated": r.generated, "configurations": len(cases), "asks": len(cat["asks"]),
                         "wall_s": round(r.wall, 1)}
        results[name] = None
        fresh = []
        for c in cases:
            kk = (case_key(c), name)      # the ask lattice differs between runs, so pairs only repeat inside a run
            evaluations += len(c["outs"])
            if kk in seen:
                continue
            seen.add(kk)
            distinct += len(c["outs"])
            if c["routes"]:
                nontrivial += len(c["outs"])
            for o in c["outs"]:
                soft = o.startswith("?")
                o = o.lstrip("?").split("/")[0]
                hist[("soft " if soft else "") + ("order-dependent" if "~" in o else "default" if o == "c0" else
                                                  o if o in ("error", "rejected") else "route")] += 1
            fresh.append(c)
        rnd = random.Random(seed)
        rnd.shuffle(fresh)
        nchunks = max(1, min(16 if big else 6, len(fresh) // 20))
        for i, ch in enumerate(common.chunks(fresh, nchunks)):
            inputs.append({"params": {"cat": cat, "cases": ch}, "seed": seed + i, "tier": tier})
    if not hist.get("order-dependent"):
        raise vlib.Broken("no case of the order-dependent class was generated (vacuous OrderAmb)")
    outs = common.run_parallel(binary, "TestCases", inputs, 3600)
    calls = cases_run = classes = 0
    observed = collections.Counter()
    viol_count = collections.Counter()
    for (res, out, rc), inp in zip(outs, inputs):
        if res is None and ("fatal error:" in out or "panic:" in out) and "/router" in out:
            v.violation("router.match/process-crash", "the router crashed the process while serving a batch of cases: " + out[-1500:],
                        {"cat": inp["params"]["cat"], "cases": inp["params"]["cases"]})
            continue
        if res is not None:
            # one replay file per failing pattern and batch is enough; the rest is counted
            per_key = collections.Counter()
            kept = []
            for f in res.get("violations", []):
                per_key[f["key"]] += 1
                viol_count[f["key"]] += 1
                if per_key[f["key"]] <= 1 and viol_count[f["key"]] <= 3:
                    kept.append(f)
            res["violations"] = kept if kept or not res.get("violations") else res["violations"][:1]
            for f in res["violations"]:
                # make every replay file self-contained
                f["replay"]["cat"] = {kk: ([] if kk == "asks" and "askIndex" in f["replay"] else vv)
                                      for kk, vv in inp["params"]["cat"].items()}
        res = common.absorb(v, res, out, rc, "cases")
        calls += res["steps"]
        cases_run += res["behaviours"]
        for kk, n in res["counters"].items():
            if kk.startswith("out/"):
                observed[kk[4:]] += n
            elif kk.startswith("dialcode/"):
                observed[kk] += n
            elif kk in ("order_amb_observed", "soft_differs", "refused_expected", "lookups", "drift"):
                observed[kk] += n
    # one note per kind of model drift is enough
    kinds_seen, notes = set(), []
    for n in v.notes:
        kind = n.split("first: ")[-1][:60]
        if kind not in kinds_seen:
            kinds_seen.add(kind)
            notes.append(n)
    v.notes[:] = notes
    v.coverage.update(
        evaluations=calls, distinct_nontrivial=nontrivial,
        rule="TLC enumerates router configurations from lattices of catalogue variants (kinds: one criterion kind per route, "
             "every variant plain/inverted; pairs: two kinds; dest: the whole destination group; order: all lists of 0..n "
             "template routes x defaults; random: seeded lists of 0..6 routes with independent fields) and evaluates the "
             "declarative Route() for every ask of an ask lattice (requests differing from two base requests in <=2 "
             "dimensions over boundary values, x resolver behaviours). One evaluation = one GetTCPClient/GetUDPClient call "
             "compared with the model. distinct = distinct (configuration, ask) pairs (configurations de-duplicated across "
             "TLC runs by hash); non-trivial = the configuration has at least one route (some criterion is evaluated).",
        distinct_pairs=distinct, generated_pairs=evaluations, configurations_run=cases_run, tlc=tlc_cov,
        expected_outcomes=dict(hist), observed_outcomes=dict(observed), violations_by_key=dict(viol_count),
        states=sum(x["distinct"] for x in tlc_cov.values()), transitions=sum(x["generated"] for x in tlc_cov.values()),
        exhaustive=False)
    v.assumptions += ["GeoIP criteria are not covered (no database offline)",
                      "membership tables of RouterData.tla (prefix contains address, rule matches name) are validated against "
                      "net/netip and package strings by the driver, not against bart/domainset",
                      "regexp domain rules are not in the universe",
                      "invertToDomains together with toMatchedDomainExpected*, and an unset default client name with several "
                      "clients, are documented ambiguously: differences there are notes, not violations"]
    return v.finish()
