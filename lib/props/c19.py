"""C19 - client groups pick clients as their policy says.
Spec: specs/Groups/ClientGroup.tla (+ TraceClientGroup.tla for round-robin under real concurrency).
Binding: replay inside testing/synctest of (a) every edge of the exhaustive state graph built with the code's ring
sizes and a bounded number of rounds, (b) scripted outcome histories longer than the retention that TLC runs through
the model with the code's ring sizes; trace validation of concurrent round-robin callers (harness/drivers/c19)."""
import json, os, random, re, threading, time
from concurrent.futures import ThreadPoolExecutor
import vlib
from props import common

SPEC = os.path.join(vlib.VERIF, "specs", "Groups")
PROBING = ["availability", "latency", "min-max-latency"]
NAMES = ["b", "a", "c", "e", "d"]          # configuration order differs from the alphabetical / map order on purpose
UNIVERSE = ["a", "b", "c", "d", "e", "x", "y"]   # x, y are registered clients that belong to no group


def tla_str_set(xs):
    return "{" + ",".join('"%s"' % x for x in xs) + "}"


def tla_str_seq(xs):
    return "<<" + ",".join('"%s"' % x for x in xs) + ">>"


def tla_alpha(n, outs):
    return "<<" + ",".join(["{" + ",".join(str(o) for o in sorted(set(outs))) + "}"] * n) + ">>"


def tla_script(scripts):
    """scripts: {policy: [[outcome per position] per round]} -> TLA+ function."""
    parts = []
    for pol, rounds in scripts.items():
        parts.append('("%s" :> <<%s>>)' % (pol, ",".join("<<" + ",".join(str(o) for o in rd) + ">>" for rd in rounds)))
    return " @@ ".join(parts)


def model_consts(k, group, policies, **kw):
    c = dict(Universe=tla_str_set(UNIVERSE), Group=tla_str_seq(group), Policies=tla_str_set(policies),
             AvailRing=k["AvailRing"], LatRing=k["LatRing"], T=3, UnitNs=1000000, Alpha=tla_alpha(len(group), [1, 2, 3]),
             Conc=len(group), Callers='{"p1"}', MaxSel=1, MaxRounds=1000000, Wrap=2147483647, Script="<<>>", EMIT="")
    c.update(kw)
    return c


def model_unit(unit_ns, lat_ring):
    """TLC integers are 32 bits.  When the unit is a multiple of the latency ring size the truncating average is exact and all
    three scores (and the timeout they are compared with) are proportional to the unit, so the model may use the ring size as
    its unit without changing any comparison; other units must be small enough to be used as they are."""
    if unit_ns % lat_ring == 0:
        return lat_ring
    if unit_ns * lat_ring * 8 >= 2**31:
        raise vlib.Broken("unit of %d ns is neither a multiple of the latency ring size %d nor small" % (unit_ns, lat_ring))
    return unit_ns


def driver_consts(group, T, unit_ns, interval_ns, conc, proto, use_defaults=False):
    return dict(group=group, universe=UNIVERSE, T=T, unitNs=unit_ns, intervalNs=interval_ns, useDefaults=use_defaults,
                conc=conc, proto=proto)


def chain_behaviours(r):
    """The scripted configuration prints one linear path per policy: follow it from each initial state."""
    g = vlib.Graph(r)
    behs = []
    for init in g.inits:
        path, cur, seen = [], init, set()
        while g.succ.get(cur) and cur not in seen:
            seen.add(cur)
            if len(g.succ[cur]) != 1:
                raise vlib.Broken("scripted model run is not a single path at %s" % cur)
            ei = g.succ[cur][0]
            path.append(ei)
            cur = g.edges[ei][2]
        if path:
            behs.append(g.behaviour(path))
    return behs


# ---------------------------------------------------------------- outcome histories (seeded)

def gen_history(rng, n, rounds, T, lats, ring, force=None):
    """One outcome history: rounds x n outcomes in 0..T (T = failed probe).  Regimes chosen to exercise ties, the
    exact round at which an old outcome leaves the retained window (for every ring slot, the first and the last in
    particular), outages around the ring length and slow drifts.  force = (kind, first failing round)."""
    kind = force[0] if force else rng.choice(["iid", "iid", "burst", "boundary", "boundary", "ties", "drift", "mixed"])
    base = [rng.choice(lats) for _ in range(n)]
    hist = []
    if kind == "iid":
        pf = [rng.choice([0.0, 0.03, 0.1, 0.3, 0.6, 0.95]) for _ in range(n)]
        for _ in range(rounds):
            hist.append([T if rng.random() < pf[c] else (base[c] if rng.random() < 0.7 else rng.choice(lats)) for c in range(n)])
    elif kind == "burst":
        wins = [[(rng.randrange(rounds), rng.choice([1, 2, ring - 1, ring, ring + 1, 7])) for _ in range(rng.choice([1, 2, 3]))]
                for _ in range(n)]
        for r in range(rounds):
            hist.append([T if any(s <= r < s + l for s, l in wins[c]) else base[c] for c in range(n)])
    elif kind == "boundary":
        # everybody answers alike (ties: the first member serves) except for single failures: member c fails at round
        # r0 + c*gap and then every `period[c]` rounds, so one ring slot at a time decides, and the choice flips back
        # exactly when that slot is overwritten
        same = rng.choice(lats)
        r0 = force[1] if force else rng.choice([0, 1, 2, 3, ring // 2, ring - 2, ring - 1, ring])
        gap = rng.choice([1, 1, 2, 3])
        period = [ring + rng.choice([0, 0, 1, 2, ring]) for _ in range(n)]
        for r in range(rounds):
            hist.append([T if r >= r0 + c * gap and (r - r0 - c * gap) % period[c] == 0 else same for c in range(n)])
    elif kind == "ties":
        for _ in range(rounds):
            o = rng.choice(lats + [T])
            hist.append([o] * n)
    elif kind == "drift":
        per = [rng.choice([3, 5, 11, ring // 2, ring]) for _ in range(n)]
        for r in range(rounds):
            hist.append([lats[(r // per[c] + c) % len(lats)] if rng.random() > 0.02 else T for c in range(n)])
    else:
        for r in range(rounds):
            good = (r // (ring // 2 + 1)) % n
            hist.append([(base[c] if c == good or rng.random() < 0.5 else T) for c in range(n)])
    return kind, hist


class Ctx:
    pass


# short TLC runs: the JIT's second tier and a GC thread per core cost more than they save
JVM_SMALL = ("-XX:ParallelGCThreads=2", "-XX:TieredStopAtLevel=1")
JVM_BIG = ("-XX:ParallelGCThreads=4",)


def info(r, consts):
    return {"distinct": r.distinct, "generated": r.generated, "depth": r.depth, "violated": r.violation, "wall_s": round(r.wall, 1),
            "constants": {x: consts[x] for x in consts if x not in ("EMIT", "Script", "Universe")}}


def tlc(cx, module, cfg, consts, **kw):
    r = vlib.tlc(SPEC, module, cfg, consts, **kw)
    with cx.lock:
        cx.tot["distinct"] += r.distinct
        cx.tot["generated"] += r.generated
        cx.tot["runs"] += 1
    return r


def crashed_in_code(out):
    if not re.search(r"^(panic: |fatal error: )", out, re.M):
        return False
    return bool(re.search(r"shadowsocks-go/(clientgroups|probe)[./]", out))


def replay_all(cx, what, jobs, timeout=900):
    """jobs: list of (driver consts, behaviours).  Runs them in parallel processes and folds the results into the verdict."""
    inputs = []
    for dc, behs in jobs:
        for ch in common.chunks(behs, 4 if len(behs) > 200 else 1):
            if ch:
                inputs.append({"behaviours": ch, "seed": cx.seed, "consts": dc, "tier": cx.tier})
    counters = {}
    if not inputs:
        return counters
    for inp, (res, out, rc) in zip(inputs, common.run_parallel(cx.binary, "TestReplay", inputs, timeout)):
        if res is None and rc != 0 and crashed_in_code(out):
            # the process died inside the code under test: a result in itself
            m = re.search(r"^(panic: .*|fatal error: .*)$", out, re.M)
            cx.v.violation("groups/panic", "%s: the process died in clientgroups/probe code: %s" % (what, m.group(1) if m else "?"),
                           {"consts": inp["consts"], "behaviours": inp["behaviours"][:50], "stdout": out[-1500:]})
            continue
        res = common.absorb(cx.v, res, out, rc, what)
        cx.nrep += res["behaviours"]
        cx.steps += res["steps"]
        cx.distinct = max(cx.distinct, res.get("distinct", 0))
        for ck, cv in res.get("counters", {}).items():
            counters[ck] = counters.get(ck, 0) + cv
    return counters


# ---- (1) design, exhaustive, rings scaled down (histories of any length, the rings wrap), all five policies
def design_configs(cx):
    k, g3 = cx.k, NAMES[:3]
    if not cx.big:
        return [model_consts(k, g3, PROBING + ["round-robin", "random"], AvailRing=3, LatRing=2, T=2, Alpha=tla_alpha(3, [1, 2]),
                             Conc=2, Callers='{"p1","p2"}', MaxSel=5)]
    return [model_consts(k, g3, PROBING + ["round-robin", "random"], AvailRing=3, LatRing=2, T=3, Alpha=tla_alpha(3, [1, 2, 3]),
                         Conc=3, Callers='{"p1","p2"}', MaxSel=6),
            model_consts(k, NAMES[:2], PROBING, AvailRing=2, LatRing=3, T=3, UnitNs=1, Alpha=tla_alpha(2, [0, 2, 3]), Conc=2),
            model_consts(k, NAMES[:2], PROBING + ["round-robin"], AvailRing=4, LatRing=3, T=4, UnitNs=7, Alpha=tla_alpha(2, [1, 3, 4]),
                         Conc=1, Callers='{"p1","p2","p3"}', MaxSel=6)]


def design_job(cx, dcfg):
    r = tlc(cx, "MCClientGroup", "MCClientGroup.cfg", dcfg, workers=8, timeout=3600 if cx.big else 2400, edges=False, heap="12g" if cx.big else "6g", jvm=JVM_BIG)
    if r.violation:
        raise vlib.Broken("the design violates %s in the scaled configuration %s (scaled rings cannot be replayed): fix the model\n%s"
                          % (r.violation, info(r, dcfg)["constants"], r.out[-1500:]))
    return info(r, dcfg)


# ---- (2) replay graphs: the code's ring sizes, a bounded number of rounds, every edge replayed
def graph_configs(cx):
    k, ms, g2, g3, big = cx.k, 10**6, NAMES[:2], NAMES[:3], cx.big
    gs = [("probing/tcp n=2", model_consts(k, g2, PROBING, T=2, Alpha=tla_alpha(2, [1, 2]), Conc=2, MaxRounds=3),
           [driver_consts(g2, 2, ms, 10 * 10**9, 2, "tcp")]),
          ("probing/udp n=2", model_consts(k, g2, PROBING, T=2, Alpha=tla_alpha(2, [0, 2]), Conc=2, MaxRounds=2),
           [driver_consts(g2, 2, ms, 10 * 10**9, 2, "udp")]),
          ("round-robin+random n=3", model_consts(k, g3, ["round-robin", "random"], Callers='{"p1","p2","p3"}', MaxSel=5 if not big else 7),
           [driver_consts(g3, 1, ms, ms, 3, "tcp"), driver_consts(g3, 1, ms, ms, 3, "udp")])]
    gs += [("probing/tcp n=2 T=3, one worker, 7 ns unit", model_consts(k, g2, PROBING, T=3, UnitNs=7, Alpha=tla_alpha(2, [1, 2, 3]), Conc=1, MaxRounds=2 if not big else 3),
            [driver_consts(g2, 3, 7, 1000, 1, "tcp")])]
    if big:
        gs += [("probing/tcp n=3, two workers", model_consts(k, g3, PROBING, T=2, Alpha=tla_alpha(3, [1, 2]), Conc=2, MaxRounds=3),
                [driver_consts(g3, 2, ms, 10 * 10**9, 2, "tcp")]),
               ("round-robin+random, a member listed twice", model_consts(k, ["a", "b", "a"], ["round-robin", "random"], Callers='{"p1","p2"}', MaxSel=7),
                [driver_consts(["a", "b", "a"], 1, ms, ms, 3, "tcp")])]
    return gs


def graph_job(cx, item):
    label, mc, dcs = item
    mc = dict(mc, EMIT="ACTION_CONSTRAINT Emit")
    r = tlc(cx, "MCClientGroup", "MCClientGroup.cfg", mc, workers=4, timeout=3000, edges=True, heap="6g",
            jvm=JVM_BIG if cx.big else JVM_SMALL)
    if r.violation:
        raise vlib.Broken("replay graph %s violates %s:\n%s" % (label, r.violation, r.out[-1500:]))
    gr = vlib.Graph(r)
    paths, left = gr.cover(seed=cx.seed, max_len=80)
    behs = [gr.behaviour(p) for p in paths]
    d = info(r, mc)
    d.update(label=label, edges=len(gr.edges), paths=len(paths), uncovered_edges=left, drivers=[dc["proto"] for dc in dcs])
    return d, [(dc, behs) for dc in dcs]


# ---- (3) the design on random long histories with the code's ring sizes (TLC -simulate, no replay)
def sim_job(cx):
    k = cx.k
    nsim = 3 if not cx.big else 5
    sim = model_consts(k, NAMES[:nsim], PROBING, T=4, UnitNs=model_unit(10**6, k["LatRing"]), Alpha=tla_alpha(nsim, [1, 2, 3, 4]), Conc=nsim)
    # (no PROPERTIES in this cfg: TLC would run its temporal checker on every simulated behaviour)
    s = tlc(cx, "MCClientGroup", "MCClientGroupSim.cfg", sim, workers=2 if not cx.big else 6, timeout=3000, edges=False,
            simulate="num=%d" % (2 if not cx.big else 60), depth=(k["AvailRing"] + 24) * (2 * nsim + 2), seed=cx.seed, jvm=JVM_BIG if cx.big else JVM_SMALL)
    m = re.search(r"The number of states generated: (\d+)", s.out)
    if m:
        s.generated = s.distinct = int(m.group(1))
        with cx.lock:
            cx.tot["generated"] += s.generated
    if s.violation:
        raise vlib.Broken("the design violates %s on a simulated history with the real ring sizes:\n%s" % (s.violation, s.out[-1500:]))
    return info(s, sim)


# ---- (4) scripted histories longer than the retention, the code's ring sizes, groups of 1..5, TCP and UDP
def script_plans(cx):
    k, big = cx.k, cx.big
    rng = random.Random(cx.seed * 7919 + (1 if big else 0))
    plans = []
    sizes = [1, 2, 3, 4, 5] if not big else [1 + i % 5 for i in range(40)]
    for i, n in enumerate(sizes):
        udp = (i % 5) in (1, 3) if not big else (i % 4 == 1)
        group = NAMES[:n] if i % 2 == 0 else rng.sample(NAMES, n)
        prof = rng.choice(["defaults", "ms", "serial", "ns"]) if not udp else rng.choice(["defaults", "ms"])
        if not big and i == 2:
            prof = "serial"     # fewer workers than members: probe jobs queue behind each other
        T = rng.choice([4, 5]) if prof == "defaults" else rng.choice([3, 4, 5, 6])
        conc = n
        if prof == "defaults":
            unit, intv, use_def = cx.def_tmo // T, cx.def_intv, True
            if cx.def_tmo % T or unit % k["LatRing"]:
                prof = "ms"
        if prof == "defaults":
            pass
        elif prof == "ms":
            unit, intv, use_def = 10**6, rng.choice([1, 3, 60]) * 10**9, False
        elif prof == "serial":
            unit, intv, use_def, conc = 10**6, (n * T + 1) * 10**6, False, rng.choice([1, max(1, n - 1)])
        else:
            unit, intv, use_def = rng.choice([1, 3, 7]), 10**4, False
        lats = [0] if udp else list(range(1, T))
        scripts, kinds = {}, {}
        for pol in PROBING:
            ring = k["AvailRing"] if pol == "availability" else k["LatRing"]
            rounds = ring + (rng.randrange(ring // 2, ring + 8) if big else rng.randrange(6, ring // 4 + 8))
            # two plans of every run probe the last and the first ring slot on purpose, the others draw their regime
            force = ("boundary", ring - 1) if i % 5 == 2 else ("boundary", 0) if i % 5 == 4 else None
            kinds[pol], scripts[pol] = gen_history(rng, n, rounds, T, lats, ring, force)
        mc = model_consts(k, group, PROBING, T=T, UnitNs=model_unit(unit, k["LatRing"]), Alpha=tla_alpha(n, lats + [T]), Conc=conc,
                          Script=tla_script(scripts))
        dc = driver_consts(group, T, unit, intv, conc, "udp" if udp else "tcp", use_def)
        plans.append((i, mc, dc, kinds, {p: len(scripts[p]) for p in scripts}, prof))
    return plans


def script_job(cx, plan):
    i, mc, dc, kinds, lens, prof = plan
    r = tlc(cx, "MCClientGroup", "MCClientGroupScript.cfg", mc, workers=2, timeout=3000, edges=True, heap="3g", jvm=JVM_SMALL)
    if r.violation:
        raise vlib.Broken("the design violates %s on scripted history %d (%s):\n%s" % (r.violation, i, kinds, r.out[-1500:]))
    behs = chain_behaviours(r)
    want = sorted(lens[p] * (2 * len(dc["group"]) + 2) + 1 for p in lens)
    got = sorted(len(b["steps"]) for b in behs)
    if got != want:
        raise vlib.Broken("scripted history %d: TLC produced paths of %s steps, expected %s" % (i, got, want))
    for j, b in enumerate(behs):
        b["id"] = 1000 * (i + 1) + j
    desc = {"group": dc["group"], "proto": dc["proto"], "T": dc["T"], "unitNs": dc["unitNs"], "intervalNs": dc["intervalNs"], "conc": dc["conc"],
            "profile": prof, "kinds": kinds, "rounds": lens, "states": r.distinct}
    return desc, [(dc, [b]) for b in behs]


# ---- (5) round-robin under 8 concurrent callers: recorded, tickets inferred by TLC
def rr_job(cx):
    groups = [["b", "a", "c"], ["a", "b"], ["c", "a", "e", "b", "d"], ["a", "b", "a"], ["a"]]
    if not cx.big:
        groups = groups[:3]
    rrp = {"traces": 4 if not cx.big else 12, "callers": 8, "calls": 4 if not cx.big else 6, "bulk": 20000 if not cx.big else 200000, "bulkMs": 300 if not cx.big else 2000}
    base = os.path.join(cx.work, "rr")
    res, out, rc = vlib.run_driver(cx.binary, "TestRecordRR",
                                   {"seed": cx.seed, "params": {"rr": rrp, "out": base, "groups": groups, "universe": UNIVERSE}}, 900)
    callers = ["p%d" % (i + 1) for i in range(rrp["callers"])]

    def one(gi):
        path = "%s-%d.ndjson" % (base, gi)
        ids = [json.loads(l)["t"] for l in open(path) if '"reset"' in l]
        c = dict(Universe=tla_str_set(UNIVERSE), Group=tla_str_seq(groups[gi]), Callers=tla_str_set(callers), TraceFile=path)
        r = tlc(cx, "MCTraceClientGroup", "MCTraceClientGroup.cfg", c, workers=2, timeout=3000, edges=False, keep_out=True, dump_trace=False, heap="3g", jvm=JVM_SMALL)
        if r.violation:
            raise vlib.Broken("trace validation of group %s violates %s" % (groups[gi], r.violation))
        return gi, ids, set(re.findall(r'^"ACCEPT (.*)"$', r.out, re.M)), path, r

    traced = []
    if res is not None and not res.get("broken"):
        with ThreadPoolExecutor(max_workers=3) as ex:
            traced = list(ex.map(one, range(len(groups))))
    return res, out, rc, groups, callers, rrp, traced


def run(tier, seed, replay):
    v = vlib.Verdict("C19", tier, seed, "model_checking")
    cx = Ctx()
    cx.v, cx.tier, cx.seed, cx.big = v, tier, seed, tier == "thorough"
    cx.work = vlib.scratch("c19")
    cx.binary = vlib.build_driver("c19", cx.work)
    cx.lock = threading.Lock()
    cx.tot = {"distinct": 0, "generated": 0, "runs": 0}
    cx.nrep = cx.steps = cx.distinct = 0

    kc = common.vconst(cx.work)
    cx.k = {"AvailRing": int(kc.get("GroupsAvailRing", 64)), "LatRing": int(kc.get("GroupsLatRing", 32))}
    cx.def_tmo, cx.def_intv = int(kc.get("GroupsDefaultTimeoutNs", 5 * 10**9)), int(kc.get("GroupsDefaultIntervalNs", 30 * 10**9))
    v.coverage["constants_from_code"] = {x: kc.get(x) for x in kc if x.startswith("Groups")}
    if "GroupsLatRing" not in kc:
        v.assumptions.append("latencyProbeResultSize (unexported) could not be read from the source: assumed 32; default timeout/interval assumed 5 s / 30 s")

    if replay:
        return run_replay(v, cx.work, cx.binary, cx.k, replay, seed)

    t0 = time.time()
    phases = {}

    def mark(label):
        phases[label] = round(time.time() - t0, 1)
        vlib.log("[c19] %s at %.1fs" % (label, phases[label]))

    try:
        return run_all(cx, v, mark, phases)
    except vlib.Broken as e:
        # violations already observed on the real code are reported even if the machinery failed later
        if not v.violations and not v.known:
            raise
        v.notes.append("the run stopped early: %s" % str(e)[:500])
        for fld in ("states", "transitions", "traces_validated_against_impl"):
            v.coverage.setdefault(fld, {"states": cx.tot["distinct"], "transitions": cx.tot["generated"], "traces_validated_against_impl": cx.nrep}[fld])
        return v.finish()


def run_all(cx, v, mark, phases):
    # every TLC job goes to one pool (longest first); the replays run as their inputs become available
    pool = ThreadPoolExecutor(max_workers=5 if not cx.big else 6)
    try:
        # development aid for mutation experiments: VERIF_C19_SKIP=design skips the two code-independent TLC phases
        skip = os.environ.get("VERIF_C19_SKIP", "").split(",")
        f_design = [pool.submit(design_job, cx, d) for d in design_configs(cx)] if "design" not in skip else []
        f_sim = pool.submit(sim_job, cx) if "design" not in skip else None
        f_graphs = [pool.submit(graph_job, cx, g) for g in graph_configs(cx)]
        f_rr = pool.submit(rr_job, cx)
        f_scripts = [pool.submit(script_job, cx, p) for p in script_plans(cx)]

        jobs, uncovered = [], 0
        v.coverage["replay_graphs"] = []
        for f in f_graphs:
            d, js = f.result()
            v.coverage["replay_graphs"].append(d)
            uncovered += d["uncovered_edges"]
            jobs += js
        mark("replay graphs built")
        v.coverage["graph_replay_counters"] = replay_all(cx, "graph replay", jobs)
        v.coverage["exhaustive"] = uncovered == 0
        mark("replay graphs replayed")

        descs, jobs = [], []
        for f in f_scripts:
            d, js = f.result()
            descs.append(d)
            jobs += js
        mark("scripted histories built")
        c2 = replay_all(cx, "scripted histories", jobs, timeout=1800)
        v.coverage["scripted_histories"] = {"runs": len(descs), "behaviours": len(jobs), "rounds_replayed": c2.get("rounds", 0),
                                            "mid_round_checks": c2.get("mid_round_checks", 0), "plans": descs[:10]}
        mark("scripted histories replayed")

        res, out, rc, groups, callers, rrp, traced = f_rr.result()
        res = common.absorb(v, res, out, rc, "round-robin recording")
        ntr = nacc = 0
        for gi, ids, acc, path, r in traced:
            ntr += len(ids)
            nacc += len([t for t in ids if t in acc])
            for t in ids:
                if t not in acc:
                    v.violation("groups.round-robin/no-consecutive-tickets",
                                "round-robin group %s under %d concurrent callers: no assignment of distinct consecutive tickets explains the "
                                "recorded calls (a member was skipped or handed out twice in a cycle)" % (groups[gi], rrp["callers"]),
                                {"trace": sub_trace(path, t), "group": groups[gi], "callers": callers})
        cx.nrep += ntr
        v.coverage["round_robin_traces"] = {"recorded": ntr, "accepted": nacc, "events": res["steps"], "counters": res.get("counters", {}),
                                            "tlc_states": sum(r.distinct for _, _, _, _, r in traced)}
        if ntr == 0:
            raise vlib.Broken("no round-robin trace was recorded")
        mark("round-robin traces validated")

        v.coverage["simulate_real_rings"] = f_sim.result() if f_sim else None
        v.coverage["design_exhaustive"] = [f.result() for f in f_design]
        mark("design checked")
    finally:
        pool.shutdown(wait=True, cancel_futures=True)

    # ---- (6) design observation, not a verdict: the 63-bit mask restarts the cycle (scaled: Wrap = 8, N = 3)
    if cx.big:
        wc = model_consts(cx.k, NAMES[:3], ["round-robin"], Callers='{"p1"}', MaxSel=10, Wrap=8)
        try:
            wr = vlib.tlc(SPEC, "MCClientGroup", "MCClientGroup.cfg", wc, workers=2, timeout=300, edges=False)
            v.notes.append("design observation (outside the verdict): with the counter mask scaled to 8 and N=3 TLC reports %s - after 2^63 selections "
                           "the real cycle restarts at position 0 unless N divides 2^63; C19 is stated for fewer selections" % (wr.violation or "no violation"))
        except vlib.Broken as e:
            v.notes.append("wrap observation run failed: %s" % str(e)[:200])

    v.coverage["phase_wall_s"] = phases
    v.coverage["tlc_runs"] = cx.tot["runs"]
    v.coverage["states"] = cx.tot["distinct"]
    v.coverage["transitions"] = cx.tot["generated"]
    v.coverage["traces_validated_against_impl"] = cx.nrep
    v.coverage["replayed_steps"] = cx.steps
    v.coverage["distinct_action_outcomes"] = cx.distinct
    v.assumptions += [
        "latencies lie on the unit grid given to model and driver; the code compares averages in whole nanoseconds (truncating), the model does the same",
        "a successful probe is faster than the timeout and a round is shorter than the probe interval (no dropped ticks)",
        "fewer than 2^63 round-robin selections per group",
        "UDP members: a failure is a NewSession error, a success a real loopback DNS exchange that takes no virtual time",
        "net/http response parsing, the in-memory pipe and the virtual clock of testing/synctest are correct",
    ]
    return v.finish()


def sub_trace(path, tid):
    lines, on = [], False
    for l in open(path):
        d = json.loads(l)
        if d["e"] == "reset":
            on = d["t"] == tid
            continue
        if on:
            lines.append(d)
    return lines


def run_replay(v, work, binary, k, replay, seed):
    doc = json.load(open(replay))
    rp = doc["replay"]
    rp = rp.get("replay", rp) if isinstance(rp, dict) else rp
    if "trace" in rp:
        path = os.path.join(work, "replay.ndjson")
        with open(path, "w") as f:
            f.write(json.dumps({"e": "reset", "t": "replay", "next": len(rp["trace"]) + 2, "p": "", "c": ""}) + "\n")
            for l in rp["trace"]:
                f.write(json.dumps(l) + "\n")
        c = dict(Universe=tla_str_set(UNIVERSE), Group=tla_str_seq(rp["group"]), Callers=tla_str_set(rp["callers"]), TraceFile=path)
        r = vlib.tlc(SPEC, "MCTraceClientGroup", "MCTraceClientGroup.cfg", c, workers=2, timeout=600, edges=False, keep_out=True, dump_trace=False)
        if '"ACCEPT replay"' not in r.out:
            v.violation(doc["key"], doc.get("text", "recorded round-robin trace is not explained by consecutive tickets"), rp)
        v.coverage.update(states=r.distinct, transitions=r.generated, traces_validated_against_impl=1)
        v.sample(rp["trace"][:20])
        return v.finish()
    if "behaviours" in rp:
        res, out, rc = vlib.run_driver(binary, "TestReplay", {"behaviours": rp["behaviours"], "seed": seed, "consts": rp["consts"]}, 600)
        if res is None and rc != 0 and crashed_in_code(out):
            v.violation(doc["key"], doc.get("text", "the process died in clientgroups/probe code"), rp)
        else:
            common.absorb(v, res, out, rc, "replay")
        v.coverage.update(states=1, transitions=sum(len(b["steps"]) for b in rp["behaviours"]), traces_validated_against_impl=len(rp["behaviours"]))
        v.sample([st["a"] for st in rp["behaviours"][0]["steps"][:40]])
        return v.finish()
    beh = {"init": rp["init"], "steps": [{"a": a} for a in rp["acts"]]}
    res, out, rc = vlib.run_driver(binary, "TestReplay", {"behaviours": [beh], "seed": seed, "consts": rp["consts"]}, 300)
    common.absorb(v, res, out, rc, "replay")
    v.coverage.update(states=1, transitions=len(rp["acts"]), traces_validated_against_impl=1)
    v.sample(rp["acts"][:40])
    return v.finish()
