"""C20 - a crash or write failure while saving credentials never destroys the store.
Spec: specs/Cred/CredStore.tla (saver half).  The file operations of one save are read from an strace of the real save
and become the model's SaveOps; TLC checks OldOrNew / AlwaysLoadable / AckedThenSaved with a crash or write error between
and inside any of them.  Binding: fault enumeration on the real code in a child process (RLIMIT_FSIZE = k for every k,
SIGKILL at verifhook points and, through strace fault injection, at the save's own system calls) followed by a real
restart; and gated replay of shutdown at every saver phase (drivers/c20)."""
import json, os, re, subprocess, collections
from concurrent.futures import ThreadPoolExecutor
import vlib
from props import common
from props.c08 import BASE, CDOT, SPEC

TRACE = "openat,open,creat,write,pwrite64,writev,fsync,fdatasync,rename,renameat,renameat2,unlink,unlinkat,ftruncate,truncate,fchmod,link,linkat"


def child(binary, args, timeout=60, strace=None):
    cmd = [binary] + args
    if strace:
        cmd = ["strace", "-f"] + strace + cmd
    p = subprocess.run(cmd, stdout=subprocess.PIPE, stderr=subprocess.PIPE, text=True, timeout=timeout, env=vlib.goenv())
    return p


def save_ops(binary, work):
    """The sequence of file operations one real save performs on the store directory."""
    d = os.path.join(work, "strace-dir")
    os.makedirs(d)
    log = os.path.join(work, "save.strace")
    p = child(binary, ["-mode", "save", "-dir", d, "-old", "A=k1", "-op", "add:B=k2"], strace=["-e", "trace=" + TRACE, "-o", log])
    if p.returncode != 0:
        raise vlib.Broken("strace of the save failed: " + p.stderr[-1500:])
    store = os.path.join(d, "upsks.json")
    ops, fds, started, unknown = [], {}, False, []
    for line in open(log, errors="replace"):
        if "VERIF-SAVE-BEGIN" in line:
            started = True
            fds = {}
            continue
        if not started:
            continue
        m = re.match(r"\d+\s+(\w+)\((.*)\)\s+=\s+(-?\d+)", line)
        if not m:
            continue
        sc, args, ret = m.group(1), m.group(2), int(m.group(3))
        if sc in ("openat", "open", "creat"):
            pm = re.search(r'"([^"]+)"', args)
            if not pm or not pm.group(1).startswith(d) or ret < 0:
                continue
            path = pm.group(1)
            if path == store:
                if "O_TRUNC" in args or sc == "creat":
                    ops.append("trunc_path")
                    fds[ret] = "path"
                elif "O_WRONLY" in args or "O_RDWR" in args:
                    fds[ret] = "path"
            else:
                if "O_CREAT" in args:
                    ops.append("creat_tmp")
                fds[ret] = "tmp"
        elif sc in ("write", "pwrite64", "writev"):
            fd = int(args.split(",")[0])
            if fd in fds:
                ops.append("write_" + fds[fd])
        elif sc in ("fsync", "fdatasync", "fchmod"):
            fd = int(args.split(",")[0])
            if fd in fds:
                ops.append(("sync_" if sc != "fchmod" else "chmod_") + fds[fd])
        elif sc in ("ftruncate",):
            fd = int(args.split(",")[0])
            if fd in fds and fds[fd] == "path":
                ops.append("trunc_path")
        elif sc in ("rename", "renameat", "renameat2"):
            names = re.findall(r'"([^"]+)"', args)
            if len(names) == 2 and names[1] == store and names[0].startswith(d):
                ops.append("rename_tmp_path")
            elif len(names) == 2 and names[0] == store:
                ops.append("rename_path_away")
            elif any(n.startswith(d) for n in names):
                unknown.append(line.strip())
        elif sc in ("unlink", "unlinkat", "truncate", "link", "linkat"):
            names = re.findall(r'"([^"]+)"', args)
            if any(n == store for n in names):
                ops.append("unlink_path" if sc.startswith("unlink") else "unknown_" + sc)
                if not sc.startswith("unlink"):
                    unknown.append(line.strip())
    syscalls = collections.Counter(re.findall(r"^\d+\s+(\w+)\(", open(log, errors="replace").read(), re.M))
    return ops, unknown, syscalls


def restart(binary, d, keylen):
    p = child(binary, ["-mode", "load", "-dir", d, "-keylen", str(keylen)])
    try:
        return json.loads(p.stdout.strip().splitlines()[-1])
    except (ValueError, IndexError):
        return {"loaded": False, "error": "restart child died: " + p.stderr[-800:], "crashed": True}


def one_fault(binary, work, idx, keylen, old, op, new, fsize, killat, sysinject):
    d = os.path.join(work, "f%d" % idx)
    os.makedirs(d)
    oldarg = "@empty" if old == {"@empty": True} else ",".join("%s=%s" % kv for kv in sorted(old.items()))
    if old == {"@empty": True}:
        old = {}      # a store file of zero bytes holds no users
    args = ["-mode", "save", "-dir", d, "-keylen", str(keylen), "-old", oldarg, "-op", op]
    if fsize is not None:
        args += ["-fsize", str(fsize)]
    if killat:
        args += ["-killat", killat]
    st = None
    if sysinject:
        st = ["-e", "trace=" + sysinject[0], "-e", "inject=%s:signal=KILL:when=%d" % tuple(sysinject), "-o", "/dev/null"]
    p = child(binary, args, strace=st)
    r = restart(binary, d, keylen)
    names = sorted(os.listdir(d))
    case = {"keylen": keylen, "old": old, "op": op, "fsize": fsize, "killat": killat, "kill_at_syscall": sysinject,
            "child_exit": p.returncode, "files_after": names, "restart": {k: r.get(k) for k in ("loaded", "users", "error", "add_after_restart")}}
    verdict = None
    norm = lambda m: {u: k for u, k in (m or {}).items() if k != "-"}
    if not r.get("loaded"):
        verdict = ("cred.save/store-not-loadable-after-fault", "after the fault the store file is not accepted at restart: %s" % r.get("error"))
    else:
        got = norm(r.get("users"))
        if got != norm(old) and got != norm(new):
            verdict = ("cred.save/neither-old-nor-new-after-fault", "after the fault the restarted server has users %s, neither the previous %s nor the new %s"
                       % (got, norm(old), norm(new)))
        elif norm(r.get("tcp")) != {k: u for u, k in got.items()} or norm(r.get("udp")) != {k: u for u, k in got.items()}:
            verdict = ("cred.save/restart-accepts-other-users", "after restart the servers accept %s / %s, the store holds %s" % (r.get("tcp"), r.get("udp"), got))
        elif r.get("add_after_restart") != "ok":
            verdict = ("cred.save/restarted-store-unusable", "after restart a further AddCredential fails: %s" % r.get("add_after_restart"))
        elif fsize is None and not killat and not sysinject and got != norm(new):
            verdict = ("cred.shutdown/acknowledged-change-not-saved", "without any fault, the acknowledged change is not in the file after Stop")
    vlib.shutil.rmtree(d, ignore_errors=True)
    return case, verdict


def shutdown_model(saveops, big):
    cfg = dict(BASE)
    cfg.update(SaveOps=saveops, Faults="FALSE", Procs='{"c1"}', MaxOps=3 if big else 2, MaxEdits=0,
               EditKinds="{}", INVS="AckedThenSaved NoTmpLeft ViewsAgree", EMIT="ACTION_CONSTRAINT Emit")
    return vlib.tlc(SPEC, "MCCredStore", "MCCredStore.cfg", cfg, workers=8, timeout=1800, edges=True, jvm=CDOT)


def shutdown_replay(v, work, seed, big, graph, limit=400, repeat=None):
    """Prefixes of model behaviours up to Cancel (saver phase x pending operations), replayed with the saver gated."""
    paths, left = graph.cover(seed=seed, max_len=30)
    prefixes = {}
    for p in paths:
        acts = [graph.edges[i][1] for i in p]
        if any(a["n"] in ("Crash", "SvWriteError") for a in acts):
            continue
        for j, a in enumerate(acts):
            if a["n"] == "Cancel":
                prefixes[json.dumps(acts[:j + 1], sort_keys=True)] = p[:j + 1]
                break
    plist = sorted(prefixes.values(), key=lambda p: (len(p), p))
    if not big and len(plist) > limit:
        plist = vlib.random.Random(seed).sample(plist, limit)
    behs = [graph.behaviour(p) for p in plist] * (repeat or (3 if not big else 6))   # Go's select is random when both cases are ready
    sbin = vlib.build_driver("c20", work)
    outs = common.run_parallel(sbin, "TestShutdown", [{"behaviours": c, "seed": seed + i} for i, c in enumerate(common.chunks(behs, 12))], 1500)
    nshut, phases = 0, 0
    for res, out, rc in outs:
        res = common.absorb(v, res, out, rc, "shutdown replay")
        nshut += res["behaviours"]
        phases = max(phases, res.get("distinct", 0))
    return nshut, phases, len(plist)


def run(tier, seed, replay):
    v = vlib.Verdict("C20", tier, seed, "fault_enumeration")
    work = vlib.scratch("c20")
    big = tier == "thorough"
    childbin = vlib.build_cmd("credchild", work)
    if replay:
        doc = json.load(open(replay))
        c = doc["replay"]
        if "fsize" in c:
            case, verdict = one_fault(childbin, work, 0, c["keylen"], c["old"], c["op"], c["new"], c["fsize"], c["killat"], c["kill_at_syscall"])
            if verdict:
                v.violation(verdict[0], verdict[1], c)
            v.coverage.update(evaluations=1, distinct_nontrivial=2, rule="replay of one fault case", samples=[case])
            return v.finish()
        raise vlib.Broken("shutdown replays: re-run the check with the same VERIF_SEED")

    # (1) the save's file operations, from the real code
    ops, unknown, syscalls = save_ops(childbin, work)
    v.coverage["save_file_operations_from_strace"] = ops
    if unknown:
        v.notes.append("file operations on the store directory that the model does not know: %s" % unknown[:3])
    if not ops:
        # the traced process added a user, was told so, then shut down: if nothing at all was written, that acknowledged
        # change is not in the store - which is C20's own statement, decided by a real restart on that directory
        r0 = restart(childbin, os.path.join(work, "strace-dir"), 32)
        users0 = (r0.get("users") or {}) if isinstance(r0, dict) else {}
        if r0.get("loaded") and users0.get("B") in (None, "-"):
            v.violation("cred.shutdown/acknowledged-change-not-saved", "a process added a user through the API, was told it succeeded, and shut down cleanly; "
                        "no file operation was made and the restarted server does not know the user", {"old": {"A": "k1"}, "op": "add:B=k2", "after_restart": r0})
            v.notes.append("the save made no file operation under strace; the fault enumeration goes on with the file operations of the repaired code")
            ops = ["creat_tmp", "write_tmp", "chmod_tmp", "sync_tmp", "rename_tmp_path"]
        else:
            raise vlib.Broken("strace shows no file operation of the save (restart: %s)" % str(r0)[:300])
    modelled = [o for o in ops if o in ("trunc_path", "write_path", "creat_tmp", "write_tmp", "sync_tmp", "chmod_tmp", "rename_tmp_path", "unlink_path",
                                        "rename_path_away")]

    # (2) TLC: a crash or a write error between/inside any of these operations; shutdown at every saver phase
    cfg = dict(BASE)
    cfg.update(SaveOps="<<" + ",".join('"%s"' % o for o in modelled) + ">>", Faults="TRUE", Procs='{"c1"}', MaxOps=3 if big else 2, MaxEdits=0,
               EditKinds="{}", INVS="OldOrNew AlwaysLoadable AckedThenSaved NoTmpLeft ViewsAgree", EMIT="ACTION_CONSTRAINT Emit")
    r = vlib.tlc(SPEC, "MCCredStore", "MCCredStore.cfg", cfg, workers=8, timeout=1800, edges=True, jvm=CDOT)
    v.coverage["model"] = {"states": r.distinct, "transitions": r.generated, "violated": r.violation, "constants": {"SaveOps": cfg["SaveOps"], "MaxOps": cfg["MaxOps"]}}
    model_violation = r.violation

    # (3) fault enumeration on the real code
    plans = []
    stores = [({}, "add:A=k1", {"A": "k1"}), ({"A": "k1"}, "add:B=k2", {"A": "k1", "B": "k2"}), ({"A": "k1", "B": "k2"}, "del:A", {"B": "k2"}),
              ({"A": "k1", "B": "k2", "C": "k3"}, "upd:B=k4", {"A": "k1", "B": "k4", "C": "k3"}), ({"A": "k1"}, "del:A", {}),
              # the very first save of a freshly provisioned store: the file exists and has zero bytes
              ({"@empty": True}, "add:A=k1", {"A": "k1"})]
    hookpoints = ["cred.saver.beforeSave", "cred.save.beforeWrite", "cred.save.afterWrite", "cred.save.beforeRename", "cred.save.afterRename", "cred.saver.afterSave"]
    # SIGKILL on entering the i-th invocation of each of these system calls (every invocation the save makes)
    killsys = [(s, i) for s in ("fchmod", "fsync", "fdatasync", "renameat", "rename", "renameat2", "unlinkat", "unlink", "ftruncate", "link", "linkat")
               for i in range(1, min(syscalls.get(s, 0), 6) + 1)]
    for si, (old, op, new) in enumerate(stores):
        for keylen in ((16, 32) if big or si == 1 else (32,)):
            doclen = 4 + sum(12 + (24 if keylen == 16 else 44) for _ in new) + 2
            ks = list(range(0, doclen + 3)) if (big or si in (1, 4, 5)) else sorted(set(list(range(0, 6)) + list(range(doclen - 4, doclen + 2)) + [doclen // 2]))
            plans.append((keylen, old, op, new, None, None, None))
            for k in ks:
                plans.append((keylen, old, op, new, k, None, None))
                if big or k in (0, 1, doclen // 2):
                    plans.append((keylen, old, op, new, k, "cred.save.afterWrite", None))
            for hp in hookpoints:
                plans.append((keylen, old, op, new, None, hp, None))
            for sc in killsys:
                plans.append((keylen, old, op, new, None, None, sc))
    with ThreadPoolExecutor(max_workers=12) as ex:
        futs = [ex.submit(one_fault, childbin, work, i, *pl) for i, pl in enumerate(plans)]
        results = [f.result() for f in futs]
    distinct = set()
    for (case, verdict), pl in zip(results, plans):
        distinct.add((json.dumps(case["old"], sort_keys=True), case["op"], case["fsize"], case["killat"], json.dumps(case["kill_at_syscall"]), case["keylen"]))
        if verdict:
            case["new"] = pl[3]
            v.violation(verdict[0], verdict[1], case)
    nfaults = len(results)
    v.coverage["samples"] = [results[1][0], results[len(results) // 2][0], results[-1][0]]

    # (4) shutdown at every phase of the debounce: prefixes of model behaviours up to Cancel, gated replay
    nshut, phases, nprefix = shutdown_replay(v, work, seed, big, vlib.Graph(r))
    if model_violation and not v.violations and not v.known:
        raise vlib.Broken("TLC violates %s for the file operations %s read from the real save, but no injected fault reproduces it on the real code"
                          % (model_violation, modelled))
    v.coverage.update(evaluations=nfaults + nshut, distinct_nontrivial=len(distinct) + phases,
                      rule="fault cases = (old store, operation, key size) x (RLIMIT_FSIZE=k for k over the document length | SIGKILL at a verifhook point | "
                           "SIGKILL at a system call of the save | both), each followed by a real restart; distinct = distinct (store, op, k, kill point); "
                           "shutdown cases = distinct model prefixes up to Cancel (saver phase x pending operations), each run several times",
                      fault_cases=nfaults, shutdown_prefixes=nprefix, shutdown_runs=nshut, exhaustive=big)
    v.assumptions += ["crash = process death (page cache survives); power loss is not modelled", "the file operations of a save are those seen by strace in one run"]
    return v.finish()
