"""Helpers shared by the per-property check scripts."""
import json, os, subprocess
import vlib


def vconst(work):
    b = vlib.build_cmd("vconst", work)
    p = subprocess.run([b], stdout=subprocess.PIPE, stderr=subprocess.PIPE, text=True, env=vlib.goenv())
    if p.returncode != 0:
        raise vlib.Broken("vconst failed: " + p.stderr[-2000:])
    return json.loads(p.stdout)


def absorb(v, res, out, rc, what):
    """Fold a driver result into the verdict.  A driver that did not report, or reports that it
    could not execute the plan, is Broken (exit 2), never a violation."""
    if res is None:
        raise vlib.Broken("%s: driver wrote no result (rc=%s):\n%s" % (what, rc, out[-3000:]))
    if res.get("broken"):
        raise vlib.Broken("%s: driver could not execute: %s" % (what, res["broken"][:5]))
    for f in res.get("violations") or []:
        v.violation(f["key"], f.get("text", ""), f)
    nd = len(res.get("drift") or [])
    if nd:
        v.notes.append("%s: %d model-drift notes (model and code differ without violating the property), first: %s"
                       % (what, res.get("counters", {}).get("drift", nd), res["drift"][0].get("text")))
    for s in res.get("samples") or []:
        v.sample(s)
    # the drivers' own counters (faults injected, batches written, behaviours skipped ...) add up in the evidence
    ctr = v.coverage.setdefault("driver_counters", {})
    for k, n in (res.get("counters") or {}).items():
        if isinstance(n, int) and k not in ("violations", "drift"):
            ctr[k] = ctr.get(k, 0) + n
    if rc != 0 and not res.get("violations"):
        raise vlib.Broken("%s: driver exited %s without reporting a violation:\n%s" % (what, rc, out[-3000:]))
    return res


def chunks(lst, n):
    k = max(1, (len(lst) + n - 1) // n)
    return [lst[i:i + k] for i in range(0, len(lst), k)]


def run_parallel(binary, test, inputs, timeout, env_extra=None):
    """Run the same driver test on several inputs in parallel processes."""
    from concurrent.futures import ThreadPoolExecutor
    with ThreadPoolExecutor(max_workers=min(16, max(1, len(inputs)))) as ex:
        futs = [ex.submit(vlib.run_driver, binary, test, inp, timeout, env_extra) for inp in inputs]
        return [f.result() for f in futs]
