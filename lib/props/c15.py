"""C15 - the in-memory pipe (netio/pipe.go) is a faithful duplex stream with half-close and deadlines.

Spec: specs/Pipe/Pipe.tla (design, checked exhaustively by TLC for small constants),
specs/Pipe/TracePipe.tla (trace validation).  Binding (harness/drivers/c15):
  * replay: sequential-start schedules of the model (edges of the state graph of MCPipe with the
    SeqOnly constraint) are executed on a real pipe, one goroutine per call, parked-goroutine detection;
  * the combined operations (SetDeadline = read half ; write half in ONE call, Close = CloseRead ; CloseWrite) have
    replay graphs of their own (COVER_ALL: setd_l/r, close2_l/r): every half-close state of both ends x SetDeadline(past/
    future) x pending Write/Read x timer expiry, every edge replayed; a call the model returns with a timeout (or the
    shutdown error) and the pipe leaves parked is a violation (pipe.deadline|halfclose/parked-call-not-unblocked); where
    the pipe has no armed timer for a deadline the model has, the behaviour is re-executed in real time and judged there;
  * free-running randomised histories from 2..4 goroutines per end;
  * every recorded call/return history (from both) is judged by the driver's direct oracles and is
    validated by TLC against TracePipe.tla (the unlogged steps are inferred).
"""
import json, os, re, time
from concurrent.futures import ThreadPoolExecutor
import vlib
from props import common

SPEC = os.path.join(vlib.VERIF, "specs", "Pipe")

W = '{"Write"}'
R = '{"Read","WriteTo"}'
RO = '{"Read"}'
CL = '{"CloseRead","CloseWrite","Close"}'
SD = '{"SetRD","SetWD","SetD"}'
SDO = '{"SetD"}'          # the combined SetDeadline only (a code path of its own: pipe.go SetDeadline)
WR = '{"Write","Read"}'
CTL = '{"CloseRead","CloseWrite","Close","SetRD","SetWD","SetD"}'
ALLK = '{"past","future","zero"}'
PF = '{"past","future"}'


def sset(xs):
    return "{" + ",".join('"%s"' % x for x in xs) + "}"


def mkconsts(roles, WriteSizes, BufSizes, SinkLims, MaxCalls, DlKinds=ALLK, CloseKinds='{"nil"}', Strict="TRUE", EMIT=""):
    """roles: thread -> (allowed ops, budget); threads whose name starts with l live on the l end."""
    allowed = "CASE " + " [] ".join('t = "%s" -> %s' % (t, ops) for t, (ops, b) in roles.items())
    budget = "CASE " + " [] ".join('t = "%s" -> %d' % (t, b) for t, (ops, b) in roles.items())
    return dict(LThreads=sset([t for t in roles if t[0] == "l"]), RThreads=sset([t for t in roles if t[0] == "r"]),
                WriteSizes=WriteSizes, BufSizes=BufSizes, SinkLims=SinkLims, DlKinds=DlKinds, CloseKinds=CloseKinds,
                MaxCalls=MaxCalls, Strict=Strict, ALLOWED=allowed, BUDGET=budget, EMIT=EMIT,
                ORDER="<<" + ",".join('"%s"' % t for t in sorted(roles)) + ">>")


# ---- exhaustive design configurations (every interleaving of the listed calls) ----
DESIGN = {
    "quick": {
        # 2 writers + 2 readers on one direction, a closer on each end
        "close": mkconsts({"l1": (W, 1), "l2": (W, 1), "r1": (R, 1), "r2": (RO, 1), "l3": (CL, 1), "r3": (CL, 1)},
                          "{2}", "{1,3}", "{99}", 4, DlKinds="{}"),
        # a writer and a reader (two calls each) against deadline setters on both ends
        "deadline": mkconsts({"l1": (W, 2), "r1": (RO, 2), "l3": (SD, 1), "r3": (SD, 2)},
                             "{2}", "{1}", "{99}", 4),
        # the combined operations in every half-close state: one Write or Read of end l against SetDeadline(past/future)
        # of that end, a CloseRead/CloseWrite/Close of the same end and a CloseRead/CloseWrite of the peer, every
        # interleaving (thorough: Write and Read, the peer's Close too)
        "halfclose_deadline": mkconsts({"l1": (WR, 1), "l3": (CL, 1), "l4": (SDO, 1), "r3": ('{"CloseRead","CloseWrite"}', 1)},
                                       "{1}", "{1}", "{99}", 4, DlKinds=PF),
    },
    "thorough": {
        "halfclose_deadline": mkconsts({"l1": (W, 1), "l2": (RO, 1), "l3": (CL, 1), "l4": (SDO, 1), "r3": (CL, 1)},
                                       "{2}", "{1}", "{99}", 5, DlKinds=PF),
        "close": mkconsts({"l1": (W, 1), "l2": (W, 1), "r1": (R, 1), "r2": (R, 1), "l3": (CL, 1), "r3": (CL, 1)},
                          "{0,2}", "{0,1,3}", "{1,99}", 4, DlKinds="{}"),
        "closeerr": mkconsts({"l1": (W, 1), "r1": (R, 2), "l3": (CL, 2), "r3": (CL, 2)},
                             "{2}", "{1}", "{99}", 4, DlKinds="{}", CloseKinds='{"nil","custom"}'),
        "deadline": mkconsts({"l1": (W, 2), "r1": (R, 2), "l3": (SD, 2), "r3": (SD, 2)},
                             "{0,2}", "{0,1,3}", "{1,99}", 4),
        "duplex": mkconsts({"l1": ('{"Write","Read"}', 2), "r1": ('{"Write","Read","WriteTo"}', 2), "l3": (CTL, 1), "r3": (CTL, 1)},
                           "{2}", "{1,3}", "{99}", 4),
    },
}

DESIGN_SMALL = ("halfclose_deadline",)

# ---- replay graphs (sequential-start schedules: the interleavings the driver can force) ----
# mode "graph": the complete graph is dumped and every edge is covered; mode ("sim", n, depth): the edges of n
# simulated behaviours.


def halfclose_setd(e, peer_reader=False):
    """Combined operations in every half-close state of end e: SetDeadline(past/future/zero) of e, one Write and one Read
    of e, one of CloseRead/CloseWrite/Close on e and one on the peer, in every order (complete graph), with the timer
    expiries.  Every edge is replayed on the real pipe."""
    o = "r" if e == "l" else "l"
    roles = {e + "1": (W, 1), e + "2": (RO, 1), e + "3": (CL, 1), e + "4": (SDO, 1), o + "3": (CL, 1)}
    if peer_reader:
        roles[o + "1"] = (RO, 1)
    # (a single SetDeadline(zero) on a fresh pipe changes nothing: past and future only)
    return (mkconsts(roles, "{2}", "{1}", "{99}", 5, DlKinds=PF, EMIT="ACTION_CONSTRAINT EmitSeq"), "graph")


def double_close(e):
    """The other combined operation, Close (= CloseRead ; CloseWrite in one call), after a half-close of the SAME end
    (two of CloseRead/CloseWrite/Close on e in every order), followed by a Write and a Read of e and a Read of the peer."""
    o = "r" if e == "l" else "l"
    roles = {e + "1": (W, 1), e + "2": (RO, 1), e + "3": (CL, 2), o + "2": (RO, 1)}
    return (mkconsts(roles, "{2}", "{1}", "{99}", 4, DlKinds="{}", EMIT="ACTION_CONSTRAINT EmitSeq"), "graph")


# of the on-path histories of the COVER_ALL graphs, one in EVERY_SAMPLE is also validated by TLC (all that drifted are)
EVERY_SAMPLE = 8
# graphs whose every edge has to be replayed (the run is broken otherwise)
COVER_ALL = ("setd_l", "setd_r", "close2_l", "close2_r")

REPLAY = {
    "quick": {
        "setd_l": halfclose_setd("l"),
        "setd_r": halfclose_setd("r"),
        "close2_l": double_close("l"),
        "close2_r": double_close("r"),
        # two multi-chunk writers against one-byte readers and a closer: complete graph, every edge replayed
        "atomic": (mkconsts({"l1": (W, 1), "l2": (W, 1), "r1": (RO, 2), "r2": (R, 1), "l3": (CL, 1)},
                            "{2}", "{1}", "{1}", 5, DlKinds="{}", EMIT="ACTION_CONSTRAINT EmitSeq"), "graph"),
        "mix": (mkconsts({"l1": (W, 2), "l2": (W, 2), "r1": (R, 2), "r2": (R, 2), "l3": (CTL, 2), "r3": (CTL, 2)},
                         "{0,1,3}", "{0,1,3}", "{1,99}", 6, CloseKinds='{"nil","custom"}', EMIT="ACTION_CONSTRAINT EmitSeq"), ("sim", 150, 60)),
    },
    "thorough": {
        "setd_l": halfclose_setd("l", True),
        "setd_r": halfclose_setd("r", True),
        "close2_l": double_close("l"),
        "close2_r": double_close("r"),
        "atomic": (mkconsts({"l1": (W, 1), "l2": (W, 1), "r1": (RO, 3), "r2": (R, 2), "l3": (CL, 1), "r3": (CL, 1)},
                            "{2,3}", "{1}", "{1}", 6, DlKinds="{}", EMIT="ACTION_CONSTRAINT EmitSeq"), "graph"),
        "mix": (mkconsts({"l1": (W, 2), "l2": (W, 1), "r1": (R, 2), "r2": (RO, 1), "l3": (CTL, 1), "r3": (CTL, 1)},
                         "{0,2}", "{1,3}", "{1,99}", 4, EMIT="ACTION_CONSTRAINT EmitSeq"), "graph"),
        "deep": (mkconsts({"l1": (W, 3), "l2": (W, 3), "r1": (R, 3), "r2": (R, 3), "l3": (CTL, 3), "r3": (CTL, 3)},
                          "{0,1,3}", "{0,1,3}", "{1,99}", 9, CloseKinds='{"nil","custom"}', EMIT="ACTION_CONSTRAINT EmitSeq"), ("sim", 700, 90)),
        "duplex": (mkconsts({"l1": ('{"Write","Read","WriteTo"}', 3), "l2": ('{"Write","Read"}', 3), "r1": ('{"Write","Read","WriteTo"}', 3),
                             "r2": ('{"Write","Read"}', 3), "l3": (CTL, 2), "r3": (CTL, 2)},
                            "{0,2}", "{0,1,3}", "{1,99}", 8, EMIT="ACTION_CONSTRAINT EmitSeq"), ("sim", 500, 90)),
    },
}

TRACE_THREADS = dict(LThreads=sset(["l1", "l2", "l3", "l4", "l9"]), RThreads=sset(["r1", "r2", "r3", "r4", "r9"]))


# ---------------------------------------------------------------- trace validation

def split_traces(text):
    """ndjson text -> list of traces (each a list of lines, first line is the reset event)."""
    out = []
    for line in text.splitlines():
        if not line.strip():
            continue
        if line.startswith('{"e":"reset"'):
            out.append([])
        out[-1].append(line)
    return out


def tlc_validate(traces, strict, timeout):
    """Validate a batch of traces in one TLC run.  Returns (accepted_count, failing_index or None, failing_event_no, stats)."""
    work = vlib.scratch("c15tr")
    path = os.path.join(work, "trace.ndjson")
    n = 0
    with open(path, "w") as f:
        for tr in traces:
            for line in tr:
                # the reset event carries the origin of the history for the replay file; TLC needs only its kind
                f.write(('{"e":"reset"}' if line.startswith('{"e":"reset"') else line) + "\n")
                n += 1
    consts = dict(TRACE_THREADS, Strict="TRUE" if strict else "FALSE", TRACE=path, ALLOWED="{}", BUDGET="0")
    r = vlib.tlc(SPEC, "TracePipe", "TracePipe.cfg", consts, workers=1, timeout=timeout, edges=False, keep_out=True,
                 dump_trace=False, heap="3g")
    m = re.search(r'"HWM (\d+) OF (\d+)"', r.out)
    if not m or int(m.group(2)) != n:
        raise vlib.Broken("trace validation did not report a high-water mark:\n" + r.out[-2000:])
    hwm = int(m.group(1))
    stats = (r.distinct, r.generated)
    if hwm == n:
        return len(traces), None, None, stats
    # event number hwm (0-based) is the first one no interleaving of the model explains
    k = 0
    for i, tr in enumerate(traces):
        if hwm < k + len(tr):
            return i, i, hwm - k, stats
        k += len(tr)
    raise vlib.Broken("high-water mark outside the trace")


def validate_all(v, traces, timeout, batch):
    """Validate every trace (batches in parallel TLC processes).  Returns (validated, rejected list)."""
    # round-robin: the (much heavier) free-running histories are spread over all batches
    nbatch = max(1, (len(traces) + batch - 1) // batch)
    batches = [traces[i::nbatch] for i in range(nbatch)]
    batches = [b for b in batches if b]
    rejected = []
    states = [0, 0]
    skipped = [0]

    def work(b):
        out = []
        rest = b
        strict = True
        ndrift = nviol = 0
        while rest:
            ok, bad, evno, st = tlc_validate(rest, strict, timeout)
            states[0] += st[0]
            states[1] += st[1]
            if bad is None:
                break
            tr = rest[bad]
            if strict:
                # is the history outside what the property allows, or only outside the exact code model?
                ok2, bad2, evno2, st2 = tlc_validate([tr], False, timeout)
                beyond = bad2 is not None
            else:
                beyond, evno2 = True, evno
            out.append((tr, evno, beyond, evno2))
            nviol += beyond
            ndrift += not beyond
            rest = rest[bad + 1:]
            if nviol >= 2 and rest:
                # the verdict is settled; do not spend a TLC run per further rejected history
                skipped[0] += len(rest)
                break
            if ndrift >= 3:
                # the code has left the exact model without leaving the property: judge the rest by the relaxed model only
                strict = False
        return out

    nproc = max(1, min(len(batches), int(os.environ.get("VERIF_MAX_WORKERS", "16"))))
    with ThreadPoolExecutor(max_workers=nproc) as ex:
        for out in ex.map(work, batches):
            rejected += out
    if skipped[0]:
        v.notes.append("%d recorded histories were not validated after two rejections in their batch" % skipped[0])
    v.coverage["trace_validation_states"] = states[0]
    v.coverage["trace_validation_transitions"] = states[1]
    return len(traces) - len([r for r in rejected if r[2]]) - skipped[0], rejected


def report_rejected(v, rejected):
    for tr, evno, beyond_property, evno2 in rejected:
        evs = [json.loads(x) for x in tr]
        if beyond_property:
            ev = evs[evno2] if evno2 < len(evs) else {}
            err = str(ev.get("err", "?")).split(":")[0]
            key = "pipe.history/unexplained-%s-%s" % (ev.get("op", "?"), err)
            text = ("no interleaving of the pipe model explains event %d of this recorded history: %s"
                    % (evno2, json.dumps({k: ev.get(k) for k in ("e", "t", "op", "n", "err", "data")})))
            v.violation(key, text, {"trace": tr, "src": evs[0].get("src"), "event": evno2})
        else:
            ev = evs[evno] if evno < len(evs) else {}
            v.notes.append("model drift: a recorded history is explained only by the relaxed model (Strict=FALSE), event %d: %s"
                           % (evno, json.dumps(ev)[:300]))


def crash_or_absorb(v, res, out, rc, what, src=None):
    """A driver process that died from a panic inside netio/pipe.go (e.g. in the deadline timer's goroutine)
    is behaviour of the code under test."""
    if res is None and rc not in (0, None) and ("netio/pipe.go" in out or "netio.(*PipeConn)" in out or "netio.(*pipeDeadline)" in out) \
            and ("panic:" in out or "fatal error:" in out):
        m = re.search(r"(panic: .*|fatal error: .*)", out)
        v.violation("pipe.panic/process-crashed", "%s: the driver process died inside netio/pipe.go: %s" % (what, m.group(1) if m else "?"),
                    {"stdout_tail": out[-3000:], "src": src})
        return {"behaviours": 0, "steps": 0, "violations": [], "drift": [], "traces": [], "counters": {}, "distinct": 0, "crashed": True}
    if res is not None:
        for k in ("samples", "traces", "violations", "drift", "broken"):
            if res.get(k) is None:
                res[k] = []
    return common.absorb(v, res, out, rc, what)


# ---------------------------------------------------------------- the check

def run(tier, seed, replay):
    v = vlib.Verdict("C15", tier, seed, "model_checking")
    work = vlib.scratch("c15")
    binary = vlib.build_driver("c15", work)
    if replay:
        return run_replay(v, binary, replay, seed)
    big = tier == "thorough"

    k = common.vconst(work)
    caps = {x: k.get(x) for x in ("PipeDataChanCap", "PipeCountChanCap", "PipeDoneChanCap", "PipeHasWrMu", "PipeDeadlineFields")}
    v.coverage["constants_from_code"] = caps
    if caps["PipeDataChanCap"] != 0 or caps["PipeCountChanCap"] != 0 or not caps["PipeHasWrMu"]:
        raise vlib.Broken("netio.PipeConn no longer has unbuffered data/count channels and a write mutex (%s): "
                          "Pipe.tla models a rendezvous; the model has to follow the code" % caps)

    maxw = int(os.environ.get("VERIF_MAX_WORKERS", "16"))
    t0 = time.time()

    # (1) design, exhaustive -- runs in the background while the binding work proceeds
    def design(name):
        c = DESIGN[tier][name]
        # the small configuration gets two workers, the others share the rest as before
        nw = 2 if name in DESIGN_SMALL else max(2, (maxw - 2) // max(1, len([x for x in DESIGN[tier] if x not in DESIGN_SMALL])))
        r = vlib.tlc(SPEC, "MCPipe", "MCPipe.cfg", c, workers=nw, timeout=12000 if big else 3600,
                     edges=False, heap="12g" if big else "6g")
        return name, r

    pool = ThreadPoolExecutor(max_workers=5)
    # C15_SKIP_DESIGN is for mutation experiments only (the design run does not depend on the code)
    design_futs = [pool.submit(design, n) for n in DESIGN[tier]] if not os.environ.get("C15_SKIP_DESIGN") else []

    # (1b) thorough only: liveness under weak fairness of the internal steps (EventuallyReturns) on a small configuration
    def live():
        c = mkconsts({"l1": (W, 1), "l2": (W, 1), "r1": (R, 1), "l3": (CTL, 1), "r3": (CL, 1)}, "{2}", "{1}", "{99}", 4, DlKinds='{"past"}')
        return vlib.tlc(SPEC, "MCPipe", "MCPipeLive.cfg", c, workers=2, timeout=6000, edges=False, heap="6g")

    live_fut = pool.submit(live) if big and not os.environ.get("C15_SKIP_DESIGN") else None

    # (2) replay graphs (TLC runs in the background while the free-running stages execute)
    def graph_of(name):
        c, mode = REPLAY[tier][name]
        if mode == "graph":
            g = vlib.tlc(SPEC, "MCPipe", "MCPipe.cfg", c, workers=2 if name in COVER_ALL else 4, timeout=12000 if big else 3600, edges=True,
                         heap="2g" if name in COVER_ALL else "6g", edge_limit=3000000)
        else:
            g = vlib.tlc(SPEC, "MCPipe", "MCPipe.cfg", c, workers=1, timeout=12000 if big else 3600, edges=True, heap="3g",
                         simulate="num=%d" % mode[1], depth=mode[2], seed=seed, edge_limit=1500000)
        return name, mode, g

    gpool = ThreadPoolExecutor(max_workers=8)
    graph_futs = [gpool.submit(graph_of, n) for n in REPLAY[tier]]

    traces = []
    # (3) free-running histories
    nproc = min(8, maxw)
    per = (40 if big else 12)
    params = {"histories": per, "perEndMin": 2, "perEndMax": 4 if big else 3, "ops": 3 if big else 2, "maxWrite": 3}
    outs = common.run_parallel(binary, "TestFree", [{"seed": seed * 1000 + i, "params": params, "tier": tier} for i in range(nproc)], 3600)
    nfree = 0
    for res, out, rc in outs:
        res = crash_or_absorb(v, res, out, rc, "free-running histories")
        nfree += res["behaviours"]
        for t in res.get("traces") or []:
            traces += split_traces(t)
    v.coverage["free_histories"] = nfree
    vlib.log("[c15] %d free-running histories (%.0fs)" % (nfree, time.time() - t0))

    # (3b) race probes (direct oracles only): store-then-close windows, timer expiry against re-arm
    outs = common.run_parallel(binary, "TestRace", [{"seed": seed * 100 + i, "params": {"trials": 2000 if big else 300}, "tier": tier}
                                                    for i in range(8 if big else 2)], 3600)
    nrace = 0
    for res, out, rc in outs:
        res = crash_or_absorb(v, res, out, rc, "race probes", {"race": "any"})
        nrace += res["behaviours"]
    v.coverage["race_probe_trials"] = nrace

    behs = []
    behs_every = []      # behaviours of the COVER_ALL graphs
    v.coverage["replay_graphs"] = {}
    for f in graph_futs:
        name, mode, g = f.result()
        if g.violation:
            raise vlib.Broken("replay graph %s violates %s" % (name, g.violation))
        graph = vlib.Graph(g)
        calls = lambda e: e[1].get("n") in ("Call", "Fire")
        every = name in COVER_ALL
        paths, left = graph.cover(seed=seed, max_len=mode[2] if mode != "graph" else 60,
                                  max_paths=20000 if every else ((6000 if mode == "graph" else 2500) if big else 300), prefer=calls)
        if every and left:
            raise vlib.Broken("replay graph %s: %d edges are not covered by the replayed paths" % (name, left))
        walks = [] if every else graph.random_walks(400 if big else 60, mode[2] if mode != "graph" else 60, seed=seed)
        if every:
            behs_every += [graph.behaviour(p) for p in paths]
        else:
            behs += [graph.behaviour(p) for p in paths + walks]
        v.coverage["replay_graphs"][name] = {"mode": mode, "distinct": g.distinct, "edges": len(graph.edges), "cover_paths": len(paths),
                                             "uncovered_edges": left, "random_walks": len(walks)}
    gpool.shutdown()
    vlib.log("[c15] %d behaviours to replay (%.0fs)" % (len(behs) + len(behs_every), time.time() - t0))
    nchunk = max(1, min(16, maxw) // 2)
    inputs = [{"behaviours": c, "seed": seed + i, "tier": tier} for i, c in enumerate(common.chunks(behs, nchunk))]
    nplain = len(inputs)
    inputs += [{"behaviours": c, "seed": seed + 100 + i, "tier": tier} for i, c in enumerate(common.chunks(behs_every, nchunk))]
    outs = common.run_parallel(binary, "TestReplay", inputs, 3600)
    nrep = steps = ndrift = 0
    distinct = 0
    nskip = 0
    for oi, (res, out, rc) in enumerate(outs):
        res = crash_or_absorb(v, res, out, rc, "graph replay")
        nrep += res["behaviours"]
        steps += res["steps"]
        ndrift += res.get("counters", {}).get("behaviours_with_drift", 0)
        distinct = max(distinct, res.get("distinct", 0))
        for t in res.get("traces") or []:
            for j, tr in enumerate(split_traces(t)):
                # A behaviour of a COVER_ALL graph that stayed on the model's path was compared with the model at every
                # quiescent point (results and parked calls): its history is a history of the model by construction.
                # TLC re-validates those that left the path, and a seeded sample of the others.
                if oi >= nplain and '"drift":true' not in tr[0] and (j + oi + seed) % EVERY_SAMPLE:
                    nskip += 1
                    continue
                traces.append(tr)
    v.coverage["replayed_on_path_not_revalidated"] = nskip
    v.coverage["behaviours_replayed"] = nrep
    v.coverage["replayed_steps"] = steps
    v.coverage["replay_behaviours_with_drift"] = ndrift
    v.coverage["distinct_call_outcomes_replayed"] = distinct
    vlib.log("[c15] replayed %d behaviours, %d with drift (%.0fs)" % (nrep, ndrift, time.time() - t0))

    # (4) TLC trace validation of every recorded history
    nb = max(1, min(maxw, 16))
    batch = max(1, (len(traces) + nb - 1) // nb)
    validated, rejected = validate_all(v, traces, 12000 if big else 3600, batch)
    report_rejected(v, rejected)
    v.coverage["traces_validated_against_impl"] = validated
    v.coverage["traces_rejected"] = len([r for r in rejected if r[2]])
    v.coverage["traces_explained_by_relaxed_model_only"] = len([r for r in rejected if not r[2]])
    if traces:
        v.sample({"recorded_history": [json.loads(x) for x in traces[len(traces) // 2][:40]]})
    vlib.log("[c15] trace validation done (%.0fs)" % (time.time() - t0))

    # (1, continued)
    v.coverage["design_exhaustive"] = {}
    tot_d = tot_g = 0
    for f in design_futs:
        name, r = f.result()
        c = DESIGN[tier][name]
        v.coverage["design_exhaustive"][name] = {"distinct": r.distinct, "generated": r.generated, "depth": r.depth, "violated": r.violation,
                                                 "wall_s": round(r.wall, 1),
                                                 "constants": {x: c[x] for x in c if x not in ("EMIT",)}}
        tot_d += r.distinct
        tot_g += r.generated
        if r.violation:
            # a counterexample of the design counts only if the real pipe reproduces it
            beh = vlib.cex_behaviour(r.trace)
            res, out, rc = vlib.run_driver(binary, "TestReplay", {"behaviours": [beh], "seed": seed}, 300)
            res = crash_or_absorb(v, res, out, rc, "design counterexample (%s)" % r.violation)
            if not res["violations"]:
                raise vlib.Broken("TLC violates %s on the design (%s) but the real pipe does not reproduce it: the model is wrong: %s"
                                  % (r.violation, name, json.dumps([s.get("act") for s in vlib.trace_states(r.trace)])[:3000]))
    if live_fut is not None:
        r = live_fut.result()
        v.coverage["design_liveness"] = {"property": "EventuallyReturns (WF of the internal steps)", "distinct": r.distinct,
                                         "generated": r.generated, "violated": r.violation, "wall_s": round(r.wall, 1)}
        if r.violation:
            raise vlib.Broken("TLC violates %s on the fair design: the model has a call that never returns after both directions "
                              "were shut down; the model is wrong or the pipe can deadlock (the drivers' watchdog did not see it)" % r.violation)
        tot_d += r.distinct
        tot_g += r.generated
    pool.shutdown()
    v.coverage["states"] = tot_d
    v.coverage["transitions"] = tot_g
    v.coverage["exhaustive"] = True
    v.assumptions += [
        "exhaustive statements hold for the listed small constants (<= 4-5 calls from 2-3 goroutines per end, writes of 0..3 bytes)",
        "the replay driver forces sequential-start schedules only; racing starts are covered by the free-running histories, whose unlogged steps TLC infers",
        "WriteTo sinks never block (a sink that blocks keeps the peer's Write blocked past its deadline; not judged)",
        "Go runtime: channel, mutex, timer and atomic semantics as documented",
    ]
    return v.finish()


def run_replay(v, binary, replay, seed):
    doc = json.load(open(replay))
    rp = doc.get("replay") or {}
    src = rp.get("src") or rp.get("replay") or rp.get("Replay")
    n = 0
    traces = []
    if rp.get("trace") and src is None:
        # no way to re-execute: re-judge the recorded history itself
        traces.append(rp["trace"])
    if isinstance(src, list):        # a model behaviour: list of Call/Fire actions
        beh = {"steps": [{"a": a} for a in src]}
        res, out, rc = vlib.run_driver(binary, "TestReplay", {"behaviours": [beh], "seed": seed}, 300)
        res = crash_or_absorb(v, res, out, rc, "replay")
        n += res["behaviours"]
        for t in res.get("traces") or []:
            traces += split_traces(t)
    elif isinstance(src, dict) and "behaviour" in src:      # a model behaviour with the model's observations
        res, out, rc = vlib.run_driver(binary, "TestReplay", {"behaviours": [src["behaviour"]], "seed": seed}, 300)
        res = crash_or_absorb(v, res, out, rc, "replay")
        n += res["behaviours"]
        for t in res.get("traces") or []:
            traces += split_traces(t)
    elif isinstance(src, dict) and "race" in src:      # a race probe
        res, out, rc = vlib.run_driver(binary, "TestRace", {"seed": seed, "params": {"trials": 3000}}, 900)
        res = crash_or_absorb(v, res, out, rc, "replay", src)
        n += res["behaviours"]
    elif isinstance(src, dict):      # scripts of a free-running history: scheduling is free, repeat
        res, out, rc = vlib.run_driver(binary, "TestScripts", {"seed": seed, "params": {"scripts": src, "reps": 300}}, 600)
        res = crash_or_absorb(v, res, out, rc, "replay")
        n += res["behaviours"]
        for t in res.get("traces") or []:
            traces += split_traces(t)
    validated, rejected = validate_all(v, traces, 900, 50)
    report_rejected(v, rejected)
    v.coverage.update(states=v.coverage.get("trace_validation_states", 0), transitions=v.coverage.get("trace_validation_transitions", 0),
                      traces_validated_against_impl=validated, behaviours_replayed=n)
    v.sample(src.get("calls") if isinstance(src, dict) and "behaviour" in src else (src if src is not None else rp.get("trace")))
    return v.finish()
