"""C10 - domain, prefix and port sets mean the same in every representation.
Specs: specs/Sets/DomainSet.tla, PortSet.tla, PrefixSet.tla (+ MC*.tla).  TLC checks the transcribed
algorithms (suffix trie, text parser, bit-set scans, binary search) against the meaning of the rules on
small alphabets, and tabulates, for every distinct state it reaches, the expected answers; the driver
(harness/drivers/c10) pushes every such case through every real representation: all builders and the
matchers they select across the size thresholds, text <-> gob round trips, the loader and the converter
command, all 65535 ports of every port set in all three forms, prefix sets written out and reloaded."""
import json, os, subprocess, time, hashlib
from concurrent.futures import ThreadPoolExecutor
import vlib
from props import common

SPEC = os.path.join(vlib.VERIF, "specs", "Sets")
CHARS = '{"a", "b", "."}'
DOM_INVS = "TypeOK MatchIsMeaning SuffixMatchersAgree TrieCanonical TrieRebuilds ParserIsMeaning"
PORT_INVS = "TypeOK BitsAreTheSet RangesAreTheRuns RangeCountIsLen RangeListAgrees CountAndFirst SinglePortAgrees RangesSorted IvRunsAreRuns"


def S(xs):
    return "{" + ", ".join(json.dumps(x) if isinstance(x, str) else str(x) for x in xs) + "}"


def lines(out, tag):
    """the JSON documents printed by the spec as  "TAG {json}"  """
    res = []
    pre = '"' + tag + " "
    for l in out.splitlines():
        if l.startswith(pre):
            res.append(json.loads(json.loads(l)[len(tag) + 1:]))
    return res


def attach_obs(r, name):
    """EDGE/INIT lines carry states only; the observation of a state comes from its STATE line."""
    obs = {vlib.key(x["s"]): x["o"] for x in lines(r.out, "STATE")}
    for e in r.edges:
        e["o"] = obs.get(vlib.key(e["t"]))
        if e["o"] is None:
            raise vlib.Broken("%s: no STATE line for the target of an edge" % name)
    for i in r.inits:
        i["o"] = obs.get(vlib.key(i["t"]))
    return obs


def strs_upto(chars, n):
    out = [""]
    level = [""]
    for _ in range(n):
        level = [s + c for s in level for c in chars]
        out += level
    return out


def build_converter(work):
    """cmd/shadowsocks-go-domain-set-converter of the repository, built through the harness module (so that
    VERIF_REPO scratch copies are honoured and nothing is written under the repository)."""
    vlib.sync_gosum()
    out = os.path.join(work, "domain-set-converter")
    p = subprocess.run(["go", "build", "-o", out, "github.com/database64128/shadowsocks-go/cmd/shadowsocks-go-domain-set-converter"],
                       cwd=vlib.harness_dir(), env=vlib.goenv(), stdout=subprocess.PIPE, stderr=subprocess.STDOUT, text=True)
    if p.returncode != 0 or not os.path.exists(out):
        raise vlib.Broken("building the converter command failed:\n" + p.stdout[-3000:])
    return out


def plan(tier, k):
    big = tier == "thorough"
    mld, mls = k["MaxLinearDomains"], k["MaxLinearSuffixes"]
    B, NB = k["PortBlockBits"], k["PortNBlocks"]
    maxr = k.get("MaxRangeSet", 16)
    sizes = sorted({0, 1, mls, mls + 1, mld, mld + 1, 100})
    dom = dict(DomainRules="{}", SuffixRules="{}", KeywordRules="{}", RegexpRules="{}", Texts="{}", Sizes=S(sizes), MaxRules=3,
               MaxClear=0, Conv="{}", MaxLinearDomains=mld, MaxLinearSuffixes=mls, EMIT="", CASE="NoCase", PROPS="",
               Probes="StrsUpTo(%s, 4)" % CHARS)
    runs = {}

    def add(name, module, workers, consts, **kw):
        runs[name] = dict(module=module, workers=workers, consts=consts, **kw)

    # suffix: every set of up to n suffix rules over {a,b,.} up to 3 characters (empty labels, leading/trailing/double
    # dots, rules that are suffixes or extensions of one another), reached by every insertion order; one CASE per set
    # (quick: the 15 strings over {a,.} and 8 with b, 3 rules; thorough: all 40 strings with 3 rules, and the 23 with 4)
    small = 'StrsUpTo({"a", "."}, 3) \\cup {"b", "ab", "ba", "a.b", "b.a", ".b", "b.", "b.b"}'
    add("dom_suffix", "MCDomainSet", 10 if big else 8,
        dict(dom, SuffixRules="StrsUpTo(%s, 3)" % CHARS if big else small, MaxRules=3, CASE="CaseOut"),
        probes=strs_upto("ab.", 4))
    if big:
        add("dom_suffix4", "MCDomainSet", 10, dict(dom, SuffixRules=small, MaxRules=4, CASE="CaseOut"), probes=strs_upto("ab.", 4))
    # mixed: all four kinds together, Clear, gob and text round trips as actions; replayed step by step
    add("dom_mixed", "MCDomainSet", 2,
        dict(dom, DomainRules=S(["a", "a.b", "b."]) if big else S(["a", "a.b"]), SuffixRules=S(["b", "a.b", ""]),
             KeywordRules=S(["a", ".", "b.a"]) if big else S(["a", "."]), RegexpRules=S(["^a", "b$", "a.b", "^\\.$"]) if big else S(["^a", "b$", "a.b"]),
             Probes="StrsUpTo(%s, 3)" % CHARS, MaxRules=4 if big else 3, MaxClear=1, Conv=S(["gob", "text"]), PROPS="InsertMonotone",
             EMIT="ACTION_CONSTRAINT Emit", CASE="StateOut"),
        probes=strs_upto("ab.", 3), edges=True)
    # conv: suffix rules up to 2 characters with the conversions enabled in every state
    add("dom_conv", "MCDomainSet", 2,
        dict(dom, SuffixRules="StrsUpTo(%s, 2)" % CHARS, DomainRules=S(["a", "b.a"]), MaxRules=3, Conv=S(["gob", "text"]),
             Probes="StrsUpTo(%s, 3)" % CHARS, EMIT="ACTION_CONSTRAINT Emit", CASE="StateOut"),
        probes=strs_upto("ab.", 3), edges=True)
    # text: documents of up to 3 lines (rules of every kind, comments, blank lines, a lone CR, malformed lines, good and
    # bad capacity hints) ended by LF or CRLF, the last line possibly unterminated: parser == declarative reading
    alpha = ["domain:a", "suffix:a.b", "suffix:b", "keyword:a", "regexp:^a", "#c", "", "x", "suffix:"]
    if big:
        alpha += ["\\r", "keyword:", "keywordx:a", "#suffix:a"]
    add("dom_text", "MCDomainSet", 1,
        dict(dom, DomainRules=S(["a"]), SuffixRules=S(["b"]), MaxRules=2, Sizes=S([0, 1]), Probes="StrsUpTo(%s, 3)" % CHARS,
             Texts=("DocsU(%s \\cup {GoodHint, BadHint}, {LF, CR \\o LF}, 3)" if big else
                    "LET A == %s  E == {LF, CR \\o LF} IN DocsU(A \\cup {GoodHint, BadHint}, E, 2) \\cup "
                    "{h \\o e \\o d : h \\in {GoodHint, \"#c\"}, e \\in E, d \\in DocsU({\"domain:a\", \"suffix:b\", \"#c\", \"\", \"x\"}, E, 2)}") % S(alpha).replace('\\\\r', '\\r'),
             EMIT="ACTION_CONSTRAINT Emit", CASE="StateOut"),
        probes=strs_upto("ab.", 3), edges=True)

    # port sets, small words: every subset of 1..11 reached by Add / AddRange / Parse; the transcribed scans, the
    # binary search and the parser against the set semantics
    strs = 'Items({1, 3, 4, 5, 8, 11}) \\cup {"", ",", "3,", ",3", "0", "12", "5-5", "7-3", "0-3", "3-12", "1-2-3", "-", "x", ' \
           '"3,,4", "03,4-05", "4,0,7", "1-3,2-6,8", "9-11,x"}'
    top = 11 if big else 8
    if not big:
        strs = strs.replace("11", "8").replace('"12"', '"9"').replace("3-12", "3-9")
    add("port_small", "MCPortSet", 6 if big else 3,
        dict(BlockBits=4 if big else 3, NBlocks=3, MaxRanges=2, AddPorts="1..%d" % top,
             AddRanges="{x \\in (1..%d) \\X (1..%d) : x[1] < x[2]}" % (top, top), Strings=strs, CaseStrings="{}", MaxOps=0, Concrete="TRUE", EMIT="", INVS=PORT_INVS, PROPS="ParseIsMeaning Monotone"))
    # port sets, the code's word size: range strings over the block-boundary alphabet, expected runs from intervals
    edge = [1, B - 1, B, B + 1, B * NB - 2, B * NB - 1]
    if big:
        edge += [2, 2 * B - 1, 2 * B, 2 * B + 1, B * (NB - 1) - 1, B * (NB - 1), B * (NB - 1) + 1]
    stripes = ["Stripe(1, 2, 1, %d)" % (maxr + 1), "Stripe(1, 2, 1, %d)" % maxr, "Stripe(%d, 3, 2, %d)" % (B - 4, maxr),
               "Stripe(%d, %d, 2, %d)" % (B - 1, B, maxr + 24), "Stripe(%d, %d, %d, %d)" % (B, 2 * B, B, maxr + 1),
               "Stripe(%d, 2, 1, %d)" % (B * NB - 1 - 2 * (maxr + 3), maxr + 4)]
    odd = ["0", str(B * NB), "1-%d" % (B * NB - 1), "2-%d" % (B * NB - 1), "1-%d" % (B * NB - 2), "", "80,", ",80", "80,,90", "90-80", "80-80",
           "0-5", "5-%d" % (B * NB), "1-2-3", "a", "+5", "080,0443", "443,80,8000-8100,80-90,85-95"]
    cs = "LET N == %s IN Items(N) \\cup Lists2(Items(N), Items(N)) \\cup {%s} \\cup %s" % (S(sorted(set(edge))), ", ".join(stripes), S(odd))
    add("port_cases", "MCPortSet", 1,
        dict(BlockBits=B, NBlocks=NB, MaxRanges=maxr, AddPorts="{}", AddRanges="{}", Strings="{}", CaseStrings=cs, MaxOps=0,
             Concrete="FALSE", EMIT="", INVS="TypeOK", PROPS=""))
    # port sets, the code's word size: sequences of Add / AddRange / Parse on one set
    add("port_graph", "MCPortSet", 2,
        dict(BlockBits=B, NBlocks=NB, MaxRanges=maxr, AddPorts=S([1, B - 1, B, B + 1, 2 * B, B * NB - 1]),
             AddRanges="{<<1, 2>>, <<1, %d>>, <<%d, %d>>, <<%d, %d>>, <<%d, %d>>, <<%d, %d>>, <<2, %d>>, <<100, 300>>}"
                       % (B, B - 1, B + 1, B, 2 * B - 1, B + 1, B * NB - 1, B * (NB - 1), B * NB - 1, B * NB - 2),
             Strings=S(["5,7,9", "%d-%d,%d" % (B - 2, B + 2, 2 * B + 1), str(B * NB - 1), "1-%d" % (B * NB - 1), "70000", "3,0"]),
             CaseStrings="{}", MaxOps=3, Concrete="FALSE", EMIT="ACTION_CONSTRAINT Emit", INVS="TypeOK StateOut", PROPS="ParseIsMeaning Monotone"),
        edges=True)

    # prefix sets: every set of up to 3 lines over 3-bit addresses (host bits set, nested, sibling, duplicate after
    # masking, /0 and full length), two families
    add("prefix", "MCPrefixSet", 2,
        dict(W=3, Fams=S(["4", "6"]), MaxPrefixes=3, EMIT="", CASE="CaseOut",
             Lines=('[fam : {"4"}, a : 0..7, len : 0..3] \\cup [fam : {"6"}, a : {0, 2, 5, 7}, len : 0..3]' if big else
                    '[fam : {"4"}, a : {0, 2, 5, 7}, len : 0..3] \\cup [fam : {"6"}, a : {2, 5}, len : {0, 2, 3}]')))
    return runs, sizes


def run_tlc(name, spec, timeout):
    cfg = {"MCDomainSet": "MCDomainSet.cfg", "MCPortSet": "MCPortSet.cfg", "MCPrefixSet": "MCPrefixSet.cfg"}[spec["module"]]
    # development aid (mutation experiments, seed sweeps): TLC's output depends on the specs and constants only,
    # so it can be kept between runs when VERIF_TLC_CACHE names a directory.  Never set by the registered commands.
    cache = os.environ.get("VERIF_TLC_CACHE")
    path = None
    if cache:
        import pickle
        h = hashlib.sha1(json.dumps([spec["module"], spec["consts"], bool(spec.get("edges"))], sort_keys=True).encode())
        for fn in sorted(os.listdir(SPEC)):
            h.update(open(os.path.join(SPEC, fn), "rb").read())
        path = os.path.join(cache, "%s-%s.pickle" % (name, h.hexdigest()[:16]))
        if os.path.exists(path):
            vlib.log("[tlc] %s: cached" % name)
            return pickle.load(open(path, "rb"))
    t0 = time.time()
    r = vlib.tlc(SPEC, spec["module"], cfg, spec["consts"], workers=spec["workers"], timeout=timeout, edges=bool(spec.get("edges")),
                 keep_out=True, heap="6g")
    vlib.log("[tlc] %s: %d distinct, %d generated, depth %d, %.1fs%s" % (name, r.distinct, r.generated, r.depth, time.time() - t0,
                                                                      ", VIOLATED " + r.violation if r.violation else ""))
    if path and not r.violation:
        os.makedirs(cache, exist_ok=True)
        pickle.dump(r, open(path + ".tmp", "wb"))
        os.replace(path + ".tmp", path)
    return r


def replay_file(v, binary, work, doc, seed):
    rp = doc["replay"]
    if "test" not in rp and isinstance(rp.get("replay"), dict):
        rp = rp["replay"]      # the finding as the driver reported it; its own replay object is what is re-run
    test = rp.get("test")
    if not test:
        raise vlib.Broken("replay file has no test name")
    inp = {"seed": rp.get("seed", seed), "params": {}}
    if "behaviour" in rp:
        inp["behaviours"] = [rp["behaviour"]]
    if "case" in rp:
        inp["params"]["cases"] = [rp["case"]]
    for key in ("probes", "sizes", "table", "offset", "w", "mapsPerCase", "combos"):
        if key in rp:
            inp["params"][key] = rp[key]
    if test == "TestDomainCases":
        inp["params"].update(fileEvery=1, convEvery=1, conv=build_converter(work))
    if test == "TestPortCases":
        inp["params"].update(routeEvery=1)
    if test == "TestPrefixCases":
        inp["params"].update(fileEvery=1)
    res, out, rc = vlib.run_driver(binary, test, inp, 300)
    res = common.absorb(v, res, out, rc, "replay")
    v.coverage.update(evaluations=res["counters"].get("evaluations", 0), distinct_nontrivial=res.get("distinct", 0),
                      rule="replay of one recorded case")
    v.sample(rp.get("case") or rp.get("behaviour"))
    return v.finish()


def run(tier, seed, replay):
    v = vlib.Verdict("C10", tier, seed, "exploration")
    work = vlib.scratch("c10")
    binary = vlib.build_driver("c10", work)
    if replay:
        return replay_file(v, binary, work, json.load(open(replay)), seed)
    big = tier == "thorough"
    k = common.vconst(work)
    conv = build_converter(work)
    runs, sizes = plan(tier, k)
    v.coverage["constants_from_code"] = {x: k[x] for x in ("MaxLinearDomains", "MaxLinearSuffixes", "PortBlockBits", "PortNBlocks")}
    v.coverage["sizes"] = sizes

    totals = dict(evaluations=0, cases=0, behaviours=0, steps=0, states=0, transitions=0)
    distinct = set()
    counters = {}
    tlc_cov = {}

    def drive(what, test, inputs, timeout):
        outs = common.run_parallel(binary, test, inputs, timeout)
        agg = dict(behaviours=0, steps=0, distinct=0, evaluations=0)
        vlib.log("[drive] %s: %d processes done" % (what, len(outs)))
        for i, (res, out, rc) in enumerate(outs):
            if res and res.get("samples"):
                res["samples"] = res["samples"][:1] if i == 0 else []      # one sample per kind of case
            res = common.absorb(v, res, out, rc, what)
            agg["behaviours"] += res["behaviours"]
            agg["steps"] += res["steps"]
            agg["distinct"] += res.get("distinct", 0)
            agg["evaluations"] += res["counters"].get("evaluations", 0)
            for ck, cv in res["counters"].items():
                if ck not in ("evaluations", "violations", "drift"):
                    counters[what + ":" + ck] = counters.get(what + ":" + ck, 0) + cv
        return agg

    def chunk_cases(cases, n, **params):
        out = []
        size = max(1, (len(cases) + n - 1) // n)
        for i in range(0, len(cases), size):
            out.append({"seed": seed, "params": dict(params, cases=cases[i:i + size], offset=i)})
        return out

    def graph_paths(r, max_len, max_paths):
        g = vlib.Graph(r)
        paths, left = g.cover(seed=seed, max_len=max_len, max_paths=max_paths)
        return g, [g.behaviour(p) for p in paths], left

    def job(name):
        spec = runs[name]
        r = run_tlc(name, spec, 7200 if big else 1800)
        info = dict(distinct=r.distinct, generated=r.generated, depth=r.depth, violated=r.violation)
        tlc_cov[name] = info
        if r.violation:
            # the design itself fails: that is a statement about the model until the real code reproduces it
            raise vlib.Broken("TLC reports %s violated in %s; the transcription and the declared meaning differ:\n%s"
                              % (r.violation, name, r.out[-2500:]))
        agg = None
        if name.startswith("dom_"):
            table = lines(r.out, "TABLE")
            table = table[0] if table else []
            cases = lines(r.out, "CASE")
            if spec.get("edges"):
                attach_obs(r, name)
                if name == "dom_mixed":     # every distinct state also as a case for the size / round-trip pipeline
                    cases = [{"ref": x["s"][1], "keys": x["o"]["keys"], "m": x["o"]["m"]} for x in lines(r.out, "STATE")]
            info["cases"] = len(cases)
            if cases:
                for c in cases:
                    if any(c["ref"][x] for x in "dskr"):
                        distinct.add(hashlib.sha1(json.dumps(c["ref"], sort_keys=True).encode()).hexdigest())
                n = len(cases)
                agg = drive(name, "TestDomainCases",
                            chunk_cases(cases, 16, probes=spec["probes"], table=table, sizes=sizes, combos=3 if big else 1,
                                        fileEvery=max(1, n // (3000 if big else 600)), conv=conv, convEvery=max(1, n // (200 if big else 100))),
                            7200 if big else 1800)
                info["driver_cases"] = agg
            if spec.get("edges"):
                g, behs, left = graph_paths(r, 8, None if big else 4000)
                info.update(edges=len(g.edges), paths=len(behs), uncovered_edges=left)
                a2 = drive(name + "/replay", "TestDomainReplay",
                           [{"seed": seed, "behaviours": c, "params": {"probes": spec["probes"], "table": table}} for c in common.chunks(behs, 8)],
                           3600 if big else 1200)
                info["driver_replay"] = a2
                agg = a2 if agg is None else {x: agg[x] + a2[x] for x in agg}
        elif name == "port_cases":
            cases = lines(r.out, "CASE")
            info["cases"] = len(cases)
            for c in cases:
                if c["runs"]:
                    distinct.add(hashlib.sha1(json.dumps(c["runs"], sort_keys=True).encode()).hexdigest())
            agg = drive(name, "TestPortCases", chunk_cases(cases, 16, routeEvery=1 if big else 4), 7200 if big else 1800)
        elif name == "port_graph":
            attach_obs(r, name)
            g, behs, left = graph_paths(r, 4, None)
            info.update(edges=len(g.edges), paths=len(behs), uncovered_edges=left)
            agg = drive(name, "TestPortReplay", [{"seed": seed, "behaviours": c} for c in common.chunks(behs, 8)], 3600 if big else 1200)
        elif name == "prefix":
            cases = lines(r.out, "CASE")
            info["cases"] = len(cases)
            for c in cases:
                if c["src"]:
                    distinct.add(hashlib.sha1(json.dumps(c["src"], sort_keys=True).encode()).hexdigest())
            n = len(cases)
            agg = drive(name, "TestPrefixCases", chunk_cases(cases, 12, w=3, mapsPerCase=6 if big else 2, fileEvery=max(1, n // 500)),
                        7200 if big else 1800)
        if agg:
            info["driver"] = agg
        return name, r, agg

    cpu0 = os.times()
    order = [n for n in ("dom_suffix", "dom_suffix4", "port_small", "port_cases", "dom_text", "dom_mixed", "dom_conv", "port_graph", "prefix")
             if n in runs]
    with ThreadPoolExecutor(max_workers=len(order)) as ex:
        futs = [ex.submit(job, n) for n in order]
        results = [f.result() for f in futs]
    for name, r, agg in results:
        totals["states"] += r.distinct
        totals["transitions"] += r.generated
        if agg:
            totals["evaluations"] += agg["evaluations"]
            totals["behaviours"] += agg["behaviours"]
            totals["steps"] += agg["steps"]

    cpu1 = os.times()
    v.coverage["cpu_s"] = round(cpu1.children_user + cpu1.children_system - cpu0.children_user - cpu0.children_system, 1)
    v.coverage.update(
        evaluations=totals["evaluations"], distinct_nontrivial=len(distinct),
        rule="cases are the distinct states TLC reaches in specs/Sets (rule sets over {a,b,.} reached by every insertion order; "
             "range strings over the block-boundary alphabet; prefix sets over 3-bit addresses) with the answers the model "
             "tabulates; evaluations = single membership questions asked of a real representation and compared; a case is "
             "distinct by the hash of its rule set / expected runs / prefix lines and non-trivial when it holds at least one rule",
        states=totals["states"], transitions=totals["transitions"], driver_cases_and_behaviours=totals["behaviours"],
        tlc=tlc_cov, driver_counters=counters, exhaustive=all(t.get("uncovered_edges", 0) == 0 for t in tlc_cov.values()))
    v.assumptions += ["Go's regexp package and gaissmai/bart are correct (they are the representation, not re-modelled)",
                      "rules are expressible in the text form (non-empty, no line breaks); the empty rule is exercised through Insert and gob only",
                      "exhaustive statements are for the listed alphabets; sizes beyond them are reached by padding with inert rules"]
    return v.finish()
