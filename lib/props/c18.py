"""C18 - configurations are either rejected at load or run without invariant violations.
Spec: specs/Config/Config.tla (+ MCConfig.tla).  TLC checks the design of the loader (the implementation-shaped
sections with the constants read from the compiled code) and enumerates the configuration lattice as CASE lines;
the driver (harness/drivers/c18 + harness/cmd/cfgchild) renders every case to the real JSON document, loads it with
the real service.Config.Manager in a child process, compares the effective settings with Effective(cfg), starts the
services on loopback and runs a smoke script through every listener."""
import json, os, random, re, time
from concurrent.futures import ThreadPoolExecutor
import vlib
from props import common

SPEC = os.path.join(vlib.VERIF, "specs", "Config")
PROFILES = ["direct", "socks5", "http", "none", "plain", "2022-128", "2022-256"]
SAFE_INV = "TypeOK OmittedIsEmpty MigrationPreserves LoaderAgrees CrashIsUndocumented DocumentedIsAccepted"
PROPS = "RefusedIsFinal ConfigIsImmutable SettingsAreFrozen LoadOrder"
# the invariants whose truth depends on the constants read from the compiled code, and the stable key a
# reproduced counterexample is reported under when the trace does not name a more specific one
CODE_INV = ["AcceptedIsValid", "DefaultsAsDocumented", "NoCrash"]


def tla_set(xs):
    return "{" + ", ".join(json.dumps(x) for x in xs) + "}"


def dims():
    src = open(os.path.join(SPEC, "MCConfig.tla")).read()
    m = re.search(r"DimSeq == <<(.*?)>>", src, re.S)
    return re.findall(r'"([^"]+)"', m.group(1))


def code_consts(k):
    need = ["ReplayWindowNs", "CfgOmittedReject", "CfgEmptyReject", "CfgOmittedPad", "CfgEmptyPad", "CfgRefusesDomainTargetOnly",
            "CfgRefusesDuplicateSets", "CfgProbeBaselineLoads"]
    for n in need:
        if n not in k:
            raise vlib.Broken("vconst does not print %s" % n)
    if not k["CfgProbeBaselineLoads"]:
        raise vlib.Broken("vconst: the baseline of the domain/target-only probe does not load")
    if k["ReplayWindowNs"] % 10**6:
        raise vlib.Broken("replay window %d ns is not a whole number of milliseconds" % k["ReplayWindowNs"])
    b = lambda x: "TRUE" if x else "FALSE"
    return dict(ReplayWindowMs=k["ReplayWindowNs"] // 10**6, CodeOmittedReject=k["CfgOmittedReject"], CodeEmptyReject=k["CfgEmptyReject"],
                CodeOmittedPad=k["CfgOmittedPad"], CodeEmptyPad=k["CfgEmptyPad"],
                CodeRefusesDomainTargetOnly=b(k["CfgRefusesDomainTargetOnly"]), CodeRefusesDuplicateSets=b(k["CfgRefusesDuplicateSets"]))


def tlc_cases(code, space, given="{}", inv=SAFE_INV, workers=1, timeout=900, emit=True, extra=()):
    consts = dict(code)
    consts.update(Space=space, Given=given, EMIT="ACTION_CONSTRAINT EmitCase" if emit else "", INVARIANTS=inv, PROPERTIES=PROPS)
    # short runs: the C1 compiler alone warms up faster than the tiered default
    r = vlib.tlc(SPEC, "MCConfig", "MCConfig.cfg", consts, workers=workers, timeout=timeout, edges=False, keep_out=True, extra=extra,
                 jvm=("-XX:TieredStopAtLevel=1",), heap="3g")
    cases = []
    for line in r.out.splitlines():
        if line.startswith('"CASE '):
            cases.append(json.loads(json.loads(line)[5:]))
    return r, cases


def key_of(case):
    return json.dumps(case["cfg"], sort_keys=True)


def plan(tier, seed):
    """name -> (Space expression, Given expression, TLC workers)."""
    rnd = random.Random(seed)
    ds = dims()
    runs = {}
    allp = tla_set(PROFILES)
    if tier == "quick":
        # every variant of every dimension on every documented server protocol, the undocumented protocols,
        # the pair the known crash needs, and seeded samples of pairs and of 3- and 4-fold combinations
        runs["singles-a"] = ('Bases(AllProfiles) \\cup Odd \\cup SinglesOf({"direct", "socks5", "http", "none"}, AllDims)', "{}", 2)
        runs["singles-b"] = ('SinglesOf({"plain", "2022-128", "2022-256"}, AllDims) \\cup PairsOf({"direct"}, {"tun"}, {"tto"})', "{}", 2)
        # dimensions that only mean something together: legacy single-listener fields x numeric boundaries, listener
        # arrays x TCP listener fields, the client list x the client's fields, groups / resolvers x what refers to them
        runs["linked"] = ('PairsOf({"2022-128", "socks5"}, {"ul"}, {"nat", "rb", "sb", "cap", "bm"}) \\cup '
                          'PairsOf({"2022-256"}, {"tl"}, {"ipw", "ipb", "dipw"}) \\cup '
                          'PairsOf({"socks5"}, {"cl"}, {"cmtu", "cpsk", "cipsk", "cep"}) \\cup '
                          'PairsOf({"none"}, {"grp"}, {"def"}) \\cup PairsOf({"2022-128"}, {"dns"}, {"rt"})', "{}", 2)
        pairs = []
        for _ in range(6):
            p = rnd.choice(PROFILES)
            d1, d2 = sorted(rnd.sample(range(len(ds)), 2))
            pairs.append('PairsOf({"%s"}, {"%s"}, {"%s"})' % (p, ds[d1], ds[d2]))
        combos = []
        for _ in range(100):
            p = rnd.choice(PROFILES)
            n = rnd.choice([3, 3, 4])
            chosen = rnd.sample(ds, n)
            combos.append('Combo("%s", <<%s>>)' % (p, ", ".join('<<"%s", %d>>' % (d, rnd.randrange(1000)) for d in chosen)))
        runs["sampled"] = (" \\cup ".join(pairs) + " \\cup Given", "{" + ",\n ".join(combos) + "}", 2)
    else:
        # all pairs of server dimensions per protocol; all pairs of configuration-level dimensions and all
        # server x configuration pairs on two protocols; seeded 3- to 5-fold combinations
        for p in PROFILES:
            runs["srv-" + p] = ('Bases({"%s"}) \\cup SinglesOf({"%s"}, AllDims) \\cup PairsOf({"%s"}, ServerDims, ServerDims)' % (p, p, p), "{}", 1)
        for p in ["socks5", "2022-128"]:
            runs["cfg-" + p] = ('PairsOf({"%s"}, ConfigDims, ConfigDims)' % p, "{}", 1)
        half = len([d for d in ds if ds.index(d) <= ds.index("auth")]) // 2
        srv = ds[:ds.index("auth") + 1]
        for tag, p, part in [("x1", "2022-128", srv[:half]), ("x2", "2022-128", srv[half:])]:
            runs["cross-" + tag] = ('PairsOf({"%s"}, %s, ConfigDims)' % (p, tla_set(part)), "{}", 1)
        combos = []
        for _ in range(2000):
            p = rnd.choice(PROFILES)
            n = rnd.choice([3, 3, 4, 5])
            chosen = rnd.sample(ds, n)
            combos.append('Combo("%s", <<%s>>)' % (p, ", ".join('<<"%s", %d>>' % (d, rnd.randrange(1000)) for d in chosen)))
        runs["combos"] = ("Odd \\cup Given", "{" + ",\n ".join(combos) + "}", 1)
    return runs


def run_cases(v, binary, child, cases, seed, what, smoke=True, nproc=16):
    if not cases:
        return {}
    inputs = [{"params": {"cases": c, "child": child, "smoke": smoke}, "seed": seed + i}
              for i, c in enumerate(common.chunks(cases, nproc))]
    outs = common.run_parallel(binary, "TestCases", inputs, 3000)
    counters = {}
    distinct = 0
    for res, out, rc in outs:
        if res is not None and res.get("violations"):
            rc = 0   # the driver's exit status carries nothing beyond the result object
        res = common.absorb(v, res, out, rc, what)
        for kk, n in res.get("counters", {}).items():
            counters[kk] = counters.get(kk, 0) + n
        distinct += res.get("distinct", 0)
    counters["distinct"] = distinct
    return counters


def cex_case(trace):
    """Counterexample of the design -> one case for the driver (the configuration of the trace)."""
    sts = vlib.trace_states(trace)
    if not sts:
        raise vlib.Broken("TLC reported a violation without a trace")
    return sts[-1], [st.get("act") for st in sts[1:]]


def run(tier, seed, replay):
    v = vlib.Verdict("C18", tier, seed, "exploration")
    work = vlib.scratch("c18")
    k = common.vconst(work)
    code = code_consts(k)
    v.coverage["constants_from_code"] = code
    v.coverage["rule"] = ("TLC enumerates the configuration lattice of specs/Config (base configuration per server protocol x variants of one, "
                          "two or several dimensions); every configuration is rendered to JSON and loaded by the real service.Config.Manager in a "
                          "child process; not Valid => must be refused; accepted => effective settings = Effective(cfg), services started on "
                          "loopback, one TCP connection and one UDP round trip per listener without a crash; Valid and documented => must be accepted. "
                          "distinct = by the abstract configuration record (duplicates are removed before execution); non-trivial = differs from "
                          "every base configuration, i.e. at least one variant changed the document")

    if replay:
        binary, child = vlib.build_driver("c18", work), vlib.build_cmd("cfgchild", work)
        doc = json.load(open(replay))
        rp = doc["replay"]
        case = (rp.get("replay") or rp.get("Replay") or rp)["case"]
        counters = run_cases(v, binary, child, [case], seed, "replay", nproc=1)
        v.coverage.update(evaluations=1, distinct_nontrivial=1, counters=counters)
        v.sample({"label": case.get("label"), "expect": case.get("expect")})
        return v.finish()

    big = tier == "thorough"
    runs = plan(tier, seed)
    # the design of the compiled loader on a space that holds every variant of every dimension for three protocols
    design_space = ('Bases(AllProfiles) \\cup SinglesOf({"direct", "socks5", "2022-128"}, AllDims) \\cup PairsOf({"direct"}, {"tun"}, {"tto"})')
    if big:
        design_space += ' \\cup PairsOf({"2022-128"}, ServerDims, ServerDims) \\cup PairsOf({"socks5"}, ConfigDims, ConfigDims)'

    def design_loop():
        """TLC stops at the first violated invariant: drop it and run again until the rest holds."""
        left, found = list(CODE_INV), {}
        while True:
            r, _ = tlc_cases(code, design_space, "{}", " ".join(["TypeOK"] + left), 2, 3000 if big else 1500, False)
            if not r.violation:
                return found, r
            if r.violation not in left:
                raise vlib.Broken("design run violates %s" % r.violation)
            found[r.violation] = r
            left.remove(r.violation)

    t0 = time.time()
    with ThreadPoolExecutor(max_workers=16) as ex:
        futs = {name: ex.submit(tlc_cases, code, space, given, SAFE_INV, w, 3000 if big else 1500) for name, (space, given, w) in runs.items()}
        dfut = ex.submit(design_loop)
        fb = ex.submit(vlib.build_driver, "c18", work)
        fc = ex.submit(vlib.build_cmd, "cfgchild", work)
        binary, child = fb.result(), fc.result()
        results = {name: f.result() for name, f in futs.items()}
        design_found, design_ok = dfut.result()
    v.coverage["tlc_wall_s"] = round(time.time() - t0, 1)

    # ---- the lattice ----
    cases, seen = [], set()
    states = transitions = 0
    per_run = {}
    for name, (r, cs) in sorted(results.items()):
        if r.violation:
            raise vlib.Broken("specs/Config is inconsistent: run %s violates %s" % (name, r.violation))
        states += r.distinct
        transitions += r.generated
        n0 = len(cases)
        for c in cs:
            kk = key_of(c)
            if kk in seen:
                continue
            seen.add(kk)
            c["id"] = len(cases)
            c["label"] = [x.replace(str(-1000000), "omit").replace('"<omit>"', "omit") for x in c["label"]]
            cases.append(c)
        per_run[name] = {"distinct_states": r.distinct, "cases": len(cs), "new_cases": len(cases) - n0, "wall_s": round(r.wall, 1)}
    v.coverage["lattice_runs"] = per_run
    v.coverage["states"] = states
    v.coverage["transitions"] = transitions
    expect = {}
    for c in cases:
        expect[c["expect"]] = expect.get(c["expect"], 0) + 1
    v.coverage["expect"] = expect
    # interleave so that every chunk gets its share of the expensive (accepted) cases
    rnd = random.Random(seed)
    rnd.shuffle(cases)
    counters = run_cases(v, binary, child, cases, seed, "lattice")

    # ---- the design with the constants of the compiled code ----
    dsum = {"space": design_space, "distinct": design_ok.distinct, "generated": design_ok.generated, "depth": design_ok.depth,
            "invariants_holding": [i for i in CODE_INV if i not in design_found], "violated": sorted(design_found)}
    states += design_ok.distinct
    transitions += design_ok.generated
    for inv, r in design_found.items():
        # a counterexample of the design counts only if the real code reproduces it
        last, acts = cex_case(r.trace)
        cfgs = [c for c in cases if c["cfg"] == last["cfg"]]
        if cfgs:
            case = dict(cfgs[0])
        else:
            rr, cs = tlc_cases(code, "Given", "{[c |-> %s, l |-> <<\"counterexample\">>]}" % to_tla(last["cfg"]), "TypeOK", 1, 1500)
            if not cs:
                raise vlib.Broken("could not turn the counterexample of %s into a case" % inv)
            case = cs[0]
        case["id"] = 10**6 + CODE_INV.index(inv)
        case["label"] = list(case.get("label", [])) + ["design-counterexample", inv]
        reproduced = False
        for attempt in range(3):    # (a lost datagram must not turn a real counterexample into "not reproduced")
            tmp = vlib.Verdict("C18", tier, seed, "exploration")
            run_cases(tmp, binary, child, [case], seed, "design counterexample (%s)" % inv, nproc=1)
            v.notes += tmp.notes
            if tmp.violations or tmp.known:
                reproduced = True
                for kk, text, rp in tmp.violations:
                    v.violation(kk, text, rp)
                for kk, text in tmp.known:
                    v.violation(kk, text, None)
                break
        dsum.setdefault("counterexamples", {})[inv] = {"label": case["label"], "actions": acts, "reproduced": reproduced}
        if not reproduced:
            raise vlib.Broken("TLC violates %s with the constants of the compiled code (%s) but the real manager does not reproduce it: "
                              "model and code disagree" % (inv, json.dumps(acts)[:600]))
    v.coverage["design"] = dsum

    v.coverage["evaluations"] = counters.get("evaluations", 0)
    v.coverage["distinct_nontrivial"] = counters.get("distinct", 0)
    v.coverage["counters"] = counters
    # vacuity: the smoke script must have got replies through every protocol (when the run is red anyway the
    # violations are the better report: code that crashes or refuses everything also starves the smoke script)
    if not v.violations:
        missing = [p for p in PROFILES if not counters.get("reply_tcp_" + p)] + \
                  [p for p in PROFILES if p != "http" and not counters.get("reply_udp_" + p)]
        if missing:
            raise vlib.Broken("the smoke script never got a reply through: %s" % missing)
        if counters.get("flow_mismatch", 0) > max(5, counters.get("started", 0) // 50):
            raise vlib.Broken("%d of the smoke flows differ from the model's expectation (started: %d): the harness or the model is off"
                              % (counters["flow_mismatch"], counters.get("started", 0)))
    v.assumptions += ["GeoIP criteria and TLS certificate paths are excluded (no material offline)",
                      "tproxy / redirect servers are loaded but not started (no netfilter rules in the sandbox)",
                      "the smoke script's requests go to an IP address on loopback; name resolution by the router is never exercised",
                      "effective settings are read off the manager by read-only reflection on unexported fields"]
    return v.finish()


def to_tla(x):
    """JSON value of a TLA+ record/sequence dumped by TLC -> TLA+ expression."""
    if isinstance(x, bool):
        return "TRUE" if x else "FALSE"
    if isinstance(x, int):
        return "(%d)" % x if x < 0 else str(x)
    if isinstance(x, str):
        return json.dumps(x)
    if isinstance(x, list):
        return "<<" + ", ".join(to_tla(y) for y in x) + ">>"
    if isinstance(x, dict):
        return "[" + ", ".join("%s |-> %s" % (kk, to_tla(vv)) for kk, vv in x.items()) + "]"
    raise vlib.Broken("cannot render %r" % (x,))


def coverage_selftest():
    """Vacuity guard (not part of the registered commands): every action of the exhaustive configuration fires.
    python3 -c 'import sys; sys.path.insert(0, "lib"); from props import c18; c18.coverage_selftest()'"""
    work = vlib.scratch("c18cov")
    code = code_consts(common.vconst(work))
    space = 'Bases(AllProfiles) \\cup SinglesOf({"direct", "socks5", "2022-128"}, AllDims) \\cup PairsOf({"direct"}, {"tun"}, {"tto"})'
    r, _ = tlc_cases(code, space, "{}", SAFE_INV, 2, 1200, False, extra=("-coverage", "1"))
    counts = re.findall(r"<MCNext line \d+, col \d+ to line \d+, col \d+ of module MCConfig \((\d+) \d+ \d+ \d+\)>: (\d+):(\d+)", r.out)
    names = ["Parse", "LoadClients", "LoadGroups", "LoadDNS", "LoadRouter", "LoadServers", "Start", "Traffic", "Stop"]
    out = {names[i] if i < len(names) else line: int(n) for i, (line, n, _) in enumerate(sorted(counts, key=lambda x: int(x[0])))}
    print(json.dumps(out))
    dead = [a for a, n in out.items() if n == 0]
    if dead or len(out) != len(names):
        raise vlib.Broken("dead actions: %s (%s)" % (dead, out))
    return out
