"""C05 - UDP packets survive pack/unpack unchanged and never exceed the path MTU.
Spec: specs/Packet/UdpLayout.tla (+ MCUdpLayout).  TLC checks the layout arithmetic of every codec and the
relay services' buffer formulas (InBuffer, WithinMtu, TooBigIsRefused, RelaySafe, RoundTrip, ...) over the case
lattice with the constants read from the compiled code and prints, per case, the expected journey of one datagram
through one relay hop; the driver (harness/drivers/c05) replays every case on the real packers and unpackers in
canary-filled buffers sized by the services' own computation.
specs/Packet/UdpSession.tla (+ MCUdpSession) is the downlink of a session relay over the life of one client
session that changes its address (and, on a dual-stack listener, its address family): TLC checks that every reply
is judged by the limit of the family the session is at now and prints the replies around the limits of both
families for every history of addresses; the live driver plays them on real Shadowsocks 2022 session relays."""
import json, os, time, random, collections, itertools, concurrent.futures
import vlib
from props import common

SPEC = os.path.join(vlib.VERIF, "specs", "Packet")
INVARIANTS = "TypeOK InBuffer WithinMtu TooBigIsRefused RelaySafe RoundTrip PaddingBounded PacketShape"
SERVER_PROTOS = ["ss0", "ss1", "none", "socks5", "direct"]
CLIENT_PROTOS = ["ss0", "ss1", "ss2", "ss3", "none", "socks5", "direct"]
MTUS = [1280, 1492, 1500, 9000, 65535]
FIXED_LENS = "[trunc |-> {1240, 1300, 1460, 1500}, jumbo |-> {0, 1, 1000, 65000, 131000}]"


def S(xs):
    return "{" + ", ".join(json.dumps(x) if isinstance(x, str) else str(x) for x in xs) + "}"


def T(*xs):
    return "<<" + ", ".join(json.dumps(x) if isinstance(x, str) else str(x) for x in xs) + ">>"


def SS(xs):
    """a set of already rendered TLA+ expressions"""
    return "{" + ", ".join(xs) + "}"


def addr(k, n, port):
    return 'A("%s", %d, %d)' % (k, n, port)


def hr_table(tab, protos):
    return "[" + ", ".join("%s |-> [front |-> %d, rear |-> %d]" % (p, tab[p][0], tab[p][1]) for p in protos) + "]"


def code_constants(k):
    """TLC constants from the constants of the compiled code."""
    p = k["Packet"]
    need = ["SepLen", "IdLen", "CFix", "SFix", "Tag", "V4AddrLen", "V6AddrLen", "MaxAddrLen", "IPv4Hdr", "IPv6Hdr", "UdpHdr",
            "JumboOpt", "JumboMtu", "Socks5Rsv", "HrClientPacker", "HrServerUnpacker", "HrServerPacker", "HrClientUnpacker"]
    for n in need:
        if n not in p:
            raise vlib.Broken("vconst does not print Packet.%s" % n)
    if p["Socks5Rsv"] < 0:
        raise vlib.Broken("could not measure the SOCKS5 UDP request header")
    if p["JumboMtu"] < 0:
        raise vlib.Broken("could not measure the jumbo MTU threshold of zerocopy.MaxPacketSizeForAddr")
    padbytes = p["CFix"] - 1 - 8          # type, timestamp, then the padding length field
    if padbytes < 1 or padbytes > 3:
        raise vlib.Broken("unexpected client message header layout: fixed length %d" % p["CFix"])
    for tab, protos in (("HrClientPacker", CLIENT_PROTOS), ("HrClientUnpacker", CLIENT_PROTOS), ("HrServerPacker", CLIENT_PROTOS),
                        ("HrServerUnpacker", SERVER_PROTOS)):
        for q in protos:
            if q not in p[tab]:
                raise vlib.Broken("vconst does not print Packet.%s[%s]" % (tab, q))
    c = dict(SepLen=p["SepLen"], IdLen=p["IdLen"], CFix=p["CFix"], SFix=p["SFix"], Tag=p["Tag"], PadCap=256 ** padbytes - 1,
             Rsv=p["Socks5Rsv"],
             V4Len=p["V4AddrLen"], V6Len=p["V6AddrLen"], DomFix=p["MaxAddrLen"] - 255,
             IPv4Hdr=p["IPv4Hdr"], IPv6Hdr=p["IPv6Hdr"], UdpHdr=p["UdpHdr"], JumboOpt=p["JumboOpt"], JumboMtu=p["JumboMtu"],
             HrCP=hr_table(p["HrClientPacker"], CLIENT_PROTOS), HrSU=hr_table(p["HrServerUnpacker"], SERVER_PROTOS),
             HrSP=hr_table(p["HrServerPacker"], CLIENT_PROTOS), HrCU=hr_table(p["HrClientUnpacker"], CLIENT_PROTOS))
    return c


def slice_(lm, dirs, sps, cps, mtus, fams, addrs, pols, psms, allcs):
    return "Slice(g, %s, %s, %s, %s, %s, %s, %s, %s, %s, %s)" % (
        json.dumps(lm), S(dirs), sps if isinstance(sps, str) else S(sps), cps if isinstance(cps, str) else S(cps),
        SS(T(*m) for m in mtus), SS(T(*f) for f in fams), SS(addrs), SS(T(*p) for p in pols), S(psms),
        "{" + ", ".join("TRUE" if a else "FALSE" for a in allcs) + "}")


def plan(tier, seed):
    """The case lattice of a tier as a TLA+ expression over the triple g (a union of products).  quick samples the
    MTU and family combinations by seed and keeps every protocol pair, direction and address shape; thorough
    takes the combinations in full."""
    rnd = random.Random(seed * 7919 + (1 if tier == "thorough" else 0))
    big = tier == "thorough"
    ALL_ADDRS = [("v4", 0), ("m4", 0), ("v6", 0), ("dom", 1), ("dom", 2), ("dom", 254), ("dom", 255)]
    PORTS = [0, 1, 53, 65535]
    FAMS = [("v4", "v4"), ("v6", "v6"), ("v4", "v6"), ("v6", "v4")]
    SAME = FAMS[:2]
    EQ = [(m, m, 0) for m in MTUS]
    MIX = [(1280, 1500, 0), (1500, 1280, 0), (1492, 1500, 0), (1500, 1492, 0), (1500, 9000, 0), (9000, 1500, 0), (1500, 65535, 0),
           (65535, 1500, 0), (1280, 65535, 0), (65535, 1280, 0)]
    ALLP, SSP = "AllSP", ["ss0", "ss1"]
    ALLC, SSC = "AllCP", ["ss0", "ss1", "ss2", "ss3"]
    UD = ["up", "down"]
    addrs53 = [addr(k, n, 53) for k, n in ALL_ADDRS]
    some53 = [addr("v4", 0, 53), addr("v6", 0, 53), addr("dom", 255, 53), addr("dom", 1, 53)]
    pols9 = [(a, b) for a in ("none", "dns", "all") for b in ("none", "dns", "all")]
    parts = []
    add = lambda *a: parts.append(slice_(*a))
    if big:
        # (1) pairs: every protocol pair x direction x address shape at every MTU combination, payloads at both size
        #     limits, sender at the advertised headroom, unpadded and padded
        add("edge", UD, ALLP, ALLC, EQ, SAME, addrs53, [("none", "none"), ("all", "all")], ["adv"], [False])
        add("edge", UD, ALLP, ALLC, EQ, FAMS[2:], addrs53, [("all", "all")], ["adv"], [False])
        for m in MIX:
            add("edge", UD, ALLP, ALLC, [m], [rnd.choice(FAMS)], addrs53, [("none", "none"), ("all", "all")], ["adv"], [False])
        # ... with every client configured (the largest front headroom the service computes)
        add("edge", ["up"], ALLP, ALLC, EQ, SAME, addrs53, [("all", "all")], ["adv"], [True])
        # (2) ports and policies
        addrs_pp = [addr(k, n, port) for (k, n) in [("v4", 0), ("v6", 0), ("dom", 2), ("m4", 0)] for port in PORTS]
        add("edge", UD, ALLP, ALLC, [(1500, 1500, 0)], [("v4", "v4")], addrs_pp, [("dns", "dns")] + rnd.sample([q for q in pols9 if q != ("dns", "dns")], 4),
            ["adv"], [False])
        add("edge", UD, ALLP, ALLC, [(9000, 1280, 0)], [("v6", "v6")], addrs_pp, [("all", "dns")], ["adv"], [True])
        # (3) sender layouts: payloadStart from minimal to generous
        add("edge", UD, ALLP, ALLC, [(1500, 1500, 0), rnd.choice([(1280, 1280, 0), (65535, 65535, 0), (9000, 9000, 0)])], SAME, some53,
            [("all", "none"), ("none", "none")], ["min", "min1", "gen"], [False])
        # (4) a sender with a larger MTU than the relay's receive window: dropped, not truncated
        add("trunc", UD, ALLP, ALLC, [(1280, 1280, 1500), (1500, 1500, 9000)], [("v4", "v4")], [addr("v4", 0, 53)], [("none", "none")], ["adv"], [False])
        # (5) jumbograms: the padding length cap, MTU above the jumbo threshold
        add("jumbo", UD, ALLP, ALLC, [(131072, 131072, 0)], SAME, [addr("v6", 0, 53), addr("dom", 255, 53)], [("all", "all")], ["gen", "adv"], [False, True])
    else:
        mt = [rnd.choice([(1500, 1500, 0)] * 4 + EQ + MIX)]
        add("edge", UD, ALLP, ALLC, mt, [rnd.choice(FAMS)], addrs53, [("none", "none"), ("all", "all")], ["adv"], [False])
        add("edge", ["up"], ALLP, ALLC, [rnd.choice(EQ + MIX)], [rnd.choice(FAMS)], addrs53, [("all", "all")], ["adv"], [True])
        # policies where a packer pads; ports through every codec
        addrs_pp = [addr(k, n, port) for (k, n) in [("v4", 0), ("dom", 2)] for port in PORTS]
        add("edge", UD, SSP, SSC, [(1500, 1500, 0)], [rnd.choice(SAME)], addrs_pp, [("dns", "dns")] + rnd.sample([q for q in pols9 if q != ("dns", "dns")], 2),
            ["adv"], [True])
        add("edge", UD, ALLP, ALLC, [rnd.choice(EQ)], [rnd.choice(SAME)], [addr("v4", 0, 0), addr("v4", 0, 1), addr("v6", 0, 65535), addr("dom", 2, 0)],
            [("none", "none")], ["adv"], [False])
        # sender layouts: the sender side is a codec property, one or two relay pairings each
        mt3 = [rnd.choice([(1500, 1500, 0), (65535, 65535, 0), (1280, 1280, 0), (9000, 9000, 0), (1492, 1492, 0)])]
        add("edge", ["up"], ALLP, ["ss0", "socks5"], mt3, [rnd.choice(SAME)], some53, [("all", "none"), ("none", "none")], ["min", "min1", "gen"], [False])
        add("edge", ["down"], ["ss0", "socks5"], ALLC, mt3, [rnd.choice(SAME)], some53, [("all", "none"), ("none", "none")], ["min", "min1", "gen"], [False])
        add("trunc", UD, ALLP, ALLC, [rnd.choice([(1280, 1280, 1500), (1500, 1500, 9000)])], [("v4", "v4")], [addr("v4", 0, 53)], [("none", "none")], ["adv"], [False])
    # (6) the rear headroom is needed only where the re-packing side has the larger MTU and adds a tag the
    #     unpacking side did not remove: always part of the lattice
    REAR0 = ["none", "socks5", "direct"]
    rear_addrs = [addr("v4", 0, 53), addr("v6", 0, 53), addr("dom", 255, 53)]
    # (uplink: the receive window is sized for IPv4, only a datagram that fills it pushes the tag into the rear)
    add("edge", ["up"], REAR0, SSC, [(1280, 1500, 0), (1500, 9000, 0)], [rnd.choice([("v4", "v4"), ("v4", "v6")])] if not big else FAMS, rear_addrs,
        [("none", "none"), ("all", "all")], ["adv"], [False])
    add("edge", ["down"], SSP, REAR0, [(1500, 1280, 0), (9000, 1500, 0)], [rnd.choice(FAMS)] if not big else FAMS, rear_addrs,
        [("none", "none"), ("all", "all")], ["adv"], [False])
    return "\n    \\cup ".join(parts)


def tla_value(x):
    if isinstance(x, bool):
        return "TRUE" if x else "FALSE"
    if isinstance(x, (int, str)):
        return json.dumps(x)
    if isinstance(x, dict):
        return "[" + ", ".join("%s |-> %s" % (k2, tla_value(v2)) for k2, v2 in x.items()) + "]"
    raise vlib.Broken("cannot render %r as a TLA+ value" % (x,))


def one_case(tier, consts, c):
    """The model's full journey (CASE document) of one case, with the properties switched off: used to give the
    driver the expected values of the stages behind a violated invariant."""
    base = dict(c, L=0, lm="one")
    cs = dict(consts)
    cs.update(Bases="IF g.dir = %s /\\ g.sp = %s /\\ g.cp = %s THEN {%s} ELSE {}" % (json.dumps(c["dir"]), json.dumps(c["sp"]), json.dumps(c["cp"]), tla_value(base)),
              Deltas="{}", Small="{}", Gen=70000 if tier == "thorough" else 2000, FixedLens="[one |-> {%d}]" % c["L"],
              EMIT="ACTION_CONSTRAINT Emit", INVARIANTS="TypeOK", PROPERTIES="StagesAdvance")
    r = vlib.tlc(SPEC, "MCUdpLayout", "MCUdpLayout.cfg", cs, workers=1, timeout=300, edges=False, keep_out=True, heap="2g")
    cases = parse_cases(r.out)
    if len(cases) != 1:
        raise vlib.Broken("the model did not produce the journey of the counterexample case: %s\n%s" % (json.dumps(c), r.out[-1500:]))
    return cases[0]


def tlc_cases(tier, seed, consts, emit=True, extra=(), workers=16, timeout=None):
    big = tier == "thorough"
    cs = dict(consts)
    cs.update(Bases=plan(tier, seed), Deltas="{-2, -1, 0, 1, 2}", Small="{0, 1, 2, 3}", Gen=70000 if big else 2000, FixedLens=FIXED_LENS,
              EMIT="ACTION_CONSTRAINT Emit" if emit else "", INVARIANTS=INVARIANTS, PROPERTIES="PaddingShifts StagesAdvance")
    r = vlib.tlc(SPEC, "MCUdpLayout", "MCUdpLayout.cfg", cs, workers=workers, timeout=timeout or (2400 if big else 1200), edges=False, keep_out=True,
                 heap="12g" if big else "6g", extra=extra)
    return r


def parse_cases(out):
    cases = []
    for l in out.splitlines():
        if l.startswith('"CASE '):
            cases.append(json.loads(json.loads(l)[5:]))
    return cases


def case_class(c):
    """the abstract class of a case, for the evidence histogram"""
    return "%s %s->%s" % (c["c"]["dir"], c["c"]["sp"], c["c"]["cp"])


def case_shape(x):
    """the abstract shape of a case: everything but the concrete payload length"""
    c = x["c"]
    return (c["dir"], c["sp"], c["cp"], c["a"]["k"], c["a"]["n"], c["a"]["port"], x["st"], x["o"]["e"], x["r"]["e"], x["o"]["sp"], x["r"]["sp"], c["psm"],
            c["lfam"], c["ufam"], c["smtu"], c["cmtu"], c["omtu"], c["allc"], c["opol"], c["rpol"])


def replay_cases(v, binary, cases, seed, prm, what, timeout):
    n = min(16, max(1, len(cases) // 200))
    try:
        n = min(n, max(1, int(os.environ.get("VERIF_MAX_WORKERS", "16"))))
    except ValueError:
        pass
    # interleave so that every process gets every kind of case
    chunks = [cases[i::n] for i in range(n)]
    outs = common.run_parallel(binary, "TestCases", [{"params": {"cases": ch, "params": prm}, "seed": seed + i} for i, ch in enumerate(chunks)], timeout)
    tot = collections.Counter()
    nviol = 0
    for res, out, rc in outs:
        if res is None and ("panic:" in out or "fatal error:" in out):
            # the case loop recovers panics of the codecs; a process that dies anyway died in the harness or the runtime
            raise vlib.Broken("%s: driver process died:\n%s" % (what, out[-3000:]))
        res = common.absorb(v, res, out, rc, what)
        nviol += len(res["violations"])
        tot["behaviours"] += res["behaviours"]
        tot["steps"] += res["steps"]
        tot["distinct"] += res.get("distinct", 0)
        for k2, n2 in res.get("counters", {}).items():
            tot[k2] += n2
    return tot, nviol


# ---------------------------------------------------------------- sessions that change their address (UdpSession.tla)

SESS_INVARIANTS = ["TypeOK", "CachedLimit"]
SESS_PROPERTIES = ["LimitIsCurrent", "WithinMtu", "TooBigIsRefused", "HistoryFree"]
CLIENT_KINDS = {"dual": ["m4", "v6"], "v4": ["v4"], "v6": ["v6"]}
SESS_MOVES = 2


def fam_of(kind):
    return "v6" if kind == "v6" else "v4"


def sess_paths(ln):
    """every history of SESS_MOVES + 1 addresses on a listener (neighbours differ)"""
    addrs = [(k, s) for k in CLIENT_KINDS[ln] for s in (1, 2)]
    return [p for p in itertools.product(addrs, repeat=SESS_MOVES + 1) if all(p[i] != p[i + 1] for i in range(SESS_MOVES))]


def sess_plan(tier, seed):
    """(configurations of the session model, live runs).  A run = one relay configuration, batch mode and upstream
    side with the sessions (address histories) played on it.  quick: every ordered pair of addresses of a dual-stack
    listener as the first move, a seeded second move, in both batch modes at MTU 1500, half of them each at a
    seeded second MTU, and one listener bound to a single family; thorough: every history on every listener at
    every MTU in both batch modes."""
    rnd = random.Random(seed * 15485863 + (11 if tier == "thorough" else 5))
    runs = []

    def add(cfg, batch, paths, per_group):
        paths = list(paths)
        for i in range(0, len(paths), per_group):
            cp = rnd.choice(["direct", "none"])
            ufam = rnd.choice(["v4", "v6"])
            runs.append(dict(cfg=cfg, batch=batch, paths=paths[i:i + per_group], cp=cp, ufam=ufam,
                             srck=ufam if cp == "direct" else rnd.choice(["v4", "v6"]), rpol=rnd.choice(["none", "none", "all"])))

    if tier == "thorough":
        cfgs = [dict(mtu=m, ln=ln, sp=sp) for m in MTUS for ln in ("dual", "v4", "v6") for sp in ("ss0", "ss1")]
        for cfg in cfgs:
            for batch in ("", "no"):
                ps = sess_paths(cfg["ln"])
                rnd.shuffle(ps)
                add(cfg, batch, ps, 6)
        return cfgs, runs
    sps = ["ss0", "ss1"]
    rnd.shuffle(sps)
    cfg_a = dict(mtu=1500, ln="dual", sp=sps[0])
    cfg_b = dict(mtu=rnd.choice([m for m in MTUS if m != 1500]), ln="dual", sp=sps[1])
    cfg_c = dict(mtu=rnd.choice(MTUS), ln=rnd.choice(["v4", "v6"]), sp=rnd.choice(sps))

    def first_moves(ln):
        """one history per ordered pair of addresses: the pair, then a seeded third address"""
        by = collections.defaultdict(list)
        for p in sess_paths(ln):
            by[p[:2]].append(p)
        out = [rnd.choice(by[k2]) for k2 in sorted(by)]
        rnd.shuffle(out)
        return out

    for batch in ("", "no"):
        add(cfg_a, batch, first_moves("dual"), 4)
    halves = first_moves("dual")
    add(cfg_b, "", halves[:6], 3)
    add(cfg_b, "no", halves[6:], 3)
    add(cfg_c, rnd.choice(["", "no"]), first_moves(cfg_c["ln"]), 4)
    return [cfg_a, cfg_b, cfg_c], runs


def tlc_sessions(tier, consts, cfgs, refresh="always", emit=True):
    big = tier == "thorough"
    cs = dict(consts)
    cs.update(SessCfgs=SS(tla_value(c) for c in cfgs), SessSocks="{1, 2}", SessSources=SS([addr("v4", 0, 53), addr("v6", 0, 53)]),
              SessDeltas="{-2, -1, 0, 1, 2}" if big else "{-1, 0, 1}", SessSmall="{0, 1, 2, 3}" if big else "{0, 1}", SessMaxMoves=SESS_MOVES,
              SessRefresh=refresh, EMIT="ACTION_CONSTRAINT Emit" if emit else "")
    return vlib.tlc(SPEC, "MCUdpSession", "MCUdpSession.cfg", cs, workers=4 if big else 2, timeout=900 if big else 400, edges=False, keep_out=True, heap="2g")


def cfg_key(cfg):
    return (cfg["mtu"], cfg["ln"], cfg["sp"])


def path_key(path):
    return tuple((a["k"], a["s"]) for a in path)


def session_groups(cases, runs, seed):
    """Live groups (harness/drivers/c05 liveGroup with sessions) for the runs of the plan, from the replies the model
    printed, and what the lattice holds (vacuity guard: replies that a limit left over from an earlier address of
    the other family would decide differently, both ways)."""
    rnd = random.Random(seed * 32452843 + 3)
    table = collections.defaultdict(dict)       # (cfg, path, source kind) -> (L, fresh) -> reply
    limit = {}                                  # (cfg, family) -> the model's limit
    for x in cases:
        r, ck, pk = x["r"], cfg_key(x["cfg"]), path_key(x["path"])
        slot = table[(ck, pk, r["src"]["k"])]
        old = slot.get((r["L"], r["fresh"]))
        if old is not None and old["out"] != r["out"]:
            raise vlib.Broken("the session model judges the same reply in the same history differently: %s / %s" % (json.dumps(old), json.dumps(r)))
        slot[(r["L"], r["fresh"])] = r
        limit[(ck, fam_of(pk[-1][0]))] = r["out"]["max"]
    groups, kinds = [], collections.Counter()
    for run in runs:
        cfg, ck = run["cfg"], cfg_key(run["cfg"])
        g = dict(sp=cfg["sp"], cp=run["cp"], smtu=cfg["mtu"], cmtu=cfg["mtu"], lfam="v4" if cfg["ln"] == "dual" else cfg["ln"], ufam=run["ufam"], allc=False,
                 opol="none", rpol=run["rpol"], batch=run["batch"], listen="dual" if cfg["ln"] == "dual" else "", cases=[], sessions=[])
        for path in run["paths"]:
            stages = []
            for i in range(len(path)):
                here = path[:i + 1]
                slot = table.get((ck, here, run["srck"]))
                if not slot:
                    raise vlib.Broken("the session model printed no replies for %s at %s from a %s source" % (ck, here, run["srck"]))
                lens = sorted({L for (L, _) in slot})
                rnd.shuffle(lens)
                lo, hi = sorted((limit[(ck, "v6")], limit[(ck, "v4")])) if (ck, "v6") in limit and (ck, "v4") in limit else (0, 0)
                # the first reply after a move is the one that makes the relay look at the address again: let it be
                # one that the two families decide differently (where there are two families)
                between = [L for L in lens if lo < slot[(L, False) if (L, False) in slot else (L, True)]["out"]["need"] <= hi]
                if i > 0 and between:
                    first = rnd.choice(between)
                    lens.remove(first)
                    lens.insert(0, first)
                mpath = [dict(k=k2, s=s2) for (k2, s2) in here]
                replies = []
                for j, L in enumerate(lens):
                    r = slot.get((L, i > 0 and j == 0))
                    if r is None:
                        raise vlib.Broken("the session model has no %s reply of %d bytes at %s" % ("first" if j == 0 else "later", L, here))
                    out = r["out"]
                    replies.append({"c": dict(dir="down", sp=g["sp"], cp=g["cp"], smtu=g["smtu"], cmtu=g["cmtu"], omtu=g["cmtu"], lfam=fam_of(here[-1][0]), ufam=g["ufam"],
                                              a=r["src"], L=L, opol=g["opol"], rpol=g["rpol"], psm="adv", allc=False, lm="session"),
                                    "st": "refused" if out["e"] else "done", "o": {"e": False}, "r": {"e": out["e"], "need": out["need"], "max": out["max"]},
                                    "mig": {"path": mpath, "fresh": r["fresh"]}})
                    kinds["replies"] += 1
                    kinds["refused" if out["e"] else "sent"] += 1
                    tag = "mmsg" if run["batch"] == "" else "generic"
                    for (k0, _) in here[:-1]:
                        old = limit.get((ck, fam_of(k0)))
                        if old is None or fam_of(k0) == fam_of(here[-1][0]):
                            continue
                        if out["e"] and out["need"] <= old:
                            kinds["refused_though_an_earlier_family_allows:" + tag] += 1
                        if not out["e"] and out["need"] > old:
                            kinds["sent_though_an_earlier_family_refuses:" + tag] += 1
                stages.append(replies)
            g["sessions"].append({"path": [dict(k=k2, s=s2) for (k2, s2) in path], "stages": stages})
            kinds["sessions"] += 1
            for i in range(1, len(path)):
                kinds["move %s>%s" % (path[i - 1][0], path[i][0])] += 1
        groups.append(g)
    for need in ["refused_though_an_earlier_family_allows:mmsg", "refused_though_an_earlier_family_allows:generic", "sent_though_an_earlier_family_refuses:mmsg",
                 "sent_though_an_earlier_family_refuses:generic", "move m4>v6", "move v6>m4", "move m4>m4", "move v6>v6", "sent", "refused"]:
        if not kinds[need]:
            raise vlib.Broken("the sessions of this run hold no %s" % need)
    return groups, kinds


def live_groups(cases, tier, seed):
    """Cases that can run through a real relay on loopback sockets, grouped by relay configuration; a seeded
    sample of the groups of every protocol pair."""
    rnd = random.Random(seed * 104729 + 17)
    groups = collections.OrderedDict()
    for x in cases:
        c = x["c"]
        if max(c["smtu"], c["cmtu"], c["omtu"]) > 65535 or c["psm"] != "adv" or x["o"]["e"]:
            continue
        if c["cp"] == "direct" and c["a"]["k"] != c["ufam"]:
            continue        # a loopback relay's direct client reaches the harness socket only
        ta = json.dumps(c["a"], sort_keys=True) if (c["sp"] == "direct" and c["cp"] != "direct" and c["dir"] == "up") else ""
        key = (c["sp"], c["cp"], c["smtu"], c["cmtu"], c["lfam"], c["ufam"], c["allc"], c["opol"], c["rpol"], ta)
        groups.setdefault(key, []).append(x)
    by_pair = collections.defaultdict(list)
    for key in groups:
        by_pair[(key[0], key[1])].append(key)
    per_pair, per_group = (6, 60) if tier == "thorough" else (1, 24)
    out = []
    for pair in sorted(by_pair):
        keys = by_pair[pair]
        rnd.shuffle(keys)
        # prefer groups that hold both directions
        keys.sort(key=lambda k2: -len({x["c"]["dir"] for x in groups[k2]}))
        for key in keys[:per_pair]:
            cs = groups[key]
            rnd.shuffle(cs)
            # delivered and refused ones, both directions
            cs.sort(key=lambda x: (x["st"] == "done", x["c"]["dir"]))
            half = per_group // 2
            pick = cs[:half] + cs[max(half, len(cs) - half):]
            out.append(dict(sp=key[0], cp=key[1], smtu=key[2], cmtu=key[3], lfam=key[4], ufam=key[5], allc=key[6], opol=key[7], rpol=key[8],
                            batch="no" if len(out) % 2 else "", cases=pick))
    return out


def run_live(v, binary, groups, seed, timeout):
    n = min(8, max(1, len(groups) // 4))
    chunks = [groups[i::n] for i in range(n)]
    outs = common.run_parallel(binary, "TestLive", [{"params": {"groups": ch}, "seed": seed + i} for i, ch in enumerate(chunks)], timeout)
    tot = collections.Counter()
    for res, out, rc in outs:
        if res is None and ("panic:" in out or "fatal error:" in out) and "shadowsocks-go/" in out:
            # a relay goroutine died: the program would have died
            dump = out[out.find("panic:") if "panic:" in out else out.find("fatal error:"):]
            frames = [l.strip() for l in dump.splitlines() if "shadowsocks-go/" in l and "(" in l]
            v.violation("udp.live/relay-crashes", "a live relay crashed while forwarding model cases: %s  at %s" % (dump.splitlines()[0][:200], "; ".join(f[:120] for f in frames[:3])),
                        {"live": True, "groups": [dict(g, cases=len(g["cases"])) for ch in chunks for g in ch][:40]})
            tot["crashed"] += 1
            continue
        res = common.absorb(v, res, out, rc, "live relays")
        tot["cases"] += res["behaviours"]
        for k2, n2 in res.get("counters", {}).items():
            tot[k2] += n2
    return tot


def run(tier, seed, replay):
    v = vlib.Verdict("C05", tier, seed, "exploration")
    work = vlib.scratch("c05")
    big = tier == "thorough"
    binary = vlib.build_driver("c05", work)
    k = common.vconst(work)
    consts = code_constants(k)
    prm = {"padCap": consts["PadCap"], "gen": 70000 if big else 2000}
    v.coverage["constants_from_code"] = {x: consts[x] for x in consts}
    if replay:
        doc = json.load(open(replay))
        rp = doc["replay"].get("replay") or doc["replay"].get("Replay") or doc["replay"]
        if rp.get("live") is True:
            raise vlib.Broken("a crashed live relay has no single-case replay: rerun the tier with the same seed")
        if "live" in rp:
            grp = dict(rp["live"], cases=[rp["case"]])
            mig = rp["case"].get("mig")
            if mig:     # a reply of a session that changed its address: the session is played up to that address
                grp = dict(rp["live"], cases=[], sessions=[{"path": mig["path"], "stages": [[] for _ in mig["path"][:-1]] + [[rp["case"]]]}])
            tot = run_live(v, binary, [grp], seed, 120)
            v.coverage.update(evaluations=tot["cases"], distinct_nontrivial=2, rule="replay of one recorded case through a live relay")
            v.sample(rp["case"]["c"])
            return v.finish()
        case = rp
        tot, _ = replay_cases(v, binary, [case], seed, prm, "replay", 120)
        v.coverage.update(evaluations=tot["behaviours"], distinct_nontrivial=max(2, tot["distinct"]), rule="replay of one recorded case")
        v.sample(case)
        return v.finish()

    t0 = time.time()
    # the session model is small: TLC checks it while the layout lattice is being enumerated
    sess_cfgs, sess_runs = sess_plan(tier, seed)
    pool = concurrent.futures.ThreadPoolExecutor(max_workers=2)
    sess_fut = pool.submit(tlc_sessions, tier, consts, sess_cfgs)
    # (thorough) the design mutant "refresh the limit only when Is4 flips" must be refuted by the same configurations
    mut_fut = pool.submit(tlc_sessions, tier, consts, sess_cfgs, "is4", False) if big else None
    r = tlc_cases(tier, seed, consts)
    vlib.log("[tlc] %d distinct, %d generated, %.1fs, violation=%s" % (r.distinct, r.generated, time.time() - t0, r.violation))
    v.coverage["tlc"] = {"distinct": r.distinct, "generated": r.generated, "depth": r.depth, "wall_s": round(r.wall, 1), "violated": r.violation,
                         "invariants": INVARIANTS.split(), "properties": ["PaddingShifts", "StagesAdvance"]}
    if r.violation:
        # the layout arithmetic fails in the model with the code's constants: it counts only if the real codecs
        # reproduce it on the case of the counterexample
        sts = vlib.trace_states(r.trace)
        if not sts:
            raise vlib.Broken("TLC violates %s but left no trace:\n%s" % (r.violation, r.out[-2000:]))
        last = sts[-1]
        # the model's journey of that case to its end (the invariant may fail before the last stage).  The code pads
        # by a random amount where the model chose the smallest: the case is replayed repeatedly, and so are its
        # variants without padding (there the code's layout is determined)
        variants = [dict(last["c"])]
        for pols in (("none", last["c"]["rpol"]), ("none", "none")):
            c2 = dict(last["c"], opol=pols[0], rpol=pols[1])
            if c2 not in variants:
                variants.append(c2)
        todo = []
        for c2 in variants:
            case = one_case(tier, consts, c2)
            case["gen"] = prm["gen"]
            todo += [case] * (25 if case["o"]["sp"] or case["r"]["sp"] else 1)
        tot, nv = replay_cases(v, binary, todo, seed, prm, "design counterexample (%s)" % r.violation, 300)
        if nv == 0:
            raise vlib.Broken("TLC violates %s with the code's constants but the real codecs do not reproduce it on that case: %s"
                              % (r.violation, json.dumps(last["c"])))
        v.coverage.update(evaluations=tot["behaviours"], distinct_nontrivial=max(2, tot["distinct"]), rule="counterexample of the design replayed")
        return v.finish()
    cases = parse_cases(r.out)
    for x in cases:
        x["gen"] = prm["gen"]       # the replay files carry the tier's "generous" distance
    r.out = ""
    if len(cases) < 100:
        raise vlib.Broken("TLC printed only %d cases" % len(cases))
    vlib.log("[tlc] %d cases" % len(cases))
    # vacuity guard: every kind of journey is present (a lattice that never reaches a stage proves nothing about it)
    kinds = collections.Counter()
    for x in cases:
        kinds["st:" + x["st"]] += 1
        kinds["origin-refuses" if x["o"]["e"] else "origin-packs"] += 1
        if x["st"] == "refused" and not x["o"]["e"]:
            kinds["relay-refuses"] += 1
        if x["o"]["p"] > 0:
            kinds["origin-pads"] += 1
        if x["r"]["p"] > 0:
            kinds["relay-pads"] += 1
        if x["rb"]["rear"] > 0:
            kinds["rear-headroom"] += 1
        if x["rb"]["front"] > 0:
            kinds["front-headroom"] += 1
    for need in ("st:done", "st:refused", "st:dropped", "origin-refuses", "relay-refuses", "origin-pads", "relay-pads", "rear-headroom", "front-headroom"):
        if not kinds[need]:
            raise vlib.Broken("the case lattice holds no case of kind %s" % need)
    hist = collections.Counter(case_class(c) for c in cases)
    if len(hist) != 2 * len(SERVER_PROTOS) * len(CLIENT_PROTOS):
        raise vlib.Broken("the case lattice covers %d of %d (direction, server protocol, client protocol) triples" % (len(hist), 2 * len(SERVER_PROTOS) * len(CLIENT_PROTOS)))
    shapes = {case_shape(c) for c in cases}
    stages = collections.Counter(c["st"] for c in cases)
    t1 = time.time()
    tot, _ = replay_cases(v, binary, cases, seed, prm, "case replay", 1500 if big else 600)
    vlib.log("[replay] %d cases, %d real calls, %.1fs" % (tot["behaviours"], tot["steps"], time.time() - t1))
    if tot["behaviours"] != len(cases):
        raise vlib.Broken("the driver ran %d of %d cases" % (tot["behaviours"], len(cases)))
    # sessions that change their address: the model's verdict, then its replies for the live relays
    rs = sess_fut.result()
    vlib.log("[tlc] sessions: %d distinct, %d generated, %.1fs, violation=%s" % (rs.distinct, rs.generated, rs.wall, rs.violation))
    if rs.violation:
        # the model is the code's design (refresh on every change of address) with the code's constants: a violated
        # property here is a statement about the model, to be reproduced on the code before it counts
        raise vlib.Broken("the session model violates %s with the code's constants:\n%s" % (rs.violation, rs.out[-2500:]))
    sess_cases = parse_cases(rs.out)
    rs.out = ""
    sess_mutant = None
    if mut_fut is not None:
        rm = mut_fut.result()
        sess_mutant = rm.violation
        if not rm.violation:
            raise vlib.Broken("the session model does not refute the design mutant that refreshes the limit only when Is4 flips: its configurations are too weak")
    pool.shutdown()
    sess_groups, sess_kinds = session_groups(sess_cases, sess_runs, seed)
    # the same cases through real relay services on loopback sockets (the relay goroutines' own buffers and arithmetic)
    t2 = time.time()
    groups = live_groups(cases, tier, seed)
    live = run_live(v, binary, groups + sess_groups, seed, 900 if big else 400)
    vlib.log("[live] %d relays, %d cases (%d sessions, %d moves, %d replies), %.1fs" % (live["live_groups"], live["cases"], live["mig_sessions"], live["mig_moves"],
                                                                                       live["mig_replies"], time.time() - t2))
    if live["live_groups"] != len(groups) + len(sess_groups) and not live["crashed"]:
        raise vlib.Broken("the driver ran %d of %d live relays" % (live["live_groups"], len(groups) + len(sess_groups)))
    if not live["crashed"] and (live["mig_sessions"] != sess_kinds["sessions"] or live["mig_replies"] != sess_kinds["replies"]):
        raise vlib.Broken("the driver played %d of %d sessions, %d of %d replies" % (live["mig_sessions"], sess_kinds["sessions"], live["mig_replies"], sess_kinds["replies"]))
    v.coverage.update(
        evaluations=tot["behaviours"], distinct_nontrivial=len(shapes), real_calls=tot["steps"], states=r.distinct, transitions=r.generated,
        kinds=dict(kinds),
        rule="cases = TLC-enumerated lattice (server protocol x client protocol x direction x address shape x MTUs x families x "
             "padding policies x sender layout x payload lengths at both size limits); a case is distinct by its abstract shape "
             "(protocols, address kind, outcome, padding, layout, families, MTUs), non-trivial = at least one real pack call",
        stages=dict(stages), pairs=len(hist), cases_per_pair_min=min(hist.values()), cases_per_pair_max=max(hist.values()),
        dropped_by_receive_window=tot.get("dropped_by_receive_window", 0), service_relays_read=tot.get("service_relays_read", 0),
        service_numbers_from_helpers=tot.get("service_numbers_from_helpers", 0),
        live_relays=live["live_groups"], live_cases=live["cases"], live_delivered=live["live_delivered"], live_dropped_as_expected=live["live_dropped_as_expected"],
        session_model={"distinct": rs.distinct, "generated": rs.generated, "wall_s": round(rs.wall, 1), "replies_printed": len(sess_cases),
                       "configurations": sess_cfgs, "invariants": SESS_INVARIANTS, "properties": SESS_PROPERTIES, "design_mutant_is4_refuted_by": sess_mutant},
        live_sessions=live["mig_sessions"], live_session_moves=live["mig_moves"], live_session_family_changes=live["mig_family_changes"],
        live_session_replies=live["mig_replies"], session_kinds=dict(sess_kinds))
    v.assumptions += ["AEAD, AES and BLAKE3 are correct (observed on the replayed bytes, not modelled)",
                      "the amount of padding is the code's random choice; positions are affine in it and TLC follows both extremes",
                      "uplink buffers are read out of the relays service.Config.Manager constructs; the downlink buffer arithmetic lives inside "
                      "the relay goroutines: the canary replay re-does it with the same exported helpers on the real Info() values, the live "
                      "relays (a sample of the cases per protocol pair) execute it for real, where only delivery, sizes and bytes are observable",
                      "a direct client's domain targets (name resolution) are out of scope here (C11/C17)",
                      "sessions that change their address: the relay has stored the new address once the upstream side holds the datagram sent from it "
                      "(recvFromServerConn* stores before it forwards); histories of up to %d moves between two sockets per family" % SESS_MOVES]
    return v.finish()
