"""C01 - the SS2022 TCP tunnel delivers the exact byte stream both ways.
Spec: specs/Stream/SS2022Stream.tla.  Binding: replay of TLC state graphs / simulated walks on real
StreamClient/StreamServer pairs over a scripted fragmenting transport (harness/drivers/c01)."""
import json, random
import vlib
from props import common

SPEC = vlib.os.path.join(vlib.VERIF, "specs", "Stream")
KEY_LEFTOVER = "stream.writeTo/leftover-after-short-read"


def tla_set(xs, quote=False):
    xs = sorted(set(xs))
    return "{" + ",".join(('"%s"' % x) if quote else str(x) for x in xs) + "}"


def boolstr(b):
    return "TRUE" if b else "FALSE"


def real_consts(k, cfg):
    """Model constants of one configuration, taken from the compiled code (vconst)."""
    if "StreamProbeError" in k:
        raise vlib.Broken("vconst could not probe the stream constants: " + k["StreamProbeError"])
    return dict(MaxChunk=k["StreamMaxChunk"], PadMax=k["MaxPaddingLength"], Tag=k["StreamTag"], SaltLen=cfg["KeyLen"],
                FixLen=k["TCPRequestFixedLengthHeaderLength"], EihLen=k["IdentityHeaderLength"], Depth=cfg["Depth"],
                ReqPfx=cfg["ReqPfx"], RspPfx=cfg["RspPfx"], AllowSeg=boolstr(cfg["AllowSeg"]),
                FirstCap=k["StreamFirstCap"]["%d/%d" % (cfg["KeyLen"], cfg["RspPfx"])])


def driver_consts(k, cfg, seed):
    c = dict(cfg)
    c.update(Seed=seed, MaxChunk=k["StreamMaxChunk"], PadMax=k["MaxPaddingLength"], Tag=k["StreamTag"],
             FirstCap=k["StreamFirstCap"]["%d/%d" % (cfg["KeyLen"], cfg["RspPfx"])])
    return c


def hdr_sizes(rc):
    neih = 1 if rc["Depth"] > 0 else 0
    req = rc["ReqPfx"] + rc["SaltLen"] + neih * rc["EihLen"] + rc["FixLen"] + rc["Tag"]
    rsp = rc["RspPfx"] + rc["SaltLen"] + rc["FixLen"] + rc["SaltLen"] + rc["Tag"]
    return req, rsp


TOY = dict(MaxChunk=6, PadMax=2, Tag=1, SaltLen=1, FixLen=1, EihLen=1, Depth=1, ReqPfx=0, RspPfx=0, AllowSeg="FALSE",
           FirstCap=4, Two="FALSE", FlushLeftover="TRUE", AddrLens="{1}", Pads="{0,1,2}", PSizes="{0,1,2,3,4}",
           WSizes="{0,1,6,7}", RSizes="{1,3,7}", SrcCaps="{2,7}", DSizes="{1}", Paths='{"plain","rf","wt"}',
           Writers='{"Ac"}', MaxSent=8, Count="FALSE", MaxW=99, MaxR=99, EMIT="")


def run_tlc(consts, **kw):
    kw.setdefault("workers", 16)
    kw.setdefault("timeout", 1500)
    return vlib.tlc(SPEC, "MCSS2022Stream", "MCSS2022Stream.cfg", consts, **kw)


def graph_config(k, cfg, kind, big):
    """Configurations with the real constants whose state graphs are replayed on the real tunnel.
    The two directions and the aspects (handshake, chunking of writes, buffering of reads, relay) are
    independent, so each gets its own small exhaustive graph."""
    rc = real_consts(k, cfg)
    mc, tag, padmax = rc["MaxChunk"], rc["Tag"], rc["PadMax"]
    req, rsp = hdr_sizes(rc)
    c = dict(rc)
    c.update(Two="FALSE", FlushLeftover="TRUE", Count="TRUE", MaxSent=4 * mc, EMIT="ACTION_CONSTRAINT Emit",
             AddrLens="{7}", Pads=tla_set([0, padmax]), PSizes="{0}", SrcCaps="{1}", DSizes="{1}")
    d = kind[-3:]
    wr = "Ac" if d == "c2s" else "As"
    part = (rsp if d == "s2c" else 2 + tag) - 1
    if kind == "handshake":
        als = [7, 19, 40] if not big else [7, 19, 5, 40, 259]
        ps = {0, 1, padmax - 1, padmax, padmax + 1, mc, mc + 5000}
        for al in als:
            room = mc - al - 2
            ps |= {room - 1, room, room + 1}
        if big:
            ps |= {2 * mc - 1, 2 * mc + 1, 1 << 20}
            c["MaxSent"] = (1 << 20) + 4 * mc
        c.update(AddrLens=tla_set(als), Pads=tla_set([0, 1, padmax]), PSizes=tla_set(ps), WSizes="{1}", RSizes=tla_set([mc + tag, 4096]),
                 DSizes=tla_set([1, req - 1, req]), Paths='{"plain","wt"}', Writers="{}", MaxW=2, MaxR=3)
    elif kind.startswith("chunk-"):
        # every split of the data into write calls / source reads, read back with one large buffer
        c.update(PSizes=tla_set([0, 3000] if d == "c2s" else [0]),
                 WSizes=tla_set([0, 1, mc - 1, mc, mc + 1, 2 * mc + 1] + ([3 * mc, 70000] if big else [])),
                 RSizes=tla_set([mc + tag]), SrcCaps=tla_set([32768, mc, mc + 1]), DSizes=tla_set([part]),
                 Paths='{"plain","rf","wt"}', Writers='{"%s"}' % wr, MaxW=4 if not big else 5, MaxR=3)
    elif kind.startswith("buf-"):
        # every read-buffer size against chunks of boundary sizes, left-over handling, end of stream
        c.update(PSizes=tla_set([0, 3000] if d == "c2s" else [0]), WSizes=tla_set([1, mc, mc + 1] + ([4097] if big else [])),
                 RSizes=tla_set([1, 4096, mc - 1, mc + tag - 1, mc + tag] + ([mc, 70000] if big else [])),
                 DSizes=tla_set([1, part]), Paths='{"plain","wt"}', Writers='{"%s"}' % wr, MaxW=3 if not big else 4, MaxR=4 if not big else 5)
    elif kind.startswith("relay-"):
        up = kind == "relay-up"
        c.update(Two="TRUE", AddrLens="{19}", Pads=tla_set([0, 1]), PSizes=tla_set([0, 2000]), WSizes=tla_set([1, mc, mc + 1]),
                 RSizes=tla_set([1, mc + tag]), Paths='{"plain","t2t"}', Writers='{"Ac"}' if up else '{"Bs"}',
                 MaxW=(6 if up else 5) + (1 if big else 0), MaxR=3 if not big else 4)
    else:
        raise vlib.Broken("unknown graph kind " + kind)
    return c


KINDS = ["handshake", "chunk-c2s", "chunk-s2c", "buf-c2s", "buf-s2c", "relay-up", "relay-down"]

CONFIGS = [
    dict(KeyLen=32, Depth=0, ReqPfx=0, RspPfx=0, AllowSeg=False),
    dict(KeyLen=16, Depth=1, ReqPfx=0, RspPfx=0, AllowSeg=True),
    dict(KeyLen=16, Depth=2, ReqPfx=37, RspPfx=19, AllowSeg=False),
    dict(KeyLen=32, Depth=3, ReqPfx=70000, RspPfx=70000, AllowSeg=True),
    dict(KeyLen=32, Depth=1, ReqPfx=37, RspPfx=70000, AllowSeg=False),
    dict(KeyLen=16, Depth=0, ReqPfx=70000, RspPfx=19, AllowSeg=True),
]


def replay(v, binary, k, cfg, behs, seed, what, timeout=900):
    if not behs:
        return 0
    dc = driver_consts(k, cfg, seed)
    for i, b in enumerate(behs):
        b["id"] = i + 1
    outs = common.run_parallel(binary, "TestReplay", [{"behaviours": c, "seed": seed, "consts": {"cfg": dc}}
                                                      for c in common.chunks(behs, 16)], timeout)
    n = 0
    for res, out, rc in outs:
        res = common.absorb(v, res, out, rc, what)
        n += res["behaviours"]
        v.add("replayed_steps", res["steps"])
    return n


def run(tier, seed, replay_file):
    v = vlib.Verdict("C01", tier, seed, "model_checking")
    work = vlib.scratch("c01")
    binary = vlib.build_driver("c01", work)
    k = common.vconst(work)
    big = tier == "thorough"
    rnd = random.Random(seed)
    nrep = 0
    cfg = CONFIGS[0]
    import time, os
    kinds = os.environ.get("C01_KINDS", ",".join(KINDS)).split(",")
    for kind in kinds:
        gc = graph_config(k, cfg, kind, big)
        g = run_tlc(gc, edges=True)
        graph = vlib.Graph(g)
        paths, left = graph.cover(seed=seed, max_len=30)
        print(kind, "distinct", g.distinct, "edges", len(graph.edges), "paths", len(paths), "viol", g.violation, "wall", g.wall, flush=True)
        behs = [graph.behaviour(p) for p in paths]
        t0 = time.time()
        nrep += replay(v, binary, k, cfg, behs, seed, "graph replay %s" % kind)
        print("  replay %.1fs" % (time.time() - t0), v.notes[-1:] , flush=True)
    v.coverage["traces_validated_against_impl"] = nrep
    return v.finish()
