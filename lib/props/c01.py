"""C01 - the SS2022 TCP tunnel delivers the exact byte stream both ways.
Spec: specs/Stream/SS2022Stream.tla.  Binding: replay of TLC state graphs / simulated walks on real
StreamClient/StreamServer pairs over a scripted fragmenting transport (harness/drivers/c01)."""
import json, random, threading
import vlib
from props import common

SPEC = vlib.os.path.join(vlib.VERIF, "specs", "Stream")
KEY_LEFTOVER = "stream.writeTo/leftover-after-short-read"


def tla_set(xs, quote=False):
    xs = sorted(set(xs))
    return "{" + ",".join(('"%s"' % x) if quote else str(x) for x in xs) + "}"


def boolstr(b):
    return "TRUE" if b else "FALSE"


def real_consts(k, cfg):
    """Model constants of one configuration, taken from the compiled code (vconst)."""
    if "StreamProbeError" in k:
        raise vlib.Broken("vconst could not probe the stream constants: " + k["StreamProbeError"])
    return dict(MaxChunk=k["StreamMaxChunk"], PadMax=k["MaxPaddingLength"], Tag=k["StreamTag"], SaltLen=cfg["KeyLen"],
                FixLen=k["TCPRequestFixedLengthHeaderLength"], EihLen=k["IdentityHeaderLength"], Depth=cfg["Depth"],
                ReqPfx=cfg["ReqPfx"], RspPfx=cfg["RspPfx"], AllowSeg=boolstr(cfg["AllowSeg"]),
                FirstCap=k["StreamFirstCap"]["%d/%d" % (cfg["KeyLen"], cfg["RspPfx"])])


def driver_consts(k, cfg, seed):
    c = dict(cfg)
    c.update(Seed=seed, MaxChunk=k["StreamMaxChunk"], PadMax=k["MaxPaddingLength"], Tag=k["StreamTag"],
             FirstCap=k["StreamFirstCap"]["%d/%d" % (cfg["KeyLen"], cfg["RspPfx"])])
    return c


def hdr_sizes(rc):
    neih = 1 if rc["Depth"] > 0 else 0
    req = rc["ReqPfx"] + rc["SaltLen"] + neih * rc["EihLen"] + rc["FixLen"] + rc["Tag"]
    rsp = rc["RspPfx"] + rc["SaltLen"] + rc["FixLen"] + rc["SaltLen"] + rc["Tag"]
    return req, rsp


TOY = dict(MaxChunk=6, PadMax=2, Tag=1, SaltLen=1, FixLen=1, EihLen=1, Depth=1, ReqPfx=0, RspPfx=0, AllowSeg="FALSE",
           FirstCap=4, Two="FALSE", FlushLeftover="TRUE", RelayInit="TRUE", AddrLens="{1}", Pads="{0,1,2}", PSizes="{0,1,2,3,4}",
           WSizes="{0,1,6,7}", RSizes="{1,3,7}", SrcCaps="{2,7}", DSizes="{1}", Paths='{"plain","rf","wt"}',
           Writers='{"Ac"}', MaxSent=8, Count="FALSE", MaxW=99, MaxR=99, EMIT="")


def run_tlc(consts, **kw):
    kw.setdefault("workers", 16)
    kw.setdefault("timeout", 1500)
    consts = dict(consts)
    consts.setdefault("IdleSecs", "{}")
    return vlib.tlc(SPEC, "MCSS2022Stream", "MCSS2022Stream.cfg", consts, **kw)


def graph_config(k, cfg, kind, big):
    """Configurations with the real constants whose state graphs are replayed on the real tunnel.
    The two directions and the aspects (handshake, chunking of writes, buffering of reads, relay) are
    independent, so each gets its own small exhaustive graph."""
    rc = real_consts(k, cfg)
    mc, tag, padmax = rc["MaxChunk"], rc["Tag"], rc["PadMax"]
    req, rsp = hdr_sizes(rc)
    c = dict(rc)
    c.update(Two="FALSE", FlushLeftover="TRUE", RelayInit="TRUE", Count="TRUE", MaxSent=4 * mc, EMIT="ACTION_CONSTRAINT Emit",
             AddrLens="{7}", Pads=tla_set([0, padmax]), PSizes="{0}", SrcCaps="{1}", DSizes="{1}")
    d = kind[-3:]
    wr = "Ac" if d == "c2s" else "As"
    part = (rsp if d == "s2c" else 2 + tag) - 1
    if kind == "handshake":
        als = [7, 19, 40] if not big else [7, 19, 5, 40, 259]
        ps = {0, 1, padmax - 1, padmax, padmax + 1, mc, mc + 5000}
        for al in als:
            room = mc - al - 2
            ps |= {room - 1, room, room + 1}
        if big:
            ps |= {2 * mc - 1, 2 * mc + 1, 1 << 20}
            c["MaxSent"] = (1 << 20) + 4 * mc
        c.update(AddrLens=tla_set(als), Pads=tla_set([0, 1, padmax]), PSizes=tla_set(ps), WSizes="{1}", RSizes=tla_set([mc + tag, 4096]),
                 DSizes=tla_set([1, req - 1, req]), Paths='{"plain","wt"}', Writers="{}", MaxW=2, MaxR=3)
    elif kind.startswith("chunk-"):
        # every split of the data into write calls / source reads, read back with one large buffer
        c.update(PSizes=tla_set([0, 3000] if d == "c2s" and big else [0]),
                 WSizes=tla_set([0, 1, mc - 1, mc, mc + 1, 2 * mc + 1] + ([3 * mc, 70000] if big else [])),
                 RSizes=tla_set([mc + tag]), SrcCaps=tla_set([32768, mc, mc + 1]), DSizes=tla_set([part]),
                 Paths='{"plain","rf","wt"}', Writers='{"%s"}' % wr, MaxW=3 if not big else 4, MaxR=3)
    elif kind.startswith("buf-"):
        # every read-buffer size against chunks of boundary sizes, left-over handling, end of stream
        c.update(PSizes=tla_set([0, 3000] if d == "c2s" else [0]), WSizes=tla_set([1, mc, mc + 1] + ([4097] if big else [])),
                 RSizes=tla_set([1, 4096, mc - 1, mc + tag - 1, mc + tag] + ([mc, 70000] if big else [])),
                 DSizes=tla_set([1, part]), Paths='{"plain","wt"}', Writers='{"%s"}' % wr, MaxW=3 if not big else 4, MaxR=4 if not big else 5)
    elif kind.startswith("relay-"):
        # tunnel-to-tunnel copy at a relay node: A's server tunnel feeds B's client tunnel (up) and back (down);
        # plain reads before the copy (left-over hand-over), end of stream, the server's first write through the copy
        up = kind == "relay-up"
        c.update(Two="TRUE", AddrLens="{19}", Pads="{1}", PSizes="{0}", WSizes=tla_set([1, mc + 1] + ([mc] if big else [])),
                 RSizes=tla_set([1, mc + tag]), DSizes="{}", Paths='{"plain","t2t"}', Writers='{"Ac"}' if up else '{"Bs"}',
                 MaxW=5 + (1 if big else 0), MaxR=3 if not big else 4)
    elif kind == "idle":
        # silence of more than the timestamp tolerance at every quiet moment of a two-way conversation
        c.update(Pads="{1}", PSizes="{0}", WSizes=tla_set([1, mc + 1]), RSizes=tla_set([mc + tag]), DSizes="{}", Paths='{"plain"}',
                 Writers='{"Ac","As"}', MaxW=3, MaxR=3, IdleSecs="{45, 600}" if big else "{45}")
    else:
        raise vlib.Broken("unknown graph kind " + kind)
    return c


KINDS = ["handshake", "chunk-c2s", "chunk-s2c", "buf-c2s", "buf-s2c", "relay-up", "relay-down", "idle"]

CONFIGS = [
    dict(KeyLen=32, Depth=0, ReqPfx=0, RspPfx=0, AllowSeg=False),
    dict(KeyLen=16, Depth=1, ReqPfx=0, RspPfx=0, AllowSeg=True),
    dict(KeyLen=16, Depth=2, ReqPfx=37, RspPfx=19, AllowSeg=False),
    dict(KeyLen=32, Depth=3, ReqPfx=70000, RspPfx=70000, AllowSeg=True),
    dict(KeyLen=32, Depth=1, ReqPfx=37, RspPfx=70000, AllowSeg=False),
    dict(KeyLen=16, Depth=0, ReqPfx=70000, RspPfx=19, AllowSeg=True),
]


def replay(v, binary, k, cfg, behs, seed, what, nproc=4, timeout=900):
    """Replay behaviours of one configuration on the real tunnel; returns (#behaviours, #steps, #distinct)."""
    if not behs:
        return 0, 0, 0
    dc = driver_consts(k, cfg, seed)
    for i, b in enumerate(behs):
        b["id"] = i + 1
    outs = common.run_parallel(binary, "TestReplay", [{"behaviours": c, "seed": seed, "consts": {"cfg": dc}}
                                                      for c in common.chunks(behs, nproc)], timeout)
    n = steps = distinct = 0
    with LOCK:
        for res, out, rc in outs:
            res = common.absorb(v, res, out, rc, what)
            n += res["behaviours"]
            steps += res["steps"]
            distinct = max(distinct, res.get("distinct", 0))
    return n, steps, distinct


LOCK = threading.Lock()
ONLY = None   # development: restrict the jobs of a run


def cfg_name(cfg):
    return "aes%d/eih%d/pfx%d-%d/seg=%s" % (cfg["KeyLen"] * 8, cfg["Depth"], cfg["ReqPfx"], cfg["RspPfx"], cfg["AllowSeg"])


def budget(big=True):
    """(TLC workers per run, runs in parallel).  The graphs of the quick tier are small: JVM start dominates,
    so many runs with two workers each; the thorough tier has larger toy configurations."""
    try:
        total = int(vlib.os.environ.get("VERIF_MAX_WORKERS", "16"))
    except ValueError:
        total = 16
    per = max(2, total // 4) if big else 2
    return per, max(1, total // per)


def run(tier, seed, replay_file):
    v = vlib.Verdict("C01", tier, seed, "model_checking")
    work = vlib.scratch("c01")
    binary = vlib.build_driver("c01", work)
    if replay_file:
        doc = json.load(open(replay_file))
        rp = doc["replay"].get("replay") or doc["replay"].get("Replay") or doc["replay"]
        beh = {"steps": [{"a": a} for a in rp["steps"]], "cex": True}
        res, out, rc = vlib.run_driver(binary, "TestReplay", {"behaviours": [beh], "seed": seed, "consts": {"cfg": rp["consts"]}}, 300)
        common.absorb(v, res, out, rc, "replay")
        v.coverage.update(states=1, transitions=len(rp["steps"]), traces_validated_against_impl=1)
        v.sample(rp["steps"][:12])
        return v.finish()

    k = common.vconst(work)
    big = tier == "thorough"
    per, par = budget(big)
    primary = CONFIGS[seed % len(CONFIGS)]
    v.coverage["constants_from_code"] = {x: k[x] for x in ("StreamMaxChunk", "StreamTag", "MaxPaddingLength", "IdentityHeaderLength",
                                                           "TCPRequestFixedLengthHeaderLength", "StreamFirstCap")}
    tot = dict(states=0, transitions=0, behaviours=0, steps=0, distinct=0)
    detail = {}

    def account(name, r, extra=None):
        with LOCK:
            tot["states"] += r.distinct
            tot["transitions"] += r.generated
            d = {"distinct": r.distinct, "generated": r.generated, "depth": r.depth, "wall_s": round(r.wall, 1), "violated": r.violation}
            d.update(extra or {})
            detail[name] = d

    def design(name, consts, cfgfile="MCSS2022Stream.cfg"):
        """Exhaustive check of the design on toy constants: every size around the chunk limit."""
        consts = dict(consts)
        consts.setdefault("IdleSecs", "{}")
        r = vlib.tlc(SPEC, "MCSS2022Stream", cfgfile, consts, workers=per, timeout=2400, edges=False, heap="6g")
        account(name, r)
        if r.violation:
            raise vlib.Broken("the design violates %s in the toy configuration %s (nothing to replay on the code): %s"
                              % (r.violation, name, r.out[-1500:]))

    def graph(name, cfg, kind, max_paths):
        """State graph with the constants of the compiled code, replayed edge by edge on the real tunnel."""
        gc = graph_config(k, cfg, kind, big)
        # the thorough graphs have up to 830k edges; Python keeps the first 250k (breadth-first order), TLC still checks all
        g = run_tlc(gc, workers=per, edges=True, heap="6g", edge_limit=250000 if big else None, compact=True)
        if g.violation:
            raise vlib.Broken("the design violates %s in graph configuration %s" % (g.violation, name))
        gr = vlib.Graph(g)
        if kind == "idle":
            # Idle changes nothing in the model (a self-loop): what it does to the implementation shows in what follows
            paths, left = gr.cover(seed=seed, max_len=30, max_paths=max_paths, prefer=lambda e: e[1]["n"] == "Idle", tail=8)
        else:
            paths, left = gr.cover(seed=seed, max_len=30, max_paths=max_paths)
        n, steps, distinct = replay(v, binary, k, cfg, [gr.behaviour(p) for p in paths], seed, "graph replay " + name)
        account(name, g, {"edges": len(gr.edges), "paths_replayed": n, "uncovered_edges": left, "config": cfg_name(cfg)})
        with LOCK:
            tot["behaviours"] += n
            tot["steps"] += steps
            tot["distinct"] = max(tot["distinct"], distinct)

    def simulate(name, cfg, num, nwalk):
        """Deeper random behaviours: both directions, every copy path, relay, real constants."""
        rc = real_consts(k, cfg)
        mc, tag, padmax = rc["MaxChunk"], rc["Tag"], rc["PadMax"]
        req, rsp = hdr_sizes(rc)
        c = dict(rc)
        c.update(Two="TRUE", FlushLeftover="TRUE", RelayInit="TRUE", Count="TRUE", MaxSent=1 << 21, EMIT="ACTION_CONSTRAINT Emit",
                 AddrLens=tla_set([7, 19, 5, 100, 259]), Pads=tla_set([0, 1, padmax]),
                 PSizes=tla_set([0, 1, padmax - 1, padmax, padmax + 1, mc - 21, mc - 9, mc - 8, mc, 2 * mc + 1, 1 << 20]),
                 WSizes=tla_set([0, 1, 4096, mc - 1, mc, mc + 1, 2 * mc - 1, 2 * mc + 1, 1 << 20]),
                 RSizes=tla_set([1, 100, 4096, mc - 1, mc, mc + tag - 1, mc + tag, 1 << 17]),
                 SrcCaps=tla_set([32768, mc, mc + 1]), DSizes=tla_set([1, req - 1, req, rsp - 1, rsp, 17, 18]),
                 Paths='{"plain","rf","wt","t2t"}', Writers='{"Ac","As","Bc","Bs"}', MaxW=14, MaxR=14)
        s = run_tlc(c, workers=1, edges=True, simulate="num=%d" % num, depth=28, seed=seed, edge_limit=600000, heap="6g", timeout=1200, compact=True)
        if s.violation:
            raise vlib.Broken("the design violates %s in simulation %s" % (s.violation, name))
        sg = vlib.Graph(s)
        walks = sg.random_walks(nwalk, 28, seed=seed)
        n, steps, distinct = replay(v, binary, k, cfg, [sg.behaviour(p) for p in walks], seed, "simulated walks " + name)
        account(name, s, {"walks_replayed": n, "config": cfg_name(cfg)})
        with LOCK:
            tot["behaviours"] += n
            tot["steps"] += steps

    def leftover_cex(name, cfg):
        """The code as it is (FlushLeftover = FALSE): TLC finds the lost left-over; the counterexample
        counts only if the real tunnel reproduces it."""
        rc = real_consts(k, cfg)
        c = dict(rc)
        c.update(Two="FALSE", FlushLeftover="FALSE", RelayInit="TRUE", Count="TRUE", MaxSent=100000, EMIT="", AddrLens="{7}", Pads="{0,900}", PSizes="{0}",
                 WSizes="{5000}", RSizes="{100}", SrcCaps="{1}", DSizes="{1}", Paths='{"plain","wt"}', Writers='{"As"}', MaxW=3, MaxR=3)
        r = run_tlc(c, workers=per, edges=False, heap="4g")
        account(name, r)
        if r.violation not in ("Prefix", "Conservation"):
            raise vlib.Broken("the as-coded variant (FlushLeftover=FALSE) should violate Prefix, TLC says %s" % r.violation)
        beh = vlib.cex_behaviour(r.trace, obs=lambda st: {x: st[x] for x in ("sent", "dlv", "eof", "st")})
        res, out, rcode = vlib.run_driver(binary, "TestReplay", {"behaviours": [beh], "seed": seed, "consts": {"cfg": driver_consts(k, cfg, seed)}}, 300)
        with LOCK:
            res = common.absorb(v, res, out, rcode, "left-over counterexample")
            tot["behaviours"] += 1
            tot["steps"] += res["steps"]
            if not res["violations"]:
                v.notes.append("the TLC counterexample of the as-coded variant (Read with a small buffer, then WriteTo) is no longer "
                               "reproduced by the real tunnel: the left-over is handed over")
            detail[name]["reproduced_on_code"] = bool(res["violations"])

    def relay_cex(name, cfg):
        """The code as it is (RelayInit = FALSE): a relay that read the first response bytes with Read and then
        hands the rest to the tunnel copy crashes on the server tunnel's missing write cipher."""
        rc = real_consts(k, cfg)
        c = dict(rc)
        c.update(Two="TRUE", FlushLeftover="TRUE", RelayInit="FALSE", Count="TRUE", MaxSent=100000, EMIT="", AddrLens="{7}", Pads="{900}",
                 PSizes="{0}", WSizes="{3000}", RSizes="{70000}", SrcCaps="{1}", DSizes="{}", Paths='{"plain","t2t"}', Writers='{"Bs"}',
                 MaxW=5, MaxR=2)
        r = run_tlc(c, workers=per, edges=False, heap="4g")
        account(name, r)
        if r.violation not in ("Prefix", "OnlyMixedIsBad"):
            raise vlib.Broken("the as-coded variant (RelayInit=FALSE) should violate Prefix, TLC says %s" % r.violation)
        beh = vlib.cex_behaviour(r.trace, obs=lambda st: {x: st[x] for x in ("sent", "dlv", "eof", "st")})
        res, out, rcode = vlib.run_driver(binary, "TestReplay", {"behaviours": [beh], "seed": seed, "consts": {"cfg": driver_consts(k, cfg, seed)}}, 300)
        with LOCK:
            res = common.absorb(v, res, out, rcode, "relay first-write counterexample")
            tot["behaviours"] += 1
            tot["steps"] += res["steps"]
            if not res["violations"]:
                v.notes.append("the TLC counterexample of the as-coded variant (Read on the relay's client tunnel, then tunnel copy into a "
                               "server tunnel that has not answered) is no longer reproduced by the real tunnels")
            detail[name]["reproduced_on_code"] = bool(res["violations"])

    toy = dict(TOY)
    jobs = []
    jobs.append(("relay-cex", relay_cex, ("relay-cex", primary)))
    jobs.append(("toy-c2s", design, ("toy-c2s", dict(toy, Writers='{"Ac"}'))))
    jobs.append(("toy-s2c", design, ("toy-s2c", dict(toy, Writers='{"As"}', AllowSeg="TRUE", Depth=0, PSizes="{0,3}" if not big else toy["PSizes"]))))
    jobs.append(("leftover-cex", leftover_cex, ("leftover-cex", primary)))
    for kind in KINDS:
        jobs.append((kind, graph, (kind, primary, kind, 5000 if big else 900)))
    toy_relay = dict(toy, Two="TRUE", Paths='{"plain","t2t"}', PSizes="{0,3}", Pads="{0,1}", WSizes="{1,6,7}", RSizes="{1,7}")
    if not big:
        other = CONFIGS[(seed + 1 + seed // len(CONFIGS)) % len(CONFIGS)]
        jobs.append(("handshake@2", graph, ("handshake@2", other, "handshake", 500)))
        jobs.append(("simulate", simulate, ("simulate", CONFIGS[(seed + 3) % len(CONFIGS)], 60, 150)))
    else:
        jobs.append(("toy-relay-up", design, ("toy-relay-up", dict(toy_relay, Writers='{"Ac"}'))))
        jobs.append(("toy-relay-down", design, ("toy-relay-down", dict(toy_relay, Writers='{"Bs"}', WSizes="{1,7}"))))
        jobs.append(("toy-both", design, ("toy-both", dict(toy, Writers='{"Ac","As"}', PSizes="{0,2}", Pads="{0,1}", WSizes="{1,7}", RSizes="{1,7}",
                                                             Paths='{"plain","wt"}', MaxSent=7))))
        jobs.append(("toy-live", design, ("toy-live", dict(toy, Writers='{"As"}', PSizes="{0,3}", Pads="{0,1}", WSizes="{1,5,7}", RSizes="{1,7}",
                                                             SrcCaps="{7}"), "MCSS2022StreamLive.cfg")))
        for ci, cfg in enumerate(CONFIGS):
            if cfg is primary:
                continue
            for kind in ("handshake", "chunk-s2c", "buf-c2s", "buf-s2c", "relay-down"):
                jobs.append(("%s@%d" % (kind, ci), graph, ("%s@%d" % (kind, ci), cfg, kind, 600)))
            jobs.append(("simulate@%d" % ci, simulate, ("simulate@%d" % ci, cfg, 200, 500)))
        jobs.append(("simulate", simulate, ("simulate", primary, 600, 1500)))

    if ONLY:
        jobs = [j for j in jobs if j[0] in ONLY]
    from concurrent.futures import ThreadPoolExecutor
    with ThreadPoolExecutor(max_workers=par) as ex:
        futs = [(name, ex.submit(fn, *args)) for name, fn, args in jobs]
        errs = []
        for name, f in futs:
            try:
                f.result()
            except vlib.Broken as e:
                errs.append("%s: %s" % (name, e))
    if errs:
        raise vlib.Broken("; ".join(errs)[:6000])

    v.coverage["states"] = tot["states"]
    v.coverage["transitions"] = tot["transitions"]
    v.coverage["traces_validated_against_impl"] = tot["behaviours"]
    v.coverage["replayed_steps"] = tot["steps"]
    v.coverage["distinct_action_outcomes"] = tot["distinct"]
    v.coverage["runs"] = detail
    v.coverage["primary_configuration"] = cfg_name(primary)
    v.assumptions += ["AEAD and key derivation are correct (observed only on the replayed bytes)",
                      "the transport is reliable and ordered; a read that would block is modelled as not enabled",
                      "read buffers have at least one byte",
                      "identity-header chains deeper than one are terminated by harness relays that strip one header per hop"]
    return v.finish()
