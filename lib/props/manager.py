"""System level: the service manager's run loop (service/service.go Manager.Run), specs/System/Manager.tla.
TLC checks the design for every choice of the listener that fails to bind (or none); every behaviour is run on the
real Manager built from a real service.Config (socks5 servers with several TCP and UDP listeners, the API server),
with the failing port occupied by the harness and one UDP session per UDP listener alive when the context is cancelled.
Part of C12 (service/service.go is one of its anchors: stop returns promptly, no sockets or goroutines left); model/code
differences outside C12's statement are notes."""
import json
import vlib
from props import common

SPEC = vlib.os.path.join(vlib.VERIF, "specs", "System")

LAYOUTS = [
    # cred manager, s1.tcp x2, s1.udp x2, s2.tcp x1, s2.udp x1, api x1
    [("cred", "", 0), ("tcp", "s1", 2), ("udp", "s1", 2), ("tcp", "s2", 1), ("udp", "s2", 1), ("api", "", 1)],
    # UDP only, three listeners, then a second server
    [("cred", "", 0), ("udp", "s1", 3), ("udp", "s2", 1)],
    [("cred", "", 0), ("tcp", "s1", 1), ("udp", "s1", 1), ("api", "", 2)],
]


def consts(layout, keep=True, extra_inv="", emit=True):
    block = ",".join("<<%d,%d>>" % (i + 1, l + 1) for i, (_, _, n) in enumerate(layout) for l in range(n))
    return dict(NSvc=len(layout), Listeners="<<%s>>" % ",".join(str(n) for _, _, n in layout), Block="{%s}" % block,
                KeepPartial="TRUE" if keep else "FALSE", EXTRA_INV=extra_inv, EMIT="ACTION_CONSTRAINT Emit" if emit else "")


def lifecycle(v, work, seed, big):
    binary = vlib.build_driver("sys", work)
    cov = []
    nb = ns = 0
    for li, layout in enumerate(LAYOUTS if big else LAYOUTS[:2]):
        r = vlib.tlc(SPEC, "MCManager", "MCManager.cfg", consts(layout), workers=2, timeout=900)
        if r.violation:
            raise vlib.Broken("specs/System/Manager.tla violates %s\n%s" % (r.violation, r.out[-1500:]))
        g = vlib.Graph(r)
        paths, left = g.cover(seed=seed, max_len=60)
        behs = [g.behaviour(p) for p in paths]
        inp = {"behaviours": behs, "seed": seed, "consts": {"services": [{"kind": k, "server": s, "n": n} for k, s, n in layout]}}
        res, out, rc = vlib.run_driver(binary, "TestManager", inp, 600)
        res = common.absorb(v, res, out, rc, "manager lifecycle")
        nb += res["behaviours"]
        ns += res["steps"]
        # trace validation: TLC must explain every recorded run of the real manager as a behaviour of Manager.tla
        # (unlogged steps taken silently), and must reject a corrupted copy (binding self-test)
        lines = [ln for t in (res.get("traces") or []) for ln in t.splitlines() if ln.strip()]
        tv = None
        if lines:
            silent = "{%s}" % ",".join(str(i + 1) for i, (k, _, n) in enumerate(layout) if k == "cred")
            tconsts = dict(consts(layout, emit=False), Silent=silent)
            def validate(ls, tag):
                tp = vlib.os.path.join(work, "trace.ndjson")
                with open(tp, "w") as fo:
                    fo.write("\n".join(ls) + "\n")
                tr = vlib.tlc(SPEC, "TraceManager", "TraceManager.cfg", tconsts, workers=1, timeout=600, edges=False, extra_files=[tp], keep_out=True,
                              jvm=["-Dtlc2.tool.queue.IStateQueue=StateDeque"], dump_trace=False)
                m = vlib.re.search(r'"TRACE-HW", (\d+), (\d+)', tr.out)
                if not m:
                    raise vlib.Broken("manager trace validation (%s) produced no verdict:\n%s" % (tag, tr.out[-1500:]))
                return int(m.group(1)), int(m.group(2)), tr
            hw, n, tr = validate(lines, "recorded")
            tv = {"events": n, "accepted_prefix": hw - 1, "states": tr.distinct}
            if tr.violation:
                raise vlib.Broken("Manager.tla invariant %s violated along a recorded run" % tr.violation)
            if hw != n + 1:
                f = {"events": lines[max(0, hw - 10):hw + 2], "first_rejected_index": hw}
                rej = json.loads(lines[hw - 1]) if hw - 1 < len(lines) else {}
                text = "a recorded run of the real service manager is not a behaviour of Manager.tla: event %d (%s) cannot follow" % (hw, lines[hw - 1] if hw - 1 < len(lines) else "?")
                # C12 speaks about UDP relays after a stop; anything else the specification does not explain is a note
                udp = {i + 1 for i, (k, _, _) in enumerate(layout) if k == "udp"}
                if rej.get("e") == "bound" and any(rej["open"][i - 1] > 0 for i in udp):
                    v.violation("system.manager/trace-rejected-udp-listener-bound", text, f)
                else:
                    v.notes.append("system note: " + text)
            # self-test: swap the result of the first run
            bad = list(lines)
            for i, ln in enumerate(bad):
                e = json.loads(ln)
                if e.get("e") == "ret":
                    e["ok"] = not e["ok"]
                    bad[i] = json.dumps(e)
                    break
            bhw, bn, _ = validate(bad, "corrupted")
            if bhw == bn + 1:
                raise vlib.Broken("binding self-test: a recorded manager run with Run's result flipped was accepted by TraceManager.tla")
            tv["corrupted_copy_rejected_at"] = bhw
        # the strong form (nothing at all left bound) fails as coded: partial listeners of a service whose Start failed
        nl = vlib.tlc(SPEC, "MCManager", "MCManager.cfg", consts(layout, extra_inv="NoLeak", emit=False), workers=2, timeout=900, edges=False)
        fixed = vlib.tlc(SPEC, "MCManager", "MCManager.cfg", consts(layout, keep=False, extra_inv="NoLeak", emit=False), workers=2, timeout=900, edges=False)
        if fixed.violation:
            raise vlib.Broken("Manager.tla with KeepPartial=FALSE must satisfy NoLeak, got %s" % fixed.violation)
        cov.append({"services": ["%s%s x%d" % (k, ("/" + s) if s else "", n) for k, s, n in layout], "distinct": r.distinct, "edges": len(g.edges),
                    "behaviours_run_on_real_manager": res["behaviours"], "uncovered_edges": left,
                    "udp_sessions_alive_at_stop": res["counters"].get("udp_sessions_echoed", 0),
                    "trace_validation": tv, "as_coded_NoLeak": nl.violation or "holds", "partial_start_listeners_left_open": res["counters"].get("partial_start_listeners_left_open_as_modelled", 0)})
    v.coverage["system_manager"] = cov
    if any(c["as_coded_NoLeak"] != "holds" for c in cov):
        v.notes.append("system note (outside the listed properties): a relay whose Start fails at its second or later listener is not stopped by "
                       "Manager.Run, its earlier listeners stay bound until the process exits (Manager.tla KeepPartial=TRUE; observed on the real manager)")
    return nb, ns
