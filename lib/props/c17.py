"""C17 - the DNS resolver returns only upstream's answers, honours TTLs, degrades safely.

Specs: specs/Dns/Resolver.tla (dns/dns.go: Lookup, sendQueries*, doTCP, parseMsg, cache use) and
specs/Dns/Lru.tla (cache/cache.go BoundedCache pointer structure).

What a run does
  1. builds the driver against the repository's working tree and MEASURES the resolver's constants
     on the compiled code inside testing/synctest (failure caching time, lookup timeout, and the
     two expiry rules of parseMsg: does a failure rcode overwrite a smaller expiry, is the SOA TTL
     ignored once an expiry is set).  These are the CONSTANTS of the model.
  2. design: TLC decides every invariant / action property of Resolver.tla exhaustively with the
     design's expiry rule (minimum over everything) for several small configurations;
  3. as built: with the measured expiry rules TLC looks for a late cache hit (TtlHonoured); a
     counterexample is replayed on the real resolver and reported only if the real resolver does it;
  4. replay: the state graphs of as-built configurations are covered edge by edge with paths, every
     path is executed on a real dns.Resolver -- TCP-only resolvers inside testing/synctest against a
     fake netio.StreamClient (virtual clock), resolvers with a UDP client in real time against an
     upstream on loopback sockets -- comparing every outcome and the cache content (list order,
     addresses, expiry) with the model and evaluating the property on what the resolver did;
  5. Lru.tla is checked exhaustively and its graph replayed on cache.BoundedCache;
  6. mutated / random response bytes go through the real parser (no crash, no hang, no poisoning).
"""
import json, os, re, time
from concurrent.futures import ThreadPoolExecutor
import vlib
from props import common

SPEC = os.path.join(vlib.VERIF, "specs", "Dns")


def sset(xs):
    return "{" + ",".join('"%s"' % x for x in xs) + "}"


A_OK = ["A1", "A2", "Ac", "Anx", "And", "Ands", "Afail", "Abig"]     # Abig/Bbig: frames longer than the EDNS(0) size (TCP)
A_BAD = ["Atc", "Aq0", "Ara0", "Aunk", "Abq", "Aba", "Abau"]
B_OK = ["B1", "B2", "Bnx", "Bnd", "Bnds", "Bfail", "Bbig"]
B_BAD = ["Btc", "Bq0", "Bra0", "Bba", "Bbau"]
OTHER = ["Fid", "Short"]
ALLSRV = A_OK + A_BAD + B_OK + B_BAD + OTHER
WRONGSRC = ["OA2", "OB2"]


def mk(kinds, names=("n1",), bad=(), procs=("p1",), cap=1, udp=False, tcp=True, deltas=(5, 6, 20, 25), maxadv=2, maxlook=2,
       cancel=False, t0=0, t1=5, t2=60, ts=10):
    return dict(Kinds=sset(kinds), Names=sset(names), BadNames=sset(bad), Procs=sset(procs), Cap=cap,
                HasUdp="TRUE" if udp else "FALSE", HasTcp="TRUE" if tcp else "FALSE",
                Deltas="{" + ",".join(str(d) for d in deltas) + "}", MaxAdv=maxadv, MaxLookups=maxlook,
                AllowCancel="TRUE" if cancel else "FALSE", T0=t0, T1=t1, T2=t2, TS=ts)


TTLK = ["A1", "A2", "B2", "Bnx", "Bfail", "Aba"]
UDPK = ["A2", "B2", "Bnx", "Bfail", "Atc", "Btc", "OA2", "OB2", "Fid", "Aq0", "Bra0", "Short", "Aba"]
UDPT = dict(t0=400, t1=500, t2=1000, ts=1000)      # real-time replays: TTLs far from the instants the replay can reach

# ---- exhaustive checks of the design (expiry = minimum over every source) ----
DESIGN = {
    "quick": {
        "parse": mk(ALLSRV, bad=("bad1",), maxlook=2, maxadv=2),
        "udp": mk(UDPK, udp=True, maxlook=2, maxadv=1, deltas=(20,), cancel=True),
        "udponly": mk(UDPK, udp=True, tcp=False, maxlook=2, maxadv=1, deltas=(20,)),
        "lru": mk(TTLK, names=("n1", "n2"), cap=1, maxlook=3, maxadv=2, deltas=(5, 6, 25)),
        "conc": mk(["A1", "B2", "Bfail", "Aba"], procs=("p1", "p2"), maxlook=3, maxadv=1, deltas=(6,), cancel=True),
    },
    "thorough": {
        "parse": mk(ALLSRV, bad=("bad1",), maxlook=2, maxadv=3, cancel=True),
        "udp": mk(UDPK + ["A1", "Anx", "Bnds"], udp=True, maxlook=2, maxadv=2, deltas=(6, 20), cancel=True),
        "udponly": mk(UDPK, udp=True, tcp=False, maxlook=3, maxadv=2, deltas=(6, 20), cancel=True),
        "lru": mk(TTLK, names=("n1", "n2", "n3"), cap=2, maxlook=4, maxadv=2, deltas=(6, 25)),
        "lru1": mk(TTLK, names=("n1", "n2"), bad=("bad1",), cap=1, maxlook=3, maxadv=3, deltas=(5, 6, 25)),
        "unbounded": mk(TTLK, names=("n1", "n2"), cap=0, maxlook=3, maxadv=2, deltas=(5, 6, 25)),
        "conc": mk(["A1", "A2", "B2", "Bnx", "Bfail", "Aba"], procs=("p1", "p2"), maxlook=3, maxadv=2, deltas=(6, 25), cancel=True),
    },
}

# ---- as built: alphabets in which only one of the two expiry rules can show ----
EXHIBIT = {
    "FailOverwrites": mk(["A1", "A2", "B1", "B2", "Afail", "Bfail"], maxlook=2, maxadv=2, deltas=(5, 6, 25)),
    "SoaOnlyIfUnset": mk(["A1", "A2", "B2", "Anx", "Bnx", "Ands", "Bnds"], maxlook=2, maxadv=2, deltas=(5, 6, 25)),
}

# ---- replay graphs (as built).  (constants, driver test, max paths in quick or None, what) ----
REPLAY = {
    "quick": {
        "parse": (mk(ALLSRV, bad=("bad1",), maxlook=1, maxadv=2, deltas=(5, 20)), "TestReplayTcp", 4000),
        "ttl": (mk(TTLK, maxlook=2, maxadv=2, deltas=(5, 6, 25)), "TestReplayTcp", 5000),
        "lru": (mk(["A1", "Bfail", "Aba"], names=("n1", "n2"), cap=1, maxlook=3, maxadv=1, deltas=(6,)), "TestReplayTcp", None),
        "conc": (mk(["A1", "B2", "Bfail", "Aba"], procs=("p1", "p2"), maxlook=2, maxadv=1, deltas=(6,), cancel=True), "TestReplayTcp", 4000),
        "udp": (mk(UDPK, udp=True, maxlook=2, maxadv=0, **UDPT), "TestReplayUdp", 600),
        "udponly": (mk(["A2", "B2", "Atc", "OA2", "OB2", "Fid", "Aq0", "Bfail"], udp=True, tcp=False, maxlook=2, maxadv=0, **UDPT), "TestReplayUdp", 150),
    },
    "thorough": {
        "parse": (mk(ALLSRV, bad=("bad1",), maxlook=1, maxadv=2, deltas=(5, 20), cancel=True), "TestReplayTcp", None),
        "stale": (mk(["A1", "Anx", "B1", "Bfail", "Aq0", "Bba", "Abau", "Short", "Atc", "Bnds"], maxlook=2, maxadv=2, deltas=(6, 20)), "TestReplayTcp", None),
        "ttl": (mk(TTLK + ["Ands", "Afail", "B1"], maxlook=2, maxadv=2, deltas=(5, 6, 25)), "TestReplayTcp", None),
        "lru": (mk(["A1", "B2", "Bfail", "Aba"], names=("n1", "n2", "n3"), cap=2, maxlook=4, maxadv=1, deltas=(6,)), "TestReplayTcp", None),
        "lru1": (mk(["A1", "Bfail", "Aba"], names=("n1", "n2"), bad=("bad1",), cap=1, maxlook=3, maxadv=2, deltas=(6, 25)), "TestReplayTcp", None),
        "conc": (mk(["A1", "B2", "Bnx", "Bfail", "Aba"], procs=("p1", "p2"), maxlook=2, maxadv=1, deltas=(6,), cancel=True), "TestReplayTcp", None),
        "udp": (mk(UDPK, udp=True, maxlook=2, maxadv=0, cancel=True, **UDPT), "TestReplayUdp", None),
        "udponly": (mk(UDPK, udp=True, tcp=False, maxlook=2, maxadv=0, **UDPT), "TestReplayUdp", None),
    },
}
UDPX = dict(t0=400, t1=3, t2=1000, ts=1000)      # TTL-crossing real-time replays: T1 = 3 s against advances of 6 s
# real-time UDP behaviours that cross a TTL (6 s sleeps) or wait for the 20 s UDP timeout ("silence")
UDPSLOW = {
    "quick": [("silence", mk(["A2", "B2", "OA2"], udp=True, maxlook=1, maxadv=1, deltas=(20,), **UDPT), 6, "UdpTimeout"),
              ("silence1", mk(["A2", "OB2"], udp=True, tcp=False, maxlook=1, maxadv=1, deltas=(20,), **UDPT), 3, "UdpTimeout")],
    "thorough": [("ttl", mk(["A1", "B1", "B2", "Bnx", "Bfail"], udp=True, maxlook=3, maxadv=2, deltas=(6,), **UDPX), 160, "Advance"),
                 ("silence", mk(["A2", "B2", "OA2", "Atc", "Bfail"], udp=True, maxlook=2, maxadv=1, deltas=(20,), **UDPT), 64, "UdpTimeout"),
                 ("silence1", mk(["A2", "B2", "OB2"], udp=True, tcp=False, maxlook=2, maxadv=1, deltas=(20,), **UDPT), 32, "UdpTimeout")],
}
# Real-time TTL crossings of results assembled over BOTH transports: every behaviour of the shapes below
# (small / large TTLs on either side, complete / truncated UDP answers, the rest over TCP), then an
# advance past the small TTL and a second lookup.  (config, {shape: max behaviours})
UDPMIX_CFG = mk(["A1", "A2", "B1", "B2", "Atc", "Btc"], udp=True, maxlook=2, maxadv=1, deltas=(6,), **UDPX)
UDPMIX = {"quick": {"udp+tc+tcp": 24, "tc+tcp+tcp": 12, "udp+udp": 8},
          "thorough": {"udp+tc+tcp": None, "tc+tcp+tcp": None, "udp+udp": None}}


def _is(n, **kw):
    def f(a):
        if a.get("n") != n:
            return False
        arg = a.get("arg")
        for k, v in kw.items():
            if k == "arg":
                if arg != v:
                    return False
            elif not isinstance(arg, dict) or arg.get(k) != v:
                return False
        return True
    return f


L, ADV, DIAL, T = _is("Lookup"), _is("Advance"), _is("TcpDial", arg="ok"), _is("TcpRecv", tc=False)
U, UTC = _is("UdpRecv", tc=False, src="srv"), _is("UdpRecv", tc=True, src="srv")
SHAPES = {"udp+tc+tcp": [L, U, UTC, DIAL, T, ADV, L],
          "tc+tcp+tcp": [L, UTC, DIAL, T, T, ADV, L],
          "udp+udp": [L, U, U, ADV, L]}


def paths_of_shape(g, preds):
    """Every path from an initial state whose i-th action satisfies preds[i]."""
    out = []

    def go(node, i, acc):
        if i == len(preds):
            out.append(list(acc))
            return
        for ei in g.succ.get(node, ()):
            if preds[i](g.edges[ei][1]):
                acc.append(ei)
                go(g.edges[ei][2], i + 1, acc)
                acc.pop()
    for n0 in g.inits:
        go(n0, 0, [])
    return out


# -simulate walks with larger constants (thorough)
SIMULATE = {
    "quick": [],
    "thorough": [("deep", mk(ALLSRV, names=("n1", "n2", "n3"), bad=("bad1",), procs=("p1", "p2"), cap=2, maxlook=8, maxadv=6,
                             deltas=(1, 5, 6, 20, 25, 55), cancel=True), 1500, 60, 6000)],
}
LRU = {
    "quick": [dict(Keys=sset(["k1", "k2", "k3"]), Vals="{1,2}", Cap=c, MaxOps=5) for c in (1, 2)] +
             [dict(Keys=sset(["k1", "k2", "k3", "k4"]), Vals="{1}", Cap=3, MaxOps=5)],
    "thorough": [dict(Keys=sset(["k1", "k2", "k3"]), Vals="{1,2}", Cap=c, MaxOps=6) for c in (1, 2, 3)] +
                [dict(Keys=sset(["k1", "k2", "k3", "k4"]), Vals="{1}", Cap=3, MaxOps=7)],
}
GARBAGE = {"quick": 400, "thorough": 8000}


def big_frame(e):
    """Edges that deliver a TCP frame longer than the advertised EDNS(0) size come first in a capped cover."""
    a = e[1]
    return (a.get("n") == "TcpRecv" and a["arg"].get("k") in ("Abig", "Bbig")) or (a.get("n") == "TcpCut" and a.get("arg") == "big")


def measured(binary, seed):
    res, out, rc = vlib.run_driver(binary, "TestConsts", {"seed": seed}, 300)
    if res is None or res.get("broken"):
        raise vlib.Broken("measuring the resolver's constants failed: %s\n%s" % (res and res["broken"], out[-2000:]))
    c = res["counters"]
    need = ("FailTtl", "TimeoutMs", "LifeA5ThenFail", "LifeFailThenA5", "LifeA60ThenSoa10", "LifeSoa10ThenA60")
    if any(k not in c for k in need):
        raise vlib.Broken("constants missing from the measurement: %s" % c)
    if c["TimeoutMs"] % 1000 or c["TimeoutMs"] <= 0:
        raise vlib.Broken("lookup timeout %d ms is not a positive number of whole seconds; the model's time unit is the second" % c["TimeoutMs"])
    return c


def flags(c, as_built):
    k = dict(FailTtl=max(c["FailTtl"], 0), Timeout=c["TimeoutMs"] // 1000)
    if as_built:
        # an expiry rule is "as written" (not the minimum) iff the lifetime depends on the arrival order
        k["FailOverwrites"] = "TRUE" if c["LifeA5ThenFail"] > c["LifeFailThenA5"] else "FALSE"
        k["SoaOnlyIfUnset"] = "TRUE" if c["LifeA60ThenSoa10"] > c["LifeSoa10ThenA60"] else "FALSE"
    else:
        k["FailOverwrites"] = k["SoaOnlyIfUnset"] = "FALSE"
    return k


def obs_of(st):
    return {"now": st.get("now"), "cache": st.get("cache"), "ph": {p: l.get("ph") for p, l in (st.get("lk") or {}).items()}}


def params_of(consts, k):
    return {"cap": int(consts["Cap"]), "hasUdp": consts["HasUdp"] == "TRUE", "hasTcp": consts["HasTcp"] == "TRUE",
            "failTtl": int(k["FailTtl"]), "timeout": int(k["Timeout"])}


def crash_or_absorb(v, res, out, rc, what):
    """A driver process that died inside the resolver / the DNS parser / the cache is behaviour of the code.
    Of the violations with the same stable key only the first is reported (with a count)."""
    if res is not None and res.get("violations"):
        seen = getattr(v, "_c17_keys", None)
        if seen is None:
            seen = v._c17_keys = {}
        keep = []
        for f in res["violations"]:
            seen[f["key"]] = seen.get(f["key"], 0) + 1
            if seen[f["key"]] == 1:
                keep.append(f)
        res["violations"] = keep
        res["had_violations"] = True
    if res is None and rc not in (0, None) and ("panic:" in out or "fatal error:" in out) and \
            re.search(r"shadowsocks-go/(dns|cache)[./]|dnsmessage\.", out):
        m = re.search(r"(panic: .*|fatal error: .*)", out)
        v.violation("dns.resolver/panic", "%s: the driver process died inside the resolver: %s" % (what, m.group(1) if m else "?"),
                    {"stdout_tail": out[-3000:]})
        return {"behaviours": 0, "steps": 0, "violations": [], "drift": [], "counters": {}, "distinct": 0, "samples": []}
    if res is not None:
        for k in ("samples", "violations", "drift", "broken"):
            if res.get(k) is None:
                res[k] = []
    return common.absorb(v, res, out, rc, what)


def run_replay(v, binary, doc, seed):
    rp = doc["replay"]
    if isinstance(rp.get("replay"), dict):      # the driver's finding wraps the replayable part
        rp = rp["replay"]
    if rp.get("lru"):
        inp = {"behaviours": [{"steps": rp["steps"]}], "seed": seed, "params": {"cap": rp["cap"], "keys": rp.get("keys") or []}}
        res, out, rc = vlib.run_driver(binary, "TestLru", inp, 120)
    elif rp.get("garbage"):
        inp = {"seed": rp["seed"], "params": {"n": rp["case"] + 1}}
        res, out, rc = vlib.run_driver(binary, "TestGarbage", inp, 600)
    elif "steps" in rp:
        inp = {"behaviours": [{"steps": rp["steps"]}], "seed": rp.get("seed", seed),
               "params": {"cap": rp.get("cap", 1), "hasUdp": rp.get("hasUdp", False), "hasTcp": rp.get("hasTcp", True),
                          "failTtl": rp.get("failTtl", 30), "timeout": rp.get("timeout", 20)}}
        res, out, rc = vlib.run_driver(binary, "TestReplayTcp" if rp.get("virtual", True) else "TestReplayUdp", inp, 300)
    else:
        raise vlib.Broken("replay file has no replayable content")
    crash_or_absorb(v, res, out, rc, "replay")
    v.coverage.update(states=1, transitions=len(rp.get("steps") or []), traces_validated_against_impl=1)
    v.sample({"replayed": doc.get("key")})
    return v.finish()


def run(tier, seed, replay):
    v = vlib.Verdict("C17", tier, seed, "model_checking")
    work = vlib.scratch("c17")
    binary = vlib.build_driver("c17", work)
    if replay:
        return run_replay(v, binary, json.load(open(replay)), seed)

    c = measured(binary, seed)
    kd, kb = flags(c, False), flags(c, True)
    quirks = [q for q in ("FailOverwrites", "SoaOnlyIfUnset") if kb[q] == "TRUE"]
    v.coverage["constants_from_code"] = {
        "rcodeFailureCachingDuration_s": c["FailTtl"], "lookupTimeout_s": c["TimeoutMs"] // 1000,
        "defaultCacheSize": c.get("DefaultCacheSize"), "edns_udp_size": c.get("EDNS"),
        "query_ids": [c.get("QueryID_a"), c.get("QueryID_aaaa")],
        "cached_lifetime_s": {"A(ttl 5) then failure rcode": c["LifeA5ThenFail"], "failure rcode then A(ttl 5)": c["LifeFailThenA5"],
                              "A(ttl 60) then NODATA(SOA 10)": c["LifeA60ThenSoa10"], "NODATA(SOA 10) then A(ttl 60)": c["LifeSoa10ThenA60"]},
        "expiry_rules_as_built": {q: kb[q] for q in ("FailOverwrites", "SoaOnlyIfUnset")},
        "state_projection": bool(c.get("StateProjection"))}
    if not c.get("StateProjection"):
        v.notes.append("the layout of dns.Resolver / dns.Result is not the expected one: the cache content is not compared, only outcomes")
    big = tier == "thorough"
    nw = 16
    skip = set(filter(None, os.environ.get("VERIF_C17_SKIP", "").split(",")))     # development aid only

    def part(table, name):
        return [] if name in skip else table
    states = trans = 0
    nrep = 0
    tlc_stats = {}

    # ---------------- TLC: design, exhibits, graphs, simulations, Lru -- all started together
    jobs = {}
    ex = ThreadPoolExecutor(max_workers=10)

    def tlc(name, cfg, k, invs, emit, workers, timeout, **kw):
        consts = dict(cfg)
        consts.update(k)
        consts.update(INVS=invs, EMIT="ACTION_CONSTRAINT Emit" if emit else "")
        return vlib.tlc(SPEC, "MCResolver", "MCResolver.cfg", consts, workers=workers, timeout=timeout, edges=emit,
                        heap="8g" if big else "4g", **kw)

    tmo = 6000 if big else 2400
    for name, cfg in part(list(DESIGN[tier].items()), "design"):
        jobs["design/" + name] = ex.submit(tlc, name, cfg, kd, "TtlHonoured ExpiryIsMinimum", False, 8 if big else 4, tmo)
    quirks = part(quirks, "asbuilt")
    for q in quirks:
        jobs["asbuilt/" + q] = ex.submit(tlc, q, EXHIBIT[q], kb, "TtlHonoured", False, 2, tmo)
    inv_g = "" if quirks else "TtlHonoured ExpiryIsMinimum"
    replay_cfgs = part(list(REPLAY[tier].items()), "graphs")
    if os.environ.get("VERIF_C17_GRAPHS"):                                        # development aid only
        replay_cfgs = [x for x in replay_cfgs if x[0] in os.environ["VERIF_C17_GRAPHS"].split(",")]
    slow_cfgs = part(UDPSLOW[tier], "slow")
    sim_cfgs = part(SIMULATE[tier], "sim")
    lru_cfgs = part(LRU[tier], "lru")
    for name, (cfg, test, maxp) in replay_cfgs:
        jobs["graph/" + name] = ex.submit(tlc, name, cfg, kb, inv_g, True, 4, tmo)
    for name, cfg, n, what in slow_cfgs:
        jobs["slow/" + name] = ex.submit(tlc, name, cfg, kb, inv_g, True, 2, tmo)
    if "slow" not in skip:
        jobs["slow/mix"] = ex.submit(tlc, "mix", UDPMIX_CFG, kb, inv_g, True, 2, tmo)
    for name, cfg, n, depth, walks in sim_cfgs:
        jobs["sim/" + name] = ex.submit(tlc, name, cfg, kb, inv_g, True, 1, tmo, simulate="num=%d" % n, depth=depth, seed=seed,
                                        edge_limit=1200000)
    for i, cfg in enumerate(lru_cfgs):
        consts = dict(cfg, EMIT="ACTION_CONSTRAINT Emit")
        jobs["lru/%d" % i] = ex.submit(vlib.tlc, SPEC, "MCLru", "MCLru.cfg", consts, workers=2, timeout=tmo, edges=True, heap="4g")
    # garbage through the parser runs meanwhile
    ng = 0 if "garbage" in skip else GARBAGE[tier]
    gchunks = 8 if big else 4
    gfut = ex.submit(common.run_parallel, binary, "TestGarbage",
                     [{"seed": seed * 1000 + i, "params": {"n": ng // gchunks}} for i in range(gchunks if ng else 0)], 1500)

    def done(name):
        r = jobs[name].result()
        tlc_stats[name] = {"distinct": r.distinct, "generated": r.generated, "depth": r.depth, "wall_s": round(r.wall, 1),
                           "violated": r.violation}
        return r

    # ---------------- design verdicts
    for name, _ in part(list(DESIGN[tier].items()), "design"):
        r = done("design/" + name)
        states += r.distinct
        trans += r.generated
        if r.violation:
            raise vlib.Broken("the design (Resolver.tla with expiry = minimum) violates %s in configuration %s; "
                              "the model is wrong, trace: %s" % (r.violation, name, [s.get("act") for s in vlib.trace_states(r.trace)][:12]))

    # ---------------- as built: a late cache hit of the model must be a late cache hit of the code
    for q in quirks:
        r = done("asbuilt/" + q)
        states += r.distinct
        trans += r.generated
        if not r.violation:
            v.notes.append("the resolver as built has %s but TLC found no late cache hit in the %s alphabet" % (q, q))
            continue
        beh = vlib.cex_behaviour(r.trace, obs=obs_of)
        res, out, rc = vlib.run_driver(binary, "TestReplayTcp", {"behaviours": [beh], "seed": seed, "params": params_of(EXHIBIT[q], kb)}, 120)
        res = crash_or_absorb(v, res, out, rc, "as-built counterexample (%s)" % q)
        nrep += 1
        if not res["violations"] and not res.get("had_violations"):
            raise vlib.Broken("TLC violates %s with the measured expiry rule %s but the real resolver does not reproduce the "
                              "counterexample; model and code disagree: %s" % (r.violation, q, [d.get("text") for d in res["drift"][:3]]))
        v.coverage.setdefault("asbuilt_counterexamples", {})[q] = {
            "invariant": r.violation, "length": len(beh["steps"]), "reproduced_on_real_resolver": True,
            "key": (res["violations"] or [{"key": "(reported earlier)"}])[0]["key"], "actions": [s["a"].get("n") + ":" + (s["a"]["arg"].get("k") if isinstance(s["a"].get("arg"), dict) else str(s["a"].get("arg"))) for s in beh["steps"]]}

    # ---------------- replay graphs
    batches = []     # (what, test, params, behaviours)
    graphs = {}
    for name, (cfg, test, maxp) in replay_cfgs:
        r = done("graph/" + name)
        states += r.distinct
        trans += r.generated
        if r.violation:
            raise vlib.Broken("graph configuration %s violates %s" % (name, r.violation))
        g = vlib.Graph(r)
        paths, left = g.cover(seed=seed, max_len=40, max_paths=maxp, prefer=big_frame)
        graphs[name] = {"distinct": r.distinct, "edges": len(g.edges), "paths": len(paths), "uncovered_edges": left,
                        "constants": {x: cfg[x] for x in cfg}}
        batches.append((name, test, params_of(cfg, kb), [g.behaviour(p) for p in paths]))
    for name, cfg, n, what in slow_cfgs:
        r = done("slow/" + name)
        states += r.distinct
        trans += r.generated
        g = vlib.Graph(r)
        paths, left = g.cover(seed=seed, max_len=30, max_paths=None,
                              prefer=lambda e: e[1].get("n") == what)
        paths = [p for p in paths if any(g.edges[i][1].get("n") == what for i in p)][:n]
        graphs["slow/" + name] = {"distinct": r.distinct, "edges": len(g.edges), "paths": len(paths)}
        batches.append(("slow/" + name, "TestReplayUdp", params_of(cfg, kb), [g.behaviour(p) for p in paths]))
    if "slow/mix" in jobs:
        import random
        r = done("slow/mix")
        states += r.distinct
        trans += r.generated
        g = vlib.Graph(r)
        rnd = random.Random(seed)
        behs, shapes = [], {}
        for shape, cap in UDPMIX[tier].items():
            ps = paths_of_shape(g, SHAPES[shape])
            # only crossings that end in a lookup of the name that was stored
            ps = [p for p in ps if g.edges[p[0]][1].get("arg") == g.edges[p[-1]][1].get("arg")]
            rnd.shuffle(ps)
            if shape == "udp+tc+tcp":
                # smallest TTL on the complete UDP answer first: the order in which a later, larger TTL could win
                ps.sort(key=lambda p: 0 if g.edges[p[1]][1]["arg"]["k"] in ("A1", "B1") else 1)
            shapes[shape] = {"found": len(ps), "replayed": len(ps if cap is None else ps[:cap])}
            behs += [g.behaviour(p) for p in (ps if cap is None else ps[:cap])]
        graphs["slow/mix"] = {"distinct": r.distinct, "edges": len(g.edges), "paths": len(behs), "shapes": shapes}
        if not behs:
            raise vlib.Broken("no mixed-transport TTL behaviour found in the graph of UDPMIX_CFG")
        batches.append(("slow/mix", "TestReplayUdp", params_of(UDPMIX_CFG, kb), behs))
    for name, cfg, n, depth, walks in sim_cfgs:
        r = done("sim/" + name)
        g = vlib.Graph(r)
        ws = g.random_walks(walks, depth, seed=seed)
        graphs["sim/" + name] = {"edges": len(g.edges), "walks": len(ws)}
        batches.append(("sim/" + name, "TestReplayTcp", params_of(cfg, kb), [g.behaviour(p) for p in ws]))
    v.coverage["replay_graphs"] = graphs

    # one driver process per chunk; slow real-time behaviours get one process per few behaviours
    inputs = []
    for what, test, params, behs in batches:
        if not behs:
            continue
        if what.startswith("slow/"):
            per = 1 if not big else 4
        elif test == "TestReplayUdp":
            per = max(1, (len(behs) + nw - 1) // nw)
        else:
            per = max(1, (len(behs) + nw - 1) // nw)
        for i in range(0, len(behs), per):
            inputs.append((what, test, {"behaviours": behs[i:i + per], "seed": seed, "params": params, "tier": tier}))
    # slow chunks first so that they overlap with everything else
    inputs.sort(key=lambda x: 0 if x[0].startswith("slow/") else 1)

    def drive(item):
        what, test, inp = item
        return what, vlib.run_driver(binary, test, inp, 1500)

    steps = 0
    distinct = 0
    per_graph = {}
    with ThreadPoolExecutor(max_workers=nw + 8) as dex:
        for what, (res, out, rc) in dex.map(drive, inputs):
            res = crash_or_absorb(v, res, out, rc, "replay of %s" % what)
            nrep += res["behaviours"]
            steps += res["steps"]
            distinct = max(distinct, res.get("distinct", 0))
            pg = per_graph.setdefault(what, {"behaviours": 0, "steps": 0, "drift": 0})
            pg["behaviours"] += res["behaviours"]
            pg["steps"] += res["steps"]
            pg["drift"] += len(res.get("drift", []))
    v.coverage["replayed"] = per_graph

    # ---------------- Lru
    lru_rep = 0
    for i, cfg in enumerate(lru_cfgs):
        r = done("lru/%d" % i)
        states += r.distinct
        trans += r.generated
        if r.violation:
            raise vlib.Broken("Lru.tla violates %s for %s" % (r.violation, cfg))
        g = vlib.Graph(r)
        paths, left = g.cover(seed=seed, max_len=cfg["MaxOps"], max_paths=None)
        behs = [g.behaviour(p) for p in paths]
        keys = json.loads(cfg["Keys"].replace("{", "[").replace("}", "]"))
        outs = common.run_parallel(binary, "TestLru", [{"behaviours": ch, "seed": seed, "params": {"cap": cfg["Cap"], "keys": keys}}
                                                      for ch in common.chunks(behs, 8)], 600)
        for res, out, rc in outs:
            res = crash_or_absorb(v, res, out, rc, "Lru replay")
            lru_rep += res["behaviours"]
            steps += res["steps"]
        graphs["lru/cap%d/keys%d" % (cfg["Cap"], len(keys))] = {"distinct": r.distinct, "edges": len(g.edges), "paths": len(paths), "uncovered_edges": left}
    nrep += lru_rep

    # ---------------- garbage
    garbage_cases = 0
    for res, out, rc in gfut.result():
        res = crash_or_absorb(v, res, out, rc, "malformed responses")
        garbage_cases += res["behaviours"]
    ex.shutdown()

    if getattr(v, "_c17_keys", None):
        v.coverage["violating_behaviours_by_key"] = dict(v._c17_keys)
    v.coverage["states"] = states
    v.coverage["transitions"] = trans
    v.coverage["tlc_runs"] = tlc_stats
    v.coverage["traces_validated_against_impl"] = nrep
    v.coverage["replayed_steps"] = steps
    v.coverage["lru_behaviours"] = lru_rep
    v.coverage["malformed_response_cases"] = garbage_cases
    v.coverage["distinct_action_outcomes"] = distinct
    v.coverage["exhaustive"] = all(g.get("uncovered_edges", 0) == 0 for g in graphs.values())
    v.assumptions += [
        "golang.org/x/net/dns/dnsmessage parses well-formed messages correctly (its output is what the model's message classes abstract)",
        "time advances only through the synctest virtual clock in the TCP replays; in the real-time UDP replays real time never runs behind model time",
        "the fake StreamClient honours the DialStream contract (payload delivered, context observed)",
        "responses carry A records only in answers to the A query and AAAA records only in answers to the AAAA query",
        "exhaustive statements hold for the listed message alphabets, TTL classes, names, capacities and bounds only"]
    return v.finish()
