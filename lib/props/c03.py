"""C03 - a TCP handshake is accepted at most once while its timestamp is acceptable.
Spec: specs/Replay/TcpReplay.tla.  Binding: gated replay inside testing/synctest (drivers/c03)."""
import json
import vlib
from props import common

SPEC = vlib.os.path.join(vlib.VERIF, "specs", "Replay")


def ticks(ns):
    sec, frac = divmod(ns, 10**9)
    return sec * 3 + (0 if frac == 0 else 1 if frac <= 5 * 10**8 else 2)


def run(tier, seed, replay):
    v = vlib.Verdict("C03", tier, seed, "model_checking")
    work = vlib.scratch("c03")
    binary = vlib.build_driver("c03", work)
    if replay:
        doc = json.load(open(replay))
        acts = doc["replay"].get("replay") or doc["replay"].get("Replay")
        beh = {"steps": [{"a": a} for a in acts], "cex": True}
        res, out, rc = vlib.run_driver(binary, "TestReplay", {"behaviours": [beh], "seed": seed}, 120)
        common.absorb(v, res, out, rc, "replay")
        v.coverage.update(states=1, transitions=len(acts), traces_validated_against_impl=1)
        v.sample(acts)
        return v.finish()

    k = common.vconst(work)
    W, D = ticks(k["ReplayWindowNs"]), k["MaxEpochDiff"]
    v.coverage["constants_from_code"] = {"ReplayWindowNs": k["ReplayWindowNs"], "MaxEpochDiff": D, "W_ticks": W}
    big = tier == "thorough"

    # (1) design, exhaustive, constants read from the compiled code
    design = dict(W=W, D=D, Reqs='{"r1","r2"}', Procs='{"p1"}' if not big else '{"p1","p2"}',
                  Skews="{-31,-30,0,30,31}",
                  Deltas="{1,2,%d,%d,%d,%d}" % (3 * D, W - 3, W, W + 3),
                  MaxAdv=3, MaxPres=4 if not big else 4, Kinds='{"good","forged"}', EMIT="", EXTRA_INV="", ReqSeq='<<"r1","r2">>')
    r = vlib.tlc(SPEC, "MCTcpReplay", "MCTcpReplay.cfg", design, workers=16, timeout=3000 if big else 600, edges=False,
                 heap="24g" if big else "8g")
    v.coverage["states"] = r.distinct
    v.coverage["transitions"] = r.generated
    v.coverage["design_exhaustive"] = {"constants": {x: design[x] for x in design if x != "EMIT"}, "distinct": r.distinct,
                                       "generated": r.generated, "depth": r.depth, "violated": r.violation}
    nrep = 0
    if r.violation:
        # a counterexample of the design counts only if the real server reproduces it
        beh = vlib.cex_behaviour(r.trace)
        res, out, rc = vlib.run_driver(binary, "TestReplay", {"behaviours": [beh], "seed": seed}, 120)
        res = common.absorb(v, res, out, rc, "design counterexample (%s)" % r.violation)
        nrep += 1
        if not res["violations"]:
            raise vlib.Broken("TLC violates %s with the code's constants but the real server does not reproduce it; "
                              "model and code disagree: %s" % (r.violation, [d.get("text") for d in res["drift"][:3]]))

    # (2) replay graph: small exhaustive configuration with 2 concurrent presenters; thorough replays a path cover of
    #     every edge, quick a seeded sample of that cover
    small = dict(W=W, D=D, Reqs='{"r1","r2"}', Procs='{"p1","p2"}', Skews="{%d}" % D if not big else "{-31,30}",
                 Deltas="{1,%d,%d}" % (W - 1, W + 3),
                 MaxAdv=2, MaxPres=3, Kinds='{"good","forged"}' if not big else '{"good","forged","badtype"}', EMIT="ACTION_CONSTRAINT Emit",
                 EXTRA_INV="", ReqSeq='<<"r1","r2">>')
    g = vlib.tlc(SPEC, "MCTcpReplay", "MCTcpReplay.cfg", small, workers=8, timeout=900, edges=True)
    graph = vlib.Graph(g)
    paths, left = graph.cover(seed=seed, max_len=14, max_paths=None if big else 3500)
    if g.violation:
        paths = paths[:0]
    behs = [graph.behaviour(p) for p in paths]
    v.coverage["replay_graph"] = {"distinct": g.distinct, "edges": len(graph.edges), "paths": len(paths), "uncovered_edges": left,
                                  "constants": {x: small[x] for x in small if x != "EMIT"}}
    # (3) sampled deeper walks from a simulation of the design configuration
    sim = dict(design)
    sim.update(EMIT="ACTION_CONSTRAINT Emit", Procs='{"p1","p2","p3"}', MaxAdv=5, MaxPres=7, Kinds='{"good","forged","badtype"}')
    s = vlib.tlc(SPEC, "MCTcpReplay", "MCTcpReplay.cfg", sim, workers=1, timeout=600, edges=True,
                 simulate="num=%d" % (600 if not big else 4000), depth=22, seed=seed, edge_limit=1500000)
    sg = vlib.Graph(s)
    walks = sg.random_walks(2500 if not big else 20000, 22, seed=seed)
    behs += [sg.behaviour(p) for p in walks]
    v.coverage["simulated_walks"] = len(walks)

    # (4) test purposes: corners that neither the small graph nor random walks reach; TLC's counterexample to the negated
    #     purpose is the witness behaviour (requests are interchangeable: minted in a fixed order, ACTION_CONSTRAINT Canon)
    tp = dict(W=W, D=D, Reqs='{"r1","r2","r3","r4"}', ReqSeq='<<"r1","r2","r3","r4">>', Procs='{"p1","p2"}', Skews="{%d}" % D,
              Deltas="{3,%d}" % (W - 3), MaxAdv=2, MaxPres=5, Kinds='{"good"}')
    purposes = [("pool order is not expiry order when an expired head is pruned", "TPTcpReplay", "TPTcpReplay.cfg", tp, "NotPurpose")]
    tpm = dict(small, EMIT="ACTION_CONSTRAINT Canon", Skews="{%d}" % D, Deltas="{1,%d,%d}" % (W - 1, W), MaxAdv=3, MaxPres=4, Kinds='{"good"}')
    purposes.append(("presented again one tick before its pool entry expires", "MCTcpReplay", "MCTcpReplay.cfg", dict(tpm, EXTRA_INV="NotPurposeBoundary"), "NotPurposeBoundary"))
    purposes.append(("two presenters of one request between clock sample and Add", "MCTcpReplay", "MCTcpReplay.cfg", dict(tpm, EXTRA_INV="NotPurposeRace"), "NotPurposeRace"))
    witnesses = []
    for title, mod, cfgf, consts, inv in purposes:
        w = vlib.tlc(SPEC, mod, cfgf, consts, workers=8, timeout=1500, edges=False)
        if w.violation != inv:
            raise vlib.Broken("test purpose '%s': expected TLC to reach it (%s), got %s\n%s" % (title, inv, w.violation, w.out[-1200:]))
        wb = vlib.cex_behaviour(w.trace)
        behs.append(wb)
        witnesses.append({"purpose": title, "steps": len(wb["steps"]), "states_searched": w.distinct})
    v.coverage["test_purposes"] = witnesses

    outs = common.run_parallel(binary, "TestReplay", [{"behaviours": c, "seed": seed + i} for i, c in enumerate(common.chunks(behs, 16))],
                               1200)
    steps = 0
    distinct = 0
    for res, out, rc in outs:
        res = common.absorb(v, res, out, rc, "graph replay")
        nrep += res["behaviours"]
        steps += res["steps"]
        distinct = max(distinct, res.get("distinct", 0))
    v.coverage["traces_validated_against_impl"] = nrep
    v.coverage["replayed_steps"] = steps
    v.coverage["distinct_action_outcomes"] = distinct
    v.coverage["exhaustive"] = left == 0
    v.assumptions += ["AEAD and key derivation are correct", "time advances only through the synctest virtual clock",
                      "presenters interleave only at the TryContains/Auth/Add boundaries (the pool lock makes Add atomic)"]
    return v.finish()
