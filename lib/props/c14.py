"""C14 - traffic statistics neither lose nor invent traffic and charge the right user.
Spec: specs/Stats/Collector.tla (design), specs/Stats/TraceCollector.tla (trace validation).
Binding (harness/drivers/c14):
  1. TestRecord runs concurrent real Collect*/Snapshot/SnapshotAndReset/GET calls and records call start/end
     events; every trace is projected on each (bucket, figure) and TLC must find a linearisation of every
     projection (field-wise: cross-field tearing is allowed); a sample of whole traces is also validated
     against the full spec (program order inside calls) - a rejection there alone is model drift;
  2. TestReplay replays TLC's sequential histories through the real api/ssm handlers;
  3. TestLongRun checks the quiescent conservation sums on long concurrent runs."""
import json, os, re, time, random
from concurrent.futures import ThreadPoolExecutor
import vlib
from props import common

SPEC = os.path.join(vlib.VERIF, "specs", "Stats")
KEY_F13 = "stats.api/user-endpoint-returns-server-totals"
# what the spec's SessionProg says a session contributes (kept in step with Collector.tla, checked below)
PROG = {"tcp": [("downlinkBytes", 1), ("uplinkBytes", 2), ("tcpSessions", 0)],
        "udpdown": [("downlinkPackets", 1), ("downlinkBytes", 2), ("udpSessions", 0)],
        "udpup": [("uplinkPackets", 1), ("uplinkBytes", 2)]}
SPEC_FIELDS = {f for p in PROG.values() for f, _ in p}


def tla_set(xs):
    return "{" + ",".join('"%s"' % x for x in xs) + "}"


def tla_seq(xs):
    return "<<" + ",".join('"%s"' % x for x in xs) + ">>"


def fields_of(kinds, fields):
    """The figures the chosen session kinds touch, in the code's order."""
    used = {f for k in kinds for f, _ in PROG[k]}
    return [f for f in fields if f in used]


def amount(kind, field, x, y):
    """What a Collect call of this kind adds to this figure (None: it does not touch it)."""
    tot = None
    for f, a in PROG[kind]:
        if f == field:
            tot = (tot or 0) + (1 if a == 0 else x if a == 1 else y)
    return tot


# ---------------------------------------------------------------- design

def design_consts(fields, users, kinds, collectors, snappers, ops, creds, maxc, maxs, maxr, amts="{<<1,2>>}",
                  nxt="Next", emit="", defect="FALSE", view="View"):
    return dict(Users=tla_set(users), Fields=tla_seq(fields_of(kinds, fields)), Kinds=tla_set(kinds),
                Collectors=tla_set(collectors), Snappers=tla_set(snappers), Amts=amts, SnapOps=tla_set(ops),
                Creds=tla_set(creds), MaxCollect=maxc, MaxSnap=maxs, MaxReset=maxr, Defect=defect, NEXT=nxt, EMIT=emit,
                VIEW=view)


def run_design(name, consts, timeout, workers=8, heap="6g", extra=()):
    r = vlib.tlc(SPEC, "MCCollector", "MCCollector.cfg", consts, workers=workers, timeout=timeout, edges=False, heap=heap,
                 keep_out=True, extra=extra)
    m = re.search(r"Invariant (\S+) is violated", r.out) or re.search(r"Action property (\S+) is violated", r.out)
    if m:
        r.violation = m.group(1)
    return r


# ---------------------------------------------------------------- trace projection

def project(tr, fields, drop_user=False):
    """One recorded trace -> list of (sub-trace id, lines) for every (bucket, figure); plus direct findings
    (a total smaller than the sum of its users cannot be projected)."""
    evs = tr["events"]
    buckets = {""}
    for ev in evs:
        if ev["e"] == "call" and ev.get("op") == "collect":
            buckets.add(ev.get("u", ""))
        if ev["e"] == "ret":
            buckets.update((ev.get("users") or {}).keys())
            if ev.get("op") == "user" and ev.get("u"):
                buckets.add(ev["u"])
    # pair every call with its return (same goroutine, next event)
    ret_of = {}
    open_call = {}
    for i, ev in enumerate(evs):
        if ev["e"] == "call":
            open_call[ev["p"]] = i
        else:
            ret_of[open_call.pop(ev["p"])] = i
    findings = []
    subs = []
    for b in sorted(buckets):
        for f in fields:
            lines = []
            emitted = {}
            nontrivial = False
            for i, ev in enumerate(evs):
                p = ev["p"]
                if ev["e"] == "ret":
                    if emitted.pop(p, False):
                        lines.append({"e": "ret", "p": p})
                    continue
                op = ev["op"]
                ret = evs[ret_of[i]]
                if op == "collect":
                    if ev.get("u", "") != b:
                        continue
                    n = amount(ev["k"], f, ev.get("x", 0), ev.get("y", 0))
                    if n is None and b == "":
                        continue      # the anonymous bucket has no collector to create: no effect at all
                    nontrivial = nontrivial or bool(n)
                    lines.append({"e": "call", "p": p, "op": "collect", "k": "nop" if n is None else "add",
                                  "u": "" if b == "" else "u", "x": n or 0, "y": 0})
                    emitted[p] = True
                elif op in ("snap", "reset"):
                    if ret.get("status") != 200:
                        findings.append(("stats.api/unexpected-status", "GET stats answered %s" % ret.get("status"), ev))
                        continue
                    users = ret.get("users") or {}
                    if b == "":
                        v = ret["tot"][f] - sum(u[f] for u in users.values())
                        if v < 0:
                            findings.append(("stats.snapshot/total-less-than-users",
                                             "%s: total %d is less than the sum of the users' figures" % (f, ret["tot"][f]), ret))
                            continue
                        line = {"anon": {"f": v}, "users": {}}
                    else:
                        v = users.get(b, {}).get(f, 0)
                        line = {"anon": {}, "users": {"u": {"f": v}}}
                    nontrivial = nontrivial or v != 0
                    line.update({"e": "call", "p": p, "op": op, "u": "-", "listed": [], "strict": False})
                    lines.append(line)
                    emitted[p] = True
                elif op == "user":
                    # the property: the answer is the figures of that user; a 404 takes no snapshot
                    if drop_user or ret.get("status") != 200 or ev.get("u") != b:
                        continue
                    v = ret["user"][f]
                    nontrivial = nontrivial or v != 0
                    lines.append({"e": "call", "p": p, "op": "user", "u": "u", "anon": {}, "users": {"u": {"f": v}},
                                  "listed": [], "strict": False})
                    emitted[p] = True
            subs.append(("%s|%s|%s" % (tr["t"], b, f), lines, nontrivial))
    return subs, findings


def strict_trace(tr, fields, users):
    """The whole trace for the full spec (real Fields / SessionProg, program order inside calls).  Users are renamed
    to the spec's constants.  GET users/{u} calls are left out (their answer constrains one user only)."""
    evs = tr["events"]
    seen = []
    for ev in evs:
        for u in ([ev.get("u", "")] if ev["e"] == "call" and ev.get("op") == "collect" else []) + \
                 sorted((ev.get("users") or {}).keys()):
            if u and u not in seen:
                seen.append(u)
    if len(seen) > len(users):
        return None
    ren = {u: users[i] for i, u in enumerate(seen)}
    ren[""] = ""
    ret_of, open_call = {}, {}
    for i, ev in enumerate(evs):
        if ev["e"] == "call":
            open_call[ev["p"]] = i
        else:
            ret_of[open_call.pop(ev["p"])] = i
    lines, emitted = [], {}
    for i, ev in enumerate(evs):
        p = ev["p"]
        if ev["e"] == "ret":
            if emitted.pop(p, False):
                lines.append({"e": "ret", "p": p})
            continue
        op, ret = ev["op"], evs[ret_of[i]]
        if op == "collect":
            lines.append({"e": "call", "p": p, "op": "collect", "k": ev["k"], "u": ren[ev.get("u", "")],
                          "x": ev.get("x", 0), "y": ev.get("y", 0)})
            emitted[p] = True
        elif op in ("snap", "reset") and ret.get("status") == 200:
            us = ret.get("users") or {}
            anon = {f: ret["tot"][f] - sum(u[f] for u in us.values()) for f in fields}
            if min(anon.values()) < 0:
                return None
            lines.append({"e": "call", "p": p, "op": op, "u": "-", "anon": anon,
                          "users": {ren[u]: {f: us[u][f] for f in fields} for u in us},
                          "listed": sorted(ren[u] for u in us), "strict": True})
            emitted[p] = True
    return lines


def write_trace_file(path, subs):
    """Concatenate sub-traces: each starts with a reset line that knows where the next one starts."""
    n = 1
    with open(path, "w") as f:
        for tid, lines in subs:
            nxt = n + 1 + len(lines)
            f.write(json.dumps({"e": "reset", "t": tid, "next": nxt}) + "\n")
            for l in lines:
                f.write(json.dumps(l) + "\n")
            n = nxt
    return n - 1


PROJ = dict(Users='{"u"}', Fields='<<"f">>', Prog='[add |-> <<[f |-> "f", a |-> 1]>>, nop |-> <<>>]')


def validate(work, tag, subs, procs, consts, timeout, jobs=1, workers=4):
    """TLC trace validation of (id, lines) sub-traces, split over `jobs` TLC processes of `workers` workers each
    (acceptance is printed by the spec, so it does not depend on the number of workers).
    Returns (set of accepted ids, distinct states, generated states)."""
    subs = [s for s in subs if s[1]]
    if not subs:
        return set(), 0, 0
    # balance by number of lines
    order = sorted(subs, key=lambda s: -len(s[1]))
    bins = [[] for _ in range(max(1, min(jobs, len(order))))]
    load = [0] * len(bins)
    for s in order:
        i = load.index(min(load))
        bins[i].append(s)
        load[i] += len(s[1]) + 1

    def one(i):
        path = os.path.join(work, "%s-%d.ndjson" % (tag, i))
        write_trace_file(path, bins[i])
        c = dict(consts)
        c.update(Procs=tla_set(procs), TraceFile=path)
        r = vlib.tlc(SPEC, "MCTraceCollector", "MCTraceCollector.cfg", c, workers=workers, timeout=timeout, edges=False,
                     keep_out=True, dump_trace=False, heap="3g")
        return set(re.findall(r'^"ACCEPT (.*)"$', r.out, re.M)), r.distinct, r.generated

    with ThreadPoolExecutor(max_workers=len(bins)) as ex:
        outs = list(ex.map(one, range(len(bins))))
    acc = set()
    for a, _, _ in outs:
        acc |= a
    return acc, sum(o[1] for o in outs), sum(o[2] for o in outs)


# ---------------------------------------------------------------- the parts of a run

PER_KEY = 3       # findings reported per stable key and run (the rest is counted in the evidence)


def limited(v, key):
    c = v.coverage.setdefault("findings_by_key", {})
    c[key] = c.get(key, 0) + 1
    return c[key] <= PER_KEY


def absorb(v, res, out, rc, what):
    """common.absorb, except that only the first findings of every key are passed on and that a Go `fatal error` / panic raised inside the code under test (e.g. the runtime's
    "concurrent map iteration and map write" when the collector map is touched without sc.mu) is behaviour of the
    real code: a violation, not a broken harness."""
    if res is None and rc != 0:
        m = re.search(r"^(fatal error: .*|panic: .*)$", out, re.M)
        if m and re.search(r"shadowsocks-go/(stats|api/ssm)[./]", out):
            first = re.search(r"^.*shadowsocks-go/(?:stats|api/ssm)[./].*$", out, re.M).group(0).strip()
            v.violation("stats.collector/crash", "%s: the process died with %r at %s" % (what, m.group(1), first),
                        {"kind": "crash", "what": what, "output": out[-3000:]})
            return {"behaviours": 0, "steps": 0, "violations": [], "counters": {}, "drift": []}
    if res and res.get("violations"):
        res["violations"] = [f for f in res["violations"] if limited(v, f["key"])]
        if not res["violations"] and rc != 0:
            rc = 0
    return common.absorb(v, res, out, rc, what)


def part_design(tier, fields):
    """Exhaustive TLC runs of the design with all interleavings of the field-level atomic steps."""
    big = tier == "thorough"
    if not big:
        cfgs = [
            ("2 collectors x 1 snapshotter", dict(users=["u1"], kinds=["tcp"], collectors=["c1", "c2"], snappers=["s1"],
                                                  ops=["snap", "reset"], creds=["u1"], maxc=2, maxs=2, maxr=2)),
            ("1 collector x 2 snapshotters, per-user endpoint", dict(users=["u1"], kinds=["udpup"], collectors=["c1"], snappers=["s1", "s2"],
                                                                      ops=["snap", "reset", "user"], creds=["u1"], maxc=1, maxs=2, maxr=2)),
            ("users first seen mid-run", dict(users=["u1", "u2"], kinds=["udpup"], collectors=["c1", "c2"], snappers=["s1"],
                                              ops=["reset", "snap"], creds=["u1"], maxc=2, maxs=1, maxr=1)),
        ]
    else:
        cfgs = [
            ("2 collectors x 1 snapshotter, 3 sessions", dict(users=["u1"], kinds=["tcp"], collectors=["c1", "c2"], snappers=["s1"],
                                                              ops=["snap", "reset"], creds=["u1"], maxc=3, maxs=2, maxr=2)),
            ("1 collector x 2 snapshotters, per-user endpoint", dict(users=["u1"], kinds=["udpup"], collectors=["c1"], snappers=["s1", "s2"],
                                                                      ops=["snap", "reset", "user"], creds=["u1"], maxc=2, maxs=3, maxr=2)),
            ("users first seen mid-run", dict(users=["u1", "u2"], kinds=["udpup"], collectors=["c1", "c2"], snappers=["s1"],
                                              ops=["reset", "snap", "user"], creds=["u1", "u2"], maxc=3, maxs=2, maxr=1)),
            ("all session kinds, six figures", dict(users=["u1"], kinds=["tcp", "udpdown", "udpup"], collectors=["c1", "c2"], snappers=["s1"],
                                                    ops=["snap", "reset"], creds=["u1"], maxc=2, maxs=2, maxr=1)),
        ]

    def one(item):
        name, kw = item
        r = run_design(name, design_consts(fields, **kw), timeout=3000 if big else 1200, workers=8 if big else 4,
                       heap="12g" if big else "4g")
        return name, kw, r

    with ThreadPoolExecutor(max_workers=2 if big else 3) as ex:
        outs = list(ex.map(one, cfgs))
    # vacuity self-test: with the per-user endpoint answering the server totals (what ssm.go did when F13 was found)
    # ApiUserExact must fail
    d = design_consts(fields, users=["u1"], kinds=["udpup"], collectors=["p"], snappers=["p"], ops=["user"], creds=["u1"],
                      maxc=2, maxs=1, maxr=0, defect="TRUE")
    st = run_design("selftest", d, timeout=1200, workers=2, heap="2g")
    dead = None
    if big:
        # vacuity: no action of the spec is dead in an exhaustive configuration
        kw = dict(users=["u1", "u2"], kinds=["udpup"], collectors=["c1", "c2"], snappers=["s1"], ops=["reset", "snap", "user"],
                  creds=["u1"], maxc=2, maxs=1, maxr=1)
        cv = run_design("coverage", design_consts(fields, **kw), timeout=2400, workers=4, heap="4g", extra=("-coverage", "1"))
        counts = {m.group(1): int(m.group(2)) for m in re.finditer(r"^<(\w+) line \d+, col \d+ to line \d+, col \d+ of module Collector>: (\d+):\d+", cv.out, re.M)}
        want = ["CallCollect", "UcLookup", "UcCreate", "AddField", "CallSnap", "SnapAnon", "SnapRLock", "SnapUserField", "SnapRUnlock", "Return"]
        dead = [a for a in want if not counts.get(a)]
        st.action_counts = counts
    st.dead = dead
    return outs, st


def lite_behaviours(out):
    """Behaviours from the STEP lines of a one-worker -simulate run."""
    behs, cur, last = [], [], 0
    for l in out.splitlines():
        if not l.startswith('"STEP '):
            continue
        s = json.loads(json.loads(l)[5:])
        if s["d"] <= last and cur:
            behs.append({"steps": cur})
            cur = []
        cur.append({"a": s["a"], "o": s["o"]})
        last = s["d"]
    if cur:
        behs.append({"steps": cur})
    return behs


def part_replay(tier, seed, fields, names, binary):
    """Sequential histories (one goroutine) through the real API handlers: a path cover of the exhaustive graph of a
    small configuration plus simulated long histories of a larger one."""
    big = tier == "thorough"
    kw = dict(users=["u1", "u2"], kinds=["tcp", "udpdown", "udpup"], collectors=["p"], snappers=["p"],
              ops=["snap", "reset", "user"], creds=["u1"], maxc=2 if not big else 3, maxs=1 if not big else 2, maxr=1, nxt="NextApi",
              emit="ACTION_CONSTRAINT Emit", view="GraphView")
    kw2 = dict(users=["u1", "u2", "u3"], kinds=["tcp", "udpdown", "udpup"], collectors=["p"], snappers=["p"],
               ops=["snap", "reset", "user"], creds=["u1", "u2"], maxc=8, maxs=6, maxr=3, nxt="NextApi",
               emit="ACTION_CONSTRAINT EmitLite", view="GraphView", amts="{<<1,2>>,<<3,1>>}")
    with ThreadPoolExecutor(max_workers=2) as ex:
        fg = ex.submit(vlib.tlc, SPEC, "MCCollector", "MCCollector.cfg", design_consts(fields, **kw), workers=4 if not big else 8,
                       timeout=2400, edges=True, keep_out=True, heap="6g")
        fs = ex.submit(vlib.tlc, SPEC, "MCCollector", "MCCollector.cfg", design_consts(fields, **kw2), workers=1, timeout=2400,
                       edges=False, keep_out=True, simulate="num=%d" % (60 if not big else 400), depth=170, seed=seed, heap="2g")
        g, s = fg.result(), fs.result()
    if g.violation or re.search(r"is violated", g.out):
        raise vlib.Broken("the sequential configuration of Collector.tla violates an invariant:\n" + g.out[-3000:])
    graph = vlib.Graph(g)
    paths, left = graph.cover(seed=seed, max_len=80)
    behs1 = [graph.behaviour(p) for p in paths]
    behs2 = lite_behaviours(s.out)
    scales = [1, 1000003, (1 << 40) + 7]
    outs = []
    for behs, creds in ((behs1, kw["creds"]), (behs2, kw2["creds"])):
        inputs = [{"behaviours": c, "seed": seed + i, "params": {"names": names, "creds": creds, "scales": scales}}
                  for i, c in enumerate(common.chunks(behs, 8)) if c]
        outs.append(common.run_parallel(binary, "TestReplay", inputs, 1800))
    info = {"graph_distinct": g.distinct, "graph_generated": g.generated, "edges": len(graph.edges), "paths": len(paths),
            "uncovered_edges": left, "simulated_histories": len(behs2),
            "constants": {"graph": {k: kw[k] for k in ("users", "kinds", "ops", "creds", "maxc", "maxs", "maxr")},
                          "simulate": {k: kw2[k] for k in ("users", "kinds", "ops", "creds", "maxc", "maxs", "maxr", "amts")}}}
    return outs, info


def part_traces(tier, seed, fields, names, binary, work):
    """Concurrent real calls recorded and validated by TLC."""
    big = tier == "thorough"
    nproc = 4 if not big else 8
    per = 16 if not big else 150
    G = 4
    inputs = []
    for i in range(nproc):
        out = os.path.join(work, "rec-%d.ndjson" % i)
        inputs.append({"seed": seed * 1000 + i, "params": {"names": names, "record": {
            "traces": per, "goroutines": G, "ops": 6 if i % 2 == 0 else 8, "users": ["alice", "bob"] if i % 2 == 0 else ["alice", "bob", "carol"],
            "creds": ["alice", "bob"], "userOps": 4, "maxAmount": 9, "out": out}}})
    outs = common.run_parallel(binary, "TestRecord", inputs, 1800)
    traces = []
    for inp in inputs:
        p = inp["params"]["record"]["out"]
        if os.path.exists(p):
            for l in open(p):
                try:
                    traces.append(json.loads(l))
                except ValueError:
                    pass        # a recorder that died mid-line has already been reported
    procs = ["g%d" % (i + 1) for i in range(G)]
    t0 = time.time()
    pend, info = check_traces(tier, traces, procs, fields, work)
    vlib.log("[c14] trace validation %.1fs" % (time.time() - t0))
    return outs, traces, pend, info


def part_long(tier, seed, names, binary):
    """Quiescent conservation sums on long concurrent runs (hot rounds: three buckets, resetters doing back-to-back resets
    while collectors record without pause; wave rounds: a new user name hit by every goroutine at once)."""
    big = tier == "thorough"
    inputs = [{"seed": seed * 100 + i, "params": {"names": names, "long": {
        "rounds": 4 if not big else 12, "goroutines": 8 if i % 2 == 0 else 12, "waves": 24, "perWave": 2000 if not big else 3000,
        "resetters": 2 + i % 2, "snappers": 1, "resets": 60000 if not big else 300000}}} for i in range(2 if not big else 4)]
    return common.run_parallel(binary, "TestLongRun", inputs, 2400)


def check_traces(tier, traces, procs, fields, work, tag="t"):
    """Project, validate, classify.  Returns (findings [(key or None = per-user endpoint only, text, replay)], notes, counters)."""
    pend, notes = [], []
    big = tier == "thorough"
    by_id, subs = {}, []
    ntriv = 0
    for tr in traces:
        by_id[tr["t"]] = tr
        ss, findings = project(tr, fields)
        for key, text, ev in findings:
            pend.append((key, "trace %s: %s" % (tr["t"], text), {"kind": "trace", "plans": [tr["plan"]], "event": ev}))
        subs += ss
    ntriv = sum(1 for s in subs if not s[2])
    jobs, workers = (1, 4) if not big else (3, 4)
    # sub-traces with answers of the per-user endpoint are validated a second time without those answers, so that a
    # rejection can be attributed to them (or not)
    batch = [(a, b) for a, b, _ in subs]
    for tr in traces:
        if any(o.get("op") == "user" for g in tr["plan"] for o in g):
            ss, _ = project(tr, fields, drop_user=True)
            has_user = {a for a, l, _ in subs if a.startswith(tr["t"] + "|") and any(x.get("op") == "user" for x in l)}
            batch += [(a + "#nouser", l) for a, l, _ in ss if a in has_user]
    # binding self-test: a recorded history with one returned value corrupted (by more than all traffic of a trace) must
    # be rejected, the original accepted
    selftest = None
    for a, l, nontrivial in subs:
        idx = [i for i, x in enumerate(l) if x["e"] == "call" and x["op"] in ("snap", "reset")]
        if nontrivial and idx:
            bad = json.loads(json.dumps(l))
            x = bad[idx[len(idx) // 2]]
            tgt = x["anon"] if x["anon"] else x["users"]["u"]
            tgt["f"] += 100000
            selftest = a
            batch.append(("selftest|corrupted", bad))
            break
    # strict: whole traces against the full spec; a rejection alone is drift
    plain = [tr for tr in traces if not tr.get("user")][: (8 if not big else 60)]
    users3 = ["u1", "u2", "u3"]
    stsubs = []
    for tr in plain:
        l = strict_trace(tr, fields, users3)
        if l:
            stsubs.append((tr["t"], l))
    strict_consts = dict(Users=tla_set(users3), Fields=tla_seq(fields), Prog="SessionProg")
    with ThreadPoolExecutor(max_workers=2) as ex:
        f1 = ex.submit(validate, work, tag + "p", batch, procs, PROJ, 2400, jobs, workers)
        f3 = ex.submit(validate, work, tag + "s", stsubs, procs, strict_consts, 2400, 1, 2 if not big else 6)
        acc, d1, g1 = f1.result()
        acc3, d3, g3 = f3.result()
    if selftest and "selftest|corrupted" in acc:
        raise vlib.Broken("trace validation self-test: a history with a corrupted snapshot value (copy of %s) was accepted" % selftest)
    rejected = [s for s in subs if s[1] and s[0] not in acc]
    user_rej = 0
    for tid, lines, _ in rejected:
        t, b, f = tid.split("|")
        rep = {"kind": "trace", "subtrace": {"id": tid, "lines": lines}, "procs": procs, "plans": [by_id[t]["plan"]],
               "creds": sorted({o.get("u") for g in by_id[t]["plan"] for o in g if o.get("op") == "user"})}
        if tid + "#nouser" in acc:
            user_rej += 1
            pend.append((None, "trace %s: the answers of GET /servers/s/users/%s for %s are not the figures recorded for that user at any "
                               "instant of the request (the rest of the history of this figure is linearisable)" % (t, b, f), rep))
        else:
            pend.append(("stats.collector/figure-history-not-linearisable",
                         "trace %s: the history of figure %s of bucket %r (concurrent Collect*/Snapshot/SnapshotAndReset calls with "
                         "the values they returned) has no linearisation: traffic was lost, invented, double-counted or "
                         "charged to another bucket" % (t, f, b), rep))
    rej_ids = {s[0].split("|")[0] for s in rejected}
    drift = [t for t, _ in stsubs if t not in acc3 and t not in rej_ids]
    if drift:
        notes.append("%d of %d whole traces are not behaviours of Collector.tla with program order inside calls although every "
                       "figure's history is linearisable (model drift, e.g. the code adds or reads figures in another order); first: %s"
                       % (len(drift), len(stsubs), drift[0]))
    return (pend, notes), {"traces": len(traces), "projections": len(subs), "projections_all_zero": ntriv, "projections_rejected": len(rejected),
            "rejected_only_for_user_endpoint": user_rej, "strict_traces": len(stsubs), "strict_drift": len(drift),
            "selftest_corrupted_history_rejected": bool(selftest),
            "trace_states": d1 + d3, "trace_transitions": g1 + g3}


def add_trace_findings(v, tpend, f13_seen):
    pend, notes = tpend
    for key, text, rep in pend:
        if key is None:
            # only the per-user endpoint's answers do not fit: the same defect the sequential replay pins down, if it did
            key = KEY_F13 if f13_seen else "stats.api/user-answer-not-linearisable"
        if limited(v, key):
            v.violation(key, text, rep)
    v.notes.extend(notes)


def run(tier, seed, replay):
    v = vlib.Verdict("C14", tier, seed, "model_checking")
    work = vlib.scratch("c14")
    binary = vlib.build_driver("c14", work)
    k = common.vconst(work)
    fields = k["StatsTrafficFields"]
    names = {"fields": fields, "userName": k["StatsUserNameField"], "usersField": k["StatsUsersField"]}
    v.coverage["constants_from_code"] = names
    if set(fields) != SPEC_FIELDS:
        raise vlib.Broken("stats.Traffic has the figures %s, Collector.tla (SessionProg) knows %s: the model is out of date"
                          % (fields, sorted(SPEC_FIELDS)))
    if replay:
        return run_replay(v, replay, seed, fields, names, binary, work)
    big = tier == "thorough"

    with ThreadPoolExecutor(max_workers=4) as ex:
        fd = ex.submit(part_design, tier, fields)
        fr = ex.submit(part_replay, tier, seed, fields, names, binary)
        ft = ex.submit(part_traces, tier, seed, fields, names, binary, work)
        fl = ex.submit(part_long, tier, seed, names, binary)
        t0 = time.time()
        louts = fl.result()
        vlib.log("[c14] long runs done %.1fs" % (time.time() - t0))
        touts, traces, tpend, tinfo = ft.result()
        vlib.log("[c14] recording + trace validation done %.1fs" % (time.time() - t0))
        routs, rinfo = fr.result()
        vlib.log("[c14] API replay done %.1fs" % (time.time() - t0))
        designs, selftest = fd.result()
        vlib.log("[c14] design done %.1fs" % (time.time() - t0))

    # (1) design
    states = gen = 0
    v.coverage["design_exhaustive"] = []
    for name, kw, r in designs:
        states += r.distinct
        gen += r.generated
        v.coverage["design_exhaustive"].append({"config": name, "constants": kw, "distinct": r.distinct, "generated": r.generated,
                                                "depth": r.depth, "violated": r.violation, "wall_s": round(r.wall, 1)})
        if r.violation:
            # the collector has no gates: an interleaving of atomic steps cannot be forced on the real code, so a
            # counterexample of the design alone is never reported as a violation
            raise vlib.Broken("Collector.tla (%s) violates %s with the constants of the code; the design model is wrong or out "
                              "of date:\n%s" % (name, r.violation, r.out[-2500:]))
    if selftest.violation != "ApiUserExact":
        raise vlib.Broken("vacuity self-test: with UserEndpointDefect = TRUE TLC should violate ApiUserExact, got %s" % selftest.violation)
    v.coverage["vacuity_selftest"] = "UserEndpointDefect=TRUE violates ApiUserExact after %d states" % selftest.distinct
    if selftest.dead:
        raise vlib.Broken("vacuity: actions %s of Collector.tla never fire in the coverage configuration" % selftest.dead)
    if selftest.dead is not None:
        v.coverage["action_coverage"] = selftest.action_counts

    # (2) sequential API replay
    nbeh = steps = 0
    distinct = 0
    f13 = False
    for outs, what in zip(routs, ("API replay of the sequential state graph", "API replay of simulated histories")):
        for res, out, rc in outs:
            res = absorb(v, res, out, rc, what)
            nbeh += res["behaviours"]
            steps += res["steps"]
            distinct = max(distinct, res.get("distinct", 0))
            f13 = f13 or any(f["key"] == KEY_F13 for f in res["violations"])
    states += rinfo["graph_distinct"]
    gen += rinfo["graph_generated"]
    rinfo.update(behaviours=nbeh, steps=steps, distinct_call_outcomes=distinct)
    v.coverage["api_replay"] = rinfo
    v.coverage["exhaustive"] = rinfo["uncovered_edges"] == 0

    # (3) recorded concurrent traces
    ov = {}
    for res, out, rc in touts:
        res = absorb(v, res, out, rc, "recording concurrent calls")
        for kk, n in res.get("counters", {}).items():
            if kk.startswith("max_overlap_"):
                ov[kk[12:]] = ov.get(kk[12:], 0) + n
    add_trace_findings(v, tpend, f13)
    tinfo["max_calls_in_flight_histogram"] = ov
    v.coverage["trace_validation"] = tinfo
    if traces:
        v.sample({"recorded_trace": traces[0]["t"], "events": traces[0]["events"][:14]})

    # (4) long runs
    sessions = resets = 0
    for res, out, rc in louts:
        res = absorb(v, res, out, rc, "long concurrent runs")
        sessions += res["counters"].get("long_sessions", 0)
        resets += res["counters"].get("long_resets", 0)
    v.coverage["long_runs"] = {"sessions_recorded": sessions, "concurrent_resets": resets}

    v.coverage["states"] = states + tinfo["trace_states"]
    v.coverage["transitions"] = gen + tinfo["trace_transitions"]
    v.coverage["design_states"] = states
    v.coverage["traces_validated_against_impl"] = nbeh + tinfo["traces"]
    v.assumptions += ["sync/atomic operations and sync.RWMutex are linearisable (Go memory model)",
                      "uint64 figures do not overflow",
                      "the recorder's global sequence number orders call starts/ends consistently with real time (it is taken "
                      "before the call starts and after it returns, which can only widen a call's interval)",
                      "interleavings inside the real collector are those the Go scheduler produced (no gates in lock-free code); "
                      "all interleavings are covered on the model only",
                      "the relays call Collect* exactly once per session with the right user name (C11/C13 observe that)"]
    return v.finish()


def run_replay(v, replay, seed, fields, names, binary, work):
    doc = json.load(open(replay))
    f = doc["replay"]
    rep = f.get("replay") or f
    if rep.get("kind") == "trace" or "plans" in rep:
        nval = 0
        procs = rep.get("procs") or ["g1", "g2", "g3", "g4"]
        if rep.get("subtrace"):
            st = rep["subtrace"]
            acc, d, g = validate(work, "r", [(st["id"], st["lines"])], procs, PROJ, 600, jobs=1, workers=1)
            nval += 1
            v.coverage.update(states=d, transitions=g)
            if st["id"] not in acc:
                v.violation(doc["key"], "recorded history %s is rejected again by TraceCollector.tla: %s" % (st["id"], doc.get("text", "")), rep)
        # run the same plan again on the real code (the schedule is the Go scheduler's: this may or may not reproduce)
        if rep.get("plans"):
            out = os.path.join(work, "replay.ndjson")
            users = sorted({o.get("u") for pl in rep["plans"] for g_ in pl for o in g_ if o.get("u")})
            inp = {"seed": seed, "params": {"names": names, "record": {"plans": rep["plans"], "repeat": 200, "users": users,
                                                                        "creds": rep.get("creds") or users, "out": out, "maxAmount": 9}}}
            res, o, rc = vlib.run_driver(binary, "TestRecord", inp, 300)
            absorb(v, res, o, rc, "re-running the recorded plan")
            traces = [json.loads(l) for l in open(out)]
            for tr in traces:
                tr["user"] = True
            tpend, info = check_traces("quick", traces, procs, fields, work, tag="rr")
            add_trace_findings(v, tpend, doc["key"] == KEY_F13)
            nval += info["traces"]
            v.coverage["trace_validation"] = info
            v.coverage["states"] = v.coverage.get("states", 0) + info["trace_states"]
            v.coverage["transitions"] = v.coverage.get("transitions", 0) + info["trace_transitions"]
        v.coverage["traces_validated_against_impl"] = nval
        v.sample(rep.get("subtrace") or rep.get("plans"))
        return v.finish()
    if "long" in rep:
        res, o, rc = vlib.run_driver(binary, "TestLongRun", {"seed": seed, "params": {"names": names, "long": rep["long"]}}, 600)
        absorb(v, res, o, rc, "long run")
        v.coverage.update(states=1, transitions=1, traces_validated_against_impl=res["behaviours"])
        v.sample(rep)
        return v.finish()
    if "actions" not in rep:
        # a crash or a finding of a long run without a plan of its own: run the concurrent drivers again
        louts = part_long("quick", seed, names, binary)
        n = 0
        for res, o, rc in louts:
            res = absorb(v, res, o, rc, "long concurrent runs")
            n += res["behaviours"]
        touts, traces, tpend, tinfo = part_traces("quick", seed, fields, names, binary, work)
        for res, o, rc in touts:
            absorb(v, res, o, rc, "recording concurrent calls")
        add_trace_findings(v, tpend, doc["key"] == KEY_F13)
        v.coverage.update(states=tinfo["trace_states"], transitions=tinfo["trace_transitions"],
                          traces_validated_against_impl=n + tinfo["traces"], trace_validation=tinfo)
        v.sample({"replayed": doc.get("key"), "text": doc.get("text")})
        return v.finish()
    acts = rep["actions"]
    beh = {"steps": [{"a": a} for a in acts]}
    inp = {"behaviours": [beh], "seed": 0, "params": {"names": names, "creds": rep.get("creds") or [], "scales": [rep.get("scale", 1)]}}
    res, o, rc = vlib.run_driver(binary, "TestReplay", inp, 120)
    absorb(v, res, o, rc, "replay")
    v.coverage.update(states=1, transitions=len(acts), traces_validated_against_impl=1)
    v.sample(acts)
    return v.finish()
