"""C08 - users are identified by key; the accepted key set tracks credential changes.
Spec: specs/Cred/CredStore.tla.  Binding: sequential state-graph replay through the real management API handlers,
cred.Manager, ss2022 TCP/UDP cred stores and real handshakes (drivers/c08 TestSeqReplay, virtual clock), and
free-running concurrent API traffic perturbed at the verifhook points with the quiescent agreement oracle (TestStress,
also under the race detector)."""
import json, re
import vlib
from props import common

SPEC = vlib.os.path.join(vlib.VERIF, "specs", "Cred")
CDOT = ["-Dtlc2.tool.impl.Tool.cdot=true"]
ATOMIC_SAVE = '<<"creat_tmp","write_tmp","sync_tmp","rename_tmp_path">>'

BASE = dict(Users='{"A","B"}', Keys='{"k1","k2"}', Stores='{"tcp","udp"}', Procs='{"c1","c2"}', MaxOps=2, MaxEdits=1,
            EditKinds='{"doc","dup","invalid","empty"}', RejectDupKey="TRUE", LiveUnderLock="TRUE", ReadUnderLock="TRUE",
            DrainOnCancel="TRUE", SaveOps=ATOMIC_SAVE, Faults="FALSE", EMIT="", NEXT="Next",
            INVS="ViewsAgree LiveTracksCache AttributionOK OldOrNew AlwaysLoadable AckedThenSaved NoTmpLeft")


def race_reports(out):
    """Data-race reports of the race detector that involve the credential code."""
    reps = []
    for m in re.finditer(r"WARNING: DATA RACE\n(.*?)\n==================", out, re.S):
        body = m.group(1)
        if "/cred/manager.go" in body or "/ss2022/credstore.go" in body:
            reps.append(body[:1500])
    return reps


def run(tier, seed, replay):
    v = vlib.Verdict("C08", tier, seed, "model_checking")
    work = vlib.scratch("c08")
    binary = vlib.build_driver("c08", work)
    big = tier == "thorough"
    if replay:
        doc = json.load(open(replay))
        rp = doc["replay"].get("replay")
        if isinstance(rp, dict) and "round" in rp:
            res, out, rc = vlib.run_driver(binary, "TestStress", {"seed": rp["seed"], "params": {"rounds": rp["round"] + 1}}, 600)
        else:
            beh = {"steps": [{"a": a, "o": None} for a in rp], "cex": True}
            raise vlib.Broken("sequential replay files carry no expected observations; re-run the check with the same VERIF_SEED")
        common.absorb(v, res, out, rc, "replay")
        v.coverage.update(states=1, transitions=1, traces_validated_against_impl=1)
        v.sample(rp)
        return v.finish()

    # (1) design: every interleaving of 2 concurrent API clients, the saver, file edits (fine-grained actions)
    design = dict(BASE)
    if big:
        design.update(MaxOps=3)
    r = vlib.tlc(SPEC, "MCCredStore", "MCCredStore.cfg", design, workers=16, timeout=3000 if big else 900, edges=False,
                 heap="24g" if big else "8g", jvm=CDOT)
    if r.violation:
        raise vlib.Broken("the design spec violates %s with the repaired structure: the model is wrong\n%s" % (r.violation, r.out[-2000:]))
    v.coverage["states"] = r.distinct
    v.coverage["transitions"] = r.generated
    v.coverage["design_exhaustive"] = {"distinct": r.distinct, "generated": r.generated, "depth": r.depth,
                                       "constants": {k: design[k] for k in ("Users", "Keys", "Procs", "MaxOps", "MaxEdits", "EditKinds")}}
    # (1b) the spec is not vacuous: each original defect, switched back on, must violate an invariant
    if big:
        mustfail = {}
        for name, kw in (("RejectDupKey", "ViewsAgree"), ("LiveUnderLock", "LiveTracksCache"), ("ReadUnderLock", "ViewsAgree")):
            c = dict(BASE)
            c[name] = "FALSE"
            rr = vlib.tlc(SPEC, "MCCredStore", "MCCredStore.cfg", c, workers=16, timeout=900, edges=False, jvm=CDOT)
            mustfail[name + "=FALSE"] = rr.violation
            if not rr.violation:
                raise vlib.Broken("sensitivity self-test: %s=FALSE no longer violates any invariant (spec became vacuous)" % name)
        v.coverage["must_fail_configs"] = mustfail

    # (2) sequential replay graph (composite API operations, Flush = complete debounced save)
    seq = dict(BASE)
    seq.update(Procs='{"c1"}', MaxOps=3, MaxEdits=1, NEXT="NextSeq", EMIT="ACTION_CONSTRAINT Emit",
               INVS="ViewsAgree LiveTracksCache AttributionOK OldOrNew AlwaysLoadable")
    if big:
        seq.update(MaxOps=4, MaxEdits=2)
    g = vlib.tlc(SPEC, "MCCredStore", "MCCredStore.cfg", seq, workers=8, timeout=1800, edges=True, jvm=CDOT)
    if g.violation:
        raise vlib.Broken("sequential configuration violates %s" % g.violation)
    graph = vlib.Graph(g)
    paths, left = graph.cover(seed=seed, max_len=12, max_paths=None if big else 1600)
    if big and len(paths) > 30000:
        paths = paths[:30000]
    behs = [graph.behaviour(p) for p in paths]
    v.coverage["replay_graph"] = {"distinct": g.distinct, "edges": len(graph.edges), "paths": len(paths), "uncovered_edges": left}
    nrep, steps, distinct = 0, 0, 0
    for variant, stores in (("tcp+udp", ["tcp", "udp"]), ("tcp", ["tcp"]), ("udp", ["udp"])):
        sub = behs if variant == "tcp+udp" else behs[::7]
        outs = common.run_parallel(binary, "TestSeqReplay",
                                   [{"behaviours": c, "seed": seed + i, "params": {"stores": stores}} for i, c in enumerate(common.chunks(sub, 16))], 1500)
        for res, out, rc in outs:
            res = common.absorb(v, res, out, rc, "sequential replay (%s)" % variant)
            nrep += res["behaviours"]
            steps += res["steps"]
            distinct = max(distinct, res.get("distinct", 0))
    # (3) concurrent API traffic, real scheduling, perturbed at the hook points; plus the race detector
    rounds = 300 if not big else 3000
    tfiles = [vlib.os.path.join(work, "trace-%d.ndjson" % i) for i in range(8)]
    outs = common.run_parallel(binary, "TestStress", [{"seed": seed * 1000 + i, "params": {"rounds": rounds // 8, "trace_out": tfiles[i]}} for i in range(8)], 1500)
    nstress = 0
    for res, out, rc in outs:
        if res is None and ("fatal error" in out or "panic:" in out):
            v.violation("cred.concurrent/crash", "concurrent API traffic crashed the process: " + out[-1500:][:600], {"output": out[-3000:]})
            continue
        res = common.absorb(v, res, out, rc, "concurrent stress")
        nstress += res["behaviours"]
    # (3b) trace validation: every recorded concurrent history must be linearizable w.r.t. the spec's atomic operations
    tdir = vlib.scratch("c08trace")
    tpath = vlib.os.path.join(tdir, "trace.ndjson")
    nev = 0
    with open(tpath, "w") as fo:
        for tf in tfiles:
            if vlib.os.path.exists(tf):
                for line in open(tf):
                    fo.write(line)
                    nev += 1
    if nev:
        tr = vlib.tlc(SPEC, "TraceCredStore", "TraceCredStore.cfg", {}, workers=1, timeout=1500, edges=False, extra_files=[tpath], keep_out=True,
                      jvm=["-Dtlc2.tool.queue.IStateQueue=StateDeque"], dump_trace=False)
        m = re.search(r'"TRACE-HW", (\d+), (\d+)', tr.out)
        if not m:
            raise vlib.Broken("trace validation produced no verdict:\n" + tr.out[-1500:])
        hw, n = int(m.group(1)), int(m.group(2))
        v.coverage["trace_validation"] = {"events": n, "accepted_prefix": hw - 1, "states": tr.distinct}
        if hw != n + 1:
            lines = open(tpath).read().splitlines()
            lo = max(0, hw - 12)
            v.violation("cred.concurrent/not-linearizable", "a recorded concurrent API history is not explained by any order of the specification's atomic "
                        "operations: event %d (%s) cannot follow" % (hw, lines[hw - 1] if hw - 1 < len(lines) else "?"), {"events": lines[lo:hw + 2], "first_rejected_index": hw})
    rbin = vlib.build_driver("c08", vlib.scratch("c08race"), race=True)
    outs = common.run_parallel(rbin, "TestStress", [{"seed": seed * 77 + i, "params": {"rounds": (rounds // 4) // 4}} for i in range(4)], 1500,
                               env_extra={"GORACE": "halt_on_error=0"})
    nrace = 0
    for res, out, rc in outs:
        reps = race_reports(out)
        if reps:
            v.violation("cred.concurrent/data-race", "the race detector reports unsynchronised access to the credential maps under concurrent API "
                        "traffic (a concurrent map read/write is a process crash)", {"report": reps[0]})
        elif res is None:
            raise vlib.Broken("race build stress: no result (rc=%s)\n%s" % (rc, out[-2000:]))
        else:
            for f in res.get("violations", []):
                v.violation(f["key"], f.get("text", ""), f)
            nrace += res["behaviours"]
    # (4) the file view under shutdown: API operations against every phase of the debounced saver (shared with C20)
    from props import c20
    sg = c20.shutdown_model(ATOMIC_SAVE, False)
    nshut, _, nprefix = c20.shutdown_replay(v, work, seed, big, vlib.Graph(sg), limit=150 if not big else 2000, repeat=2)
    v.coverage["shutdown_prefixes_replayed"] = nprefix
    v.coverage["traces_validated_against_impl"] = nrep + nstress + nrace + nshut
    v.coverage["sequential_behaviours_replayed"] = nrep
    v.coverage["replayed_steps"] = steps
    v.coverage["concurrent_rounds"] = nstress
    v.coverage["concurrent_rounds_race_detector"] = nrace
    v.coverage["distinct_step_classes"] = distinct
    v.coverage["exhaustive"] = left == 0
    v.assumptions += ["the structure constants of the spec (live maps updated and file read under the manager lock, duplicate keys refused) "
                      "are bound to the code by replay outcomes, perturbed concurrent runs and the race detector, not derived from it",
                      "AEAD/key derivation are trusted", "universe of 2 users x 2 keys"]
    return v.finish()
