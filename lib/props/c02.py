"""C02 - tampered, spliced or foreign SS2022 TCP traffic is never delivered as data.
Spec: specs/Stream/SS2022Attack.tla.  Binding: the attacker operators of TLC's behaviours are applied
at byte level to recorded genuine sessions and fed to fresh real endpoints (harness/drivers/c02)."""
import json, threading
import vlib
from props import common
from props import c01 as stream

SPEC = stream.SPEC
KEY_AFTER = "stream.tamper/data-after-failed-read"
LOCK = threading.Lock()
ONLY = None

ALL_OPS = '{"Flip","Cut","Drop","Dup","Swap","Splice","Junk","Substitute"}'

CONFIGS = [
    dict(KeyLen=32, Depth=0, ReqPfx=0, RspPfx=0, AllowSeg=False, Fallback=True),
    dict(KeyLen=16, Depth=1, ReqPfx=0, RspPfx=0, AllowSeg=True, Fallback=False),
    dict(KeyLen=16, Depth=0, ReqPfx=37, RspPfx=19, AllowSeg=False, Fallback=False),
    dict(KeyLen=32, Depth=1, ReqPfx=37, RspPfx=19, AllowSeg=True, Fallback=True),
]


def seq(xs):
    return "<<" + ",".join(str(x) for x in xs) + ">>"


def scenario(k, cfg, role, same, long, twobyte=False):
    """Model constants + driver constants of one configuration/role."""
    tag, fix, eih, padmax = k["StreamTag"], k["TCPRequestFixedLengthHeaderLength"], k["IdentityHeaderLength"], k["MaxPaddingLength"]
    al = k["Socks5IPv4AddrLen"]
    if role == "server":
        hdr = cfg["ReqPfx"] + cfg["KeyLen"] + (eih if cfg["Depth"] > 0 else 0) + fix + tag
        # an initial payload of MaxPaddingLength bytes: the request then carries no random padding
        gs, gv = [padmax, 2, 5], [-1, 2, -1]
        xs, xv = [padmax, 2, 7], [-1, 2, -1]
    else:
        hdr = cfg["RspPfx"] + cfg["KeyLen"] + fix + cfg["KeyLen"] + tag
        gs, gv = [3, 2, 5], [-1, 2, -1]
        xs, xv = [2, 2, 7], [2, 2, -1]
        if twobyte:
            # the victim's first payload chunk (the one the response header announces, read by its own code path) is the
            # two bytes 00 02: sealed, it has the size of a length chunk and the value of the next length chunk's size
            gs, gv = [2, 2, 5], [2, 2, -1]
    if long:
        gs, gv = gs + [2, 4], gv + [4, -1]
        xs, xv = xs + [3], xv + [-1]
    haspfx = cfg["ReqPfx" if role == "server" else "RspPfx"] > 0
    model = dict(Role='"%s"' % role, Tag=tag, HdrSz=hdr, HasPfx=stream.boolstr(haspfx), Rq2Extra=al + 2, GSizes=seq(gs), GVals=seq(gv), XSizes=seq(xs), XVals=seq(xv),
                 SameKey=stream.boolstr(same), AllowSeg=stream.boolstr(cfg["AllowSeg"]), Fallback=stream.boolstr(cfg["Fallback"]),
                 Ops=ALL_OPS, JunkSizes=stream.tla_set([1, 2 + tag]))
    drv = dict(cfg)
    drv.update(Role=role, GSizes=gs, GVals=gv, XSizes=xs, XVals=xv, SameKey=same, Tag=tag, HdrSz=hdr, AddrLen=al)
    return model, drv


def name_of(cfg, role, same):
    return "%s/%s/%s" % (stream.cfg_name(cfg) + ("/fb" if cfg["Fallback"] else ""), role, "samekey" if same else "foreignkey")


def run(tier, seed, replay_file):
    v = vlib.Verdict("C02", tier, seed, "model_checking")
    work = vlib.scratch("c02")
    binary = vlib.build_driver("c02", work)
    if replay_file:
        doc = json.load(open(replay_file))
        rp = doc["replay"].get("replay") or doc["replay"].get("Replay") or doc["replay"]
        beh = {"steps": [{"a": a} for a in rp["steps"]], "cex": True}
        dc = dict(rp["consts"])
        res, out, rc = vlib.run_driver(binary, "TestAttack", {"behaviours": [beh], "seed": seed, "consts": {"cfg": dc}}, 300)
        common.absorb(v, res, out, rc, "replay")
        v.coverage.update(states=1, transitions=len(rp["steps"]), traces_validated_against_impl=1)
        v.sample(rp["steps"][:12])
        return v.finish()

    k = common.vconst(work)
    if "StreamProbeError" in k:
        raise vlib.Broken("vconst could not probe the stream constants: " + k["StreamProbeError"])
    big = tier == "thorough"
    per, par = stream.budget(big)
    tot = dict(states=0, transitions=0, behaviours=0, steps=0, variants=0, distinct=0)
    detail = {}
    conc = dict(FlipAll=big, FlipSample=8 if not big else 64, CutAll=big, CutSample=12, MaxVariant=0)

    def account(name, r, extra=None):
        with LOCK:
            tot["states"] += r.distinct
            tot["transitions"] += r.generated
            d = {"distinct": r.distinct, "generated": r.generated, "depth": r.depth, "wall_s": round(r.wall, 1), "violated": r.violation}
            d.update(extra or {})
            detail[name] = d

    def feed(what, drv, behs, nproc=4):
        if not behs:
            return
        for i, b in enumerate(behs):
            b["id"] = i + 1
        dc = dict(drv)
        dc.update(conc, Seed=seed)
        outs = common.run_parallel(binary, "TestAttack", [{"behaviours": c, "seed": seed, "consts": {"cfg": dc}} for c in common.chunks(behs, nproc)], 1500)
        with LOCK:
            for res, out, rc in outs:
                res = common.absorb(v, res, out, rc, what)
                tot["behaviours"] += res["behaviours"]
                tot["steps"] += res["steps"]
                tot["variants"] += res.get("counters", {}).get("variants", 0)
                tot["distinct"] = max(tot["distinct"], res.get("distinct", 0))

    def design(name, cfg, role, same, maxops, long=False):
        """The design the property needs (a failed read is final): exhaustive for <= maxops operators."""
        model, _ = scenario(k, cfg, role, same, long)
        model.update(Latch="TRUE", MaxOps=maxops, MaxReads=len(model["GSizes"]) + 3, EMIT="")
        r = vlib.tlc(SPEC, "MCSS2022Attack", "MCSS2022Attack.cfg", model, workers=per, timeout=2400, edges=False, heap="6g")
        account(name, r)
        if r.violation:
            raise vlib.Broken("the design violates %s in %s: %s" % (r.violation, name, r.out[-1500:]))

    def graph(name, cfg, role, same, maxops, max_paths, long=False, ascoded=False):
        """Every edge of the state graph is replayed at byte level on the real endpoint.  The graph is that of
        the model variant the code follows: the design (a failed read is final) if the after-failure
        counterexample is not reproduced, else the code as it is (without the invariants that variant breaks)."""
        model, drv = scenario(k, cfg, role, same, long, twobyte=ascoded)
        # ascoded: the graph of the variant WITHOUT error latching, whatever the code follows -- every continuation after every
        # failed call (first payload chunk, length chunk, payload chunk, header) is then tried on the real endpoint, which must
        # keep failing; where the model delivers data the driver notes drift, and reports a violation only for bytes that the real
        # endpoint returns and the genuine peer did not send
        latched = state["latched"] and not ascoded
        model.update(Latch=stream.boolstr(latched), MaxOps=maxops, MaxReads=len(drv["GSizes"]) + 3, EMIT="ACTION_CONSTRAINT Emit")
        g = vlib.tlc(SPEC, "MCSS2022Attack", "MCSS2022Attack.cfg" if latched else "MCSS2022AttackAsCoded.cfg", model, workers=per,
                     timeout=2400, edges=True, heap="6g")
        if g.violation:
            raise vlib.Broken("the %s model violates %s in %s: %s" % ("design" if latched else "as-coded", g.violation, name, g.out[-1500:]))
        gr = vlib.Graph(g)
        paths, left = gr.cover(seed=seed, max_len=16, max_paths=max_paths)
        feed("attack replay " + name, drv, [gr.behaviour(p) for p in paths])
        account(name, g, {"edges": len(gr.edges), "paths_replayed": len(paths), "uncovered_edges": left})

    def after_failure_cex(name, cfg, role, same):
        """As coded, TLC finds a delivery of foreign bytes after a failed read (no error latching, no domain
        separation between length and payload chunks); it counts only if the real endpoint reproduces it."""
        model, drv = scenario(k, cfg, role, same, False)
        model.update(Latch="FALSE", MaxOps=1, MaxReads=6, EMIT="")
        r = vlib.tlc(SPEC, "MCSS2022Attack", "MCSS2022Attack.cfg", model, workers=per, timeout=1200, edges=False, heap="4g")
        account(name, r)
        if r.violation != "OnlyGenuinePrefix":
            raise vlib.Broken("the as-coded variant (Latch=FALSE) should violate OnlyGenuinePrefix in %s, TLC says %s" % (name, r.violation))
        beh = vlib.cex_behaviour(r.trace)
        dc = dict(drv)
        dc.update(conc, Seed=seed)
        res, out, rcode = vlib.run_driver(binary, "TestAttack", {"behaviours": [beh], "seed": seed, "consts": {"cfg": dc}}, 300)
        with LOCK:
            res = common.absorb(v, res, out, rcode, "after-failure counterexample")
            tot["behaviours"] += 1
            detail[name]["reproduced_on_code"] = bool(res["violations"])
            if role == "client":
                state["latched"] = not res["violations"]
            if not res["violations"]:
                v.notes.append("%s: the TLC counterexample of the as-coded variant (data delivered by a Read that follows a failed Read) "
                               "is not reproduced by the real endpoint" % name)

    n = len(CONFIGS)
    primary = CONFIGS[seed % n]
    state = {"latched": False}
    # which variant does the code follow?  (decides which state graph predicts the real endpoint)
    after_failure_cex("cex-client", primary, "client", True)
    second = CONFIGS[(seed + 1 + seed // n) % n]
    jobs = []
    if not big:
        # two operators for one role (by seed), one for the other: the thorough tier does both with two
        jobs.append(("design-client", design, ("design-client", primary, "client", True, 2 if seed % 2 else 1)))
        jobs.append(("design-server", design, ("design-server", primary, "server", seed % 3 != 0, 1 if seed % 2 else 2)))
        jobs.append(("graph-client", graph, ("graph-client", primary, "client", True, 1, None)))
        jobs.append(("graph-server", graph, ("graph-server", primary, "server", True, 1, None)))
        jobs.append(("graph-client-foreign", graph, ("graph-client-foreign", second, "client", False, 1, 400)))
        # always one server with a fallback address: the fallback payload is held while other connections are handled
        fbcfg = CONFIGS[3] if primary is CONFIGS[0] else CONFIGS[0]
        jobs.append(("graph-server-foreign", graph, ("graph-server-foreign", fbcfg, "server", False, 1, 400)))
        # ... and always the one that also reads identity headers (what the server does to the handshake buffer before it
        # knows the user is part of what the fallback must receive untouched)
        if fbcfg is not CONFIGS[3] and primary is not CONFIGS[3]:
            jobs.append(("graph-server-foreign-eih", graph, ("graph-server-foreign-eih", CONFIGS[3], "server", False, 1, 300)))
    else:
        for ci, cfg in enumerate(CONFIGS):
            for role in ("client", "server"):
                for same in (True, False):
                    nm = "%s-%s-%d" % (role, "same" if same else "foreign", ci)
                    if cfg is primary:
                        jobs.append(("design-" + nm, design, ("design-" + nm, cfg, role, same, 2, True)))
                        jobs.append(("graph2-" + nm, graph, ("graph2-" + nm, cfg, role, same, 2, 2500)))
                    jobs.append(("graph-" + nm, graph, ("graph-" + nm, cfg, role, same, 1, None, cfg is primary)))
        jobs.append(("cex-server", after_failure_cex, ("cex-server", primary, "server", True)))
    # after-failure sweep: all continuations of the unlatched variant, victim with the two-byte first payload
    jobs.append(("ascoded-client-2b", graph, ("ascoded-client-2b", primary, "client", True, 1, None if big else 1200, False, True)))
    if ONLY:
        jobs = [j for j in jobs if j[0] in ONLY]
    from concurrent.futures import ThreadPoolExecutor
    errs = []
    with ThreadPoolExecutor(max_workers=par) as ex:
        futs = [(name, ex.submit(fn, *args)) for name, fn, args in jobs]
        for name, f in futs:
            try:
                f.result()
            except vlib.Broken as e:
                errs.append("%s: %s" % (name, e))
    if errs:
        raise vlib.Broken("; ".join(errs)[:6000])
    v.coverage["states"] = tot["states"]
    v.coverage["transitions"] = tot["transitions"]
    v.coverage["traces_validated_against_impl"] = tot["variants"]
    v.coverage["behaviours_replayed"] = tot["behaviours"]
    v.coverage["tampered_sessions"] = tot["variants"]
    v.coverage["distinct_call_outcomes"] = tot["distinct"]
    v.coverage["runs"] = detail
    v.coverage["primary_configuration"] = name_of(primary, "both", True)
    v.assumptions += ["AEAD: a byte string opens iff it is one whole unmodified frame sealed under the reader's session subkey with "
                      "the reader's current nonce (kind-blind); observed on every tampered session replayed",
                      "the attacker has no key of the victim session; timestamps of recorded sessions are fresh",
                      "replay of a whole untouched handshake on a new connection is property C03, not C02"]
    return v.finish()
