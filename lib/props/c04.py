"""C04 - authenticated UDP packets are delivered at most once; fresh ones are never refused.
Specs: specs/Replay/SlidingWindow.tla (the filter, ring explicit next to the ghost set) and
specs/Replay/UdpSession.tla (server / client unpacker session logic).
Binding (drivers/c04): TLC behaviours replayed into the real ss2022.SlidingWindowFilter (three translation
bases, the last one ending at 2^64-1) and into the real Shadow packet unpackers obtained through
UDPServer / UDPClient with packets of the real packers, under the synctest clock; plus the property's own
ghost-set oracle over every sequence of the model's alphabet up to the depth of the quantifier."""
import json, os, re, subprocess, time, random
from concurrent.futures import ThreadPoolExecutor
import vlib
from props import common

SPEC = os.path.join(vlib.VERIF, "specs", "Replay")
SIZES = [1, 2, 63, 64, 65, 128, 256, 1000]
BASES = ["0", "2^32", "hi"]
# Apalache instances: the two smallest windows with the code's block width and ring length; two scaled ones (4-bit blocks, ring length
# by the documented formula) where the window spans several blocks and where it does not fill the ring
APALACHE_SIZES = [1, 2]
APALACHE_SCALED = [(5, 4, 4), (9, 4, 4)]
SRV_KINDS = '{"good","forged","hdrflip","badtype"}'
CLI_KINDS = '{"good","forged","hdrflip","badtype","foreign"}'


def alphabet(S, B, RB):
    """Boundary alphabet of counters for window size S: around 0, block edges, ring wrap (one and two
    periods), the window edge above 0 (S-1 .. S+1).  The window edge below the current newest counter is
    presented through the relative offsets rel_edge(S)."""
    R = RB * B
    ids = {0, 1, 2, B - 1, B, B + 1, 2 * B - 1, 2 * B, 2 * B + 1, R - 1, R, R + 1, 2 * R - 1, 2 * R, 2 * R + 1, S - 1, S, S + 1}
    return sorted(i for i in ids if i >= 0)


def rel_edge(S):
    return [-S - 1, -S, -S + 1]


def rel_walk(S, B, RB):
    """Offsets for the deep random behaviours: the window slides for ever."""
    R = RB * B
    return sorted(set(rel_edge(S) + [-R, -B, -(S // 2) - 1, -1, 0, 1, 2, B - 1, B, B + 1, S - 1, S, S + 1, R - 1, R, R + 1, 2 * R + 1]))


def tla_set(xs):
    return "{%s}" % ",".join(("(%d)" % x) if x < 0 else str(x) for x in xs)


def tla_fun(d, f):
    return "(" + " @@ ".join("%d :> %s" % (key, f(d[key])) for key in sorted(d)) + ")"


def filter_consts(sizes, B, ring, max_acc, max_reset, queries, emit, rel=rel_edge):
    ids = {S: alphabet(S, B, ring[S]) for S in sizes}
    return dict(Sizes=tla_set(sizes), B=B, RingBlocksOf=tla_fun({S: ring[S] for S in sizes}, str), IdsOf=tla_fun(ids, tla_set),
                RelOf=tla_fun({S: rel(S) for S in sizes}, tla_set),
                QueriesOf=tla_fun(ids, (lambda x: tla_set(x)) if queries else (lambda x: "{}")), MaxAcc=max_acc, MaxReset=max_reset,
                EMIT="ACTION_CONSTRAINT Emit" if emit else "")


def sess_consts(k, side, emit=False, **kw):
    c = dict(D=k["D"], Guard=60, NatTimeout=k["Nat"], W=2, MaxPid=2, MaxPack=3, MaxAdv=3, Skews="{0}", Deltas="{1,90,93,180,183}",
             SrvKinds=SRV_KINDS, CliKinds=CLI_KINDS,
             CSess='{"c1"}' if side in ("server", "both") else "{}",
             SOrder='<<"s1","s2","s3">>' if side in ("client", "both") else "<<>>",
             EMIT="ACTION_CONSTRAINT Emit" if emit else "")
    c.update(kw)
    return c


def apalache_inductive(work, S, B, RB, timeout=900, tag="code"):
    """Unbounded counters: SlidingWindowInd.tla's IndInv is inductive (base + step) for the filter of size S with the
    ring length RB read from the compiled code -- Apalache, all naturals for `last` and the presented counter."""
    d = os.path.join(work, "apalache-%s-%d" % (tag, S))
    os.makedirs(d, exist_ok=True)
    src = open(os.path.join(SPEC, "SlidingWindowInd.tla")).read()
    src, n = re.subn(r"CInit == .*", "CInit == Size = %d /\\ B = %d /\\ RingBlocks = %d" % (S, B, RB), src)
    if n != 1:
        raise vlib.Broken("SlidingWindowInd.tla: CInit not found")
    open(os.path.join(d, "SlidingWindowInd.tla"), "w").write(src)
    res = {"size": S, "B": B, "ring_blocks": RB, "constants": tag}
    env = dict(os.environ)
    env.pop("JAVA_TOOL_OPTIONS", None)
    # the launcher makes a SANYxxxx directory with mktemp on every start: keep that litter inside the scratch directory
    env["TMPDIR"] = d
    for name, init, length in (("base", "Init", 0), ("step", "IndInit", 1)):
        t0 = time.time()
        try:
            p = subprocess.run(["apalache-mc", "check", "--cinit=CInit", "--init=" + init, "--inv=IndInv", "--length=%d" % length,
                                "--out-dir=" + os.path.join(d, "out-" + name), "SlidingWindowInd.tla"], cwd=d, env=env,
                               stdout=subprocess.PIPE, stderr=subprocess.STDOUT, text=True, timeout=timeout)
            m = re.search(r"The outcome is: (\w+)", p.stdout)
            res[name] = m.group(1) if m else "failed(exit %d)" % p.returncode
        except subprocess.TimeoutExpired:
            res[name] = "timeout"
        res[name + "_s"] = round(time.time() - t0, 1)
    res["inductive"] = res.get("base") == "NoError" and res.get("step") == "NoError"
    return res



def replay_one(v, binary, doc, seed):
    obj = doc["replay"].get("replay") or doc["replay"]
    test = obj.get("test")
    if test == "TestFilter":
        inp = {"behaviours": [{"init": obj.get("init"), "steps": obj["steps"], "cex": True}], "seed": seed, "params": {"filter": obj["filter"]}}
        n = len(obj["steps"])
    elif test == "TestFilterDFS":
        inp = {"seed": seed, "params": {"dfs": obj["dfs"]}}
        n = 1
    elif test == "TestSession":
        inp = {"behaviours": [{"steps": obj["steps"], "cex": True, "id": obj.get("behaviour", 0)}], "seed": obj.get("seed", seed),
               "params": {"session": obj["session"]}}
        n = len(obj["steps"])
    else:
        raise vlib.Broken("replay file does not name a driver test")
    res, out, rc = vlib.run_driver(binary, test, inp, 600)
    common.absorb(v, res, out, rc, "replay")
    v.coverage.update(states=1, transitions=n, traces_validated_against_impl=1)
    v.sample(obj.get("steps", obj.get("dfs"))[:40] if isinstance(obj.get("steps", obj.get("dfs")), list) else obj)
    return v.finish()


def run(tier, seed, replay):
    v = vlib.Verdict("C04", tier, seed, "model_checking")
    work = vlib.scratch("c04")
    binary = vlib.build_driver("c04", work)
    if replay:
        return replay_one(v, binary, json.load(open(replay)), seed)

    big = tier == "thorough"
    # several JVMs run side by side: keep each one's GC team small
    os.environ.setdefault("JAVA_TOOL_OPTIONS", "-XX:ParallelGCThreads=3")
    kc = common.vconst(work)
    B = int(kc["SwfBlockBits"])
    nat_ns = int(kc["UDPMinNATTimeoutNs"])
    k = {"D": int(kc["MaxEpochDiff"]), "Nat": nat_ns // 10**9}
    ring = {}
    formula_used = []
    for S in SIZES:
        rb = int(kc["SwfRingBlocks"].get(str(S), -1))
        if rb <= 0:
            rb = (1 << (S + B - 1).bit_length()) // B
            formula_used.append(S)
        ring[S] = rb
    v.coverage["constants_from_code"] = {"SwfBlockBits": B, "SwfRingBlocks": {str(s): ring[s] for s in SIZES}, "MaxEpochDiff": k["D"],
                                         "UDPMinNATTimeoutNs": nat_ns, "Guard_s": 60}
    if formula_used:
        v.notes.append("ring length not readable from the compiled filter for sizes %s; the documented formula was used" % formula_used)
    if nat_ns % 10**9:
        v.notes.append("MinNATTimeout is not a whole number of seconds; the model uses the floor (earliest eviction)")
    v.assumptions += ["AEAD, AES and key derivation are correct (a flipped bit fails authentication)",
                      "packet ids never wrap past 2^64-1 (the code makes the same assumption)",
                      "time advances only through the synctest virtual clock; an unpacker is used by one goroutine at a time (as in the relays)",
                      "the client's one-minute guard is the literal time.Minute of packet.go (not readable from the compiled code)"]

    # ------------------------------------------------------------------ TLC jobs
    jobs = []   # (name, kind, thunk)

    # development aid (mutation experiments on a busy machine): VERIF_C04_PARTS=filter|session restricts the run to one layer;
    # the registered commands never set it
    parts = set((os.environ.get("VERIF_C04_PARTS") or "filter,session").split(","))

    def add(name, kind, **kw):
        layer = "filter" if kw["module"].endswith("SlidingWindow") else "session"
        if layer in parts:
            jobs.append((name, kind, kw))

    # (F1) design, exhaustive over the boundary alphabets of all window sizes (the size is chosen by the constructor = Init),
    #      up to MaxAcc accepted counters per epoch (refused calls are free)
    if big:
        # depth 6 for the four sizes with a two-block ring, depth 5 for the larger rings (their alphabets are larger); the real
        # filter is taken to depth 6 for every size by the ghost-set enumeration below
        small = [1, 2, 63, 64]
        add("filter-design-6", "design", module="MCSlidingWindow", cfg="MCSlidingWindow.cfg",
            consts=filter_consts(small, B, ring, 6, 1, False, False), workers=6, timeout=14000, heap="8g")
        add("filter-design-5", "design", module="MCSlidingWindow", cfg="MCSlidingWindow.cfg",
            consts=filter_consts([S for S in SIZES if S not in small], B, ring, 5, 1, False, False), workers=6, timeout=14000, heap="8g")
    else:
        add("filter-design", "design", module="MCSlidingWindow", cfg="MCSlidingWindow.cfg",
            consts=filter_consts(SIZES, B, ring, 3, 1, True, False), workers=6, timeout=3000, heap="4g")
    # (F2) replay graph: every state with <= n accepted counters, every call from it
    if big:
        add("filter-graph-a", "fgraph", module="MCSlidingWindow", cfg="MCSlidingWindow.cfg",
            consts=filter_consts([1, 2, 64, 128], B, ring, 3, 1, False, True), workers=2, timeout=14000, heap="6g")
        add("filter-graph-b", "fgraph", module="MCSlidingWindow", cfg="MCSlidingWindow.cfg",
            consts=filter_consts([63, 65, 256, 1000], B, ring, 2, 1, False, True), workers=2, timeout=14000, heap="6g")
    else:
        add("filter-graph", "fgraph", module="MCSlidingWindow", cfg="MCSlidingWindow.cfg",
            consts=filter_consts(SIZES, B, ring, 2, 0, False, True), workers=3, timeout=3000, heap="4g")
    # (F3) deep random behaviours (resets, hundreds of counters, a window that keeps sliding)
    simc = filter_consts(SIZES, B, ring, 1000, 4, False, False, rel=lambda S: rel_walk(S, B, ring[S]))
    simc["QueriesOf"] = tla_fun({S: [0] for S in SIZES}, tla_set)      # the one IsOk query that ends (and prints) a trace
    simc["Len"] = 120 if big else 80
    add("filter-sim", "fsim", module="SimSlidingWindow", cfg="SimSlidingWindow.cfg", consts=simc, workers=8 if big else 2, timeout=14000 if big else 3000,
        simulate="num=%d" % (120 if big else 16), depth=simc["Len"] + 1, seed=seed, heap="6g", keep_out=True)

    dl_srv = "{1,90,93,180,%d}" % (3 * k["Nat"])
    dl_cli = "{1,90,93,179,180}"
    if not big:
        add("server-design", "design", module="MCUdpSession", cfg="MCUdpSession.cfg",
            consts=sess_consts(k, "server", MaxPid=3, MaxPack=3, MaxAdv=3, Skews="{0,30}", Deltas=dl_srv), workers=3, timeout=3000, heap="4g")
        add("client-design", "design", module="MCUdpSession", cfg="MCUdpSession.cfg",
            consts=sess_consts(k, "client", MaxPid=2, MaxPack=3, MaxAdv=3, Deltas=dl_cli), workers=3, timeout=3000, heap="4g")
        add("server-graph", "sgraph", module="MCUdpSession", cfg="MCUdpSession.cfg",
            consts=sess_consts(k, "server", True, MaxPid=2, MaxPack=2, MaxAdv=2, Skews="{0,30}", Deltas=dl_srv), workers=2, timeout=3000, heap="4g")
        add("client-graph", "sgraph", module="MCUdpSession", cfg="MCUdpSession.cfg",
            consts=sess_consts(k, "client", True, MaxPid=2, MaxPack=3, MaxAdv=3, Deltas="{179,180}"), workers=2, timeout=3000, heap="4g")
    else:
        add("server-design", "design", module="MCUdpSession", cfg="MCUdpSession.cfg",
            consts=sess_consts(k, "server", CSess='{"c1","c2"}', MaxPid=3, MaxPack=3, MaxAdv=3, Skews="{0,30}", Deltas=dl_srv),
            workers=4, timeout=14000, heap="8g")
        add("server-design-w3", "design", module="MCUdpSession", cfg="MCUdpSession.cfg",
            consts=sess_consts(k, "server", W=3, MaxPid=5, MaxPack=5, MaxAdv=2, Skews="{0}", Deltas="{93,%d}" % (3 * k["Nat"])),
            workers=3, timeout=14000, heap="6g")
        add("client-design", "design", module="MCUdpSession", cfg="MCUdpSession.cfg",
            consts=sess_consts(k, "client", MaxPid=2, MaxPack=4, MaxAdv=4, Deltas="{1,93,179,180}"), workers=6, timeout=14000, heap="10g")
        add("client-design-skew", "design", module="MCUdpSession", cfg="MCUdpSession.cfg",
            consts=sess_consts(k, "client", MaxPid=2, MaxPack=3, MaxAdv=4, Skews="{0,30}", Deltas="{1,179,180}"), workers=3, timeout=14000, heap="6g")
        add("server-graph", "sgraph", module="MCUdpSession", cfg="MCUdpSession.cfg",
            consts=sess_consts(k, "server", True, MaxPid=3, MaxPack=3, MaxAdv=2, Skews="{0,30}", Deltas=dl_srv), workers=2, timeout=14000, heap="6g")
        add("client-graph", "sgraph", module="MCUdpSession", cfg="MCUdpSession.cfg",
            consts=sess_consts(k, "client", True, MaxPid=2, MaxPack=3, MaxAdv=3, Deltas="{93,179,180}"), workers=2, timeout=14000, heap="6g")
    # (S-guard) the client's one-minute guard against junk, small enough to be covered completely in both tiers: three server
    # sessions with one packet each, genuine and forged deliveries, clock steps 1 tick / 60 s - 1 ns / 60 s.  Every behaviour
    # of this graph is replayed with forged copies of every packet (ids of the current, the old and unknown sessions) after
    # every step, and once more without them: e.g. change s1->s2, junk carrying s1's id within the next minute, change to s3
    # more than 60 s after the first change but less than 60 s after the junk.
    add("client-guard-graph", "sguard", module="MCUdpSession", cfg="MCUdpSession.cfg",
        consts=sess_consts(k, "client", True, MaxPid=1, MaxPack=3, MaxAdv=3, Deltas="{1,179,180}", CliKinds='{"good","forged"}'),
        workers=2, timeout=14000 if big else 3000, heap="4g")
    add("both-sim", "ssim", module="MCUdpSession", cfg="MCUdpSession.cfg",
        consts=sess_consts(k, "both", True, CSess='{"c1","c2"}', MaxPid=4, MaxPack=12, MaxAdv=8, Skews="{-30,0,30}",
                           Deltas="{1,2,87,90,93,177,179,180,183,186}"),
        workers=1, timeout=3000, simulate="num=%d" % (400 if big else 60), depth=45, seed=seed, heap="4g", edge_limit=400000)

    def do_tlc(job):
        name, kind, kw = job
        kw = dict(kw)
        t0 = time.time()
        r = vlib.tlc(SPEC, kw.pop("module"), kw.pop("cfg"), kw.pop("consts"), edges=kind != "design", **kw)
        vlib.log("[tlc] %-22s distinct=%d generated=%d edges=%d %.1fs" % (name, r.distinct, r.generated, len(r.edges), time.time() - t0))
        return r

    states = transitions = 0
    tlc_summary = {}
    fbehs = []                          # filter behaviours
    sbehs = []                          # session behaviours
    gbehs = []                          # session behaviours replayed with probes after every step (guard graph)
    uncovered = 0
    cexs = []
    pool = ThreadPoolExecutor(max_workers=6 if big else 8)
    futs = [(job, pool.submit(do_tlc, job)) for job in jobs]
    # unbounded counters (thorough): Apalache discharges the inductive invariant for a small window on a two-block ring and for
    # one whose window does not fill its ring, with the ring lengths of the compiled filter
    apa = ([pool.submit(apalache_inductive, work, S, B, ring[S]) for S in APALACHE_SIZES if S in ring] +
           [pool.submit(apalache_inductive, work, *t, tag="scaled") for t in APALACHE_SCALED]) if big and "filter" in parts else []
    for (name, kind, kw), fut in futs:
        r = fut.result()
        if not kw.get("simulate"):
            states += r.distinct
            transitions += r.generated
        tlc_summary[name] = {"distinct": r.distinct, "generated": r.generated, "depth": r.depth, "violated": r.violation,
                             "constants": {x: y for x, y in kw["consts"].items() if x not in ("EMIT", "IdsOf", "QueriesOf", "RelOf")}}
        if r.violation:
            cexs.append((name, kind, kw, r))
            continue
        if kind == "design":
            continue
        if kind == "fsim":
            # one printed line per simulated trace
            lines = [l for l in r.out.splitlines() if l.startswith('"TRACE ')]
            behs = [json.loads(json.loads(l)[6:]) for l in lines]
            if not behs:
                raise vlib.Broken("the filter simulation printed no behaviour:\n" + r.out[-1500:])
            tlc_summary[name].update(walks=len(behs), length=len(behs[0]["steps"]))
            fbehs += behs
            continue
        g = vlib.Graph(r)
        if kind in ("fgraph", "sgraph", "sguard"):
            full = big or kind == "sguard"
            paths, left = g.cover(seed=seed, max_len=14 if kind == "fgraph" else 16, max_paths=None if full else 1500)
            if full:
                uncovered += left
            tlc_summary[name].update(edges=len(g.edges), paths=len(paths), uncovered_edges=left)
        else:
            paths = list({tuple(w): w for w in g.random_walks(1500 if big else 250, 45, seed=seed)}.values())
            tlc_summary[name].update(edges=len(g.edges), walks=len(paths))
        behs = [g.behaviour(p) for p in paths]
        if kind == "sguard":
            gbehs += behs
        elif kind == "fgraph":
            fbehs += behs
        else:
            sbehs += behs
        del g, r
    pool.shutdown()
    v.coverage["states"] = states
    v.coverage["transitions"] = transitions
    v.coverage["tlc"] = tlc_summary

    # ------------------------------------------------------------------ counterexamples of the design must reproduce on the code
    nrep = 0
    fprm = {"bases": BASES, "sizes": {str(S): {"ids": alphabet(S, B, ring[S]), "ringBits": ring[S] * B, "rel": rel_walk(S, B, ring[S])} for S in SIZES}}
    sess_prm = {"w": 2, "natTimeout": k["Nat"], "guard": 60, "d": k["D"]}
    for name, kind, kw, r in cexs:
        beh = vlib.cex_behaviour(r.trace, obs=(lambda st: {"size": st.get("size")}) if kw["module"].endswith("SlidingWindow") else None)
        if kw["module"].endswith("SlidingWindow"):
            res, out, rc = vlib.run_driver(binary, "TestFilter", {"behaviours": [beh], "seed": seed, "params": {"filter": fprm}}, 300)
        else:
            prm = dict(sess_prm, w=int(kw["consts"]["W"]))
            res, out, rc = vlib.run_driver(binary, "TestSession", {"behaviours": [beh], "seed": seed, "params": {"session": prm}}, 300)
        res = common.absorb(v, res, out, rc, "design counterexample %s (%s)" % (name, r.violation))
        nrep += 1
        if not res["violations"]:
            raise vlib.Broken("TLC violates %s in %s with the code's constants but the real code does not reproduce it: %s"
                              % (r.violation, name, [d.get("text") for d in res["drift"][:3]]))

    # ------------------------------------------------------------------ replay: filter
    inputs = [{"behaviours": c, "seed": seed + i, "params": {"filter": fprm}} for i, c in enumerate(common.chunks(fbehs, 16)) if c]
    t0 = time.time()
    outs = common.run_parallel(binary, "TestFilter", inputs, 3600) if inputs else []
    vlib.log("[replay] filter: %d behaviours %.1fs" % (len(fbehs), time.time() - t0))
    fsteps = fdist = 0
    for res, out, rc in outs:
        res = common.absorb(v, res, out, rc, "filter replay")
        nrep += res["behaviours"]
        fsteps += res["steps"]
        fdist += res.get("distinct", 0)
        v.add("filter_runs", res["counters"].get("filter_runs", 0))

    # ------------------------------------------------------------------ the property's ghost-set oracle over every sequence (real filter)
    depth = 6 if big else 4
    dfs = []
    for S in (SIZES if "filter" in parts else []):
        ids = alphabet(S, B, ring[S])
        for bk in BASES:
            for mode in ("Add", "CheckAdd"):
                # besides the window edge below the newest counter, one far jump ahead (2^40+65: many ring periods at once)
                dfs.append({"size": S, "ids": ids, "ringBits": ring[S] * B, "base": bk, "mode": mode, "depth": depth,
                            "rel": rel_edge(S) + [(1 << 40) + B + 1]})
    dfs.sort(key=lambda j: -(len(j["ids"]) ** j["depth"]))
    nproc = 16
    buckets = [[] for _ in range(nproc)]
    load = [0] * nproc
    for j in dfs:
        i = load.index(min(load))
        buckets[i].append(j)
        load[i] += len(j["ids"]) ** j["depth"]
    t0 = time.time()
    outs = common.run_parallel(binary, "TestFilterDFS", [{"seed": seed, "params": {"dfs": b}} for b in buckets if b], 14000)
    vlib.log("[dfs] %d jobs depth %d %.1fs" % (len(dfs), depth, time.time() - t0))
    seqs = verdicts = 0
    for res, out, rc in outs:
        res = common.absorb(v, res, out, rc, "filter exhaustive sequences")
        seqs += res["counters"].get("dfs_sequences", 0)
        verdicts += res["counters"].get("dfs_verdicts", 0)
        if res["counters"].get("accepted_behind_window"):
            v.notes.append("the real filter accepted %d never-seen counters behind the window (allowed by the property, not by the model)"
                           % res["counters"]["accepted_behind_window"])
    v.coverage["filter_exhaustive_on_code"] = {"depth": depth, "jobs": len(dfs), "sequences": seqs, "verdicts_checked": verdicts,
                                               "bases": BASES, "modes": ["Add", "IsOk+MustAdd"]}

    # ------------------------------------------------------------------ replay: sessions
    t0 = time.time()
    for i, b in enumerate(sbehs + gbehs):
        b["id"] = i + 1
    outs = common.run_parallel(binary, "TestSession",
                               [{"behaviours": c, "seed": seed, "params": {"session": sess_prm}} for c in common.chunks(sbehs, 12) if c] +
                               [{"behaviours": c, "seed": seed, "params": {"session": dict(sess_prm, probeAll=True)}}
                                for c in common.chunks(gbehs, 4) if c], 3600)
    vlib.log("[replay] sessions: %d behaviours %.1fs" % (len(sbehs) + len(gbehs), time.time() - t0))
    ssteps = sdist = twins = probes = 0
    for res, out, rc in outs:
        res = common.absorb(v, res, out, rc, "session replay")
        nrep += res["behaviours"]
        ssteps += res["steps"]
        sdist = max(sdist, res.get("distinct", 0))
        twins += res["counters"].get("twin_runs", 0)
        probes += res["counters"].get("probes", 0)
    v.coverage["traces_validated_against_impl"] = nrep
    v.coverage["replay"] = {"filter_behaviours": len(fbehs), "filter_steps_x_bases": fsteps,
                            "filter_runs": v.coverage.pop("filter_runs", 0),
                            "session_behaviours": len(sbehs) + len(gbehs), "guard_graph_behaviours_fully_probed": len(gbehs), "session_steps": ssteps, "session_twin_runs": twins,
                            "session_state_probes": probes, "session_distinct_action_outcomes": sdist}
    v.coverage["exhaustive"] = big and uncovered == 0
    if apa:
        proofs = [f.result() for f in apa]
        v.coverage["apalache_inductive_invariant"] = proofs
        for pr in proofs:
            vlib.log("[apalache] size %d ring %d blocks: base %s step %s" % (pr["size"], pr["ring_blocks"], pr.get("base"), pr.get("step")))
            if "Error" in (pr.get("base"), pr.get("step")) and not v.violations:
                # design-level only: nothing of the real code was shown to misbehave, so this is not a verdict
                raise vlib.Broken("Apalache refutes the inductive invariant of SlidingWindowInd.tla for size %d with the code's ring "
                                  "length %d, but no replay on the real filter failed: %s" % (pr["size"], pr["ring_blocks"], pr))
            if not pr["inductive"]:
                v.notes.append("Apalache did not finish the inductive check for size %d (%s/%s); the bounded TLC + replay results stand"
                               % (pr["size"], pr.get("base"), pr.get("step")))
    return v.finish()
