"""C06 - no bytes from the network can crash the process.
Spec: specs/Wire/Lattice.tla (+ MCLattice.tla): every network-facing parser as a straight-line program of length
checks / slice accesses / stream reads over a field-class lattice, followed by routing, dialling, the reply and one relay
step.  TLC checks the safety conditions of the design (InBounds, BufOK, TruncRejects, RouterTotal, ClientEncodable ...)
on every message of the lattice and prints one CASE line per message; the driver (harness/drivers/c06) concretises each
case into bytes several times and pushes it through the real entry point, the real Router under every route
configuration, the real client encoders and the real Proceed/Abort, in child-process batches so that a panic or a fatal
error of the code under test is a result."""
import json, os, re, hashlib, collections, time
from concurrent.futures import ThreadPoolExecutor
import vlib
from props import common

SPEC = os.path.join(vlib.VERIF, "specs", "Wire")

# TLC runs side by side, one per group of entry points (computing the initial states is single-threaded)
_GROUPS = [
    ("stream", ["s5srv", "s5cli", "nonesrv", "httpsrv", "httpcli", "directudp"]),
    ("codec", ["s5udp", "noneudp", "dns"]),
    ("ss-tcp", ["ss22srv", "ss22cli", "ss22chunk"]),
    ("ss-udp-srv", ["ss22udpsrv"]),
    ("ss-udp-cli", ["ss22udpcli"]),
]
GROUPS = {"quick": _GROUPS, "thorough": _GROUPS}

INVARIANTS = "TypeOK ProgEnds InBounds BufOK StreamOK TruncRejects DnsComplete RouterTotal ClientEncodable"

# route configurations: each port-criterion representation (single port / range set / bit set), each domain matcher
# (ToDomains list, map, linear suffixes, suffix trie, keywords, regexp), prefix criteria without and with name
# resolution; at most one of dom / pfx per route (they are OR-ed by the router, the model treats one at a time)
ROUTES = [
    ("all", "-", "-", "-", "socks5"),
    ("tp-one", "one", "-", "-", "ss2022"),
    ("tp-r16", "r16", "-", "-", "http"),
    ("tp-r17-reject", "r17", "-", "-", "reject"),
    ("tp-r17", "r17", "-", "-", "none"),
    ("dom-lin", "-", "lin", "-", "socks5"),
    ("dom-map", "-", "map", "-", "reject"),
    ("dom-suf", "-", "suf", "-", "ss2022"),
    ("dom-trie", "-", "trie", "-", "none"),
    ("dom-kw", "-", "kw", "-", "http"),
    ("dom-re", "-", "re", "-", "socks5"),
    ("pfx-ip", "-", "-", "ip", "ss2022"),
    ("pfx-res", "-", "-", "res", "socks5"),
    ("tp-r17-trie", "r17", "trie", "-", "ss2022"),
    ("tp-r16-res", "r16", "-", "res", "none"),
]
CLIENTS = ["direct", "socks5", "http", "none", "ss2022"]


def S(xs):
    return "{" + ", ".join(json.dumps(x) if isinstance(x, str) else str(x) for x in xs) + "}"


def alphabets(tier):
    if tier == "thorough":
        return dict(Ports=S([0, 1, 80, 443, 65535]), DLens=S([0, 1, 2, 11, 63, 64, 255]),
                    DomKinds=S(["hit", "ldh", "bin"]), V4Kinds=S(["typ", "zero", "pfx"]), V6Kinds=S(["typ", "zero", "mapped", "pfx"]),
                    BadAtyps=S([0, 2, 5, 255]), PadLens=S([0, 1, 900, 901]), PayLens=S([0, 32, 1200]), Tails=S([0, 5]),
                    TsOffs=S([-100000, -31, -30, -29, 29, 30, 31, 100000]), BadBytes=S([0, 2, 4, 6, 128, 255]),
                    LenBytes=S([0, 1, 2, 3, 11, 254, 255]), Rich="TRUE")
    return dict(Ports=S([0, 1, 443, 65535]), DLens=S([0, 1, 11, 255]), DomKinds=S(["hit", "ldh", "bin"]),
                V4Kinds=S(["typ", "zero", "pfx"]), V6Kinds=S(["typ", "mapped", "pfx"]), BadAtyps=S([0, 255]),
                PadLens=S([0, 1, 900]), PayLens=S([0, 32]), Tails=S([0, 5]), TsOffs=S([-31, -30, 30, 31, 100000]),
                BadBytes=S([0, 4, 255]), LenBytes=S([0, 1, 2, 255]), Rich="FALSE")


def tla_routes():
    return "{" + ", ".join('[name |-> "%s", port |-> "%s", dom |-> "%s", pfx |-> "%s", cl |-> "%s"]' % r for r in ROUTES) + "}"


def base_consts(k, tier):
    c = dict(k["Lattice"])
    if c.get("TagSize", -1) <= 0:
        raise vlib.Broken("the AEAD tag size could not be measured on the compiled code")
    for n in ("MaxRangeSet", "MaxLinearDomains", "MaxLinearSuffixes"):
        if not isinstance(k.get(n), int) or k[n] < 1:
            raise vlib.Broken("constant %s could not be read from the compiled code: %r" % (n, k.get(n)))
        c[n] = k[n]
    c.update(alphabets(tier))
    c.update(RouteCfgs=tla_routes(), Clients=S(CLIENTS),
             DialTable="{" + ", ".join("<<%d, %d>>" % (a, b) for a, b in k["LatticeDialCodes"]) + "}",
             Variant="code", EMIT="ACTION_CONSTRAINT Emit", INVARIANTS=INVARIANTS)
    return c


def case_id(c):
    return hashlib.sha1(json.dumps([c["ep"], c["m"], c["have"]], sort_keys=True).encode()).hexdigest()[:14]


def parse_cases(out):
    cases, cat = {}, None
    for line in out.splitlines():
        if line.startswith('"CASE '):
            c = json.loads(json.loads(line)[5:])
            c["id"] = case_id(c)
            cases[c["id"]] = c
        elif line.startswith('"CAT '):
            cat = json.loads(json.loads(line)[4:])
    return cases, cat


class _Cached:
    pass


def run_tlc(name, eps, consts, timeout, workers, extra=()):
    """One TLC run.  VERIF_C06_TLC_CACHE=<dir> (development only: driver work and mutation experiments re-run the same
    model many times) keeps the output keyed by spec text + constants."""
    c = dict(consts)
    c["EPs"] = S(eps)
    t0 = time.time()
    cache = os.environ.get("VERIF_C06_TLC_CACHE")
    path = None
    if cache:
        h = hashlib.sha1()
        for fn in ("Lattice.tla", "MCLattice.tla", "MCLattice.cfg"):
            h.update(open(os.path.join(SPEC, fn), "rb").read())
        h.update(json.dumps(c, sort_keys=True).encode())
        path = os.path.join(cache, "%s-%s.json" % (name.replace("/", "_"), h.hexdigest()[:16]))
        if os.path.exists(path):
            r = _Cached()
            r.__dict__.update(json.load(open(path)))
            vlib.log("[tlc] %s: cached" % name)
            return name, r
    r = vlib.tlc(SPEC, "MCLattice", "MCLattice.cfg", c, workers=workers, timeout=timeout, edges=False, keep_out=True, heap="6g",
                 extra=extra)
    vlib.log("[tlc] %s: %d distinct, %d generated, violation=%s, %.1fs" % (name, r.distinct, r.generated, r.violation, time.time() - t0))
    if path and not r.violation:
        os.makedirs(cache, exist_ok=True)
        json.dump(dict(out=r.out, distinct=r.distinct, generated=r.generated, wall=r.wall, violation=None, depth=r.depth), open(path, "w"))
    return name, r


HARNESS_FRAME = re.compile(r"verif/harness/drivers/|verif/harness/internal/")
REPO_FRAME = re.compile(r"shadowsocks-go[^\s]*/([a-z0-9_]+/)*[a-z0-9_]+\.go|/(repo|[a-z0-9-]*-repo)/")


def crash_origin(out):
    """Which code the crash of a child process comes from: 'repo', 'harness' or 'unknown'."""
    i = max(out.find("panic:"), out.find("fatal error:"))
    if i < 0:
        return "unknown"
    tail = out[i:]
    # the first goroutine trace after the message is the crashing one; skip runtime and standard library frames
    block = tail.split("\n\n")[1] if "\n\n" in tail else tail
    frames = re.findall(r"^\t(\S+\.go):\d+", block, re.M)
    for f in frames:
        if "/verif/harness/" in f or "/harness/drivers/" in f or "/harness/internal/" in f:
            return "harness"
        if "shadowsocks-go" in f or f.startswith("/repo/") or re.match(r"^/tmp/[^/]*repo[^/]*/", f) or "-repo/" in f:
            return "repo"
    # a crash raised on a goroutine of the code under test has no harness frame at all
    if frames and not any("/harness/" in f for f in frames):
        return "repo" if any("golang.org/x/net" in f or "/src/net/" in f or "/src/runtime/" in f for f in frames) else "unknown"
    return "unknown"


def run_batch(binary, batch, params, seed, tier, work, idx, timeout, v, stats, test="TestCases"):
    """Run one batch of cases in a child process; when the child dies, attribute the crash to the case it was
    executing (progress file), record it and run the rest of the batch again without that case."""
    cases = list(batch)
    results = []
    crashes = 0
    while cases:
        prog = os.path.join(work, "progress-%s-%d-%d.txt" % (test, idx, crashes))
        inp = {"params": dict(params, cases=cases), "seed": seed, "tier": tier}
        res, out, rc = vlib.run_driver(binary, test, inp, timeout, env_extra={"VERIF_PROGRESS": prog})
        if res is not None:
            results.append((res, out, rc))
            break
        last = None
        if os.path.exists(prog):
            lines = open(prog).read().split("\n")
            lines = [l for l in lines if l.strip()]
            if lines and lines[-1] != "done":
                last = lines[-1].split()
        origin = crash_origin(out)
        if origin != "repo" or last is None:
            raise vlib.Broken("a driver process died without a result and the crash is not attributable to the code under test "
                              "(origin=%s, last case=%s, rc=%s):\n%s" % (origin, last, rc, out[-3000:]))
        cid, kk = last[0], int(last[1])
        if cid == "startup":
            i = max(out.find("panic:"), out.find("fatal error:"))
            stats["crashes"] += 1
            v.violation("live/panic", "the service died while its listeners were probed with connections that send nothing and with "
                        "well-formed requests, before any case of the lattice:\n%s" % out[i:i + 1800],
                        {"replay": {"case": cases[0], "k": 0, "seed": seed, "stage": "startup", "test": test}})
            break
        bad = next((c for c in cases if c["id"] == cid), None)
        if bad is None:
            raise vlib.Broken("progress file names a case that is not in the batch: %s" % cid)
        m = re.search(r"(panic: .*|fatal error: .*)", out)
        what = m.group(1)[:300] if m else "process died"
        i = max(out.find("panic:"), out.find("fatal error:"))
        stats["crashes"] += 1
        v.violation("%s/panic" % bad["ep"],
                    "%s: the process died while this input was being handled (a goroutine of the code under test, not recoverable "
                    "by the caller): %s\n%s" % (bad["ep"], what, out[i:i + 1800]),
                    {"replay": {"case": bad, "k": kk, "seed": seed, "stage": "process", "test": test}})
        crashes += 1
        if crashes > 6:
            # enough evidence from this batch; the remaining cases of it are not run
            stats["abandoned_cases"] += len(cases) - 1
            break
        # the cases before the crashing one ran clean but their counters are gone with the process: run them again
        cases = [c for c in cases if c["id"] != cid]
    return results


def run(tier, seed, replay):
    v = vlib.Verdict("C06", tier, seed, "exploration")
    work = vlib.scratch("c06")
    binary = vlib.build_driver("c06", work)
    k = common.vconst(work)
    consts = base_consts(k, tier)
    big = tier == "thorough"
    cat = {"routes": [dict(zip(("name", "port", "dom", "pfx", "cl"), r)) for r in ROUTES], "clients": CLIENTS,
           "dial": k["LatticeDialCodes"]}
    lconsts = dict(k["Lattice"], MaxRangeSet=k["MaxRangeSet"], MaxLinearDomains=k["MaxLinearDomains"],
                   MaxLinearSuffixes=k["MaxLinearSuffixes"])
    params = {"cat": cat, "consts": lconsts}

    if replay:
        doc = json.load(open(replay))
        rep = doc["replay"].get("replay") or doc["replay"].get("Replay") or doc["replay"]
        case, kk = rep["case"], int(rep.get("k", 0))
        p = dict(params, cases=[case], conc=kk + 1, onlyK=kk)
        prog = os.path.join(work, "progress-replay.txt")
        res, out, rc = vlib.run_driver(binary, rep.get("test") or "TestCases", {"params": p, "seed": int(rep.get("seed", seed)), "tier": tier}, 300,
                                       env_extra={"VERIF_PROGRESS": prog})
        if res is None:
            if crash_origin(out) != "repo":
                raise vlib.Broken("replay: the driver died and the crash is not attributable to the code under test:\n" + out[-3000:])
            i = max(out.find("panic:"), out.find("fatal error:"))
            v.violation("%s/panic" % case["ep"], "%s: the process died while this input was being handled:\n%s" % (case["ep"], out[i:i + 1800]),
                        {"replay": rep})
        else:
            common.absorb(v, res, out, rc, "replay")
        v.coverage.update(evaluations=1, distinct_nontrivial=2, rule="replay of one recorded case (entry point, message, bytes delivered, concretisation index)")
        v.sample({"ep": case["ep"], "m": case["m"], "have": case["have"], "k": kk})
        return v.finish()

    # ---- (1) the design: TLC over the lattice, one run per group of entry points, side by side
    tlc_cov, cases = {}, {}
    design_violation = []
    groups = GROUPS[tier]
    # thorough: the design mutants run next to the groups; each must violate its invariant (non-vacuity)
    mutants = [("no-port0-guard", ["nonesrv"], "RouterTotal"), ("no-domain-length-check", ["noneudp"], "InBounds"),
               ("no-padding-check", ["ss22udpsrv"], "InBounds")] if big else []
    with ThreadPoolExecutor(max_workers=len(groups) + len(mutants)) as ex:
        futs = [ex.submit(run_tlc, name, eps, consts, 3300 if big else 1200, 3) for name, eps in groups]
        mfuts = [ex.submit(run_tlc, "mutant/" + variant, eps, dict(consts, Variant=variant, EMIT=""), 3300, 2) for variant, eps, _ in mutants]
        outs = [f.result() for f in futs]
        mouts = [f.result() for f in mfuts]
    for (name, r), (_, eps) in zip(outs, groups):
        if r.violation:
            # a counterexample of the design counts only if the real code reproduces it: enumerate the cases of this
            # group once more without the invariants and let the driver decide
            design_violation.append((name, r.violation))
            c2 = dict(consts, INVARIANTS="TypeOK")
            _, r = run_tlc(name + "/no-invariants", eps, c2, 3300, 4)
            if r.violation:
                raise vlib.Broken("TLC fails on group %s even without the design invariants: %s\n%s" % (name, r.violation, r.out[-2000:]))
        cs, _ = parse_cases(r.out)
        tlc_cov[name] = {"distinct": r.distinct, "generated": r.generated, "cases": len(cs), "wall_s": round(r.wall, 1)}
        cases.update(cs)
        r.out = ""
    if not cases:
        raise vlib.Broken("TLC printed no CASE lines")
    model = collections.Counter((c["ep"], c["v"]) for c in cases.values())
    for ep in ("s5srv", "s5cli", "nonesrv", "httpsrv", "httpcli", "ss22srv", "ss22cli", "ss22chunk", "ss22udpsrv", "ss22udpcli",
               "s5udpsrv", "s5udpcli", "noneudpsrv", "noneudpcli", "directudp"):
        if not model.get((ep, "request")) or (ep != "directudp" and not model.get((ep, "rejected"))):
            raise vlib.Broken("the lattice of entry point %s has no accepted or no rejected message (vacuous)" % ep)
    for (variant, eps, inv), (_, r) in zip(mutants, mouts):
        if r.violation != inv:
            raise vlib.Broken("design mutant %s does not violate %s (got %s): the invariant is vacuous" % (variant, inv, r.violation))
        tlc_cov["mutant/" + variant] = {"violates": r.violation}

    # ---- (3) the binding: every case through the real code, in child-process batches
    conc = 5 if big else 3
    ordered = sorted(cases.values(), key=lambda c: hashlib.sha1((c["id"] + str(seed)).encode()).hexdigest())
    nb = 48 if big else 16
    batches = [b for b in common.chunks(ordered, nb) if b]
    stats = collections.Counter()
    p = dict(params, conc=conc)
    with ThreadPoolExecutor(max_workers=16) as ex:
        futs = [ex.submit(run_batch, binary, b, p, seed, tier, work, i, 1800 if big else 600, v, stats) for i, b in enumerate(batches)]
        results = [f.result() for f in futs]
    # ---- (4) the live layer: the server-side cases once more, over loopback sockets into a real service.Manager
    live_eps = ("s5srv", "nonesrv", "httpsrv", "ss22srv", "s5udpsrv", "noneudpsrv", "ss22udpsrv")
    live_cases = [c for c in ordered if c["ep"] in live_eps]
    lb = [b for b in common.chunks(live_cases, 8 if big else 4) if b]
    with ThreadPoolExecutor(max_workers=8) as ex:
        futs = [ex.submit(run_batch, binary, b, params, seed, tier, work, i, 1800 if big else 600, v, stats, "TestLive") for i, b in enumerate(lb)]
        results += [f.result() for f in futs]
    counters = collections.Counter()
    evaluations = ran = 0
    viol_by_key = collections.Counter()
    for rs in results:
        for res, out, rc in rs:
            kept = []
            for f in res.get("violations", []):
                viol_by_key[f["key"]] += 1
                if viol_by_key[f["key"]] <= 3:
                    kept.append(f)
            res["violations"] = kept
            res["samples"] = res.get("samples") or []
            res["counters"] = res.get("counters") or {}
            res = common.absorb(v, res, out, rc, "cases")
            evaluations += res["steps"]
            ran += res["behaviours"] if "live/probes" not in res["counters"] else 0
            for kk, n in res["counters"].items():
                counters[kk] += n
    if design_violation:
        if not v.violations and not v.known:
            raise vlib.Broken("TLC violates %s with the constants of the compiled code but no case reproduces a failure on the "
                              "real code: model and code disagree" % design_violation)
        v.notes.append("design invariants violated with the code's constants: %s" % design_violation)

    def boundary(c):
        a = c["m"].get("a") or {}
        total = sum(f["n"] for f in c["wire"])
        return (c["v"] != "request" or c["have"] != total or a.get("port") in (0, 1, 65535) or a.get("dlen") in (1, 255)
                or a.get("dk") in ("zero", "mapped", "bin"))
    nontrivial = sum(1 for c in cases.values() if boundary(c))
    group = lambda pfx: {kk[len(pfx):]: n for kk, n in sorted(counters.items()) if kk.startswith(pfx)}
    v.coverage.update(
        evaluations=evaluations, distinct_nontrivial=nontrivial,
        rule="TLC enumerates, per network-facing entry point (SOCKS5 server/client, HTTP proxy server/client, ss-none, SS2022 TCP "
             "server/client/chunks, SS2022 UDP server/client, SOCKS5/none/direct datagram codecs, DNS replies over UDP and TCP framing), "
             "base messages over the SOCKS address lattice cut at / one byte into / one byte short of every field and whole, plus one- "
             "and two-field deviations (boundary values, illegal enums, too-long values); one evaluation = one concretisation of a case "
             "(boundary values exact, free bytes and segmentation seeded) fed to the real entry point and, when a request comes out, "
             "through every route configuration, the client encoders, Proceed / Abort with every dial result code and a relay step. "
             "distinct = distinct (entry point, message, bytes delivered) triples by hash; non-trivial = the model rejects it, it is "
             "truncated, or it carries a boundary address.",
        distinct_cases=len(cases), cases_run=ran, concretisations_per_case=conc, model_verdicts={"%s/%s" % kk: n for kk, n in sorted(model.items())},
        observed_verdicts=group("verdict/"), route_outcomes=group("route/"), replies=group("reply/"), dials=group("dial/"),
        packs=group("pack/"), dns=group("dns/"), live=group("live/"), drift=group("drift/"), violations_by_key=dict(viol_by_key), tlc=tlc_cov,
        states=sum(x.get("distinct", 0) for x in tlc_cov.values()), transitions=sum(x.get("generated", 0) for x in tlc_cov.values()),
        process_crashes=stats["crashes"], constants_from_code=lconsts, exhaustive=False)
    v.assumptions += ["AEAD, BLAKE3 and AES are trusted (hostile peers with the key are modelled by sealing hostile plaintext)",
                      "net/http and golang.org/x/net/dns/dnsmessage are exercised, not modelled beyond what makes them fail",
                      "the relay's own sockets are replaced by scripted connections and by the relay's buffer layout; the DNS resolver's "
                      "UDP path uses a loopback socket for one concretisation per case",
                      "GeoIP criteria and TLS listeners are outside (no database / CA material offline)"]
    v.notes.append("level_note: structure-aware enumeration of a field-class lattice with seeded free bytes, not coverage-guided byte "
                   "fuzzing: byte strings outside the lattice (e.g. a particular compression-pointer chain in a DNS name, a specific "
                   "malformed chunk extension) are reached only by the random fill")
    return v.finish()
