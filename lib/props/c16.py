"""C16 - plain-HTTP proxying forwards messages intact minus hop-by-hop and proxy fields.
Spec: specs/Http/Forwarder.tla.  Binding: replay of TLC-generated behaviours against the real
httpproxy.ServerHandle(...).Proceed() with a scripted client and a scripted origin on netio pipes
inside testing/synctest (drivers/c16), plus the message lattice (CASE lines of MCFilter) pushed
through the same connection one exchange per case."""
import json, os, random, re, itertools, time
import vlib
from props import common

SPEC = os.path.join(vlib.VERIF, "specs", "Http")

REQ_CLASSES = ["e2e", "ua", "hop", "nom", "upg"]
RESP_CLASSES = ["e2e", "hop", "nom", "pauth"]


def tla(v):
    """Python value -> TLA+ expression (dict = record, set/frozenset = set, list = sequence)."""
    if isinstance(v, bool):
        return "TRUE" if v else "FALSE"
    if isinstance(v, int):
        return str(v)
    if isinstance(v, str):
        return '"%s"' % v
    if isinstance(v, dict):
        return "[" + ", ".join("%s |-> %s" % (k, tla(x)) for k, x in v.items()) + "]"
    if isinstance(v, (set, frozenset)):
        return "{" + ", ".join(sorted(tla(x) for x in v)) + "}"
    if isinstance(v, (list, tuple)):
        return "<<" + ", ".join(tla(x) for x in v) + ">>"
    raise TypeError(v)


def req(m="GET", h="a", cl=False, au="good", hs=("e2e", "ua"), bd="none"):
    return dict(m=m, h=h, cl=cl, au=au, hs=frozenset(hs), bd=bd)


def resp(st="200", cl=False, hs=("e2e",), bd="len"):
    return dict(st=st, cl=cl, hs=frozenset(hs), bd=bd)


BADREQ = req(m="BAD", h="", au="none", hs=())
BADRESP = resp(st="BAD", hs=(), bd="none")


def msgdef(prefix, msgs):
    """TLA+ tuple of the message records; a message's name is its index (1..n).  (A tuple literal, not a chain of
    :> and @@: TLC re-evaluates the definition on every lookup, and the chain costs O(n^2) each time.)"""
    if not msgs:
        raise ValueError("empty message set")
    return "<<" + ",\n  ".join(tla(m) for m in msgs) + ">>"


def req_lattice():
    out = []
    for m, bodies in (("GET", ["none"]), ("HEAD", ["none"]), ("POST", ["none", "len", "chunked", "trailer", "nomtrailer"])):
        for bd in bodies:
            for n in range(len(REQ_CLASSES) + 1):
                for hs in itertools.combinations(REQ_CLASSES, n):
                    for au in ("none", "bad", "good"):
                        for cl in (False, True):
                            out.append(req(m=m, cl=cl, au=au, hs=hs, bd=bd))
    return out


def resp_lattice():
    out = []
    kinds = [(st, ["none", "len", "chunked", "trailer", "nomtrailer", "eof"]) for st in ("200", "404")]
    kinds += [(st, ["none"]) for st in ("204", "304")]
    kinds += [(st, ["none", "len"]) for st in ("301s", "302o", "302p", "302c", "307r")]
    for st, bodies in kinds:
        for bd in bodies:
            for n in range(len(RESP_CLASSES) + 1):
                for hs in itertools.combinations(RESP_CLASSES, n):
                    for cl in (False, True):
                        out.append(resp(st=st, cl=cl, hs=hs, bd=bd))
    for st in ("100", "103"):
        for n in range(len(RESP_CLASSES) + 1):
            for hs in itertools.combinations(RESP_CLASSES, n):
                out.append(resp(st=st, cl=False, hs=hs, bd="none"))
    return out


# ---------------------------------------------------------------- message sets

PLAIN_REQ = req(m="GET", au="good", hs=("e2e", "ua"))
PLAIN_RESP = resp(st="200", hs=("e2e",), bd="len")

# control-flow alphabet: every branch of ServerHandle / serverForwardRequests / serverForwardResponses
CTRL_REQS = [
    PLAIN_REQ,
    req(m="POST", au="none", hs=("ua", "hop", "nom"), bd="len"),      # refused with a body when authentication is on
    req(cl=True, hs=("ua",)),                                            # close indication
    req(cl=True, au="bad", hs=("ua",)),                                  # bad credentials + close
    req(h="b", hs=("ua",)),                                              # other host
    req(m="CONNECT", h="b", hs=("ua",)),
    req(m="HEAD", au="none"),
    BADREQ,
    req(h="", hs=("ua",)),                                               # no Host
    req(m="POST", hs=(), bd="nomtrailer"),                               # no User-Agent, nominated trailer
    req(m="CONNECT", h="a", hs=("ua",)),                                 # CONNECT to the very authority of the plain requests
    req(h="aP", hs=("ua",)),                                             # same domain, another port: another origin
    req(h="aC", hs=("ua",)),                                             # same origin in another letter case
]
CTRL_RESPS = [
    PLAIN_RESP,
    resp(st="100", hs=(), bd="none"),
    resp(cl=True, hs=("e2e", "hop", "nom"), bd="chunked"),              # Connection: close
    resp(st="302o", bd="none"),                                          # redirect to another host -> close
    resp(hs=(), bd="eof"),                                               # body delimited by EOF
    BADRESP,
    resp(st="204", bd="none"),
]
ALL_CLOSERS = '{"cclose","cabort","ow","orw"}'

# host spellings (Forwarder.tla HostDef), by family: every spelling of a family may be the first request's host, and
# the follow-ups are the spellings of the same family (same origin / other port / other case / default port written
# out or left off / other address) plus another domain
HOST_FAMILIES = [
    ["a", "aP", "aC", "aCP", "aN"],
    ["d", "dE", "dC", "dP"],
    ["i", "iP", "iO", "iN", "iE"],
    ["v", "vP", "vC"],
]
HOST_OTHER = "b"
ALL_HOSTS = [h for fam in HOST_FAMILIES for h in fam] + [HOST_OTHER]


def host_req(h, **kw):
    return req(h=h, hs=("ua",), **kw)


def host_pairs():
    """-> (request set, Follow tuple): message k (1-based) is host_req(ALL_HOSTS[k-1]); Follow[k] = messages that may follow
    when message k was the first one."""
    idx = {h: k + 1 for k, h in enumerate(ALL_HOSTS)}
    follow = []
    for h in ALL_HOSTS:
        fam = next((f for f in HOST_FAMILIES if h in f), [])
        follow.append(frozenset(idx[x] for x in fam + [HOST_OTHER]))
    return [host_req(h) for h in ALL_HOSTS], follow


def consts(reqs, resps, cap, nreq, nresp, auth, sync, emit, closers=ALL_CLOSERS, constraint="", lattice=False, follow=()):
    return dict(Lattice="TRUE" if lattice else "FALSE", Follow=tla(list(follow)), QueueCap=cap, ReqDef=msgdef("q", reqs), RespDef=msgdef("s", resps), MaxReq=nreq, MaxResp=nresp,
                AuthModes=auth, Closers=closers, Sync="TRUE" if sync else "FALSE",
                EMIT="ACTION_CONSTRAINT Emit" if emit else "", CONSTRAINT=constraint)


def summary(c):
    return {k: c[k] for k in ("QueueCap", "MaxReq", "MaxResp", "AuthModes", "Closers", "Sync")}


def run(tier, seed, replay):
    v = vlib.Verdict("C16", tier, seed, "model_checking")
    work = vlib.scratch("c16")
    binary = vlib.build_driver("c16", work)
    if replay:
        doc = json.load(open(replay))
        rp = doc["replay"].get("replay") or doc["replay"].get("Replay")
        beh = {"steps": rp.get("steps") or [{"a": a} for a in rp["actions"]], "cex": True}
        res, out, rc = vlib.run_driver(binary, "TestReplay", {"behaviours": [beh], "seed": seed, "params": {"auth": rp["auth"]}}, 120)
        common.absorb(v, res, out, rc, "replay")
        v.coverage.update(states=1, transitions=len(rp["actions"]), traces_validated_against_impl=1)
        v.sample(rp["actions"])
        return v.finish()

    big = tier == "thorough"
    rnd = random.Random(seed)

    # (0) the constant of the code: cap(reqCh), measured on the compiled code by the driver
    res, out, rc = vlib.run_driver(binary, "TestConsts", {"seed": seed}, 300)
    res = common.absorb(v, res, out, rc, "queue capacity probe")
    cap = res.get("counters", {}).get("QueueCap")
    if not cap:
        raise vlib.Broken("the driver could not measure the request queue capacity:\n" + out[-2000:])
    v.coverage["constants_from_code"] = {"QueueCap": cap}

    rl, sl = req_lattice(), resp_lattice()
    rnd.shuffle(rl)
    rnd.shuffle(sl)
    lat = '{"cclose","ow"}'
    small_reqs = [CTRL_REQS[i] for i in (0, 1, 2, 4, 10, 6, 9, 5, 3)]
    jobs = []   # (name, constants, kind, options)

    # (1) design, exhaustive, the environment interleaves freely with the proxy's steps; queue scaled to 2
    if big:
        jobs.append(("design", consts(small_reqs[:6], CTRL_RESPS[:5], 2, 3, 2, "{TRUE,FALSE}", False, False), "design", dict(workers=8, timeout=6000)))
        jobs.append(("design_wide", consts(CTRL_REQS, CTRL_RESPS, 2, 2, 2, "{TRUE,FALSE}", False, False), "design", dict(workers=6, timeout=6000)))
    else:
        jobs.append(("design", consts(small_reqs[:6], CTRL_RESPS[:5], 2, 2, 2, "{TRUE,FALSE}", False, False), "design", dict(workers=6, timeout=3000)))

    # (2) replay graphs (Sync: the environment acts when the proxy is quiescent), the code's queue capacity
    #  (a) authentication: every credential pattern before, at and after the first accepted request
    auth_reqs = [PLAIN_REQ, CTRL_REQS[1], CTRL_REQS[3], req(au="bad", hs=("ua",)), CTRL_REQS[4], CTRL_REQS[5], BADREQ, CTRL_REQS[8]]
    jobs.append(("replay_auth", consts(auth_reqs if big else auth_reqs[:6], [PLAIN_RESP], cap, 3, 1, "{TRUE}", True, True, closers=lat), "graph", dict(max_len=30)))
    #      and long runs of refused requests before the accepted one
    jobs.append(("replay_auth_deep", consts([PLAIN_REQ, req(au="bad", hs=("ua",)), req(m="POST", au="none", hs=("ua",), bd="len")], [PLAIN_RESP], cap,
                                            8 if not big else 9, 1, "{TRUE}", True, True, closers='{"cclose"}', constraint="CONSTRAINT AuthDeepOK"), "graph", dict(max_len=40)))
    #  (b) forwarding: control alphabet x response alphabet x close patterns
    if big:
        jobs.append(("replay_forward", consts(small_reqs[:5], CTRL_RESPS[:3], cap, 3, 2, "{FALSE}", True, True), "graph", dict(max_len=40, workers=4, timeout=6000)))
        jobs.append(("replay_forward_wide", consts(CTRL_REQS, CTRL_RESPS, cap, 2, 2, "{FALSE}", True, True, closers='{"cclose","cabort","ow"}'), "graph", dict(max_len=40, workers=4, timeout=6000)))
        jobs.append(("replay_forward_resp", consts(small_reqs[:3], CTRL_RESPS, cap, 2, 3, "{FALSE}", True, True, closers='{"cclose","ow","orw"}'), "graph", dict(max_len=40, workers=4, timeout=6000)))
    else:
        jobs.append(("replay_forward", consts(small_reqs[:6], CTRL_RESPS[:6], cap, 2, 2, "{FALSE}", True, True), "graph", dict(max_len=40, workers=3)))
    #  (b2) hosts: every spelling as the first request's host x follow-ups within its family (same origin, other port, other
    #       letter case, default port written out / left off, other address, other domain); three messages, so that what
    #       follows a host change is covered too
    hreqs, hfollow = host_pairs()
    jobs.append(("replay_hosts", consts(hreqs, [PLAIN_RESP], cap, 3 if big else 2, 1, "{FALSE}", True, True, closers=lat, follow=hfollow),
                 "graph", dict(max_len=40)))
    #  (b3) redirects whose Location is such a variant of the Host of the request they answer
    rhosts = ["a", "aC", "d", "dE", "i", "iN", "v"] if big else ["a", "d", "iN", "v"]
    rresps = [PLAIN_RESP] + [resp(st=st, bd="none") for st in ("301s", "302o", "302p", "302c", "302d", "307r")]
    jobs.append(("replay_redirect", consts([host_req(h) for h in rhosts], rresps, cap, 2, 2, "{FALSE}", True, True, closers='{"cclose"}',
                                           follow=[frozenset([k + 1]) for k in range(len(rhosts))]), "graph", dict(max_len=40)))
    #  (c) deep pipelining: queue full, back-pressure, release
    deep_reqs = [PLAIN_REQ, req(m="HEAD", hs=("ua",))]
    jobs.append(("replay_deep", consts(deep_reqs[:1], [PLAIN_RESP, CTRL_RESPS[1]] if big else [PLAIN_RESP], cap, cap + (3 if big else 2),
                                       4 if big else 2, "{FALSE}", True, True, closers=lat if big else '{"ow"}'), "graph", dict(max_len=6 * cap + 60)))
    if big:
        jobs.append(("replay_deep_head", consts(deep_reqs[1:], [PLAIN_RESP], cap, cap + 2, 2, "{FALSE}", True, True, closers='{"ow"}'), "graph",
                     dict(max_len=6 * cap + 60)))

    # (3) the message lattice, one exchange per message: requests (authentication off: every credential class is
    #     forwardable and must be stripped; on: refused unless good, then the plain follow-up (message 1) is forwarded) and
    #     responses (to GET and to HEAD; an interim one is followed by the plain final response (message 1))
    nr, ns = (len(rl), len(sl)) if big else (90, 80)
    na = len(rl) // 2 if big else 50
    jobs.append(("lattice_req", consts([PLAIN_REQ] + rl[:nr], [PLAIN_RESP], cap, 1, 1, "{FALSE}", True, True, closers=lat), "graph", dict(max_len=30)))
    jobs.append(("lattice_req_auth", consts([PLAIN_REQ] + rl[-na:], [PLAIN_RESP], cap, 2, 1, "{TRUE}", True, True, closers=lat,
                                            lattice=True), "graph", dict(max_len=30)))
    jobs.append(("lattice_resp", consts([PLAIN_REQ, req(m="HEAD", hs=("ua",))], [PLAIN_RESP] + sl[:ns], cap, 1, 2, "{FALSE}", True, True, closers=lat,
                                        lattice=True), "graph", dict(max_len=30)))

    # (4) simulation with seeded random message sets from the whole lattice: "mixed" (every kind of message and
    #     close, short connections) and "long" (nothing that ends the connection: pipelines of up to 20 requests)
    keep_req = [m for m in rl if not m["cl"]]
    keep_resp = [m for m in sl if not m["cl"] and m["bd"] != "eof" and not m["st"].startswith("302")]
    for k in range(4 if not big else 16):
        if k % 2 == 0:
            rs = [PLAIN_REQ] + rnd.sample(rl, 6) + rnd.sample(CTRL_REQS[1:], 3) + [host_req(h) for h in rnd.sample(HOST_FAMILIES[0][1:], 1)]
            ss = [PLAIN_RESP] + rnd.sample(sl, 6) + rnd.sample(CTRL_RESPS[1:], 2)
            c = consts(rs, ss, cap, 20, 24, "{TRUE,FALSE}", True, True)
        else:
            rs = [PLAIN_REQ] + rnd.sample(keep_req, 7)
            ss = [PLAIN_RESP, CTRL_RESPS[1]] + rnd.sample(keep_resp, 6)
            c = consts(rs, ss, cap, 20, 24, "{FALSE}", True, True, closers="{}")
        jobs.append(("simulate_%d" % k, c, "sim", dict(num=60 if not big else 300, walks=150 if not big else 500, seed=seed * 100 + k)))

    only = [x for x in os.environ.get("C16_ONLY", "").split(",") if x]   # development aid: run a subset of the jobs
    if only:
        jobs = [j for j in jobs if any(j[0].startswith(x) for x in only)]
        v.notes.append("C16_ONLY=%s: only %s ran" % (",".join(only), [j[0] for j in jobs]))

    def slim(b):
        # the driver compares observations at quiescent model states only
        b["steps"] = [st if (st.get("o") or {}).get("q") else {"a": st["a"]} for st in b["steps"]]
        return b

    cap_paths = None if not big else 10000   # per graph; edges left uncovered are reported in the evidence

    def run_job(job):
        # one retry: on a crowded machine a JVM is occasionally killed (OOM killer) through no fault of the model
        try:
            return run_job_once(job)
        except vlib.Broken as e:
            vlib.log("[c16] job %s failed (%s); retrying once" % (job[0], str(e).splitlines()[0][:200]))
            time.sleep(20)
            return run_job_once(job)

    def run_job_once(job):
        name, c, kind, opt = job
        if kind == "design":
            r = vlib.tlc(SPEC, "MCForwarder", "MCForwarder.cfg", c, workers=opt.get("workers", 4), timeout=opt.get("timeout", 900), edges=False,
                         heap="8g" if big else "6g")
            return name, c, r, []
        if kind == "graph":
            r = vlib.tlc(SPEC, "MCForwarder", "MCForwarder.cfg", c, workers=opt.get("workers", 2), timeout=opt.get("timeout", 2400 if not big else 6000), edges=True, heap="3g")
            if r.violation:
                return name, c, r, []
            g = vlib.Graph(r)
            paths, left = g.cover(seed=seed, max_len=opt["max_len"], max_paths=cap_paths if not name.startswith("lattice") else None)
            r.edges = []
            return name, c, r, ([slim(g.behaviour(p)) for p in paths], len(g.edges), left)
        r = vlib.tlc(SPEC, "MCForwarder", "MCForwarder.cfg", c, workers=1, timeout=2400, edges=True, simulate="num=%d" % opt["num"], depth=120,
                     seed=opt["seed"], edge_limit=400000, heap="2g")
        if r.violation:
            return name, c, r, []
        g = vlib.Graph(r)
        w = g.random_walks(opt["walks"], 120, seed=opt["seed"])
        r.edges = []
        return name, c, r, ([slim(g.behaviour(p)) for p in w], len(g.edges), None)

    from concurrent.futures import ThreadPoolExecutor
    par = max(1, min(len(jobs), int(os.environ.get("VERIF_MAX_WORKERS", "16")) // 2))
    with ThreadPoolExecutor(max_workers=par) as ex:
        done = list(ex.map(run_job, jobs))

    states = transitions = walks = 0
    runs = {}
    behs = []
    for name, c, r, extra in done:
        if r.violation:
            # a counterexample of the design counts only if the real proxy reproduces it
            beh = vlib.cex_behaviour(r.trace)
            sts = vlib.trace_states(r.trace)
            auth = bool(sts and sts[0].get("authOn"))
            res, out, rc = vlib.run_driver(binary, "TestReplay", {"behaviours": [beh], "seed": seed, "params": {"auth": auth}}, 300)
            res = common.absorb(v, res, out, rc, "design counterexample (%s)" % r.violation)
            if not res["violations"]:
                raise vlib.Broken("TLC violates %s in configuration %s but the real proxy does not reproduce it; model and code disagree:\n%s"
                                  % (r.violation, name, r.out[-1500:]))
            continue
        runs[name] = {"constants": summary(c), "distinct": r.distinct, "generated": r.generated, "depth": r.depth, "wall_s": round(r.wall, 1)}
        if not name.startswith("simulate"):
            states += r.distinct
            transitions += r.generated
        if extra:
            bs, nedges, left = extra
            behs += bs
            runs[name].update(edges=nedges, behaviours=len(bs))
            if left is not None:
                runs[name]["uncovered_edges"] = left
            else:
                walks += len(bs)
    v.coverage["simulated_walks"] = walks

    for i, b in enumerate(behs):
        b["id"] = i
    outs = common.run_parallel(binary, "TestReplay", [{"behaviours": ch, "seed": seed} for ch in common.chunks(behs, 16)], 3000)
    nrep = steps = distinct = 0
    notes = {}   # response-direction field differences: outside C16's wording, recorded only
    for res, out, rc in outs:
        res = common.absorb(v, res, out, rc, "replay")
        nrep += res["behaviours"]
        steps += res["steps"]
        distinct = max(distinct, res.get("distinct", 0))
        for k, n in res.get("counters", {}).items():
            if k.startswith("note:"):
                notes[k[5:]] = notes.get(k[5:], 0) + n
    v.coverage.update(states=states, transitions=transitions, traces_validated_against_impl=nrep, replayed_steps=steps,
                      distinct_quiescent_observations=distinct, tlc_runs=runs)
    if notes:
        v.coverage["response_direction_notes"] = notes
    v.assumptions += ["net/http's parsing and serialisation is trusted for message framing (Content-Length, Transfer-Encoding, Trailer, chunk boundaries)",
                      "the scripted origin reads everything it is sent and answers requests in order",
                      "schedules: the environment acts when the proxy's goroutines are blocked (synctest.Wait); the free interleaving of "
                      "environment and proxy steps is covered on the design only",
                      "every client message arrives complete (no connection loss in the middle of a message)"]
    return v.finish()
