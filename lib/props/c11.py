"""C11 - relayed UDP datagrams reach the named destination; replies return to the sender.
Spec: specs/Relay/UdpRelay.tla (isolation half: RightDestination, RepliesToOwner, the client packer's resolution cache as
four separate steps, cache ownership per session).  Binding: the interleavings of two concurrent sessions sending to
distinct domain and IP targets are replayed on real NAT relays on loopback (generic and sendmmsg paths) with the verifhook
points inside the packer and the relay as scheduler gates and a scripted DNS server behind net.DefaultResolver; which
target socket received which payload, and which client received which reply from which source, are compared."""
import json
import vlib
from props import common, udprelay


def run(tier, seed, replay):
    v = vlib.Verdict("C11", tier, seed, "model_checking")
    work = vlib.scratch("c11")
    binary = vlib.build_driver("c11", work)
    big = tier == "thorough"
    variants = [{"server": "socks5", "batchMode": "no", "natTimeout": "30s"}, {"server": "socks5", "batchMode": "sendmmsg", "natTimeout": "30s"}]
    if replay:
        doc = json.load(open(replay))
        rp = doc["replay"]["replay"]
        beh = {"steps": [{"a": a} for a in rp["actions"]]}
        res, out, rc = vlib.run_driver(binary, "TestRelay", {"behaviours": [beh], "seed": seed, "params": {"variant": rp["variant"]}}, 300)
        common.absorb(v, res, out, rc, "replay")
        v.coverage.update(states=1, transitions=len(rp["actions"]), traces_validated_against_impl=1)
        v.sample(rp)
        return v.finish()
    # (1) design: two sessions, two domain targets and one IP target, every interleaving of the packer steps
    d, dc = udprelay.model(dict(Sess='{"s1","s2"}', Targets='{"a","b","ip"}', Domains='{"a","b"}', Rejected="{}", MaxSend=2 if big else 1, ChanCap=2,
                                MaxReply=1, MaxTimer=0), props=False, timeout=3000)
    if d.violation:
        raise vlib.Broken("design spec violates %s with per-session packers: the model is wrong\n%s" % (d.violation, d.out[-1500:]))
    v.coverage["states"], v.coverage["transitions"] = d.distinct, d.generated
    v.coverage["design_exhaustive"] = {"distinct": d.distinct, "generated": d.generated, "depth": d.depth,
                                       "constants": {k: dc[k] for k in ("Sess", "Targets", "Domains", "ChanCap", "MaxSend", "MaxReply")}}
    if big:
        nf, _ = udprelay.model(dict(Sess='{"s1","s2"}', Targets='{"a","b"}', Domains='{"a","b"}', Rejected="{}", MaxSend=1, ChanCap=1, MaxReply=0,
                                    SharedPacker="TRUE"), props=False)
        if nf.violation != "RightDestination":
            raise vlib.Broken("sensitivity self-test: with a shared packer RightDestination must fail, got %s" % nf.violation)
        v.coverage["must_fail_configs"] = {"SharedPacker=TRUE": nf.violation}
    # (2) replay graph: two sessions, domain targets a/b, no Stop, no timers (lifecycle is C12's)
    g, _ = udprelay.model(dict(Sess='{"s1","s2"}', Targets='{"a","b"}', Domains='{"a","b"}', Rejected="{}", MaxSend=1, ChanCap=1, MaxReply=1, MaxTimer=0),
                          props=False, edges=True)
    graph = udprelay.urgent_filter(vlib.Graph(g), drop=("StopBegin",))
    prefer = lambda e: e[1]["n"] in ("PackLod", "PackSto", "DlSendBack")
    paths, left = graph.cover(seed=seed, max_len=40, max_paths=None if big else 450, prefer=prefer)
    behs = [graph.behaviour(p) for p in paths]
    # IP target, same-domain sessions (cache hits)
    g2, _ = udprelay.model(dict(Sess='{"s1","s2"}', Targets='{"a","ip"}', Domains='{"a"}', Rejected="{}", MaxSend=2, ChanCap=2, MaxReply=0, MaxTimer=0),
                           props=False, edges=True)
    graph2 = udprelay.urgent_filter(vlib.Graph(g2), drop=("StopBegin",))
    paths2, left2 = graph2.cover(seed=seed, max_len=40, max_paths=(3000 if big else 200), prefer=lambda e: e[1]["n"] == "PackChk")
    # a name whose lookup fails, between lookups that succeed: the failed lookup must not leave the cache pointing elsewhere
    g5, _ = udprelay.model(dict(Sess='{"s1"}', Targets='{"a","nx"}', Domains='{"a","nx"}', Unresolvable='{"nx"}', Rejected="{}", MaxSend=3, ChanCap=3,
                                MaxReply=0, MaxTimer=0), props=False, edges=True)
    graph5 = udprelay.urgent_filter(vlib.Graph(g5), drop=("StopBegin",))
    paths5, left5 = graph5.cover(seed=seed, max_len=40, max_paths=None if big else 200)
    v.coverage["replay_graphs"] = [{"targets": "a,b", "distinct": g.distinct, "edges": len(graph.edges), "paths": len(paths), "uncovered_edges": left},
                                   {"targets": "a,ip (cache hits)", "distinct": g2.distinct, "edges": len(graph2.edges), "paths": len(paths2), "uncovered_edges": left2}]
    n1, s1, d1 = udprelay.replay(v, binary, behs, variants, seed, "isolation replay")
    n2, s2, d2 = udprelay.replay(v, binary, [graph2.behaviour(p) for p in paths2] + [graph5.behaviour(p) for p in paths5], variants[:1], seed,
                                 "isolation replay (cache hits, garbage, failed lookups)")
    # (2c) garbage at every state of one session's life, in particular as the very first datagram of a client address:
    #      small graph, covered completely, on both receive paths
    g7, _ = udprelay.model(dict(Sess='{"s1"}', Targets='{"ip"}', Domains="{}", Rejected="{}", MaxSend=2, ChanCap=2, MaxReply=1, MaxTimer=0, GarbageOn="TRUE"), props=False, edges=True)
    graph7 = udprelay.urgent_filter(vlib.Graph(g7), drop=("StopBegin",))
    paths7, left7 = graph7.cover(seed=seed, max_len=40, prefer=lambda e: e[1]["n"] == "Garbage", tail=12)
    behs7 = [graph7.behaviour(p) for p in paths7]
    v.coverage["garbage_steps_replayed"] = udprelay.must_contain(behs7, "Garbage", lambda a: a["n"] == "Garbage")
    if not any(b["steps"] and b["steps"][0]["a"]["n"] == "Garbage" for b in behs7):
        raise vlib.Broken("vacuous replay: no behaviour starts with Garbage")
    n7, s7, d7 = udprelay.replay(v, binary, behs7, variants[:1], seed, "garbage-first replay")
    # (the batched uplink of the sendmmsg path is replayed with at most one packet queued)
    g7m, _ = udprelay.model(dict(Sess='{"s1"}', Targets='{"ip"}', Domains="{}", Rejected="{}", MaxSend=1, ChanCap=1, MaxReply=1, MaxTimer=0, GarbageOn="TRUE"), props=False, edges=True)
    graph7m = udprelay.urgent_filter(vlib.Graph(g7m), drop=("StopBegin",))
    paths7m, _ = graph7m.cover(seed=seed, max_len=40, prefer=lambda e: e[1]["n"] == "Garbage", tail=12)
    n7m, s7m, d7m = udprelay.replay(v, binary, [graph7m.behaviour(p) for p in paths7m], variants[1:], seed, "garbage-first replay")
    n7, s7, d7 = n7 + n7m, s7 + s7m, max(d7, d7m)
    # garbage of one client while another client's session lives
    g7b, _ = udprelay.model(dict(Sess='{"s1","s2"}', Targets='{"ip"}', Domains="{}", Rejected="{}", MaxSend=1, ChanCap=1, MaxReply=0, MaxTimer=0, GarbageOn="TRUE"), props=False, edges=True)
    graph7b = udprelay.urgent_filter(vlib.Graph(g7b), drop=("StopBegin",))
    paths7b, left7b = graph7b.cover(seed=seed, max_len=40, max_paths=None if big else 60, prefer=lambda e: e[1]["n"] == "Garbage", tail=8)
    n7b, s7b, d7b = udprelay.replay(v, binary, [graph7b.behaviour(p) for p in paths7b], variants, seed, "garbage-first replay")
    v.coverage["replay_graphs"].append({"relay": "two sessions, garbage at every state", "distinct": g7b.distinct, "edges": len(graph7b.edges), "paths": len(paths7b), "uncovered_edges": left7b})
    n7, s7, d7 = n7 + n7b, s7 + s7b, max(d7, d7b)
    v.coverage["replay_graphs"].append({"relay": "one session, garbage at every state", "distinct": g7.distinct, "edges": len(graph7.edges), "paths": len(paths7), "uncovered_edges": left7})
    n2, s2, d2 = n2 + n7, s2 + s7, max(d2, d7)
    # (the real send channel holds at least 64 packets: the graphs keep ChanCap >= MaxSend so that the model never drops)
    # (2d) batched uplink of the recvmmsg/sendmmsg path (UpBatch): several packets for different destinations packed into
    #      one sendmmsg call, followed by further batches; every datagram of every batch must reach the target it names
    g8, _ = udprelay.model(dict(Sess='{"s1"}', Targets='{"ip","ip2"}', Domains="{}", Rejected="{}", MaxSend=3 if not big else 4, ChanCap=3 if not big else 4,
                                MaxReply=0, MaxTimer=0, UpBatch="TRUE"), props=False, edges=True)
    graph8 = udprelay.urgent_filter(vlib.Graph(g8), drop=("StopBegin",))
    paths8, left8 = graph8.cover(seed=seed, max_len=40, max_paths=None if big else 120,
                                 prefer=lambda e: e[1]["n"] == "UpPack" and len(e[1].get("flush") or []) > 1)
    bvars = [{"server": "socks5", "batchMode": "sendmmsg", "natTimeout": "30s"}, {"server": "ss2022", "batchMode": "sendmmsg", "natTimeout": "61s"}]
    behs8 = [graph8.behaviour(p) for p in paths8]
    v.coverage["batches_with_destination_change_replayed"] = udprelay.must_contain(
        behs8, "a batch whose destination changes", lambda a: a["n"] == "UpPack" and len({x["to"] for x in (a.get("flush") or [])}) > 1)
    n8, s8, d8 = udprelay.replay(v, binary, behs8, bvars, seed, "batched uplink replay")
    v.coverage["replay_graphs"].append({"relay": "batched uplink (sendmmsg), two destinations", "distinct": g8.distinct, "edges": len(graph8.edges), "paths": len(paths8), "uncovered_edges": left8})
    n2, s2, d2 = n2 + n8, s2 + s8, max(d2, d8)
    # (3) session-id keyed relay (Shadowsocks 2022 server): the client moves to another address mid-session, forged/replayed
    #     datagrams with the session's id arrive from a foreign address; replies must follow the latest authenticated address
    g3, _ = udprelay.model(dict(Sess='{"s1"}', Targets='{"ip"}', Domains="{}", Rejected="{}", MaxSend=2, ChanCap=2, MaxReply=2, MaxTimer=0, Keyed='"sid"'),
                           props=False, edges=True)
    graph3 = udprelay.urgent_filter(vlib.Graph(g3), drop=("StopBegin",))
    paths3, left3 = graph3.cover(seed=seed, max_len=40, max_paths=None if big else 400, prefer=lambda e: e[1]["n"] in ("Forged", "Move", "DlSendBack"))
    svar = [{"server": "ss2022", "batchMode": "no", "natTimeout": "61s"}]
    n3, s3, d3 = udprelay.replay(v, binary, [graph3.behaviour(p) for p in paths3], svar, seed, "session relay replay")
    g4, _ = udprelay.model(dict(Sess='{"s1","s2"}', Targets='{"ip"}', Domains="{}", Rejected="{}", MaxSend=1, ChanCap=1, MaxReply=1, MaxTimer=0, Keyed='"sid"'),
                           props=False, edges=True)
    graph4 = udprelay.urgent_filter(vlib.Graph(g4), drop=("StopBegin",))
    paths4, left4 = graph4.cover(seed=seed, max_len=40, max_paths=None if big else 200, prefer=lambda e: e[1]["n"] in ("Forged", "Move", "DlSendBack"))
    n4, s4, d4 = udprelay.replay(v, binary, [graph4.behaviour(p) for p in paths4], [{"server": "ss2022", "batchMode": "sendmmsg", "natTimeout": "61s"}], seed,
                                 "session relay replay")
    # (4) replies: several replies in flight, one of them too big for the client's path (dropped by the server packer); the
    #     recvmmsg path reads whatever has arrived as one batch, the generic path one datagram at a time
    for batch, rvars in (("TRUE", [{"server": "socks5", "batchMode": "sendmmsg", "natTimeout": "30s"}, {"server": "ss2022", "batchMode": "sendmmsg", "natTimeout": "61s"}]),
                         ("FALSE", [{"server": "socks5", "batchMode": "no", "natTimeout": "30s"}])):
        g6, _ = udprelay.model(dict(Sess='{"s1"}', Targets='{"ip"}', Domains="{}", Rejected="{}", MaxSend=1, ChanCap=1, MaxReply=3, MaxTimer=0, Batch=batch),
                               props=False, edges=True)
        graph6 = udprelay.urgent_filter(vlib.Graph(g6), drop=("StopBegin",))
        paths6, left6 = graph6.cover(seed=seed, max_len=40, max_paths=None if big else 150)
        n6, s6, d6 = udprelay.replay(v, binary, [graph6.behaviour(p) for p in paths6], rvars, seed, "reply batch replay")
        v.coverage["replay_graphs"].append({"relay": "replies, Batch=" + batch, "distinct": g6.distinct, "edges": len(graph6.edges), "paths": len(paths6), "uncovered_edges": left6})
        n1, s1, d1 = n1 + n6, s1 + s6, max(d1, d6)
    v.coverage["replay_graphs"] += [{"relay": "session (ss2022), move+forged", "distinct": g3.distinct, "edges": len(graph3.edges), "paths": len(paths3), "uncovered_edges": left3},
                                    {"relay": "session (ss2022) sendmmsg, 2 sessions", "distinct": g4.distinct, "edges": len(graph4.edges), "paths": len(paths4), "uncovered_edges": left4}]
    n1, s1, d1 = n1 + n3 + n4, s1 + s3 + s4, max(d1, d3, d4)
    v.coverage["traces_validated_against_impl"] = n1 + n2
    v.coverage["replayed_steps"] = s1 + s2
    v.coverage["distinct_step_classes"] = max(d1, d2)
    v.coverage["exhaustive"] = big and left == 0
    v.assumptions += ["kernel UDP semantics on loopback", "SOCKS5 server (NAT relay) and Shadowsocks 2022 server (session relay) with the direct client, generic and sendmmsg paths; "
                      "other protocol pairs share the relay code and differ only in the packers (C05)", "the resolver answers each name with its own address; resolution order is scripted by the gates"]
    return v.finish()
