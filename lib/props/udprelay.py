"""Shared by C11 and C12: specs/Relay/UdpRelay.tla, urgency-filtered path covers, gated replay on real relays."""
import json, collections
import vlib
from props import common

SPEC = vlib.os.path.join(vlib.VERIF, "specs", "Relay")
# real steps that happen by themselves as soon as they can and whose effect other steps can see: in a replayable
# behaviour they are taken immediately when enabled
URGENT = {"RecvLoopEnd", "DlTimeout", "Cleanup", "UpClosed", "PackRes", "InitFail", "DlRead"}

BASE = dict(Sess='{"s1"}', Targets='{"a","ip","rej"}', Domains='{"a"}', Rejected='{"rej"}', Unresolvable='{}', ChanCap=2, MaxSend=2, MaxReply=1, MaxTimer=0,
            SharedPacker="FALSE", RearmGuard="TRUE", Keyed='"addr"', Batch="FALSE", GarbageOn="FALSE", UpBatch="FALSE", MaxFault=0, EMIT="", PROPS="")


def model(consts, props=True, edges=False, timeout=1800, workers=16):
    c = dict(BASE)
    c.update(consts)
    c["PROPS"] = "PROPERTIES StopTerminates IdleEvicts" if props else ""
    c["EMIT"] = "ACTION_CONSTRAINT Emit" if edges else ""
    return vlib.tlc(SPEC, "MCUdpRelay", "MCUdpRelay.cfg", c, workers=workers, timeout=timeout, edges=edges), c


def urgent_filter(graph, drop=(), also=None):
    """Keep, in every state with an urgent action enabled, only the urgent edges; drop edges named in `drop`.
    `also`: predicate on an action that makes it urgent in this graph (e.g. the outcome of a session's initialisation
    when the client's NewSession depends on the live context: it is decided right after the packet arrived)."""
    succ = collections.defaultdict(list)
    for n, eis in graph.succ.items():
        eis = [ei for ei in eis if graph.edges[ei][1]["n"] not in drop]
        # (a socket fault is injected by the harness, so InitFail at "socket" is a choice, not something that happens by itself)
        urg = [ei for ei in eis if (graph.edges[ei][1]["n"] in URGENT and graph.edges[ei][1].get("at") != "socket") or (also and also(graph.edges[ei][1]))]
        succ[n] = urg if urg else eis
    graph.succ = succ
    return graph


def must_contain(behs, what, pred):
    """Vacuity guard: the behaviours handed to the driver must contain the action a graph was built for."""
    n = sum(1 for b in behs for st in b["steps"] if pred(st["a"]))
    if n == 0:
        raise vlib.Broken("vacuous replay: no behaviour contains %s (has the action dropped out of the specification's Next?)" % what)
    return n


def replay(v, binary, behs, variants, seed, what, timeout=1500, procs=16):
    total, steps, distinct = 0, 0, 0
    for var in variants:
        outs = common.run_parallel(binary, "TestRelay", [{"behaviours": c, "seed": seed + i, "params": {"variant": var}}
                                                          for i, c in enumerate(common.chunks(behs, procs))], timeout)
        for res, out, rc in outs:
            if res is None and ("panic:" in out or "fatal error:" in out):
                v.violation("relay/panic", "the relay process crashed during the replay (%s): %s" % (var, out[-1200:][:500]), {"variant": var, "output": out[-3000:]})
                continue
            res = common.absorb(v, res, out, rc, "%s (%s/%s)" % (what, var["server"], var["batchMode"]))
            total += res["behaviours"]
            steps += res["steps"]
            distinct = max(distinct, res.get("distinct", 0))
    return total, steps, distinct
