"""C12 - UDP sessions end cleanly: idle eviction, restart after eviction, prompt shutdown.
Spec: specs/Relay/UdpRelay.tla (lifecycle half).  TLC checks NoSendOnClosed/NoLeak/SocketReleased and, under weak fairness
of the goroutine steps with NAT timers disabled once Stop has begun, StopTerminates (and IdleEvicts).  Binding: the state
graph (urgent steps taken immediately) is replayed on real NAT relays on loopback, generic and recvmmsg/sendmmsg paths,
with the verifhook points as scheduler gates; Stop latency, goroutine and socket accounting are checked on the real process.
System level: specs/System/Manager.tla (Manager.Run start/fail/stop order) run on the real service manager (props/manager.py)."""
import json
import vlib
from props import common, udprelay, manager


def run(tier, seed, replay):
    v = vlib.Verdict("C12", tier, seed, "model_checking")
    work = vlib.scratch("c12")
    binary = vlib.build_driver("c11", work)
    big = tier == "thorough"
    variants = [{"server": "socks5", "batchMode": "no", "natTimeout": "30s"}, {"server": "socks5", "batchMode": "sendmmsg", "natTimeout": "30s"}]
    if replay:
        doc = json.load(open(replay))
        rp = doc["replay"]["replay"]
        beh = {"steps": [{"a": a} for a in rp["actions"]]}
        res, out, rc = vlib.run_driver(binary, "TestRelay", {"behaviours": [beh], "seed": seed, "params": {"variant": rp["variant"]}}, 300)
        common.absorb(v, res, out, rc, "replay")
        v.coverage.update(states=1, transitions=len(rp["actions"]), traces_validated_against_impl=1)
        v.sample(rp)
        return v.finish()

    # (1) design: two sessions, timers, init failures, every interleaving with the five Stop steps; liveness under fairness
    d, dc = udprelay.model(dict(Sess='{"s1","s2"}', Targets='{"ip","rej"}', Domains="{}", MaxSend=1 if not big else 2, ChanCap=1, MaxReply=1,
                                MaxTimer=1 if not big else 2), props=True, timeout=3000)
    d1, _ = udprelay.model(dict(Sess='{"s1"}', Targets='{"a","ip","rej"}', Domains='{"a"}', MaxSend=2, ChanCap=2, MaxReply=1, MaxTimer=1), props=True, timeout=3000)
    if d1.violation:
        raise vlib.Broken("design spec (one session) violates %s\n%s" % (d1.violation, d1.out[-1500:]))
    if d.violation:
        raise vlib.Broken("design spec violates %s with the repaired structure (RearmGuard): the model is wrong\n%s" % (d.violation, d.out[-1500:]))
    v.coverage["states"], v.coverage["transitions"] = d.distinct, d.generated
    v.coverage["design_exhaustive"] = {"distinct": d.distinct, "generated": d.generated, "depth": d.depth, "liveness": ["StopTerminates", "IdleEvicts"],
                                       "constants": {k: dc[k] for k in ("Sess", "Targets", "ChanCap", "MaxSend", "MaxReply", "MaxTimer")}}
    if big:
        nf, _ = udprelay.model(dict(Sess='{"s1"}', Targets='{"ip"}', Domains="{}", RearmGuard="FALSE"), props=True)
        if nf.violation != "StopTerminates":
            raise vlib.Broken("sensitivity self-test: without the re-arm guard StopTerminates must fail, got %s" % nf.violation)
        v.coverage["must_fail_configs"] = {"RearmGuard=FALSE": nf.violation}

    # (2) lifecycle graph of one session (domain and IP targets, rejected route, replies, Stop anywhere), no timers: full cover
    g, gc = udprelay.model(dict(Sess='{"s1"}', Targets='{"a","ip","rej"}', Domains='{"a"}', MaxSend=2, ChanCap=2, MaxReply=1, MaxTimer=0), props=False, edges=True)
    graph = udprelay.urgent_filter(vlib.Graph(g))
    paths, left = graph.cover(seed=seed, max_len=40, max_paths=None if big else 700)
    behs = [graph.behaviour(p) for p in paths]
    # two sessions racing Stop
    g2, _ = udprelay.model(dict(Sess='{"s1","s2"}', Targets='{"ip"}', Domains="{}", MaxSend=1, ChanCap=1, MaxReply=1, MaxTimer=0), props=False, edges=True)
    graph2 = udprelay.urgent_filter(vlib.Graph(g2))
    paths2, left2 = graph2.cover(seed=seed, max_len=40, max_paths=None if big else 500)
    behs += [graph2.behaviour(p) for p in paths2]
    v.coverage["replay_graphs"] = [{"sessions": 1, "distinct": g.distinct, "edges": len(graph.edges), "paths": len(paths), "uncovered_edges": left},
                                   {"sessions": 2, "distinct": g2.distinct, "edges": len(graph2.edges), "paths": len(paths2), "uncovered_edges": left2}]
    n1, s1, d1 = udprelay.replay(v, binary, behs, variants[:1], seed, "lifecycle replay")
    # recvmmsg/sendmmsg path: the uplink packs every queued packet before one batched send, which the per-packet model does not
    # describe; it is replayed on the behaviours in which at most one packet is queued per session at a time
    gm, _ = udprelay.model(dict(Sess='{"s1"}', Targets='{"a","ip","rej"}', Domains='{"a"}', MaxSend=1, ChanCap=1, MaxReply=1, MaxTimer=0), props=False, edges=True)
    graphm = udprelay.urgent_filter(vlib.Graph(gm))
    pathsm, leftm = graphm.cover(seed=seed, max_len=40)
    behsm = [graphm.behaviour(p) for p in pathsm] + [graph2.behaviour(p) for p in paths2]
    nm, sm, dm = udprelay.replay(v, binary, behsm, variants[1:], seed, "lifecycle replay")
    # the batched uplink itself (UpBatch: every queued packet packed, one sendmmsg) with Stop at any point of a batch
    gb, _ = udprelay.model(dict(Sess='{"s1"}', Targets='{"ip","rej"}', Domains="{}", MaxSend=2 if not big else 3, ChanCap=2 if not big else 3, MaxReply=1, MaxTimer=0, UpBatch="TRUE"),
                           props=False, edges=True)
    graphb = udprelay.urgent_filter(vlib.Graph(gb))
    pathsb, leftb = graphb.cover(seed=seed, max_len=40, max_paths=None if big else 150, prefer=lambda e: e[1]["n"] == "UpPack")
    behsb = [graphb.behaviour(p) for p in pathsb]
    udprelay.must_contain(behsb, "a batch of several packets", lambda a: a["n"] == "UpPack" and len(a.get("flush") or []) > 1)
    nb, sb, db = udprelay.replay(v, binary, behsb, variants[1:], seed, "batched uplink lifecycle replay")
    v.coverage["replay_graphs"].append({"relay": "batched uplink (sendmmsg) with Stop", "distinct": gb.distinct, "edges": len(graphb.edges), "paths": len(pathsb), "uncovered_edges": leftb})
    nm, sm, dm = nm + nb, sm + sb, max(dm, db)
    n1, s1, d1 = n1 + nm, s1 + sm, max(d1, dm)
    # (2a') a client whose session owns something (SOCKS5 client: the TCP control connection of its UDP association, towards a
    #       harness SOCKS5 server), and the session's own socket failing after that client session exists (descriptor
    #       limit as the fault): whatever the lifecycle does, the client session must be closed in the end
    nf_, sf_, df_ = 0, 0, 0
    for upb, fvars in (("FALSE", [{"server": "socks5", "batchMode": "no", "natTimeout": "30s", "client": "socks5"}, {"server": "ss2022", "batchMode": "no", "natTimeout": "61s", "client": "socks5"}]),
                       ("TRUE", [{"server": "socks5", "batchMode": "sendmmsg", "natTimeout": "30s", "client": "socks5"}])):
        gf, _ = udprelay.model(dict(Sess='{"s1"}', Targets='{"ip","rej"}', Domains="{}", MaxSend=2, ChanCap=2, MaxReply=0, MaxTimer=0, MaxFault=1 if not big else 2, UpBatch=upb),
                               props=False, edges=True)
        # (the SOCKS5 client dials with the manager's context: the initialisation's outcome is taken right after the packet,
        #  before Stop can cancel that context under it)
        graphf = udprelay.urgent_filter(vlib.Graph(gf), also=lambda a: a["n"] in ("InitOk", "InitFail"))
        pathsf, leftf = graphf.cover(seed=seed, max_len=40, max_paths=None if big else 80, prefer=lambda e: e[1].get("at") == "socket" or e[1].get("out") == "aborted")
        behsf = [graphf.behaviour(p) for p in pathsf]
        udprelay.must_contain(behsf, "a socket fault (InitFail at socket)", lambda a: a["n"] == "InitFail" and a.get("at") == "socket")
        udprelay.must_contain(behsf, "an aborted Swap", lambda a: a["n"] == "Swap" and a.get("out") == "aborted")
        a_, b_, c_ = udprelay.replay(v, binary, behsf, fvars, seed, "client-session lifecycle replay")
        nf_, sf_, df_ = nf_ + a_, sf_ + b_, max(df_, c_)
        v.coverage["replay_graphs"].append({"relay": "SOCKS5 client session, socket faults, UpBatch=" + upb, "distinct": gf.distinct, "edges": len(graphf.edges), "paths": len(pathsf), "uncovered_edges": leftf})
    n1, s1, d1 = n1 + nf_, s1 + sf_, max(d1, df_)
    # (2b) session relay (Shadowsocks 2022 server; minimum NAT timeout 61 s): lifecycle and Stop
    gs, _ = udprelay.model(dict(Sess='{"s1"}', Targets='{"ip","rej"}', Domains="{}", MaxSend=1, ChanCap=1, MaxReply=1, MaxTimer=0, Keyed='"sid"'), props=False, edges=True)
    graphs = udprelay.urgent_filter(vlib.Graph(gs), drop=("Move", "Forged"))
    pathss, lefts = graphs.cover(seed=seed, max_len=40, max_paths=None if big else 250)
    svars = [{"server": "ss2022", "batchMode": "no", "natTimeout": "61s"}, {"server": "ss2022", "batchMode": "sendmmsg", "natTimeout": "61s"}]
    ns, ss_, ds = udprelay.replay(v, binary, [graphs.behaviour(p) for p in pathss], svars, seed, "session relay lifecycle replay")
    v.coverage["replay_graphs"].append({"relay": "session (ss2022)", "distinct": gs.distinct, "edges": len(graphs.edges), "paths": len(pathss), "uncovered_edges": lefts})
    n1, s1, d1 = n1 + ns, s1 + ss_, max(d1, ds)
    # (3) timers: eviction after the NAT timeout and a fresh session afterwards (real time, short timeout)
    g3, _ = udprelay.model(dict(Sess='{"s1"}', Targets='{"ip"}', Domains="{}", MaxSend=3, ChanCap=3, MaxReply=1, MaxTimer=2), props=False, edges=True)
    graph3 = udprelay.urgent_filter(vlib.Graph(g3))
    paths3, _ = graph3.cover(seed=seed, max_len=40, prefer=lambda e: e[1]["n"] == "TimerFire")
    withtimer = [p for p in paths3 if any(graph3.edges[i][1]["n"] == "TimerFire" for i in p)]
    withtimer = withtimer[:48 if not big else 400]
    tvars = [{"server": "socks5", "batchMode": "no", "natTimeout": "2s"}]
    n3, s3, d3 = udprelay.replay(v, binary, [graph3.behaviour(p) for p in withtimer], tvars, seed, "eviction replay", procs=16)
    g4, _ = udprelay.model(dict(Sess='{"s1"}', Targets='{"ip"}', Domains="{}", MaxSend=1, ChanCap=1, MaxReply=1, MaxTimer=1), props=False, edges=True)
    graph4 = udprelay.urgent_filter(vlib.Graph(g4))
    paths4, _ = graph4.cover(seed=seed, max_len=40)
    wt4 = [p for p in paths4 if any(graph4.edges[i][1]["n"] == "TimerFire" for i in p)][:16 if not big else 200]
    n4, s4, d4 = udprelay.replay(v, binary, [graph4.behaviour(p) for p in wt4], [{"server": "socks5", "batchMode": "sendmmsg", "natTimeout": "2s"}], seed, "eviction replay")
    n3, s3, d3 = n3 + n4, s3 + s4, max(d3, d4)
    # (4) churn: sessions expiring and restarting under continuous traffic, hook points inside the receive loop's critical
    #     section and after cleanup sleeping at random (real scheduling); a crash of the relay process is a violation
    churn_in = [{"seed": seed * 100 + i, "params": {"variant": {"server": "socks5", "batchMode": bm, "natTimeout": "40ms"}, "seconds": 4 if not big else 20}}
                for i, bm in enumerate(["no", "sendmmsg", "no", "sendmmsg"] * (1 if not big else 3))]
    nch = 0
    for res, out, rc in common.run_parallel(binary, "TestChurn", churn_in, 900):
        if res is None:
            if "panic:" in out or "fatal error:" in out:
                m = vlib.re.search(r"(panic: [^\n]*|fatal error: [^\n]*)", out)
                v.violation("relay.lifecycle/panic", "the relay process crashed while sessions expired and restarted under traffic: " + (m.group(1) if m else ""),
                            {"output": out[-3000:]})
                continue
            raise vlib.Broken("churn driver wrote no result (rc=%s):\n%s" % (rc, out[-2000:]))
        res = common.absorb(v, res, out, rc, "session churn")
        nch += res["counters"].get("churn_sessions", 0)
    v.coverage["churn_sessions"] = nch
    # (5) system level: the manager's run loop around the relays (specs/System/Manager.tla), every failing listener or none
    nmg, smg = manager.lifecycle(v, work, seed, big)
    n1, s1 = n1 + nmg, s1 + smg
    v.coverage["traces_validated_against_impl"] = n1 + n3
    v.coverage["replayed_steps"] = s1 + s3
    v.coverage["eviction_behaviours"] = n3
    v.coverage["distinct_step_classes"] = max(d1, d3)
    v.coverage["exhaustive"] = big and left == 0 and left2 == 0
    v.assumptions += ["kernel UDP semantics on loopback", "NAT relays (socks5 server) and session relays (Shadowsocks 2022 server) with the direct client, generic and sendmmsg paths; eviction by timeout is replayed on NAT relays only (the session relay's minimum NAT timeout is 61 s)",
                      "Stop is 'prompt' when it returns within min(natTimeout/3, 8 s)", "the re-arm guard of the spec is bound to the code by the gated replays"]
    return v.finish()
