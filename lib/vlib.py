"""Common machinery for /verif checks: TLC runs, state-graph extraction, path covers,
Go driver builds, evidence, known findings.  Pure standard library."""
import json, os, re, shutil, subprocess, sys, tempfile, time, random, hashlib, atexit, collections

VERIF = os.path.dirname(os.path.dirname(os.path.abspath(__file__)))
REPO = os.environ.get("VERIF_REPO", "/repo")
HARNESS = os.path.join(VERIF, "harness")
TLA_JAR = "/opt/veriftools/tla/tla2tools.jar:/opt/veriftools/tla/CommunityModules-deps.jar"

EXIT_OK, EXIT_VIOLATION, EXIT_BROKEN = 0, 1, 2


class Broken(Exception):
    """The machinery could not do its job (build failure, timeout, unreproduced counterexample).
    Never reported as a violation: exit 2."""


_scratch = []


def scratch(prefix="vf"):
    base = os.environ.get("VERIF_SCRATCH") or tempfile.gettempdir()
    d = tempfile.mkdtemp(prefix=prefix + "-", dir=base)
    _scratch.append(d)
    return d


def _cleanup():
    if os.environ.get("VERIF_KEEP"):
        return
    for d in _scratch:
        shutil.rmtree(d, ignore_errors=True)


atexit.register(_cleanup)


def sweep_stale(max_age_s=6 * 3600):
    """Remove scratch directories that a killed earlier run left behind (older than max_age_s)."""
    base = os.environ.get("VERIF_SCRATCH") or tempfile.gettempdir()
    now = time.time()
    try:
        names = os.listdir(base)
    except OSError:
        return
    for n in names:
        if not re.match(r"(tlc|vf|harness|c\d\d\w*|t\d+|setup)-[A-Za-z0-9_]{6,}$", n):
            continue
        p = os.path.join(base, n)
        try:
            if os.path.isdir(p) and now - os.path.getmtime(p) > max_age_s:
                shutil.rmtree(p, ignore_errors=True)
        except OSError:
            pass


def goenv():
    e = dict(os.environ)
    # the repository needs go1.26.0, reachable only through GOTOOLCHAIN=auto (the default);
    # GOTOOLCHAIN=local / GOSUMDB=off break the switch, so they are cleared.
    for k in ("GOTOOLCHAIN", "GOSUMDB"):
        e.pop(k, None)
    e["GOFLAGS"] = "-mod=mod"
    e["GOPROXY"] = "off"
    e.setdefault("GOCACHE", os.path.join(os.path.expanduser("~"), ".cache", "go-build"))
    return e


def log(*a):
    print(*a, file=sys.stderr, flush=True)


# ---------------------------------------------------------------- Go side

_harness_copy = None


def harness_dir():
    """The harness module; when VERIF_REPO points at a scratch copy of the repository (mutation
    experiments), a scratch copy of the harness whose replace directive points there."""
    global _harness_copy
    if REPO == "/repo":
        return HARNESS
    if _harness_copy is None:
        d = os.path.join(scratch("harness"), "harness")
        shutil.copytree(HARNESS, d)
        gm = open(os.path.join(d, "go.mod")).read().replace("=> /repo", "=> " + REPO)
        open(os.path.join(d, "go.mod"), "w").write(gm)
        _harness_copy = d
    return _harness_copy


def sync_gosum():
    src = os.path.join(REPO, "go.sum")
    dst = os.path.join(harness_dir(), "go.sum")
    try:
        a = open(src).read()
        b = open(dst).read() if os.path.exists(dst) else ""
        have = set(b.splitlines())
        add = [l for l in a.splitlines() if l not in have]
        if add:
            with open(dst, "a") as f:
                f.write("\n".join(add) + "\n")
    except OSError:
        pass


def build_driver(pkg, outdir, tags="verif", race=False):
    """Build the test binary of harness package ./drivers/<pkg> against /repo's working tree."""
    sync_gosum()
    out = os.path.join(outdir, pkg.replace("/", "_") + ".test")
    cmd = ["go", "test", "-c", "-vet=off", "-tags", tags, "-o", out]
    if race:
        cmd.append("-race")
    cmd.append("./drivers/" + pkg)
    t0 = time.time()
    p = subprocess.run(cmd, cwd=harness_dir(), env=goenv(), stdout=subprocess.PIPE, stderr=subprocess.STDOUT, text=True)
    if p.returncode != 0 or not os.path.exists(out):
        raise Broken("building driver %s failed:\n%s" % (pkg, p.stdout[-4000:]))
    log("[build] %s in %.1fs" % (pkg, time.time() - t0))
    return out


def build_cmd(pkg, outdir, tags="verif"):
    sync_gosum()
    out = os.path.join(outdir, pkg.replace("/", "_"))
    p = subprocess.run(["go", "build", "-tags", tags, "-o", out, "./cmd/" + pkg], cwd=harness_dir(), env=goenv(),
                       stdout=subprocess.PIPE, stderr=subprocess.STDOUT, text=True)
    if p.returncode != 0:
        raise Broken("building cmd %s failed:\n%s" % (pkg, p.stdout[-4000:]))
    return out


def run_driver(binary, test, inp, timeout, env_extra=None, extra_args=()):
    """Run one test function of a driver binary.  `inp` (a JSON-able object) goes to VERIF_IN,
    the driver writes its result object to VERIF_OUT.  Returns (result, stdout)."""
    d = os.path.dirname(binary)
    tag = hashlib.sha1((test + repr(time.time()) + repr(random.random())).encode()).hexdigest()[:8]
    fin = os.path.join(d, "in-%s.json" % tag)
    fout = os.path.join(d, "out-%s.json" % tag)
    with open(fin, "w") as f:
        json.dump(inp, f)
    env = goenv()
    env["VERIF_IN"], env["VERIF_OUT"] = fin, fout
    if env_extra:
        env.update(env_extra)
    cmd = [binary, "-test.run", "^" + test + "$", "-test.count=1", "-test.timeout", "%ds" % int(timeout + 30)] + list(extra_args)
    try:
        p = subprocess.run(cmd, cwd=d, env=env, stdout=subprocess.PIPE, stderr=subprocess.STDOUT, text=True,
                           timeout=timeout + 60, errors="replace")
    except subprocess.TimeoutExpired as ex:
        raise Broken("driver %s %s timed out after %ss" % (os.path.basename(binary), test, timeout))
    res = None
    if os.path.exists(fout):
        try:
            res = json.load(open(fout))
        except ValueError:
            res = None
    os.unlink(fin)
    if os.path.exists(fout):
        os.unlink(fout)
    return res, p.stdout, p.returncode


# ---------------------------------------------------------------- TLC side

class TLCResult:
    def __init__(self):
        self.generated = 0
        self.distinct = 0
        self.depth = 0
        self.edges = []        # list of dicts {f,a,t,o}
        self.inits = []
        self.violation = None  # name of violated invariant/property
        self.trace = None      # list of states (dicts) for the counterexample
        self.out = ""
        self.wall = 0.0
        self.coverage = {}


def render_cfg(template_path, out_path, consts):
    s = open(template_path).read()
    for k, v in consts.items():
        s = s.replace("${%s}" % k, str(v))
    left = re.findall(r"\$\{(\w+)\}", s)
    if left:
        raise Broken("cfg %s: unresolved constants %s" % (template_path, left))
    open(out_path, "w").write(s)


def tlc(spec_dir, module, cfg, consts=None, workers=8, timeout=600, edges=True, simulate=None, depth=None,
        seed=None, extra=(), heap="8g", keep_out=False, dump_trace=True, edge_limit=None, jvm=(), extra_files=(), compact=False):
    """Run TLC on spec_dir/module.tla with spec_dir/cfg(.in) in a scratch copy.  Lines printed by the
    spec as "EDGE {json}" / "INIT {json}" are collected (the labelled state graph)."""
    work = scratch("tlc")
    try:
        workers = min(int(workers), int(os.environ.get("VERIF_MAX_WORKERS", "16")))
    except ValueError:
        pass
    if os.environ.get("VERIF_MAX_HEAP"):
        heap = os.environ["VERIF_MAX_HEAP"]
    for fn in os.listdir(spec_dir):
        if fn.endswith(".tla"):
            src = open(os.path.join(spec_dir, fn)).read()
            if "${" in src:
                for k, v in (consts or {}).items():
                    src = src.replace("${%s}" % k, str(v))
            open(os.path.join(work, fn), "w").write(src)
    for fpath in extra_files:
        shutil.copy(fpath, work)
    cfg_src = os.path.join(spec_dir, cfg)
    cfg_dst = os.path.join(work, module + ".cfg")
    render_cfg(cfg_src, cfg_dst, consts or {})
    tracefile = os.path.join(work, "cex.json")
    jtmp = os.path.join(work, "jtmp")     # TLC unpacks its standard modules into java.io.tmpdir and leaves them there
    os.makedirs(jtmp, exist_ok=True)
    cmd = ["java", "-XX:+UseParallelGC", "-Xmx" + heap, "-Xss64m", "-Djava.io.tmpdir=" + jtmp] + list(jvm) + ["-cp", TLA_JAR, "tlc2.TLC",
           "-workers", str(workers), "-metadir", os.path.join(work, "md"), "-config", cfg_dst, "-noGenerateSpecTE"]
    if dump_trace:
        cmd += ["-dumpTrace", "json", tracefile]
    if simulate:
        cmd += ["-simulate", simulate]
        if depth:
            cmd += ["-depth", str(depth)]
        if seed is not None:
            cmd += ["-seed", str(seed)]
    cmd += list(extra)
    cmd.append(module + ".tla")
    r = TLCResult()
    t0 = time.time()
    outpath = os.path.join(work, "tlc.out")
    with open(outpath, "w") as fo:
        try:
            p = subprocess.run(cmd, cwd=work, stdout=fo, stderr=subprocess.STDOUT, timeout=timeout)
            rc = p.returncode
        except subprocess.TimeoutExpired:
            rc = -9
    r.wall = time.time() - t0
    keep = []
    flagged = []
    nedges = 0
    with open(outpath, errors="replace") as f:
        for line in f:
            if line.startswith('"EDGE '):
                nedges += 1
                if edges and (edge_limit is None or len(r.edges) < edge_limit):
                    e = json.loads(json.loads(line)[5:])
                    if compact:
                        # large graphs: keep the two states as interned canonical strings (what Graph keys them by), not as objects
                        e["f"], e["t"] = sys.intern(key(e["f"])), sys.intern(key(e["t"]))
                    r.edges.append(e)
            elif line.startswith('"INIT '):
                if edges:
                    r.inits.append(json.loads(json.loads(line)[5:]))
            else:
                keep.append(line)
                if ("is violated" in line or "was violated" in line or "were violated" in line or "Deadlock reached" in line
                        or ("Postcondition" in line and "is false" in line) or line.startswith('<<"TRACE-HW"')) and len(flagged) < 20:
                    flagged.append(line)
    r.nedges = nedges
    r.out = "".join(flagged) + ("".join(keep[-400:]) if not keep_out else "".join(keep))
    if rc == -9:
        raise Broken("TLC timed out after %ss on %s/%s" % (timeout, module, cfg))
    m = re.search(r"(\d+) states generated, (\d+) distinct states found", r.out)
    if m:
        r.generated, r.distinct = int(m.group(1)), int(m.group(2))
    m = re.search(r"depth of the complete state graph search is (\d+)", r.out)
    if m:
        r.depth = int(m.group(1))
    m = re.search(r"Invariant (\S+) is violated", r.out)
    if m:
        r.violation = m.group(1)
    m2 = (re.search(r"Action property (\S+) is violated", r.out) or re.search(r"Temporal property (\S+) was violated", r.out)
          or re.search(r"Temporal properties were violated", r.out))
    if m2 and not r.violation:
        r.violation = m2.group(1) if m2.lastindex else "temporal"
    mp = re.search(r"Postcondition (\S+) .*is false", r.out)
    if mp and not r.violation:
        r.violation = mp.group(1)
    if "Deadlock reached" in r.out and not r.violation:
        r.violation = "Deadlock"
    if r.violation and os.path.exists(tracefile):
        try:
            r.trace = json.load(open(tracefile))
        except ValueError:
            r.trace = None
    if rc != 0 and not r.violation:
        raise Broken("TLC failed (rc=%s) on %s/%s:\n%s" % (rc, module, cfg, r.out[-3000:]))
    if not r.violation and "Model checking completed" not in r.out and not simulate:
        raise Broken("TLC did not complete on %s/%s:\n%s" % (module, cfg, r.out[-3000:]))
    shutil.rmtree(os.path.join(work, "md"), ignore_errors=True)
    return r


def trace_states(trace):
    """Normalise a -dumpTrace json document to a list of state dicts."""
    out = []
    if isinstance(trace, dict) and "counterexample" in trace:
        trace = trace["counterexample"]
    if isinstance(trace, dict):
        if trace.get("state"):
            trace = trace["state"]
        elif trace.get("action"):
            acts = trace["action"]
            trace = [acts[0][0]] + [a[2] for a in acts]
        else:
            trace = []
    for st in trace:
        if isinstance(st, list) and len(st) == 2 and isinstance(st[1], dict):
            out.append(st[1])
        elif isinstance(st, dict):
            out.append(st)
    return out


# ---------------------------------------------------------------- graph walking

def key(v):
    return json.dumps(v, sort_keys=True, separators=(",", ":"))


class Graph:
    def __init__(self, r):
        self.succ = collections.defaultdict(list)   # node key -> list of (edge index)
        self.edges = []
        seen = set()
        for e in r.edges:
            f = e["f"] if isinstance(e["f"], str) else key(e["f"])
            t = e["t"] if isinstance(e["t"], str) else key(e["t"])
            k = (f, key(e["a"]), t)
            if k in seen:
                continue
            seen.add(k)
            self.succ[f].append(len(self.edges))
            self.edges.append((f, e["a"], t, e.get("o")))
        self.inits = sorted({i["t"] if isinstance(i["t"], str) else key(i["t"]) for i in r.inits})
        self.init_obs = {(i["t"] if isinstance(i["t"], str) else key(i["t"])): i.get("o") for i in r.inits}

    def cover(self, seed=0, max_len=40, max_paths=None, prefer=None, tail=0):
        """Paths (lists of edge indices) from an initial state that together traverse every edge
        (or as many as max_paths allows).  Shortest prefix to an uncovered edge, then greedy extension.
        tail > 0: when the extension runs out of uncovered edges the path goes on for up to `tail` more random
        steps, so that what follows the covered edge is observed too (an action without effect in the model,
        a self-loop, shows its effect on the implementation only in what comes after it)."""
        rnd = random.Random(seed)
        parent = {}
        dq = collections.deque()
        for i in self.inits:
            parent[i] = None
            dq.append(i)
        while dq:
            n = dq.popleft()
            for ei in self.succ.get(n, ()):
                t = self.edges[ei][2]
                if t not in parent:
                    parent[t] = ei
                    dq.append(t)
        uncovered = set(i for n, eis in self.succ.items() if n in parent for i in eis)
        order = sorted(uncovered)
        rnd.shuffle(order)
        if prefer:
            order.sort(key=lambda i: 0 if prefer(self.edges[i]) else 1)
        paths = []
        for ei in order:
            if ei not in uncovered:
                continue
            if max_paths is not None and len(paths) >= max_paths:
                break
            pre = []
            n = self.edges[ei][0]
            while parent[n] is not None:
                pre.append(parent[n])
                n = self.edges[parent[n]][0]
            pre.reverse()
            path = pre + [ei]
            for x in path:
                uncovered.discard(x)
            n = self.edges[ei][2]
            while len(path) < max_len:
                cand = [x for x in self.succ.get(n, ()) if x in uncovered]
                if not cand:
                    break
                x = rnd.choice(cand)
                path.append(x)
                uncovered.discard(x)
                n = self.edges[x][2]
            for _ in range(tail):
                cand = [x for x in self.succ.get(n, ()) if self.edges[x][2] != n] or list(self.succ.get(n, ()))
                if not cand or len(path) >= max_len + tail:
                    break
                x = rnd.choice(cand)
                path.append(x)
                uncovered.discard(x)
                n = self.edges[x][2]
            paths.append(path)
        return paths, len(uncovered)

    def random_walks(self, n, length, seed=0):
        rnd = random.Random(seed)
        paths = []
        for _ in range(n):
            if not self.inits:
                break
            cur = rnd.choice(self.inits)
            p = []
            for _ in range(length):
                s = self.succ.get(cur)
                if not s:
                    break
                ei = rnd.choice(s)
                p.append(ei)
                cur = self.edges[ei][2]
            if p:
                paths.append(p)
        return paths

    def behaviour(self, path):
        """A path as the JSON object the Go drivers consume."""
        init = self.edges[path[0]][0] if path else (self.inits[0] if self.inits else None)
        steps = [{"a": self.edges[i][1], "o": self.edges[i][3]} for i in path]
        return {"init": self.init_obs.get(init), "steps": steps}


def cex_behaviour(trace, act_var="act", obs=None):
    """Counterexample trace -> behaviour (every state after the first contributes its act)."""
    sts = trace_states(trace)
    steps = []
    for st in sts[1:]:
        steps.append({"a": st.get(act_var), "o": obs(st) if obs else None})
    return {"init": None, "steps": steps, "cex": True}


# ---------------------------------------------------------------- findings / evidence / verdict

def load_findings():
    path = os.path.join(VERIF, "KNOWN_FINDINGS.txt")
    found = {}
    if os.path.exists(path):
        for line in open(path):
            line = line.strip()
            m = re.match(r"finding:\s+property=(\S+)\s+key=(\S+)\s+(.*)", line)
            if m:
                found[(m.group(1), m.group(2))] = m.group(3)
    return found


class Verdict:
    def __init__(self, pid, tier, seed, level):
        sweep_stale()
        self.pid, self.tier, self.seed, self.level = pid, tier, seed, level
        self.t0 = time.time()
        self.violations = []   # (key, text, replay object)
        self.known = []
        self.coverage = {"samples": []}
        self.assumptions = []
        self.notes = []
        self.findings = load_findings()
        rdir = os.path.join(VERIF, "evidence", "replays")
        if os.path.isdir(rdir) and "--replay" not in sys.argv:
            for fn in os.listdir(rdir):
                if fn.startswith(pid + "-"):
                    try:
                        os.unlink(os.path.join(rdir, fn))
                    except OSError:
                        pass

    def violation(self, fkey, text, replay=None):
        """Report a property violation observed on the real code.  fkey is the stable key of the
        failing history pattern; listed keys become KNOWN-FINDING lines."""
        if (self.pid, fkey) in self.findings:
            if fkey not in [k for k, _ in self.known]:
                self.known.append((fkey, self.findings[(self.pid, fkey)]))
            return
        self.violations.append((fkey, text, replay))

    def add(self, k, n=1):
        self.coverage[k] = self.coverage.get(k, 0) + n

    def sample(self, s, cap=6):
        if len(self.coverage["samples"]) < cap:
            self.coverage["samples"].append(s)

    def finish(self):
        ev = {
            "property_id": self.pid, "tier": self.tier, "seed": self.seed, "level": self.level,
            "coverage": self.coverage, "assumptions": self.assumptions,
            "wall_s": round(time.time() - self.t0, 2), "violations": len(self.violations),
        }
        if self.notes:
            ev["coverage"]["notes"] = self.notes
        if self.known:
            ev["coverage"]["known_findings_observed"] = [k for k, _ in self.known]
        os.makedirs(os.path.join(VERIF, "evidence"), exist_ok=True)
        with open(os.path.join(VERIF, "evidence", self.pid + ".json"), "w") as f:
            json.dump(ev, f, indent=1, sort_keys=True)
        for k, text in self.known:
            print("KNOWN-FINDING: property=%s key=%s %s" % (self.pid, k, text))
        if self.violations:
            rdir = os.path.join(VERIF, "evidence", "replays")
            os.makedirs(rdir, exist_ok=True)
            seen = collections.Counter()
            for i, (k, text, replay) in enumerate(self.violations):
                seen[k] += 1
                if seen[k] > 3:
                    continue
                path = os.path.join(rdir, "%s-%s-%d.json" % (self.pid, re.sub(r"[^A-Za-z0-9_.-]", "_", k)[:60], i))
                with open(path, "w") as f:
                    json.dump({"property": self.pid, "key": k, "text": text, "replay": replay}, f, indent=1)
                print("VIOLATION property=%s replay=%s" % (self.pid, path))
                print("  key=%s %s" % (k, text))
                if sum(min(c, 3) for c in seen.values()) >= 30:
                    break
            return EXIT_VIOLATION
        print("OK property=%s tier=%s seed=%d wall=%.1fs" % (self.pid, self.tier, self.seed, time.time() - self.t0))
        return EXIT_OK
