#!/opt/veriftools/pyvenv/bin/python
import json,jsonschema,sys,os
m=json.load(open('/verif/MANIFEST.json'))
jsonschema.validate(m,json.load(open('/root/.vp/MANIFEST.schema.json')))
es=json.load(open('/root/.vp/EVIDENCE.schema.json'))
bad=0
for c in m['checks']:
    f=c['evidence_file']
    try:
        jsonschema.validate(json.load(open(f)),es); print('valid',f)
    except Exception as e:
        bad+=1; print('INVALID',f,str(e)[:300])
print('manifest valid; claimed', [c['property_id'] for c in m['checks']])
sys.exit(1 if bad else 0)
