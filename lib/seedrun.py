#!/usr/bin/env python3
"""Apply /verif/seeded/<name>/patch.diff to /repo, run the property's check, undo, record the outcome in meta.json.
usage: seedrun.py <name> [tier]"""
import json, os, subprocess, sys, re
name = sys.argv[1]; tier = sys.argv[2] if len(sys.argv) > 2 else "quick"
d = os.path.join("/verif/seeded", name)
meta = json.load(open(os.path.join(d, "meta.json")))
pid = meta["property"]
st = subprocess.run(["git", "-C", "/repo", "status", "--porcelain"], stdout=subprocess.PIPE, text=True).stdout.strip()
if st:
    sys.exit("/repo not clean: " + st)
subprocess.check_call(["git", "-C", "/repo", "apply", os.path.join(d, "patch.diff")])
try:
    p = subprocess.run(["./check", pid, "--tier", tier], cwd="/verif", stdout=subprocess.PIPE, stderr=subprocess.STDOUT, text=True)
finally:
    subprocess.check_call(["git", "-C", "/repo", "checkout", "--", "."])
    subprocess.call(["git", "-C", "/repo", "clean", "-fdq"])
keys = sorted(set(re.findall(r"key=(\S+)", p.stdout)))
meta.setdefault("check_results", {})[tier] = {"exit": p.returncode, "detected": p.returncode == 1, "keys": keys[:8]}
json.dump(meta, open(os.path.join(d, "meta.json"), "w"), indent=1)
print(name, tier, "exit", p.returncode, keys[:5])
if p.returncode not in (0, 1):
    print(p.stdout[-1500:])
