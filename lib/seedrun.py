#!/usr/bin/env python3
"""Run the property's check against a seeded change and record the outcome in meta.json.
The patch is applied to a scratch copy of /repo (VERIF_REPO), so that /repo itself is never disturbed while other
work is building from it; `--in-place` applies it to /repo's working tree instead and undoes it afterwards.
usage: seedrun.py <name> [tier] [--in-place]"""
import json, os, subprocess, sys, re, shutil, tempfile
args = [a for a in sys.argv[1:] if not a.startswith("--")]
inplace = "--in-place" in sys.argv
name = args[0]; tier = args[1] if len(args) > 1 else "quick"
d = os.path.join("/verif/seeded", name)
meta = json.load(open(os.path.join(d, "meta.json")))
pid = os.environ.get("SEED_PROP") or meta["property"]
env = dict(os.environ)
if inplace:
    st = subprocess.run(["git", "-C", "/repo", "status", "--porcelain"], stdout=subprocess.PIPE, text=True).stdout.strip()
    if st:
        sys.exit("/repo not clean: " + st)
    subprocess.check_call(["git", "-C", "/repo", "apply", os.path.join(d, "patch.diff")])
    scratch = None
else:
    scratch = tempfile.mkdtemp(prefix="seedrepo-")
    os.rmdir(scratch)
    subprocess.check_call(["git", "-C", "/repo", "worktree", "add", "-q", "--detach", scratch, "HEAD"])
    subprocess.check_call(["git", "-C", scratch, "apply", os.path.join(d, "patch.diff")])
    env["VERIF_REPO"] = scratch
try:
    p = subprocess.run(["./check", pid, "--tier", tier], cwd="/verif", stdout=subprocess.PIPE, stderr=subprocess.STDOUT, text=True, env=env)
finally:
    if inplace:
        subprocess.check_call(["git", "-C", "/repo", "checkout", "--", "."])
        subprocess.call(["git", "-C", "/repo", "clean", "-fdq"])
    else:
        subprocess.call(["git", "-C", "/repo", "worktree", "remove", "--force", scratch])
keys = sorted(set(re.findall(r"key=(\S+)", p.stdout)))
meta.setdefault("check_results", {})[tier if pid == meta["property"] else "%s:%s" % (pid, tier)] = {"exit": p.returncode, "detected": p.returncode == 1, "keys": keys[:8], "head": subprocess.run(["git", "-C", "/repo", "rev-parse", "--short", "HEAD"], stdout=subprocess.PIPE, text=True).stdout.strip()}
json.dump(meta, open(os.path.join(d, "meta.json"), "w"), indent=1)
print(name, tier, "exit", p.returncode, keys[:5])
if p.returncode not in (0, 1):
    print(p.stdout[-1500:])
