#!/usr/bin/env python3
"""Regenerates MANIFEST.json from the table below (single source of truth for what is claimed)."""
import json, os, subprocess
V = os.path.dirname(os.path.dirname(os.path.abspath(__file__)))
props = [json.loads(l) for l in open(os.path.join(V, "properties.jsonl"))]

CHECKS = {}
def claim(pid, category, text, note, technique, design_ref, engine):
    CHECKS[pid] = dict(property_id=pid, quick_cmd="./check %s --tier quick" % pid, thorough_cmd="./check %s --tier thorough" % pid,
                       evidence_file="/verif/evidence/%s.json" % pid, replay_cmd_template="./check %s --replay {path}" % pid,
                       engine=engine, level_claimed=dict(category=category, text=text, design_ref=design_ref), level_note=note,
                       technique=technique)

claim("C03", "model_checking",
      "TLC checks FreshOnly/AtMostOnce/FailuresLeaveNothing/PruneSound exhaustively on specs/Replay/TcpReplay.tla with the constants read "
      "from the compiled code (tick grid of 3 instants per second around the 30/60/61 s boundaries, up to 2 concurrent presenters); the "
      "state graph (path cover) and simulated deeper walks are replayed on the real StreamServer.HandleStream inside testing/synctest "
      "with verifhook gates executing the interleavings, and the property is evaluated on what the real server answered.",
      "AEAD/key derivation trusted; bounded constants (<=2-3 requests, <=3-5 clock advances from a boundary alphabet); presenters "
      "interleave only at the TryContains/validate/Add boundaries.",
      "TLA+ spec + TLC exhaustive model checking; gated state-graph replay into the real server under a virtual clock",
      "DESIGN.md 4/C03", "tcpreplay")

NA = {}

def main():
    hooks = subprocess.run(["git", "-C", "/repo", "log", "--format=%h %s", "--grep=^verif:"], stdout=subprocess.PIPE, text=True).stdout.split("\n")
    m = {
        "version": 1,
        "setup_cmd": "python3 lib/setup.py",
        "hooks": {
            "guard": "verif",
            "enable": "go test -tags verif (the harness module under /verif/harness replaces the shadowsocks-go module with /repo)",
            "baseline_off_cmd": "cd /repo && env -u GOTOOLCHAIN -u GOSUMDB GOFLAGS=-mod=mod GOPROXY=off go test -vet=off -count=1 -timeout 25m ./...",
            "source_commits": [h.split()[0] for h in hooks if h.strip()],
            "add_only": True,
        },
        "engines": [],
        "checks": [CHECKS[p["id"]] for p in props if p["id"] in CHECKS],
        "notes": "One entry point: ./check <id> --tier quick|thorough. Every check runs TLC on the family's TLA+ spec with constants read "
                 "from the compiled code, replays TLC behaviours into the real code (and/or validates recorded traces), and evaluates the "
                 "property on the real behaviour. Exit 2 = machinery broken (never a violation). See DESIGN.md.",
        "not_applicable": [{"property_id": p["id"], "reason": NA.get(p["id"], "check not built yet (planned, see DESIGN.md section 4)")}
                           for p in props if p["id"] not in CHECKS],
    }
    eng = {}
    for c in m["checks"]:
        eng.setdefault(c["engine"], []).append(c["property_id"])
    m["engines"] = [{"name": k, "path": "/verif/specs + /verif/harness/drivers", "serves_properties": v,
                     "kind_free_text": "TLA+ spec checked by TLC, bound to the code by replay/trace validation"} for k, v in eng.items()]
    json.dump(m, open(os.path.join(V, "MANIFEST.json"), "w"), indent=1)
    print("claimed:", sorted(CHECKS), "not applicable:", len(m["not_applicable"]))

if __name__ == "__main__":
    main()
